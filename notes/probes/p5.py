import warnings; warnings.filterwarnings("ignore")
import torch, copy, math, time
import torch.nn.functional as F
from torch import nn
import unit_scaling as uu, unit_scaling.functional as U
from unit_scaling.transforms import simulate_fp8, simulate_format, unit_scale, track_scales, compile as uc
from unit_scaling.formats import FPFormat
from unit_scaling.utils import analyse_module
torch.manual_seed(0)
class MLP(nn.Module):
    def __init__(s): super().__init__(); s.l1 = nn.Linear(8,16); s.l2 = nn.Linear(16,8)
    def forward(s, x): return s.l2(F.gelu(s.l1(x))) + x
m = MLP(); x = torch.randn(4,8)
sd0 = {k: v.clone() for k,v in m.state_dict().items()}; y0 = m(x).clone()
print("== C17")
ll = FPFormat(8,23,"nearest")
t0=time.time()
a = simulate_format(unit_scale(m), ll, ll); b = unit_scale(simulate_format(m, ll, ll))
b.load_state_dict(a.state_dict())
ya, yb = a(x), b(x)
print("orders equal:", torch.equal(ya, yb), [bk.__qualname__.split('.')[0] for bk in a.backends], [bk.__qualname__.split('.')[0] for bk in b.backends])
print("orig untouched:", all(torch.equal(sd0[k], v) for k,v in m.state_dict().items()), torch.equal(m(x), y0))
print("repeat call equal:", torch.equal(a(x), ya), "time", time.time()-t0)
u = unit_scale(m); u.load_state_dict(a.state_dict()); print("lossless == unit_scale only:", torch.equal(u(x), ya))
print("== C18")
t = track_scales(m); xt = x.clone().requires_grad_(); yt = t(xt); yt.sum().backward()
xr = x.clone().requires_grad_(); yr = m(xr); yr.sum().backward()
print("track bit-identical:", torch.equal(yt, yr), torch.equal(xt.grad, xr.grad))
g = t.scales_graph(); print([(n.name, n.meta.get('outputs_float_tensor'), (n.meta['metrics'].bwd is not None) if 'metrics' in n.meta else None) for n in g.nodes])
print("== C20 compile aot_eager bf16")
def f(x, w): return U.linear(x, w, None, constraint=None)
for dt in (torch.float32, torch.bfloat16, torch.float64):
    x = torch.randn(5, 7, dtype=dt, requires_grad=True); w = torch.randn(3, 7, dtype=dt, requires_grad=True); gy = torch.randn(5,3,dtype=dt)
    y = f(x, w); gx, gw = torch.autograd.grad(y, (x, w), gy)
    cf = torch.compile(f, backend="aot_eager"); yc = cf(x, w); gxc, gwc = torch.autograd.grad(yc, (x, w), gy)
    print(dt, torch.equal(y, yc), torch.equal(gx, gxc), torch.equal(gw, gwc), (gw.float()-gwc.float()).abs().max().item())
