import warnings; warnings.filterwarnings("ignore")
import torch, unit_scaling as uu
torch.manual_seed(0)
c=uu.Conv1d(4,6,3,constraint="gmean"); d=uu.Conv1d(4,6,3); d.weight.data.copy_(c.weight.data)
x=torch.randn(2,4,10); print(uu.__file__, "gmean differs from default:", not torch.equal(c(x),d(x)))
