import warnings; warnings.filterwarnings("ignore")
import torch, operator, copy
import torch.nn.functional as F
from torch import nn, fx
import unit_scaling as uu, unit_scaling.functional as U
from unit_scaling.transforms import track_scales, prune_non_float_tensors, prune_same_scale_tensors, prune_selected_nodes

def show(g):
    return [(n.name, n.op, str(n.target)[:30], str(n.args), str(n.kwargs)) for n in g.nodes]

print("== C19 list arg")
class L(nn.Module):
    def forward(s, x):
        a = x.reshape(-1, 4)      # same scale as x
        b = torch.cat([a, a * 2], dim=0)
        return b.sum()
m = track_scales(L()); x = torch.randn(3,4); m(x).backward()
g = m.scales_graph(); 
for r in show(g): print(r)
for fn in (prune_non_float_tensors, prune_same_scale_tensors):
    try: print(fn.__name__, [n.name for n in fn(g).nodes])
    except Exception as e: print(fn.__name__, "ERR", type(e).__name__, str(e)[:200])

print("== C19 kwarg tensor input")
class K(nn.Module):
    def forward(s, x):
        a = torch.neg(input=x)
        return (a*3).sum()
m = track_scales(K()); m(x).backward(); g = m.scales_graph()
for r in show(g): print(r)
for fn in (prune_non_float_tensors, prune_same_scale_tensors):
    try: print(fn.__name__, [n.name for n in fn(g).nodes])
    except Exception as e: print(fn.__name__, "ERR", type(e).__name__, str(e)[:200])

print("== C19 int intermediate")
class I(nn.Module):
    def __init__(s): super().__init__(); s.e = nn.Embedding(10, 4)
    def forward(s, idx):
        j = idx + 1
        return s.e(j).sum()
m = track_scales(I()); m(torch.tensor([1,2,3])).backward(); g = m.scales_graph()
for r in show(g): print(r)
g0 = copy.deepcopy(g)
for fn in (prune_non_float_tensors, prune_same_scale_tensors):
    try: print(fn.__name__, show(fn(g)))
    except Exception as e: print(fn.__name__, "ERR", type(e).__name__, str(e)[:200])
print("input graph unchanged:", show(g)==show(g0))
