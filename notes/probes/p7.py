import warnings; warnings.filterwarnings("ignore")
import torch, numpy as np, random, bisect
from fractions import Fraction as Fr
from unit_scaling.formats import FPFormat
def values(E,M):
    B=2**(E-1); vs=[Fr(0)]
    for j in range(1,2**M): vs.append(Fr(j)*Fr(2)**(1-B-M))
    for e in range(1-B,B):
        for j in range(2**M): vs.append((Fr(2**M+j))*Fr(2)**(e-M))
    return vs
def f32val(bits):
    n=bits&0x7fffffff; s=-1 if bits>>31 else 1
    e=n>>23; m=n&0x7fffff
    v = Fr(m)*Fr(2)**-149 if e==0 else Fr(2**23+m)*Fr(2)**(e-150)
    return s*v
rng=random.Random(1)
bad=0; tot=0
for E in range(2,9):
  for M in (0,1,2,3,7,10,22,23):
    if 2**(E-1)+M>40 and M>10: pass
    vs=values(E,M) if (2**E)*(2**M)<=2**16 else None
    if vs is None: continue
    fmt=FPFormat(E,M,"nearest")
    if M==0 and E>=7:
        try: fmt.quantise(torch.ones(2)); print("no error",E,M)
        except Exception as e: print("F-C13b",E,M,type(e).__name__, e)
        continue
    # inputs: representable, midpoints, +-4ulp neighbours, random
    pts=set()
    fl=[float(v) for v in vs]
    arr=np.array(fl,dtype=np.float32)
    mids=((np.array(fl[:-1])+np.array(fl[1:]))/2).astype(np.float32)
    base=np.concatenate([arr,mids, np.array([fl[-1]*1.0000001, fl[-1]*2, 3e38 if E<8 else 1e37],dtype=np.float32)])
    b=base.view(np.int32)
    allb=np.concatenate([b+d for d in range(-4,5)])
    allb=allb[(allb>=0)&(allb<0x7f800000)]
    rb=np.array([rng.randrange(0,0x7f800000) for _ in range(3000)],dtype=np.int64)
    allb=np.unique(np.concatenate([allb.astype(np.int64),rb]))
    if E==8: allb=allb[allb< (126+127)<<23]
    x=torch.from_numpy(allb.astype(np.int32)).view(torch.float32)
    x=torch.cat([x,-x])
    y=fmt.quantise(x); y2=fmt.quantise(y)
    xb=x.view(torch.int32).tolist(); yb=y.view(torch.int32).tolist()
    mx=vs[-1]
    if not torch.equal(y.view(torch.int32),y2.view(torch.int32)): print("NOT IDEMPOTENT",E,M); bad+=1
    for xi,yi in zip(xb,yb):
        tot+=1
        xv=f32val(xi&0xffffffff); yv=f32val(yi&0xffffffff)
        ax=abs(xv); ay=abs(yv)
        if (xv<0)!=(yv<0) and yv!=0 or ((yi>>31)&1)!=((xi>>31)&1): print("sign",E,M,xv,yv); bad+=1; continue
        i=bisect.bisect_left(vs,ay)
        if i>=len(vs) or vs[i]!=ay: print("not representable",E,M,float(xv),float(yv)); bad+=1; continue
        c=min(ax,mx)
        j=bisect.bisect_right(vs,c)-1; lo=vs[j]; hi=vs[min(j+1,len(vs)-1)]
        if lo==c: hi=lo
        if ay not in (lo,hi): print("not neighbour",E,M,float(xv),float(yv),float(lo),float(hi)); bad+=1; continue
        sp=hi-lo
        if abs(ay-c) > min(c-lo,hi-c)+Fr(2)**(M-23)*sp: print("too far",E,M,float(xv),float(yv)); bad+=1
    # monotone
    xs,idx=torch.sort(x); ys=fmt.quantise(xs)
    if not bool((ys[1:]>=ys[:-1]).all()): print("NOT MONOTONE",E,M); bad+=1
print("checked",tot,"bad",bad)
