import warnings; warnings.filterwarnings("ignore")
import torch, operator, json
import torch.nn.functional as F
from torch import fx, nn
import unit_scaling.functional as U
from unit_scaling.transforms._unit_scale import unit_scaling_backend
from unit_scaling.transforms._track_scales import ScaleTrackingBackend
from unit_scaling.transforms import prune_same_scale_tensors

def canon(t):
    return t if isinstance(t,str) else f"{getattr(t,'__module__','?')}.{getattr(t,'__qualname__',getattr(t,'__name__',repr(t)))}"
def ser(g):
    idx={n:i for i,n in enumerate(g.nodes)}
    def a(x):
        if isinstance(x, fx.Node): return {"ref": idx[x]}
        if isinstance(x,(list,tuple)): return {"seq":[a(y) for y in x], "tuple": isinstance(x,tuple)}
        return {"lit": repr(x)}
    return [dict(op=n.op, target=canon(n.target), args=[a(x) for x in n.args], kwargs={k:a(v) for k,v in n.kwargs.items()}) for n in g.nodes]

g=fx.Graph(); x=g.placeholder("x"); w1=g.placeholder("w1"); w2=g.placeholder("w2")
h=g.call_function(F.linear,(x,w1,None)); a=g.call_function(F.gelu,(h,)); h2=g.call_function(F.linear,(a,w2,None))
r=g.call_function(operator.add,(h2,x)); s=g.call_function(F.softmax,(r,),{"dim":-1}); g.output((s,))
gm=fx.GraphModule(nn.Module(), g)
out=unit_scaling_backend()(gm, [])
for n in ser(out.graph): print(json.dumps(n))
X=torch.randn(4,8,requires_grad=True); W1=torch.randn(16,8); W2=torch.randn(8,16)
print(out(X,W1,W2)[0].shape)
# tracking backend on hand-built graph
tb=ScaleTrackingBackend(); interp=tb(gm2:=fx.GraphModule(nn.Module(), fx.symbolic_trace(lambda x: torch.cat([x.reshape(-1,4), x.reshape(-1,4)*2]).sum()).graph), [])
y=interp(X); y.backward()
print([(n.name, n.meta.get("outputs_float_tensor"), round(n.meta["metrics"].fwd.mean_abs,3) if "metrics" in n.meta else None) for n in tb.graph.nodes])
