import warnings; warnings.filterwarnings("ignore")
import torch, random, math, collections, itertools
import torch.nn.functional as F
import unit_scaling.functional as U
torch.set_default_dtype(torch.float64)
PR=[2,3,5,7,11,13]
issues=collections.OrderedDict()
def note(key, detail):
    if key not in issues: issues[key]=detail
def fit(out, ref):
    d=(ref*ref).sum()
    if d==0: return None
    a=((out*ref).sum()/d).item()
    res=(out-a*ref).abs().max().item(); scale=max(out.abs().max().item(),1e-300)
    return a, res/scale
def run(name, ufn, rfn, make, cfgs, ndiff, exact_one=False, tol=1e-9, seed_sync=False):
    for cfg in cfgs:
        fits=[]
        try:
            for draw in range(2):
                torch.manual_seed(1000+draw)
                tens, extra = make(cfg)
                ti=[t.clone().requires_grad_(i<ndiff) if t.is_floating_point() else t.clone() for i,t in enumerate(tens)]
                tr=[t.clone().requires_grad_(i<ndiff) if t.is_floating_point() else t.clone() for i,t in enumerate(tens)]
                snap=[t.clone() for t in tens]
                if seed_sync: torch.manual_seed(7)
                yo=ufn(ti,extra,cfg)
                if seed_sync: torch.manual_seed(7)
                yr=rfn(tr,extra,cfg)
                if yo.shape!=yr.shape or yo.dtype!=yr.dtype: note(f"{name}:shape/dtype", (cfg, yo.shape, yr.shape)); break
                for t,s in zip(ti,snap):
                    if not torch.equal(t.detach(),s): note(f"{name}:input-mutated", cfg)
                g=torch.randn_like(yo)
                go=torch.autograd.grad(yo, ti[:ndiff], g, allow_unused=True); gr=torch.autograd.grad(yr, tr[:ndiff], g, allow_unused=True)
                f=[fit(yo.detach(), yr.detach())]+[fit(a,b) if a is not None and b is not None else None for a,b in zip(go,gr)]
                fits.append(f)
            else:
                for j,(f1,f2) in enumerate(zip(*fits)):
                    which="fwd" if j==0 else f"grad{j-1}"
                    if f1 is None or f2 is None: continue
                    if f1[1]>tol or f2[1]>tol: note(f"{name}:{which}:not-a-scalar-multiple", (cfg, f1, f2))
                    elif abs(f1[0]-f2[0])>tol*abs(f1[0]): note(f"{name}:{which}:data-dependent", (cfg, f1[0], f2[0]))
                    elif f1[0]<=0: note(f"{name}:{which}:non-positive", (cfg,f1[0]))
                    elif j==0 and exact_one and abs(f1[0]-1)>tol: note(f"{name}:fwd:not-one", (cfg,f1[0]))
        except Exception as e:
            note(f"{name}:exception:{type(e).__name__}", (cfg, str(e)[:120]))
R=random.Random(0)
def bdims(n): return tuple(R.choice(PR) for _ in range(n))
mults=[1/16,0.3,1.0,2.5,16.0]
cons2=[None,"gmean","hmean","amean","to_output_scale","to_grad_input_scale"]
cons3=[None,"gmean","hmean","amean","to_output_scale","to_left_grad_scale","to_right_grad_scale"]
# elementwise
for approx in ("none","tanh"):
    run(f"gelu[{approx}]", lambda t,e,c: U.gelu(t[0],mult=c[1],constraint=c[2],approximate=approx), lambda t,e,c: F.gelu(t[0]*c[1],approximate=approx)/c[1],
        lambda c:([torch.randn(*c[0])],None), [(bdims(n)+(5,),m,k) for n in range(3) for m in mults for k in cons2], 1)
run("silu", lambda t,e,c: U.silu(t[0],mult=c[1],constraint=c[2]), lambda t,e,c: t[0]*torch.sigmoid(t[0]*c[1]),
    lambda c:([torch.randn(*c[0])],None), [(bdims(n)+(5,),m,k) for n in range(3) for m in mults for k in cons2], 1)
run("silu_glu", lambda t,e,c: U.silu_glu(t[0],t[1],mult=c[1]), lambda t,e,c: t[0]*t[1]*torch.sigmoid(t[1]*c[1]),
    lambda c:([torch.randn(*c[0]),torch.randn(*c[0])],None), [(bdims(n)+(5,),m) for n in range(3) for m in mults], 2)
run("softmax", lambda t,e,c: U.softmax(t[0],dim=c[1],mult=c[2],constraint=c[3]), lambda t,e,c: F.softmax(t[0]*c[2],dim=c[1]),
    lambda c:([torch.randn(*c[0])],None), [(s,d,m,k) for s in [(7,),(3,5),(2,3,5),(2,3,5,7)] for d in range(-len(s),len(s)) for m in (0.3,1.0,4.0) for k in (None,"gmean","to_grad_input_scale")], 1)
run("dropout", lambda t,e,c: U.dropout(t[0],p=c[1],training=c[2]), lambda t,e,c: F.dropout(t[0],p=c[1],training=c[2]),
    lambda c:([torch.randn(*c[0])],None), [(bdims(n)+(64,),p,tr) for n in range(3) for p in (0.0,0.1,0.5,0.9) for tr in (True,False)], 1, seed_sync=True)
run("matmul", lambda t,e,c: U.matmul(t[0],t[1],constraint=c[2]), lambda t,e,c: torch.matmul(t[0],t[1]),
    lambda c:([torch.randn(*c[0]),torch.randn(*c[1])],None),
    [(b+(3,5),b2+(5,7),k) for b,b2 in [((),()),((2,),(2,)),((11,2),(11,2)),((2,),()),((),(2,)),((2,1),(1,3))] for k in cons3], 2)
for nm,fn in (("linear",U.linear),("linear_readout",U.linear_readout)):
    run(nm, lambda t,e,c,fn=fn: fn(t[0],t[1],t[2] if c[2] else None,constraint=c[3]), lambda t,e,c: F.linear(t[0],t[1],t[2] if c[2] else None),
        lambda c:([torch.randn(*c[0],5),torch.randn(c[1],5),torch.randn(c[1])],None), [(bdims(n),fo,b,k) for n in range(4) for fo in (1,7) for b in (True,False) for k in cons2], 3)
run("conv1d", lambda t,e,c: U.conv1d(t[0],t[1],t[2] if c["bias"] else None,c["stride"],c["pad"],c["dil"],c["groups"],constraint=c["k"]),
    lambda t,e,c: F.conv1d(t[0],t[1],t[2] if c["bias"] else None,c["stride"],c["pad"],c["dil"],c["groups"]),
    lambda c:([torch.randn(*c["b"],c["groups"]*3,23),torch.randn(c["groups"]*2,3,c["ks"]),torch.randn(c["groups"]*2)],None),
    [dict(b=b,groups=g,ks=ks,stride=s,pad=p,dil=d,bias=bi,k=k) for b in [(),(2,)] for g in (1,2) for ks in (1,3) for s in (1,2) for p in (0,2) for d in (1,2) for bi in (True,False) for k in (None,"gmean")], 3)
run("layer_norm", lambda t,e,c: U.layer_norm(t[0],c[1],t[1] if c[2] else None,t[2] if c[3] else None,c[4]), lambda t,e,c: F.layer_norm(t[0],c[1],t[1] if c[2] else None,t[2] if c[3] else None,c[4]),
    lambda c:([torch.randn(*c[0],*c[1]),torch.randn(*c[1]),torch.randn(*c[1])],None), [(bdims(n),ns,w,b,eps) for n in range(3) for ns in [(5,),(3,5)] for w in (True,False) for b in (True,False) for eps in (1e-5,1e-2)], 3, exact_one=True)
run("rms_norm", lambda t,e,c: U.rms_norm(t[0],c[1],t[1] if c[2] else None,c[3]), lambda t,e,c: F.rms_norm(t[0],c[1],t[1] if c[2] else None,c[3]),
    lambda c:([torch.randn(*c[0],*c[1]),torch.randn(*c[1])],None), [(bdims(n),ns,w,eps) for n in range(3) for ns in [(5,),(3,5)] for w in (True,False) for eps in (1e-5,1e-2)], 2, exact_one=True, tol=1e-5)
run("add", lambda t,e,c: U.add(t[0],t[1],constraint=c[2]), lambda t,e,c: torch.add(t[0],t[1]),
    lambda c:([torch.randn(*c[0]),torch.randn(*c[1])],None),
    [(a,b,k) for a,b in [((3,5),(3,5)),((3,5),(5,)),((5,),(3,5)),((2,1,5),(3,1)),((3,5),(1,)),((1,),(3,5)),((3,5),()),((2,3,1),(1,1,5))] for k in cons3], 2)
run("embedding", lambda t,e,c: U.embedding(t[1],t[0],padding_idx=c[2],max_norm=c[3]), lambda t,e,c: F.embedding(t[1],t[0],padding_idx=c[2],max_norm=c[3]),
    lambda c:([torch.randn(c[0],5),torch.randint(0,c[0],c[1])],None), [(V,s,pi,mn) for V in (3,11) for s in [(7,),(2,5),(2,3,2)] for pi in (None,0,-1) for mn in (None,1.0)], 1, exact_one=True)
def mask(c,L,S):
    if c["mask"]=="bool": return torch.rand(L,S)>0.3
    if c["mask"]=="float": return torch.randn(L,S)
    return None
run("sdpa", lambda t,e,c: U.scaled_dot_product_attention(t[0],t[1],t[2],attn_mask=e,dropout_p=0.0,is_causal=c["causal"],mult=c["mult"]),
    lambda t,e,c: F.scaled_dot_product_attention(t[0],t[1],t[2],attn_mask=e,dropout_p=0.0,is_causal=c["causal"],scale=c["mult"]/c["d"]),
    lambda c:([torch.randn(*c["b"],c["L"],c["d"]),torch.randn(*c["b"],c["S"],c["d"]),torch.randn(*c["b"],c["S"],c["d"])], mask(c,c["L"],c["S"])),
    [dict(b=b,L=L,S=S,d=d,causal=ca,mult=m,mask=mk) for b in [(),(2,),(2,3)] for (L,S) in [(5,5),(3,7)] for d in (4,) for ca in (True,False) for m in (0.5,1.0,4.0) for mk in ((None,) if ca else (None,"bool","float"))], 3)
run("cross_entropy", lambda t,e,c: U.cross_entropy(t[0],e,ignore_index=c["ii"],reduction=c["red"],mult=c["mult"]), lambda t,e,c: F.cross_entropy(t[0]*c["mult"],e,ignore_index=c["ii"],reduction=c["red"]),
    lambda c:([torch.randn(*c["s"])], (torch.randint(0,c["s"][-1],c["s"][:-1]) if not c["hit"] else torch.randint(0,c["s"][-1],c["s"][:-1]).masked_fill(torch.arange(math.prod(c["s"][:-1])).reshape(c["s"][:-1])%2==0, c["ii"] if c["ii"]>=0 else c["ii"]))),
    [dict(s=s,ii=ii,red=r,mult=m,hit=h) for s in [(7,),(6,7),(4,2)] for ii in (-100,1) for r in ("mean","sum") for m in (0.5,1.0,3.0) for h in (False,True)], 1, exact_one=True)
run("mse_loss", lambda t,e,c: U.mse_loss(t[0],t[1],reduction=c[1]), lambda t,e,c: F.mse_loss(t[0],t[1],reduction=c[1]),
    lambda c:([torch.randn(*c[0]),torch.randn(*c[0])],None), [(s,r) for s in [(7,),(3,5),(2,3,5)] for r in ("mean","sum")], 2, exact_one=True)
for k,v in issues.items(): print(k, "::", str(v)[:260])
print("issue classes:",len(issues))
