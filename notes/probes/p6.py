import warnings; warnings.filterwarnings("ignore")
import torch, math, numpy as np
import torch.nn.functional as F
import unit_scaling.functional as U
torch.manual_seed(0)
# Gauss-Hermite for elementwise
xs, ws = np.polynomial.hermite_e.hermegauss(200); ws = ws/ws.sum()
X = torch.tensor(xs, dtype=torch.float64, requires_grad=True); W = torch.tensor(ws)
def stats(fn):
    X.grad=None; y = fn(X); (y.sum()).backward()
    m = (W*y.detach()).sum(); std = ((W*(y.detach()-m)**2).sum()).sqrt(); g = ((W*X.grad**2).sum()).sqrt()
    return std.item(), g.item()
worst = {}
for name, fn in (("gelu", lambda m: (lambda x: U.gelu(x, mult=m, constraint=None))), ("gelu_tanh", lambda m: (lambda x: U.gelu(x, mult=m, constraint=None, approximate="tanh"))), ("silu", lambda m: (lambda x: U.silu(x, mult=m, constraint=None)))):
    lo=[9,9,0]; hi=[0,0,0]
    for lm in np.linspace(-4,4,161):
        m = float(2**lm); s,g = stats(fn(m)); 
        for i,v in enumerate((s,g)):
            if v<lo[i]: lo[i]=v
            if v>hi[i]: hi[i]=v
    print(name, "std range", lo[0],hi[0], "grad rms range", lo[1], hi[1])
# silu_glu MC
n=2**20
for m in (1/16, 0.25, 1, 4, 16):
    a=torch.randn(n,dtype=torch.float64,requires_grad=True); b=torch.randn(n,dtype=torch.float64,requires_grad=True)
    y=U.silu_glu(a,b,mult=m); y.backward(torch.randn(n,dtype=torch.float64)); print("silu_glu",m, y.std().item(), a.grad.pow(2).mean().sqrt().item(), b.grad.pow(2).mean().sqrt().item())
# softmax
for width in (16, 256, 4096):
    for m in (1/8, 0.5, 1, 2, 4):
        x=torch.randn(2**20//width, width, requires_grad=True); y=U.softmax(x,-1,mult=m,constraint=None); y.backward(torch.randn_like(y))
        print("softmax", width, m, round(y.pow(2).mean().sqrt().item(),3), round(x.grad.pow(2).mean().sqrt().item(),3))
# cross entropy
for V in (2,3,16,1024):
    for m in (0.25,1,4):
        B=2**20//V; x=torch.randn(B,V,requires_grad=True); t=torch.randint(0,V,(B,)); U.cross_entropy(x,t,mult=m).backward(); print("ce",V,m, round(x.grad.pow(2).mean().sqrt().item(),3))
