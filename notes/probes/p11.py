import warnings; warnings.filterwarnings("ignore")
exec(open("p10.py").read().split("errs=collections.Counter()")[0])
import unit_scaling.transforms._unit_scale as us
orig=us._unconstrain_node
def patched(node):
    if node.op=="call_function" and node.target is U.add and len(node.args)>=3: return
    orig(node)
us._unconstrain_node=patched
import logging
class H(logging.Handler):
    def __init__(s): super().__init__(); s.msgs=[]
    def emit(s,r): s.msgs.append(r.getMessage())
h=H(); us.logger.addHandler(h); us.logger.setLevel(logging.INFO)
errs=collections.Counter(); ex={}; missed=0; nres=0
for seed in range(600):
    rng=random.Random(seed); torch.manual_seed(seed)
    gm,params,desc=build(rng); h.msgs.clear()
    try:
        out=us.unit_scaling_backend()(gm,[])
        X=torch.randn(4,D,requires_grad=True); y=out(X,*params)[0]; y.sum().backward()
        found=sum("residual-add" in m for m in h.msgs); want=desc.count("resadd"); nres+=want
        if found!=want: missed+=1; ex.setdefault("missed",(seed,desc,found,want))
    except Exception as e:
        key=(type(e).__name__, str(e).split("\n")[0][:90]); errs[key]+=1; ex.setdefault(key,(seed,desc))
for k,v in errs.most_common(): print(v,k,ex[k])
print("errors",sum(errs.values()),"missed-residual graphs",missed, ex.get("missed"), "total residual adds", nres)
