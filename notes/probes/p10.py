import warnings; warnings.filterwarnings("ignore")
import torch, operator, random, collections, traceback
import torch.nn.functional as F
from torch import fx, nn
import unit_scaling.functional as U
from unit_scaling.transforms._unit_scale import unit_scaling_backend
D=8
def build(rng):
    g=fx.Graph(); x=g.placeholder("x"); params=[]; 
    def W():
        p=g.placeholder(f"w{len(params)}"); params.append(torch.randn(D,D)); return p
    live=[x]; desc=[]
    def unary(t):
        k=rng.choice(["linear","gelu","silu","softmax","layer_norm","tanh","mulc","addc","dropout","neg"])
        desc.append(k)
        if k=="linear": return g.call_function(F.linear,(t,W(),None))
        if k=="gelu": return g.call_function(F.gelu,(t,))
        if k=="silu": return g.call_function(F.silu,(t,))
        if k=="softmax": return g.call_function(F.softmax,(t,),{"dim":-1})
        if k=="layer_norm": return g.call_function(F.layer_norm,(t,(D,)))
        if k=="tanh": return g.call_function(torch.tanh,(t,))
        if k=="mulc": return g.call_function(operator.mul,(t,0.5))
        if k=="addc": return g.call_function(operator.add,(t,1.0))
        if k=="dropout": return g.call_function(F.dropout,(t,0.0))
        if k=="neg": return g.call_function(operator.neg,(t,))
    cur=x
    for _ in range(rng.randint(1,6)):
        c=rng.random()
        if c<0.35:   # residual block
            skip=cur; b=cur
            for _ in range(rng.randint(1,3)): b=unary(b)
            desc.append("resadd"); 
            fn=rng.choice([operator.add, operator.iadd])
            cur=g.call_function(fn,(b,skip) if rng.random()<0.5 else (skip,b))
        elif c<0.5:  # plain sum of two branches
            a=unary(cur); b=unary(cur); desc.append("plainadd"); cur=g.call_function(operator.add,(a,b))
        else: cur=unary(cur)
    g.output((cur,))
    return fx.GraphModule(nn.Module(), g), params, desc
errs=collections.Counter(); ex={}
for seed in range(400):
    rng=random.Random(seed); torch.manual_seed(seed)
    gm,params,desc=build(rng)
    try:
        out=unit_scaling_backend()(gm,[])
        X=torch.randn(4,D,requires_grad=True); y=out(X,*params)[0]; y.sum().backward()
    except Exception as e:
        key=(type(e).__name__, str(e).split("\n")[0][:90]); errs[key]+=1; ex.setdefault(key,(seed,desc))
for k,v in errs.most_common(): print(v,k,ex[k])
print("total errors",sum(errs.values()),"of 400")
