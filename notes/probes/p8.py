import warnings; warnings.filterwarnings("ignore")
import torch, numpy as np, random
from unittest.mock import patch
from unit_scaling.formats import FPFormat
rng=random.Random(2); bad=0; tot=0
real_randint=torch.randint
for (E,M,sr) in [(2,1,1),(2,1,3),(4,3,4),(5,2,2),(5,2,12),(3,10,0),(4,3,0) if False else (3,14,0),(7,10,5),(2,0,6)]:
    fmt=FPFormat(E,M,"stochastic",sr); srbits=fmt.srbits; k=23-M; s=k-srbits
    B=2**(E-1); d=127-B
    mx=fmt.max_absolute_value
    xb=np.array([rng.randrange(0,0x7f800000) for _ in range(400)],dtype=np.int64)
    x=torch.from_numpy(xb.astype(np.int32)).view(torch.float32)
    x=x[(x.abs()<=mx)&(x.abs()>=2.0**(d-126))]  # stay where downscale is exact
    x=torch.cat([x,-x, torch.tensor([mx,-mx,0.0, fmt.min_absolute_subnormal])])
    q=(x/2.0**d).view(torch.int32)&0x7fffffff
    rem=(q % (1<<k)).tolist(); down=((q>>k)<<k)
    ups=torch.zeros(len(x),dtype=torch.int64); calls=[]
    for r in range(2**srbits):
        def fake(lo,hi,shape,**kw): calls.append((lo,hi,tuple(shape))); return torch.full(tuple(shape), r, dtype=kw.get('dtype'))
        with patch("torch.randint", fake): y=fmt.quantise(x)
        yq=(y/2.0**d).view(torch.int32)&0x7fffffff
        isdown=(yq==down); isup=(yq==down+(1<<k))
        if not bool((isdown|isup).all()): print("not neighbour",E,M,sr,r); bad+=1
        ups+= (isup & ~isdown).long()
    for i,(rm,u) in enumerate(zip(rem,ups.tolist())):
        tot+=1
        exp=(rm + ((1<<s)//2))>>s if s>=0 else None
        if u!=exp: print("count mismatch",E,M,sr,rm,u,exp); bad+=1; break
    assert all(c==(0,2**srbits,tuple(x.shape)) for c in calls)
print("checked",tot,"bad",bad)
