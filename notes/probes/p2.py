import warnings; warnings.filterwarnings("ignore")
import torch, operator, collections
import torch.nn.functional as F
from torch import nn, fx
import unit_scaling as uu, unit_scaling.functional as U
from unit_scaling.formats import FPFormat
from unit_scaling.transforms import simulate_format, unit_scale, track_scales, prune_non_float_tensors, prune_same_scale_tensors, prune_selected_nodes
from unit_scaling.transforms._unit_scale import unit_scaling_backend
from unit_scaling.transforms._simulate_format import _quantisation_backend

print("== C15 rounding mode dropped?")
class M(nn.Module):
    def __init__(s): super().__init__(); s.l = nn.Linear(8, 8)
    def forward(s, x): return s.l(x)
torch.manual_seed(0)
m = M(); x = torch.randn(4, 8)
f = FPFormat(2,1,rounding="nearest")
qm = simulate_format(m, f, f)
outs = {tuple(qm(x).flatten().tolist()) for _ in range(4)}
print("distinct outputs over 4 calls with nearest rounding requested:", len(outs))

print("== C15 bias by keyword on hand-built graph")
class K(nn.Module):
    def __init__(s): super().__init__(); s.w = nn.Parameter(torch.randn(8,8)); s.b = nn.Parameter(torch.randn(8))
    def forward(s, x): return F.linear(x, s.w, bias=s.b)
gm = fx.symbolic_trace(K())
print([ (n.op, n.target, n.args, n.kwargs) for n in gm.graph.nodes if n.op=="call_function"])
try:
    g2 = _quantisation_backend(FPFormat(8,23,"nearest"), FPFormat(8,23,"nearest"))(gm, [x]); print(g2(x).shape)
except Exception as e: print("ERR", type(e).__name__, str(e)[:150])
try:
    print("dynamo path:", simulate_format(K(), FPFormat(8,23,"nearest"), FPFormat(8,23,"nearest"))(x).shape)
except Exception as e: print("ERR dynamo", type(e).__name__, str(e)[:300])

print("== C16 plain add after last residual")
class A(nn.Module):
    def __init__(s): super().__init__(); s.l = nn.Linear(8,8); s.l2 = nn.Linear(8,8)
    def forward(s, x): return s.l(x) + s.l2(x)
try: print(unit_scale(A())(x).shape)
except Exception as e: print("ERR", type(e).__name__, str(e)[:200])
print("== C16 skip produced by a plain add")
import logging
class B(nn.Module):
    def __init__(s): super().__init__(); s.e1 = nn.Linear(8,8); s.e2 = nn.Linear(8,8); s.l = nn.Linear(8,8)
    def forward(s, x):
        h = s.e1(x) + s.e2(x)
        return s.l(h) + h
class H(logging.Handler):
    def __init__(s): super().__init__(); s.msgs=[]
    def emit(s, r): s.msgs.append(r.getMessage())
h = H(); lg = logging.getLogger("unit_scaling.transforms._unit_scale"); lg.addHandler(h); lg.setLevel(logging.INFO)
try: print(unit_scale(B())(x).shape)
except Exception as e: print("ERR", type(e).__name__, str(e)[:200])
print([m for m in h.msgs if "function" in m])
