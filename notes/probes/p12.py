import warnings; warnings.filterwarnings("ignore")
import torch, operator, random, collections, copy
import torch.nn.functional as F
from torch import fx, nn
from torch.fx.node import map_arg
import unit_scaling.functional as U
from unit_scaling.transforms._track_scales import ScaleTrackingBackend
from unit_scaling.transforms import prune_non_float_tensors, prune_same_scale_tensors, prune_selected_nodes
from unit_scaling.transforms._simulate_format import _quantisation_backend
from unit_scaling.formats import FPFormat
D=8
def build(rng):
    g=fx.Graph(); x=g.placeholder("x"); idx=g.placeholder("idx"); emb=g.placeholder("emb")
    vals=[x]; desc=[]
    def pick(): return rng.choice(vals)
    for _ in range(rng.randint(2,8)):
        k=rng.choice(["reshape","neg","negkw","mul","cat","stack","embed","idxadd","add2","linear","linearkw","sdpa","chunk","where"])
        desc.append(k); t=pick()
        if k=="reshape": n=g.call_method("reshape",(t,-1,D))
        elif k=="neg": n=g.call_function(torch.neg,(t,))
        elif k=="negkw": n=g.call_function(torch.neg,(),{"input":t})
        elif k=="mul": n=g.call_function(operator.mul,(t,rng.choice([2.0,1.0,-1.0])))
        elif k=="cat": n=g.call_function(torch.cat,([t,pick()],),{"dim":0})
        elif k=="stack": n=g.call_function(torch.cat,((g.call_method("reshape",(t,-1,D)),g.call_function(torch.neg,(pick(),))),),{"dim":0})
        elif k=="embed":
            j=g.call_function(operator.add,(idx,1)); n=g.call_function(F.embedding,(j,emb))
        elif k=="idxadd":
            j=g.call_function(operator.mul,(idx,1)); n=g.call_function(F.embedding,(j,emb))
        elif k=="add2": n=g.call_function(operator.add,(t,t))
        elif k=="linear": n=g.call_function(F.linear,(t,g.call_function(torch.ones,(D,D)),None))
        elif k=="linearkw": n=g.call_function(F.linear,(t,g.call_function(torch.ones,(D,D))),{"bias":None})
        elif k=="sdpa": n=g.call_function(F.scaled_dot_product_attention,(t,t,t),{"is_causal":rng.random()<0.5})
        elif k=="chunk":
            c=g.call_method("chunk",(t,2),{"dim":-1}); n=g.call_function(torch.cat,([g.call_function(operator.getitem,(c,1)),g.call_function(operator.getitem,(c,0))],),{"dim":-1})
        elif k=="where": n=g.call_function(torch.where,(g.call_function(operator.gt,(t,0)),t,g.call_function(torch.neg,(t,))))
        n2=g.call_method("reshape",(n,-1,D)); vals.append(n2)
    outs=[g.call_method("sum",(v,)) for v in rng.sample(vals[1:],k=min(len(vals)-1,rng.randint(1,2)))]
    tot=outs[0]
    for o in outs[1:]: tot=g.call_function(operator.add,(tot,o))
    g.output((tot,))
    return fx.GraphModule(nn.Module(), g), desc
errs=collections.Counter(); ex={}
def rec(stage,e,seed,desc):
    key=(stage,type(e).__name__, str(e).split("\n")[0][:80]); errs[key]+=1; ex.setdefault(key,(seed,desc))
ok=0
for seed in range(500):
    rng=random.Random(seed); torch.manual_seed(seed)
    gm,desc=build(rng)
    X=torch.randn(4,D,requires_grad=True); I=torch.randint(0,5,(4,)); E=torch.randn(6,D,requires_grad=True)
    try:
        tb=ScaleTrackingBackend(); interp=tb(copy.deepcopy(gm),[]); y=interp(X,I,E)[0]; y.backward()
    except Exception as e: rec("track",e,seed,desc); continue
    for name,fn in (("nonfloat",prune_non_float_tensors),("same",lambda g: prune_same_scale_tensors(g, 2**-8)),("sel",lambda g: prune_selected_nodes(copy.deepcopy(g),[torch.neg,operator.mul]))):
        try: r=fn(tb.graph); r.lint()
        except Exception as e: rec(name,e,seed,desc)
    try:
        q=_quantisation_backend(FPFormat(8,23,"nearest"),FPFormat(8,23,"nearest"))(copy.deepcopy(gm),[]); yq=q(X,I,E)[0]
        yr=gm(X,I,E)[0]
        if not torch.equal(yq,yr): rec("quant-lossless-differs",Exception("values differ"),seed,desc)
    except Exception as e: rec("quant",e,seed,desc)
    ok+=1
for k,v in errs.most_common(): print(v,k,ex[k])
print("graphs",ok)
