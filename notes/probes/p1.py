import copy, pickle, io, torch, warnings
warnings.filterwarnings("ignore")
import unit_scaling as uu, unit_scaling.functional as U
from unit_scaling.parameter import has_parameter_data, Parameter
import torch.nn.functional as F
from unit_scaling.formats import FPFormat

print("== C09 copy of copy")
p = Parameter(torch.zeros(3), "weight", 7)
c1 = copy.deepcopy(p); c2 = copy.deepcopy(c1)
print("c1", has_parameter_data(c1), "c2", has_parameter_data(c2))
pk = pickle.loads(pickle.dumps(c1)); print("pickle(copy)", has_parameter_data(pk), "copy(pickle(copy))", has_parameter_data(copy.deepcopy(pk)))
m = uu.Linear(3,4); m2 = copy.deepcopy(copy.deepcopy(m)); print("module copy copy", has_parameter_data(m2.weight))
m3 = pickle.loads(pickle.dumps(copy.deepcopy(m))); print("pickle(copy(module))", has_parameter_data(m3.weight), has_parameter_data(copy.deepcopy(m3).weight))

print("== C13 non-float32 input")
for dt in (torch.float64, torch.bfloat16, torch.float16):
    x = torch.randn(4, 6).to(dt)
    try:
        y = FPFormat(4,3,"nearest").quantise(x); print(dt, y.shape, y.dtype, y.flatten()[:3].tolist(), x.flatten()[:3].tolist())
    except Exception as e: print(dt, "ERR", type(e).__name__, str(e)[:100])

print("== C01 cross_entropy ignore_index mean")
x = torch.randn(5, 7, dtype=torch.float64); t = torch.tensor([1,2,-100,3,-100])
print(U.cross_entropy(x,t).item(), F.cross_entropy(x,t).item(), F.cross_entropy(x,t,reduction='sum').item()/5)

print("== C08 Conv1d constraint / padding_mode / Embedding _freeze")
c = uu.Conv1d(4, 6, 3, constraint=None); d = uu.Conv1d(4,6,3, constraint="to_output_scale"); d.weight.data.copy_(c.weight.data)
x = torch.randn(2,4,10); print("conv constraint honoured:", not torch.equal(c(x), d(x)))
c = uu.Conv1d(4,6,3,padding=2,padding_mode="circular"); r = torch.nn.Conv1d(4,6,3,padding=2,padding_mode="circular", bias=False)
print("circular out shape", c(x).shape, "torch", r(x).shape)
e = uu.Embedding(5,3,_freeze=True); print("embedding _freeze requires_grad:", e.weight.requires_grad, torch.nn.Embedding(5,3,_freeze=True).weight.requires_grad)
