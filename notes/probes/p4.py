import warnings; warnings.filterwarnings("ignore")
import torch, copy, math
import torch.nn.functional as F
from torch import nn
import unit_scaling as uu, unit_scaling.functional as U
from unit_scaling.optim import scaled_parameters, lr_scale_func_adam, lr_scale_func_sgd, Adam, AdamW, SGD
torch.manual_seed(0)

print("== C12 one Adam step moves outputs by eta")
for cls, kw in ((uu.Linear, {}), (uu.LinearReadout, {})):
    for fi, fo in ((7, 5), (64, 3), (1, 4)):
        l = cls(fi, fo).double(); x = (torch.randint(0,2,(1,fi))*2-1).double()
        opt = Adam(l.parameters(), lr=0.01, eps=0.0)
        y0 = l(x); y0.backward(torch.randn(1,fo).double()); opt.step(); y1 = l(x)
        print(cls.__name__, fi, fo, (y1-y0).abs().flatten()[:3].tolist())
c = uu.Conv1d(3, 4, 5).double(); x = (torch.randint(0,2,(1,3,5))*2-1).double()
opt = Adam(c.parameters(), lr=0.01, eps=0.0); y0 = c(x); y0.backward(torch.randn_like(y0)); opt.step(); print("conv", (c(x)-y0).abs().flatten().tolist())
d = uu.DepthSequential(uu.Linear(6,6), uu.Linear(6,6)).double(); x = (torch.randint(0,2,(1,6))*2-1).double()
opt = Adam(d[0].parameters(), lr=0.01, eps=0.0); y0 = d[0](x); y0.backward(torch.randn_like(y0)); opt.step(); print("depth2", (d[0](x)-y0).abs().flatten()[:2].tolist(), 0.01/math.sqrt(2))

print("== C11 aliasing / mutation")
lr = torch.tensor(0.3)
ps = [uu.Parameter(torch.ones(2,4), "weight"), uu.Parameter(torch.ones(4), "bias"), nn.Parameter(torch.ones(3)), nn.Parameter(torch.ones(3))]
groups = [dict(params=ps, lr=lr, betas=(0.8,0.9))]
out = scaled_parameters(groups, lr_scale_func_adam, allow_non_unit_scaling_params=True)
print([ (g['lr'] is lr, float(g['lr']), g['weight_decay'], g.get('betas')) for g in out], float(lr), list(groups[0].keys()))
print("gen input:", len(scaled_parameters((p for p in ps[:2]), lr_scale_func_adam, lr=torch.tensor(0.1))))
o = SGD(ps[:2], lr=0.1, weight_decay=0.25); 
for p in ps[:2]: p.grad = torch.zeros_like(p)
o.step(); print("SGD decay", ps[0].flatten()[0].item(), ps[1][0].item())
print("== C10 4-d weight, missing tag")
try: scaled_parameters([uu.Parameter(torch.ones(2,2,2,2),"weight")], lr_scale_func_adam, lr=0.1)
except Exception as e: print(type(e).__name__, e)
try: print(scaled_parameters([uu.Parameter(torch.ones(2,2,2,2),"bias")], lr_scale_func_adam, lr=0.1)[0]['lr'])
except Exception as e: print(type(e).__name__, e)
print("sgd out-scale norm 1-D", scaled_parameters([uu.Parameter(torch.ones(8),"norm", 4)], lr_scale_func_sgd("to_output_scale"), lr=1.0)[0]['lr'])
print("1-D weight adam", scaled_parameters([uu.Parameter(torch.ones(16),"weight")], lr_scale_func_adam, lr=1.0)[0]['lr'])
