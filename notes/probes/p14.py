import warnings; warnings.filterwarnings("ignore")
import torch, numpy as np, random, subprocess, sys
from unittest.mock import patch
from unit_scaling.formats import FPFormat
rng=random.Random(3)
def inputs(E,M):
    B=2**(E-1); k=23-M
    fmt=FPFormat(E,M,"nearest")
    bs=[rng.randrange(0,0x7f800000) for _ in range(4000)]
    # structured: around every binade boundary and multiples of 2^k near tie points, in downscaled domain and original domain
    for e in range(0,255):
        for m in (0,1,2,(1<<k)//2-1,(1<<k)//2,(1<<k)//2+1,(1<<k)-1,(1<<k),(1<<k)+1,P23-1 if False else (1<<23)-1,(1<<23)-2, 3*(1<<k)//2, 5*(1<<k)//2):
            if m < (1<<23): bs.append((e<<23)|m)
    bs += [0,1,2,0x7f800000-1,0x7f800000]
    a=np.array(sorted(set(bs)),dtype=np.int64)
    if E==8: a=a[a < ((126+127)<<23)]
    a=np.concatenate([a, a|0x80000000])
    return a
tot=0; bad=0
lines=[]; cases=[]
for E in range(2,9):
    for M in (0,1,2,3,5,10,15,20,22,23):
        if E==8 and M==0: continue   # F-C13b
        a=inputs(E,M)
        x=torch.from_numpy((a & 0xffffffff).astype(np.uint32).view(np.int32)).view(torch.float32)
        modes=[("nearest",None,None)]
        k=23-M
        for sr in (0,1,3,12):
            if sr<=k and not (sr==0 and k==0 and False): modes.append(("stochastic",sr,None))
        for mode,sr,_ in modes:
            if mode=="nearest":
                off=((1<<k)-1)//2; y=FPFormat(E,M,"nearest").quantise(x); offs=[(off,y)]
            else:
                fmt=FPFormat(E,M,"stochastic",sr); srbits=fmt.srbits; s=k-srbits
                offs=[]
                for r in sorted({0,1,(1<<srbits)-1,(1<<srbits)//2, rng.randrange(0,1<<srbits)}):
                    if r>=(1<<srbits): continue
                    def fake(lo,hi,shape,**kw): return torch.full(tuple(shape), r, dtype=kw.get('dtype'))
                    with patch("torch.randint", fake): y=fmt.quantise(x)
                    off=r*(1<<s)+((1<<(s-1)) if s>0 else 0); offs.append((off,y))
            for off,y in offs:
                lines.append(f"{E} {M} {off} "+" ".join(str(int(v)) for v in (a & 0xffffffff)))
                cases.append((E,M,mode,sr,off,a,y.view(torch.int32).numpy().astype(np.int64)&0xffffffff))
p=subprocess.run(["/tmp/leanprobe/.lake/build/bin/driver"],input="\n".join(lines)+"\n",capture_output=True,text=True)
outs=p.stdout.strip().split("\n")
assert len(outs)==len(cases),(len(outs),len(cases),p.stderr[:300])
for (E,M,mode,sr,off,a,yb),o in zip(cases,outs):
    mb=np.array([int(t) for t in o.split()],dtype=np.int64)
    tot+=len(mb)
    # canonicalise -0 vs +0? compare raw bits
    d=np.nonzero(mb!=yb)[0]
    if len(d):
        bad+=len(d); i=d[0]; print("MISMATCH",E,M,mode,sr,off,hex(int(a[i]&0xffffffff)),"impl",hex(int(yb[i])),"model",hex(int(mb[i])), "n_mismatch",len(d))
print("compared",tot,"mismatches",bad,"cases",len(cases))
