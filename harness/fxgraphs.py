"""Random module graphs for the FX-transform properties (C15, C16, C18, C19).

A `Program` is a small IR (list of `Op`s over indexed values).  `IRModule` executes it with a
*function table* (so a reference execution can substitute unit-scaled / quantised functions),
`trace_fx` builds the FX graph without TorchDynamo (plain symbolic tracing that inlines
sub-modules), `serialise` turns an FX graph into the JSON form the Lean model consumes.
"""
from __future__ import annotations

import operator
import random
from dataclasses import dataclass, field
from typing import Any, Callable, Dict, List, Optional, Tuple

import torch
import torch.nn.functional as F
from torch import nn

B, S, H = 2, 5, 8
VOCAB = 11


@dataclass
class Op:
    kind: str
    ins: List[int]
    p: Dict[str, Any] = field(default_factory=dict)


@dataclass
class Program:
    ops: List[Op]
    inputs: List[str]            # kinds of inputs: "x" (float B,S,H) or "tok" (int B,S)
    outputs: List[int]           # indices of values returned
    params: Dict[str, Tuple[int, ...]]      # name -> shape
    modules: Dict[str, Tuple[str, Tuple]]   # name -> (class name, ctor args) for torch.nn wrappers
    meta: Dict[str, Any] = field(default_factory=dict)

    def key(self) -> Dict[str, Any]:
        return {"ops": [[o.kind, o.ins, {k: (v if isinstance(v, (int, float, str, bool, type(None))) else str(v))
                                           for k, v in o.p.items()}] for o in self.ops],
                "inputs": self.inputs, "outputs": self.outputs}


def _traced_iadd(a: Any, b: Any) -> Any:
    """`a += b`; kept as one call under plain FX tracing (a Proxy has no `__iadd__`, tracing would record an
    out-of-place add) and turned into an `operator.iadd` node by `trace_fx`."""
    return operator.iadd(a, b)


torch.fx.wrap("_traced_iadd")


class FnTable:
    """The functions an `IRModule` calls; replace entries to build reference executions."""

    def __init__(self) -> None:
        self.linear = F.linear
        self.matmul = torch.matmul
        self.gelu = F.gelu
        self.silu = F.silu
        self.softmax = F.softmax
        self.dropout = F.dropout
        self.layer_norm = F.layer_norm
        self.sdpa = F.scaled_dot_product_attention
        self.embedding = F.embedding
        self.conv1d = F.conv1d
        self.cross_entropy = F.cross_entropy
        self.mse_loss = F.mse_loss
        self.add = operator.add
        self.iadd = _traced_iadd
        self.tanh = torch.tanh
        self.relu = F.relu
        # reference executions run torch.nn wrappers through the table's functional forms
        self.inline_nn = False


class IRModule(nn.Module):
    def __init__(self, prog: Program, table: Optional[FnTable] = None, seed: int = 0) -> None:
        super().__init__()
        self.prog = prog
        self.table = table or FnTable()
        g = torch.Generator().manual_seed(seed)
        self.params = nn.ParameterDict({n: nn.Parameter(torch.randn(sh, generator=g) * (0.5 if len(sh) > 1 else 0.1))
                                        for n, sh in prog.params.items()})
        mods = {}
        for n, (cls, args) in prog.modules.items():
            torch.manual_seed(seed + 17)
            mods[n] = getattr(nn, cls)(*args)
        self.mods = nn.ModuleDict(mods)

    def forward(self, *inputs: torch.Tensor) -> Any:
        return self.run(list(inputs))

    def run(self, inputs: List[Any]) -> Any:
        T = self.table
        vals: List[Any] = list(inputs)
        P = self.params
        for op in self.prog.ops:
            k, a, p = op.kind, [vals[i] for i in op.ins], op.p
            if k == "linear":
                v = T.linear(a[0], P[p["w"]], P[p["b"]])
            elif k == "linear_kw":
                v = T.linear(a[0], P[p["w"]], bias=P[p["b"]])
            elif k == "linear_nb":
                v = T.linear(a[0], P[p["w"]])
            elif k == "linear_none":
                v = T.linear(a[0], P[p["w"]], None)
            elif k == "nn":
                m_ = self.mods[p["m"]]
                if not getattr(T, "inline_nn", False):
                    v = m_(a[0])
                elif p["cls"] == "Linear":
                    v = T.linear(a[0], m_.weight, m_.bias)
                elif p["cls"] == "LayerNorm":
                    v = T.layer_norm(a[0], m_.normalized_shape, m_.weight, m_.bias, m_.eps)
                elif p["cls"] == "GELU":
                    v = T.gelu(a[0])
                elif p["cls"] == "Softmax":
                    v = T.softmax(a[0], dim=m_.dim)
                else:
                    v = m_(a[0])
            elif k == "matmul":
                v = T.matmul(a[0], P[p["w"]])
            elif k == "gelu":
                v = T.gelu(input=a[0], approximate="tanh") if p.get("kw") else T.gelu(a[0])
            elif k == "silu":
                v = T.silu(input=a[0]) if p.get("kw") else T.silu(a[0])
            elif k == "softmax":
                v = T.softmax(input=a[0], dim=-1) if p.get("kw") else T.softmax(a[0], dim=-1)
            elif k == "dropout":
                v = T.dropout(a[0], p=0.0)
            elif k == "layer_norm":
                v = T.layer_norm(input=a[0], normalized_shape=(H,), weight=P[p["w"]], bias=P[p["b"]]) if p.get("kw") \
                    else T.layer_norm(a[0], (H,), P[p["w"]], P[p["b"]])
            elif k == "sdpa":
                kw: Dict[str, Any] = {}
                if p.get("causal"):
                    kw["is_causal"] = True
                if p.get("mask"):
                    kw["attn_mask"] = P[p["mask"]]
                if p.get("dropout0"):
                    kw["dropout_p"] = 0.0
                v = T.sdpa(query=a[0], key=a[1], value=a[2], **kw) if p.get("kw") else T.sdpa(a[0], a[1], a[2], **kw)
            elif k == "embedding":
                v = T.embedding(a[0], P[p["w"]])
            elif k == "conv1d":
                v = T.conv1d(a[0].transpose(1, 2), P[p["w"]], None, 1, 1).transpose(1, 2)
            elif k == "tanh":
                v = T.tanh(a[0])
            elif k == "relu":
                v = T.relu(a[0])
            elif k == "mulc":
                v = a[0] * p["c"]
            elif k == "inplace_stmt":
                # an in-place op written as a bare statement on a fresh tensor: its result node has no users in the graph
                t_ = a[0] * 1.0
                t_.add_(p["c"])
                if p.get("clamp"):
                    t_.clamp_(min=-1.5)
                # the value handed on is a new tensor: nothing modifies in place a tensor that may later serve as a skip
                # connection (outside the property's quantifier; unit_scale re-routes such statements to the branch only)
                v = t_ * 1.0
            elif k == "mul":
                v = a[0] * a[1]
            elif k == "neg":
                v = torch.neg(a[0])
            elif k == "neg_kw":
                v = torch.neg(input=a[0])
            elif k == "reshape":
                v = a[0].reshape(B * S, H).reshape(B, S, H)
            elif k == "cat_slice":
                v = torch.cat([a[0], a[1]], dim=-1)[..., :H]
            elif k == "stack_mean":
                v = torch.stack([a[0], a[1]], dim=0).mean(0)
            elif k == "rot_half":
                x1, x2 = a[0][..., : H // 2], a[0][..., H // 2:]
                v = torch.cat((-x2, x1), dim=-1)
            elif k == "argmax_gather":
                idx = a[0].argmax(dim=-1, keepdim=True)        # integer intermediate
                v = a[0] * (idx >= 0).to(a[0].dtype)            # bool intermediate, float result
            elif k == "add":
                v = T.add(a[0], a[1])
            elif k == "add_scalar":
                v = T.add(a[0], p["c"])
            elif k == "iadd":
                v = T.iadd(a[0], a[1])     # in place on a[0], which the generator makes a fresh tensor
            elif k == "cross_entropy":
                v = T.cross_entropy(a[0].flatten(0, 1), a[1].flatten())
            elif k == "mse_loss":
                v = T.mse_loss(a[0], a[1])
            elif k == "sum":
                v = a[0].sum()
            else:
                raise KeyError(k)
            vals.append(v)
        outs = [vals[i] for i in self.prog.outputs]
        return outs[0] if len(outs) == 1 else tuple(outs)


# ----------------------------------------------------------------------------- generation
ELEMENTWISE_MAPPED = ["gelu", "silu", "softmax", "dropout"]
UNMAPPED = ["tanh", "relu", "mulc", "reshape", "neg"]


def gen_program(rng: random.Random, n_ops: int, *, residuals: int = 2, wrappers: bool = True, attention: bool = True,
                losses: bool = False, fan_out: bool = False, lists: bool = False, nonfloat: bool = False,
                embedding: bool = False, multi_out: bool = False, plain_adds: bool = True,
                side_paths: bool = False, kw_tensors: bool = False, inplace_stmts: bool = False) -> Program:
    ops: List[Op] = []
    params: Dict[str, Tuple[int, ...]] = {}
    modules: Dict[str, Tuple[str, Tuple]] = {}
    inputs = ["x"]
    n_in = 1
    if embedding:
        inputs = ["tok"]

    def new_param(prefix: str, shape: Tuple[int, ...]) -> str:
        n = f"{prefix}{len(params)}"
        params[n] = shape
        return n

    def nvals() -> int:
        return n_in + len(ops)

    cur = 0
    if embedding:
        ops.append(Op("embedding", [0], {"w": new_param("emb", (VOCAB, H))}))
        cur = nvals() - 1
        if rng.random() < 0.7:
            # token + position embeddings: a plain sum used as skip tensor later
            ops.append(Op("embedding", [0], {"w": new_param("pos", (VOCAB, H))}))
            ops.append(Op("add", [cur, nvals() - 1]))
            cur = nvals() - 1

    def unary(src: int) -> int:
        choices = ["linear", "linear_kw", "linear_nb", "linear_none", "matmul", "layer_norm", "mlp", "mlp"] + \
            ELEMENTWISE_MAPPED + UNMAPPED
        if wrappers:
            choices += ["nn.Linear", "nn.LayerNorm", "nn.GELU", "nn.Softmax"]
        if attention:
            choices += ["sdpa"]
        if lists:
            choices += ["cat_slice", "stack_mean", "rot_half", "neg_kw"]
        if nonfloat:
            choices += ["argmax_gather"]
        if inplace_stmts:
            choices += ["inplace_stmt", "inplace_stmt"]
        k = rng.choice(choices)
        if k == "mlp":
            # rectangular projections (fan_in != fan_out): up to width H2, an optional activation, back down to H
            H2 = rng.choice([2 * H, H // 2, 3 * H])
            for (fo, fi) in ((H2, H), (H, H2)):
                kk_ = rng.choice(["linear", "linear_kw", "linear_nb", "linear_none"])
                pp = {"w": new_param("w", (fo, fi))}
                if kk_ in ("linear", "linear_kw"):
                    pp["b"] = new_param("b", (fo,))
                ops.append(Op(kk_, [src if fi == H else nvals() - 1], pp))
                if fo == H2 and rng.random() < 0.6:
                    ops.append(Op(rng.choice(["gelu", "silu", "tanh", "relu"]), [nvals() - 1]))
        elif k in ("linear", "linear_kw"):
            ops.append(Op(k, [src], {"w": new_param("w", (H, H)), "b": new_param("b", (H,))}))
        elif k in ("linear_nb", "linear_none"):
            ops.append(Op(k, [src], {"w": new_param("w", (H, H))}))
        elif k == "matmul":
            ops.append(Op(k, [src], {"w": new_param("w", (H, H))}))
        elif k == "layer_norm":
            ops.append(Op(k, [src], {"w": new_param("g", (H,)), "b": new_param("b", (H,)),
                                     **({"kw": True} if kw_tensors and rng.random() < 0.5 else {})}))
        elif k.startswith("nn."):
            cls = k[3:]
            name = f"m{len(modules)}"
            modules[name] = (cls, {"Linear": (H, H), "LayerNorm": (H,), "GELU": (), "Softmax": (-1,)}[cls])
            ops.append(Op("nn", [src], {"m": name, "cls": cls}))
        elif k == "sdpa":
            q = src
            p: Dict[str, Any] = {}
            r = rng.random()
            if r < 0.3:
                p["causal"] = True
            elif r < 0.5:
                p["mask"] = new_param("mask", (S, S))
            if rng.random() < 0.3:
                p["dropout0"] = True
            ops.append(Op("linear_nb", [src], {"w": new_param("w", (H, H))}))
            kk = nvals() - 1
            if kw_tensors and rng.random() < 0.5:
                p["kw"] = True
            ops.append(Op("sdpa", [q, kk, src], p))
        elif k == "mulc":
            ops.append(Op(k, [src], {"c": rng.choice([0.5, 2.0, -1.0])}))
        elif k == "inplace_stmt":
            ops.append(Op(k, [src], {"c": rng.choice([1.0, -0.5, 2.5]), "clamp": rng.random() < 0.4}))
        elif k in ("cat_slice", "stack_mean"):
            ops.append(Op("tanh", [src]))
            ops.append(Op(k, [src, nvals() - 1]))
        else:
            ops.append(Op(k, [src], {"kw": True} if (kw_tensors and k in ("gelu", "silu", "softmax") and rng.random() < 0.5) else {}))
        return nvals() - 1

    blocks = residuals
    budget = n_ops
    sides: List[int] = []
    while budget > 0:
        if side_paths and rng.random() < 0.2 and len(sides) < 2:
            # a side path computed here but joined only after all later blocks (it feeds no residual add)
            sv = unary(cur)
            if rng.random() < 0.5:
                sv = unary(sv)
            sides.append(sv)
            budget -= 1
        if blocks > 0 and rng.random() < 0.5:
            blocks -= 1
            skip = cur
            if plain_adds and rng.random() < 0.25:
                # skip produced by a plain sum of two projections
                a_ = unary(cur)
                b_ = unary(cur)
                ops.append(Op("add", [a_, b_]))
                skip = nvals() - 1
                budget -= 3
            br = skip
            for _ in range(rng.randint(1, 3)):
                br = unary(br)
                budget -= 1
            if plain_adds and rng.random() < 0.2:
                ops.append(Op("add_scalar", [br], {"c": 1.0}))     # branch output is itself a plain add
                br = nvals() - 1
            # nested block inside the branch
            if blocks > 0 and rng.random() < 0.3:
                blocks -= 1
                inner = br
                b2 = unary(inner)
                ops.append(Op("add", [inner, b2] if rng.random() < 0.5 else [b2, inner]))
                br = nvals() - 1
                br = unary(br)
                budget -= 3
            pair = [skip, br] if rng.random() < 0.5 else [br, skip]
            if rng.random() < 0.3:
                # in-place add on a fresh copy of the first operand: `t = a * 1.0; t += b`
                ops.append(Op("mulc", [pair[0]], {"c": 1.0}))
                ops.append(Op("iadd", [nvals() - 1, pair[1]]))
            else:
                ops.append(Op("add", pair))
            cur = nvals() - 1
        else:
            r = rng.random()
            if plain_adds and r < 0.12:
                ops.append(Op("add_scalar", [cur], {"c": rng.choice([1.5, -2.0, 3])}))
                cur = nvals() - 1
            elif plain_adds and r < 0.22:
                a_ = unary(cur)
                b_ = unary(cur)
                ops.append(Op("add", [a_, b_]))
                cur = nvals() - 1
                budget -= 2
            elif fan_out and r < 0.35:
                a_ = unary(cur)
                b_ = unary(cur)
                ops.append(Op("mul", [a_, b_]))
                cur = nvals() - 1
                budget -= 2
            else:
                cur = unary(cur)
            budget -= 1
    for sv in sides:
        ops.append(Op(rng.choice(["mul", "add"]), [cur, sv] if rng.random() < 0.5 else [sv, cur]))
        cur = nvals() - 1
    outputs = [cur]
    if losses:
        kind = rng.choice(["mse_loss", "cross_entropy", "sum"])
        if kind == "mse_loss":
            inputs.append("x")
            ops.append(Op("mse_loss", [cur, len(inputs) - 1]))
        elif kind == "cross_entropy":
            inputs.append("cls")
            ops.append(Op("cross_entropy", [cur, len(inputs) - 1]))
        else:
            ops.append(Op("sum", [cur]))
        # inputs were appended after ops were numbered: renumber value indices
        outputs = [n_in + len(ops) - 1]
    if len(inputs) != n_in:
        shift = len(inputs) - n_in
        for o in ops:
            o.ins = [i if i < n_in else i + shift for i in o.ins]
        if losses and ops[-1].kind in ("mse_loss", "cross_entropy"):
            ops[-1].ins = [ops[-1].ins[0], len(inputs) - 1]
        outputs = [i if i < n_in else i + shift for i in outputs]
    if multi_out and len(ops) > 2:
        extra = len(inputs) + rng.randrange(len(ops) - 1)
        # never return a tensor that a later op modifies in place
        inplace_targets = {o.ins[0] for o in ops if o.kind == "iadd"}
        if extra not in outputs and extra not in inplace_targets:
            outputs.append(extra)
    return Program(ops, inputs, outputs, params, modules)


class IRModule1(IRModule):
    def forward(self, a: torch.Tensor) -> Any:  # type: ignore[override]
        return self.run([a])


class IRModule2(IRModule):
    def forward(self, a: torch.Tensor, b: torch.Tensor) -> Any:  # type: ignore[override]
        return self.run([a, b])


def make_module(prog: Program, table: Optional[FnTable] = None, seed: int = 0) -> IRModule:
    """fixed-arity module (FX symbolic tracing cannot trace *args)"""
    return {1: IRModule1, 2: IRModule2}[len(prog.inputs)](prog, table, seed)


def program_from_key(key: Dict[str, Any]) -> Program:
    """rebuild a Program from `Program.key()` (parameter / module tables are inferred from the op records)"""
    ops = [Op(k, list(i), dict(p)) for k, i, p in key["ops"]]
    params: Dict[str, Tuple[int, ...]] = {}
    modules: Dict[str, Tuple[str, Tuple]] = {}
    for o in ops:
        for kk, val in o.p.items():
            if kk in ("w", "b", "mask") and isinstance(val, str):
                if val.startswith(("emb", "pos")):
                    params[val] = (VOCAB, H)
                elif val.startswith("mask"):
                    params[val] = (S, S)
                elif val.startswith("w") and o.kind == "conv1d":
                    params[val] = (H, H, 3)
                elif val.startswith("w"):
                    params[val] = (H, H)
                else:
                    params[val] = (H,)
        if o.kind == "nn":
            modules[o.p["m"]] = (o.p["cls"], {"Linear": (H, H), "LayerNorm": (H,), "GELU": (), "Softmax": (-1,)}[o.p["cls"]])
    return Program(ops, list(key["inputs"]), list(key["outputs"]), params, modules)


def make_inputs(prog: Program, seed: int, dtype: torch.dtype = torch.float32) -> List[torch.Tensor]:
    g = torch.Generator().manual_seed(seed)
    out = []
    for k in prog.inputs:
        if k == "x":
            out.append(torch.randn(B, S, H, generator=g).to(dtype))
        else:
            out.append(torch.randint(0, VOCAB if k == "tok" else H, (B, S), generator=g))
    return out


# ----------------------------------------------------------------------------- FX without Dynamo
class InlineTracer(torch.fx.Tracer):
    def is_leaf_module(self, m: nn.Module, qualname: str) -> bool:
        return False


def trace_fx(mod: nn.Module) -> torch.fx.GraphModule:
    tracer = InlineTracer()
    graph = tracer.trace(mod)
    # plain symbolic tracing records every default of Python-level F.* functions as a keyword;
    # F.mse_loss has a newer `weight=None` default that TorchDynamo would not record: drop it
    for n in graph.nodes:
        if n.op == "call_function" and n.target is F.mse_loss and n.kwargs.get("weight", 0) is None:
            n.kwargs = {k: v for k, v in n.kwargs.items() if k != "weight"}
        if n.op == "call_function" and n.target is _traced_iadd:
            n.target = operator.iadd
    return torch.fx.GraphModule(mod, graph)


_NAMES: Dict[int, str] = {}


def _init_names() -> None:
    if _NAMES:
        return
    import unit_scaling.functional as U
    from unit_scaling.transforms import _simulate_format as sf

    table = {
        "F.linear": F.linear, "F.sdpa": F.scaled_dot_product_attention, "F.gelu": F.gelu, "F.silu": F.silu,
        "F.softmax": F.softmax, "F.dropout": F.dropout, "F.layer_norm": F.layer_norm, "F.embedding": F.embedding,
        "F.conv1d": F.conv1d, "F.cross_entropy": F.cross_entropy, "F.mse_loss": F.mse_loss, "F.relu": F.relu,
        "F.rms_norm": F.rms_norm, "torch.matmul": torch.matmul, "torch.add": torch.add, "torch.tanh": torch.tanh,
        "torch.neg": torch.neg, "torch.cat": torch.cat, "torch.stack": torch.stack,
        "op.add": operator.add, "op.iadd": operator.iadd, "op.mul": operator.mul, "op.getitem": operator.getitem,
        "op.neg": operator.neg, "op.ge": operator.ge, "op.matmul": operator.matmul,
        "U.linear": U.linear, "U.sdpa": U.scaled_dot_product_attention, "U.gelu": U.gelu, "U.silu": U.silu,
        "U.softmax": U.softmax, "U.dropout": U.dropout, "U.layer_norm": U.layer_norm, "U.embedding": U.embedding,
        "U.conv1d": U.conv1d, "U.cross_entropy": U.cross_entropy, "U.mse_loss": U.mse_loss, "U.matmul": U.matmul,
        "U.add": U.add, "U.rms_norm": U.rms_norm, "U.residual_split": U.residual_split, "U.residual_add": U.residual_add,
        "Q.linear": sf._quantised_linear, "Q.u_linear": sf._quantised_u_linear,
        "Q.sdpa": sf._quantised_scaled_dot_product_attention, "Q.u_sdpa": sf._quantised_u_scaled_dot_product_attention,
    }
    for n, f in table.items():
        _NAMES.setdefault(id(f), n)


def target_name(t: Any) -> str:
    _init_names()
    if isinstance(t, str):
        return t
    if id(t) in _NAMES:
        return _NAMES[id(t)]
    return f"{getattr(t, '__module__', '?')}.{getattr(t, '__qualname__', getattr(t, '__name__', repr(t)))}"


def serialise(graph: torch.fx.Graph, meta_keys: Tuple[str, ...] = ()) -> List[Dict[str, Any]]:
    """Nodes in graph order; references to nodes become positions."""
    nodes = list(graph.nodes)
    pos = {n: i for i, n in enumerate(nodes)}

    def arg(a: Any) -> Any:
        if isinstance(a, torch.fx.Node):
            return {"ref": pos[a]}
        if isinstance(a, (list, tuple)):
            return {"seq": [arg(x) for x in a], "tuple": isinstance(a, tuple)}
        if isinstance(a, dict):
            return {"seq": [arg(v) for v in a.values()], "tuple": False}
        if isinstance(a, slice):
            return {"seq": [arg(a.start), arg(a.stop), arg(a.step)], "tuple": True}
        if isinstance(a, torch.Tensor):
            return {"lit": "tensor"}
        return {"lit": repr(a)}

    out = []
    for n in nodes:
        d: Dict[str, Any] = {"op": n.op, "target": target_name(n.target), "args": [arg(a) for a in n.args],
                             "kwargs": sorted([[k, arg(v)] for k, v in n.kwargs.items()], key=lambda kv: kv[0])}
        for mk in meta_keys:
            if mk in n.meta:
                d[mk] = n.meta[mk]
        out.append(d)
    return out
