"""A user-written scaled op built directly on the library's two primitives (as in its how-to notebook), at module level
so that `scale_fwd` / `scale_bwd` are ordinary module globals of the code being traced.  Import only after
`import_repo()` has put the repository under test on the path."""
import torch
from torch import nn
from unit_scaling.scale import scale_bwd, scale_fwd


class CustomScaledOp(nn.Module):
    """backward scales differ from the forward scale, and between activation and weight"""

    def __init__(self, width: int = 8) -> None:
        super().__init__()
        self.w = nn.Parameter(torch.randn(width, width))

    def forward(self, x):  # type: ignore[no-untyped-def]
        x = scale_bwd(x, 0.37)
        w = scale_bwd(self.w, 2.5)
        return scale_fwd(torch.tanh(x @ w), 1.9)
