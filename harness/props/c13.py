"""C13 — nearest-rounding quantisation returns the nearest representable value."""
from __future__ import annotations

import json
import math
import subprocess
from concurrent.futures import ThreadPoolExecutor
from typing import Any, Dict, List, Tuple

from .. import driver
from ..common import DRIVER, Ctx, import_repo

LEVEL = "proof"
EXPLANATION = (
    "Bit-level Lean model of FPFormat.quantise on float32 patterns (clip, power-of-two down-scale with IEEE rounding, "
    "integer add + mask, up-scale). Theorems on the rounding core: result is a multiple of 2^k, one of the two "
    "enclosing multiples, nearest with ties toward zero, idempotent, monotone, sign carried; end to end on VALUES for "
    "E<=7 and in-range normal inputs (closed form of the four stages, |result - x| <= half the format spacing, result is "
    "a format value, no grid point of any binade is closer; representable inputs fixed, result representable and in "
    "range, idempotent, saturation at +-max incl. infinity; below the format's normal range: closed form with the "
    "float32-subnormal rounding of the division, |result - x| <= (1/2 + 2^(M-23)/2) of the subnormal spacing, result "
    "is a subnormal format value or the smallest normal, representable inputs keep their value; monotone on the WHOLE "
    "magnitude range incl. both boundaries; for E=8 on normal inputs below 2^126 quantise IS the integer core on the "
    "input's own pattern, hence all core laws and the half-spacing bound). The check compares the "
    "implementation's output bit patterns with the model's for every generated input (correspondence, exact) and "
    "evaluates the value-level property with an exact oracle (float32 values and format values are exact in float64)."
)
ASSUMPTIONS = ["NaN inputs are outside the domain; for E=8 inputs satisfy |x| < 2^126",
               "float64 arithmetic on float32 values / format values / their differences is exact (<= 53 significant bits)"]
THMS = ["USProofs.C13.round_core_multiple", "USProofs.C13.round_core_neighbour", "USProofs.C13.round_core_nearest",
        "USProofs.C13.round_core_idempotent", "USProofs.C13.round_core_monotone",
        "USProofs.C13.quantise_value_error", "USProofs.C13.quantise_format_value", "USProofs.C13.quantise_fixes_representable",
        "USProofs.C13.quantise_idempotent", "USProofs.C13.quantise_saturates", "USProofs.C13.quantise_sub_value_error",
        "USProofs.C13.quantise_sub_format_value", "USProofs.C13.quantise_monotone_all", "USProofs.C13.quantMag_E8_eq",
        "USProofs.C13.quantise_E8_value_error"]


def fmt_consts(E: int, M: int) -> Dict[str, float]:
    B = 2 ** (E - 1)
    return {"absmax": 2.0 ** (B - 1) * (2 - 2.0 ** -M), "min_normal": 2.0 ** (1 - B), "min_sub": 2.0 ** (1 - B - M), "B": B}


def gen_inputs(np, rng, E: int, M: int, n_rand: int, full_values: bool):
    """uint32 bit patterns: representable values, midpoints, +-4 ulp float32 neighbours, random mantissas per
    float32 exponent, zeros, infinities, saturation edges."""
    c = fmt_consts(E, M)
    B = c["B"]
    vals: List[Any] = []
    # representable magnitudes: subnormals m*2^(1-B-M), normals (2^M+m)*2^(e-B-M), e=1..2^E-1
    n_vals = (2 ** E) * (2 ** M)
    if n_vals <= (1 << 11) or full_values:
        m = np.arange(2 ** M, dtype=np.float64)
        subs = m * c["min_sub"]
        es = np.arange(1, 2 ** E, dtype=np.float64)
        norms = ((2.0 ** M + m)[None, :] * (2.0 ** (es - B - M))[:, None]).reshape(-1)
        reps = np.concatenate([subs, norms])
    else:
        k = 1 << 10
        e = np.array([rng.randrange(0, 2 ** E) for _ in range(k)], dtype=np.float64)
        m = np.array([rng.randrange(0, 2 ** M) for _ in range(k)], dtype=np.float64)
        reps = np.where(e == 0, m * c["min_sub"], (2.0 ** M + m) * 2.0 ** (np.maximum(e, 1) - B - M))
        # always include the extremes of every binade
        es = np.arange(1, 2 ** E, dtype=np.float64)
        reps = np.concatenate([reps, 2.0 ** (es - B), (2 - 2.0 ** -M) * 2.0 ** (es - B), [0.0, c["min_sub"], c["min_normal"], c["absmax"]]])
    reps = np.unique(reps)
    reps = reps[reps < 2.0 ** 128]
    r32 = reps.astype(np.float32)
    r32 = r32[np.isfinite(r32)]
    mids = ((reps[:-1] + reps[1:]) / 2).astype(np.float32)
    base = np.concatenate([r32, mids]).view(np.uint32).astype(np.int64)
    offs = np.arange(-4, 5, dtype=np.int64)
    near = (base[:, None] + offs[None, :]).reshape(-1)
    near = near[(near >= 0) & (near <= 0x7F800000)]
    # random mantissas per float32 exponent
    ex = np.repeat(np.arange(0, 255, dtype=np.int64), n_rand)
    ma = np.array([rng.getrandbits(23) for _ in range(len(ex))], dtype=np.int64)
    rnd = ex * (1 << 23) + ma
    # saturation edges
    am = np.array([c["absmax"]], dtype=np.float64).astype(np.float32).view(np.uint32).astype(np.int64)
    edges = np.concatenate([am + np.arange(-8, 9), [0, 1, 2, 0x7F800000, 0x7F7FFFFF, 0x00800000, 0x007FFFFF]])
    edges = edges[(edges >= 0) & (edges <= 0x7F800000)]
    mag = np.unique(np.concatenate([near, rnd, edges]))
    if E == 8:
        mag = mag[mag < ((126 + 127) << 23)]
    bits = np.concatenate([mag, mag + (1 << 31)]).astype(np.uint32)
    return bits


def oracle(np, ctx: Ctx, E: int, M: int, x_bits, y_bits, y2_bits, phase: str = "") -> None:
    """Value-level clauses of the property, evaluated exactly in float64."""
    c = fmt_consts(E, M)
    x = x_bits.view(np.float32).astype(np.float64)
    y = y_bits.view(np.float32).astype(np.float64)
    key = {"E": E, "M": M, "phase": phase} if phase else {"E": E, "M": M}
    ax = np.minimum(np.abs(x), c["absmax"])  # range-clamped magnitude (inf -> absmax)
    ay = np.abs(y)
    with np.errstate(divide="ignore", invalid="ignore"):
        ex = np.floor(np.log2(np.where(ax > 0, ax, 1.0)))
    # log2 of exact powers of two is exact in IEEE; guard against off-by-one for safety
    ex = np.where(2.0 ** ex > ax, ex - 1, ex)
    ex = np.where(2.0 ** (ex + 1) <= ax, ex + 1, ex)
    ulp = np.where(ax >= c["min_normal"], 2.0 ** (ex - M), c["min_sub"])
    lower = np.floor(ax / ulp) * ulp
    upper = np.where(lower == ax, ax, lower + ulp)
    upper = np.minimum(upper, c["absmax"])

    def report(name: str, what: str, mask) -> None:
        idx = np.nonzero(mask)[0]
        if len(idx):
            i = int(idx[0])
            ctx.violation(f"C13:{name}", what, {**key, "x_bits": int(x_bits[i]), "x": float(x[i])},
                          {"y_bits": int(y_bits[i]), "y": float(y[i]), "lower": float(lower[i]), "upper": float(upper[i]),
                           "n_failing": int(len(idx))})

    finite_y = np.isfinite(y)
    report("nonfinite", "result is not finite", ~finite_y)
    # representable: |y| is a multiple of its own spacing and within range
    with np.errstate(divide="ignore", invalid="ignore"):
        ey = np.floor(np.log2(np.where(ay > 0, ay, 1.0)))
    ey = np.where(2.0 ** ey > ay, ey - 1, ey)
    ey = np.where(2.0 ** (ey + 1) <= ay, ey + 1, ey)
    ulp_y = np.where(ay >= c["min_normal"], 2.0 ** (ey - M), c["min_sub"])
    rep = finite_y & (np.floor(ay / ulp_y) * ulp_y == ay) & (ay <= c["absmax"])
    report("representable", "result is not representable in the format", finite_y & ~rep)
    sign_ok = (np.signbit(y) == np.signbit(x))
    report("sign", "sign not preserved", finite_y & ~sign_ok)
    neigh = (ay == lower) | (ay == upper)
    report("neighbour", "result is not one of the two representable neighbours of the (clamped) input", finite_y & ~neigh)
    slack = 2.0 ** (M - 23) * (upper - lower)
    nearest = np.abs(ay - ax) <= np.minimum(ax - lower, upper - ax) + slack
    report("nearest", "result is farther than the nearer neighbour + 2^(M-23) of the spacing", finite_y & neigh & ~nearest)
    sat = np.abs(x) >= c["absmax"]
    report("saturate", "input beyond the range does not saturate to +-max", sat & (ay != c["absmax"]))
    report("fix-representable", "a representable input is changed", (lower == ax) & (np.abs(x) <= c["absmax"]) & (y != x))
    report("idempotent", "quantising twice differs from quantising once", y2_bits != y_bits)
    # odd symmetry: inputs come in +- pairs (second half = first half with the sign bit set)
    h = len(x_bits) // 2
    report("odd", "q(-x) != -q(x)", np.concatenate([(y_bits[:h] ^ np.uint32(1 << 31)) != y_bits[h:], np.zeros(len(x_bits) - h, dtype=bool)]))
    # monotone non-decreasing
    order = np.argsort(x, kind="stable")
    ys = y[order]
    bad = np.nonzero(ys[1:] < ys[:-1])[0]
    if len(bad):
        i, j = int(order[bad[0]]), int(order[bad[0] + 1])
        ctx.violation("C13:monotone", "quantisation is not monotone non-decreasing",
                      {**key, "x_bits": [int(x_bits[i]), int(x_bits[j])]}, {"y": [float(y[i]), float(y[j])]})


def run(ctx: Ctx) -> None:
    import_repo()
    import numpy as np
    import torch
    from unit_scaling.formats import FPFormat

    rng = ctx.rng
    quick = ctx.tier == "quick"
    n_rand = 4 if quick else 1 << 7
    ctx.rule = ("all 168 formats E in 2..8, M in 0..23; per format: every representable value (all, or a sample + binade "
                "extremes when > 2^15), every midpoint, their +-4-ulp float32 neighbours, random mantissas per float32 "
                "exponent, +-0, +-inf, saturation edges, both signs; thorough adds all 2^32 patterns for E4M3 and E5M2 via "
                "block checksums; after that, other library entry points are used (simulate_fp8, simulate_format, unit_scale, "
                "track_scales, an optimizer step) and every format is swept again on a reduced input set. "
                "distinct = distinct (format, bit pattern).")
    formats = [(E, M) for E in range(2, 9) for M in range(0, 24)]
    total = 0
    model_jobs: List[Tuple[int, int, Any, Any]] = []
    def model_bits(E: int, M: int, bits):
        """the model's output patterns, requested in chunks answered in parallel (nothing is kept between formats)"""
        step = 200000
        reqs = [{"k": "quant", "E": E, "M": M, "mode": "nearest", "bits": bits[i:i + step].tolist()}
                for i in range(0, len(bits), step)]

        def one(rq):
            return np.array(driver.ask([rq], timeout=1800)[0]["out"], dtype=np.uint32)

        with ThreadPoolExecutor(max_workers=8) as ex:
            parts = list(ex.map(one, reqs))
        return np.concatenate(parts) if parts else np.zeros(0, dtype=np.uint32)

    def library_history() -> None:
        """Other entry points of the library, used the way a training script would use them before it quantises something:
        the result of `quantise` is a function of the format and the input only, not of what ran earlier in the process."""
        import unit_scaling as uu
        from unit_scaling.transforms import simulate_format, simulate_fp8, track_scales, unit_scale
        from unit_scaling.formats import format_to_tuple  # noqa: F401

        class Net(torch.nn.Module):
            def __init__(self) -> None:
                super().__init__()
                self.l1 = uu.Linear(8, 16)
                self.l2 = uu.Linear(16, 8)

            def forward(self, x):  # type: ignore[no-untyped-def]
                return self.l2(uu.functional.gelu(self.l1(x)))

        torch.manual_seed(0)
        for tr in (simulate_fp8, lambda m: simulate_format(m, FPFormat(5, 2), FPFormat(4, 3)), unit_scale, track_scales):
            net = tr(Net())
            xx = torch.randn(4, 8, requires_grad=True)
            net(xx).sum().backward()
        opt = uu.optim.AdamW(Net().parameters(), lr=0.1)
        opt.step()

    # ---- the three range properties against the model's transcription (exact rationals; the theorems `val_absmaxBits`,
    #      `max_is_top_encoding`, `fmtVal_le_max`, `min_normal_spec`, `min_subnormal_spec` are about these definitions)
    if ctx.driver_ok:
        from fractions import Fraction
        import struct
        rr = driver.ask([{"k": "range", "E": E, "M": M} for (E, M) in formats])
        for (E, M), r in zip(formats, rr):
            f = FPFormat(E, M, "nearest")
            got = {"max": Fraction(f.max_absolute_value), "min_normal": Fraction(f.min_absolute_normal),
                   "min_subnormal": Fraction(f.min_absolute_subnormal)}
            want = {k_: Fraction(r[k_]) for k_ in got}
            bits_val = Fraction(struct.unpack("<f", struct.pack("<I", r["absmax_bits"]))[0])
            if got != want or bits_val != want["max"]:
                ctx.disagree("range_properties", {"E": E, "M": M}, {k_: str(v_) for k_, v_ in want.items()},
                             {**{k_: str(v_) for k_, v_ in got.items()}, "value_of_clip_pattern": str(bits_val)}, THMS)
            ctx.bump("range-properties")

    sample_bits = None
    for phase, (E, M) in [("fresh", fm) for fm in formats] + [("history", (0, 0))] + [("after-library-use", fm) for fm in formats]:
        if phase == "history":
            with ctx.guard("C13:library-history", {"phase": phase}):
                library_history()
            continue
        later = phase != "fresh"
        f = FPFormat(E, M, "nearest")
        c = fmt_consts(E, M)
        key = {"E": E, "M": M, "phase": phase} if later else {"E": E, "M": M}
        # range properties = extremes of the value set
        if not (f.max_absolute_value == c["absmax"] and f.min_absolute_normal == c["min_normal"]
                and f.min_absolute_subnormal == c["min_sub"]):
            ctx.violation("C13:range-props", "max / min-normal / min-subnormal differ from the extremes of the value set", key,
                          [f.max_absolute_value, f.min_absolute_normal, f.min_absolute_subnormal])
        bits = gen_inputs(np, rng, E, M, 1 if later else n_rand,
                          full_values=not later and not quick and (2 ** E) * (2 ** M) <= (1 << 20))
        x = torch.from_numpy(bits.view(np.float32).copy())
        x0 = x.clone()
        y = y2 = None
        with ctx.guard("C13:call", key):
            y = f.quantise(x)
            y2 = f.quantise(y)
        if y is None:
            continue
        if not torch.equal(x.view(torch.int32), x0.view(torch.int32)):
            ctx.violation("C13:mutated", "quantise modified its argument", key)
        if y.dtype != torch.float32 or y.shape != x.shape:
            ctx.violation("C13:shape-dtype", "shape/dtype not preserved", key, [str(y.dtype), list(y.shape)])
            continue
        yb = y.numpy().view(np.uint32)
        oracle(np, ctx, E, M, bits, yb, y2.numpy().view(np.uint32), phase if later else "")
        total += 0 if later else len(bits)
        ctx.evaluations += len(bits)
        ctx.bump(f"E{E}/after-library-use" if later else f"E{E}", len(bits))
        if sample_bits is None and len(bits) > 5:
            sample_bits = {"E": E, "M": M, "x_bits": int(bits[5])}
        # ---- correspondence with the Lean model: identical bit patterns (streamed per format)
        if ctx.driver_ok and not later:
            mo = model_bits(E, M, bits)
            diff = np.nonzero(mo != yb)[0]
            if len(diff):
                i = int(diff[0])
                ctx.disagree("quantise_bits", {"E": E, "M": M, "x_bits": int(bits[i]), "n_differing": int(len(diff))},
                             int(mo[i]), int(yb[i]), THMS)
            del mo
        del x, x0, y, y2, yb, bits
    ctx.distinct_extra += total  # every (format, pattern) pair is distinct by construction (np.unique)
    ctx.samples = [sample_bits] if sample_bits else []

    # ---- tensors of rank 0-3, empty, non-contiguous, four dtypes
    for (E, M) in [(4, 3), (5, 2), (2, 1), (8, 7), (3, 0), (5, 10), (8, 23), (4, 7), (3, 7), (5, 7), (4, 10), (3, 10)] + [rng.choice(formats) for _ in range(6 if quick else 60)]:
        f = FPFormat(E, M, "nearest")
        c = fmt_consts(E, M)
        for dt in (torch.float32, torch.float64, torch.bfloat16, torch.float16):
            # the format's values must be exactly representable in the dtype
            probe = torch.tensor([c["absmax"], c["min_sub"], c["min_normal"] * (1 + 2.0 ** -M)], dtype=torch.float64)
            if not torch.equal(probe.to(dt).to(torch.float64), probe):
                continue
            scale = min(c["absmax"], 8.0)
            shapes = [(), (0,), (5,), (3, 4), (2, 0, 3), (2, 3, 4)]
            for shape in shapes:
                key = {"E": E, "M": M, "dtype": str(dt), "shape": list(shape)}
                ctx.count(key, bucket="tensors")
                x = torch.randn(shape, dtype=torch.float64) * scale
                # a good part of the entries lies below the format's smallest normal value (its subnormal range)
                x = torch.where(torch.rand(shape, dtype=torch.float64) < 0.4,
                                torch.randn(shape, dtype=torch.float64) * c["min_normal"] * 1.5, x).to(dt)
                variants = [("contiguous", x)]
                if len(shape) >= 2 and x.numel():
                    variants.append(("transposed", x.transpose(0, -1)))
                    variants.append(("strided", x[..., ::2]))
                for vname, xv in variants:
                    x0 = xv.clone()
                    y = None
                    with ctx.guard("C13:tensor-call", {**key, "layout": vname}):
                        y = f.quantise(xv)
                    if y is None:
                        continue
                    if y.shape != xv.shape or y.dtype != xv.dtype:
                        ctx.violation("C13:shape-dtype", "shape/dtype not preserved", {**key, "layout": vname},
                                      [list(y.shape), str(y.dtype)])
                        continue
                    if not torch.equal(xv, x0):
                        ctx.violation("C13:mutated", "quantise modified its argument", {**key, "layout": vname})
                    # same values as quantising the float32 copy
                    ref = f.quantise(x0.to(torch.float32).contiguous()).to(dt)
                    if not torch.equal(y, ref):
                        ctx.violation("C13:dtype-value", "result differs from quantising the float32 copy", {**key, "layout": vname})

    # ---- the process-wide default dtype is not an argument of quantise
    old_default = torch.get_default_dtype()
    try:
        for (E, M) in [(5, 10), (4, 3), (6, 9), (3, 8), (8, 7), (2, 1)]:
            f = FPFormat(E, M, "nearest")
            mx = f.max_absolute_value
            xs_ = torch.tensor([0.3, -1.7, mx, mx * (1 + 2.0 ** -12), mx * 1.5, -mx * 4, mx * (1 - 2.0 ** -(M + 2)),
                                f.min_absolute_subnormal * 0.6, -f.min_absolute_normal * 1.3], dtype=torch.float32)
            want = want0 = None
            with ctx.guard("C13:default-dtype:float32", {"E": E, "M": M}):
                want = f.quantise(xs_)
                want0 = f.quantise(torch.tensor(-mx * 2, dtype=torch.float32))
            if want is None or want0 is None:
                continue
            for dd in (torch.float64, torch.bfloat16, torch.float16):
                key = {"E": E, "M": M, "default_dtype": str(dd)}
                ctx.count(key, bucket="default-dtype")
                try:
                    torch.set_default_dtype(dd)
                    with ctx.guard("C13:default-dtype", key):
                        got = f.quantise(xs_)
                        got0 = f.quantise(torch.tensor(-mx * 2, dtype=torch.float32))
                        if got.dtype != torch.float32 or not torch.equal(got, want) or not torch.equal(got0, want0):
                            ctx.violation("C13:default-dtype", "the result for a float32 tensor depends on torch's global default dtype",
                                          key, {"got": got.tolist()[:6], "want": want.tolist()[:6]})
                finally:
                    torch.set_default_dtype(old_default)
    finally:
        torch.set_default_dtype(old_default)

    # ---- thorough: every float32 bit pattern for the FP8 formats, by block checksums on all cores
    if not quick and ctx.driver_ok:
        for (E, M) in [(4, 3), (5, 2)]:
            f = FPFormat(E, M, "nearest")
            nblk = 256
            size = (1 << 32) // nblk

            def impl_sum(b):
                lo = b * size
                bits = np.arange(lo, lo + size, dtype=np.uint64).astype(np.uint32)
                mag = bits & np.uint32(0x7FFFFFFF)
                keep = mag <= np.uint32(0x7F800000)
                y = f.quantise(torch.from_numpy(bits.view(np.float32).copy())).numpy().view(np.uint32)
                s = (y[keep].astype(np.uint64) * (2 * bits[keep].astype(np.uint64) + np.uint64(1)))
                return int(s.sum(dtype=np.uint64))

            def model_sum(b):
                lo = b * size
                r = driver.ask([{"k": "quantblock", "E": E, "M": M, "lo": lo, "hi": lo + size}], timeout=3600)[0]
                return int(r["sum"])

            with ThreadPoolExecutor(max_workers=16) as ex:
                ms = list(ex.map(model_sum, range(nblk)))
            for b in range(nblk):
                isum = impl_sum(b)
                if isum != ms[b]:
                    ctx.disagree("quantise_bits_exhaustive", {"E": E, "M": M, "block": b, "lo": b * size}, ms[b], isum, THMS)
            ctx.evaluations += (1 << 32) - 2 * ((1 << 23) - 1)
            ctx.distinct_extra += (1 << 32) - 2 * ((1 << 23) - 1)
            ctx.extra[f"exhaustive_E{E}M{M}"] = "all 2^32 float32 patterns (NaNs excluded) compared by block checksum"
        ctx.exhaustive = True
