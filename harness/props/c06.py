"""C06 — residual split/add: normalised mix, delayed branch scaling, true input gradient."""
from __future__ import annotations

import math
from typing import Any, Callable, List, Tuple

from .. import driver
from ..common import Ctx, b2f, f2b, import_repo, rel_close

LEVEL = "proof"
EXPLANATION = (
    "Theorems over an arbitrary branch DOp on any real inner-product space: weights^2 sum to 1, forward closed form "
    "(x + tau f(x))/sqrt(1+tau^2), branch receives the upstream gradient unattenuated, VJP closed form, true "
    "derivative (HasFDerivAt + adjoint), apply = split/f/add, stacks of any depth by induction. The check evaluates "
    "these clauses on real tensors in float64 against plain-torch closed forms (oracle) and the model's weights "
    "(correspondence)."
)
ASSUMPTIONS = ["branch functions are drawn from a family of differentiable maps; for unit-scaled branches the reference "
               "gradient is the branch's own backward (library semantics)"]
THMS = ["USProofs.C06.apply_fwd", "USProofs.C06.apply_vjp", "USProofs.C06.apply_fwd_tau", "USProofs.C06.weights_sq"]


def run(ctx: Ctx) -> None:
    import_repo()
    import torch
    import unit_scaling.functional as U

    torch.set_num_threads(1)
    rng = ctx.rng
    quick = ctx.tier == "quick"
    n_cases = 300 if quick else 8000
    ctx.rule = ("tau log-uniform in [1e-3,1e3] plus {1, 1.5, 0.5}; shapes of rank 0-3; branch family {affine, tanh, gelu, "
                "composition, U.gelu, U.linear}; single layers and stacks of 1-8 sequential / nested layers. distinct = "
                "distinct (tau(s), shape, branch, structure).")
    dt = torch.float64

    def branches(shape: Tuple[int, ...]) -> List[Tuple[str, Callable, bool]]:
        n = shape[-1] if shape else 1
        A = torch.randn(n, n, dtype=dt) / max(n, 1) ** 0.5
        b = torch.randn(n, dtype=dt)
        Wl = torch.randn(n, n, dtype=dt)
        out = [
            ("tanh", torch.tanh, True),
            ("gelu", torch.nn.functional.gelu, True),
            ("square", lambda z: 0.5 * z * z - z, True),
            ("compose", lambda z: torch.tanh(1.7 * torch.sin(z) + 0.3), True),
            ("U.gelu", lambda z: U.gelu(z, constraint=None), False),
        ]
        if shape:
            out.append(("affine", lambda z: z @ A + b, True))
            out.append(("U.linear", lambda z: U.linear(z, Wl, None, constraint=None), False))
        return out

    def closed(x, tau, f):
        return (x + tau * f(x)) / math.sqrt(1 + tau * tau)

    wreqs, wcases = [], []
    for ci in range(n_cases):
        tau = rng.choice([1.0, 1.5, 0.5]) if ci % 10 == 0 else math.exp(rng.uniform(math.log(1e-3), math.log(1e3)))
        shape = tuple(rng.choice([2, 3, 5, 7]) for _ in range(rng.randint(0, 3)))
        name, f, smooth = rng.choice(branches(shape))
        key = {"tau": tau, "shape": list(shape), "branch": name}
        ctx.count(key, bucket=f"single/{name}")
        x0 = torch.randn(shape, dtype=dt)
        g = torch.randn(shape, dtype=dt)
        if ci % 3 == 0:
            # the same layer in lower precision first: nothing may leak into the float64 call (e.g. cached scale tensors)
            for wdt in (torch.bfloat16, torch.float32):
                try:
                    xw = x0.to(wdt).requires_grad_(True)
                    U.residual_apply(torch.tanh, xw, tau).sum().backward()
                except Exception:
                    pass
        ok = False
        with ctx.guard("C06:call", key):
            # split / f / add, with a hook on the branch output
            x = x0.clone().requires_grad_(True)
            res, skip = U.residual_split(x, tau)
            seen = {}
            r = f(res)
            r.register_hook(lambda gr: seen.__setitem__("g", gr.clone()))
            y = U.residual_add(r, skip, tau)
            (gx,) = torch.autograd.grad(y, x, g)
            # residual_apply
            xa = x0.clone().requires_grad_(True)
            ya = U.residual_apply(f, xa, tau)
            (gxa,) = torch.autograd.grad(ya, xa, g)
            ok = True
        if not ok:
            continue
        # reference: plain torch closed form; its derivative (smooth branches) or the branch's own VJP
        xr = x0.clone().requires_grad_(True)
        yr = closed(xr, tau, f)
        if smooth:
            (gref,) = torch.autograd.grad(yr, xr, g)
        else:
            fr = f(xr)
            (vf,) = torch.autograd.grad(fr, xr, g)
            gref = (g + tau * vf) / math.sqrt(1 + tau * tau)
        if not torch.allclose(y.detach(), yr.detach(), rtol=1e-12, atol=1e-13):
            ctx.violation("C06:forward", "split/f/add does not compute (x + tau f(x))/sqrt(1+tau^2)", key,
                          float((y.detach() - yr.detach()).abs().max()))
        if not torch.allclose(gx, gref, rtol=1e-11, atol=1e-12):
            ctx.violation("C06:input-grad", "gradient at x is not the derivative of (x + tau f(x))/sqrt(1+tau^2)", key,
                          float((gx - gref).abs().max()))
        if "g" not in seen or not torch.equal(seen["g"], g):
            ctx.violation("C06:branch-grad", "upstream gradient arrives attenuated inside the branch", key)
        if not torch.equal(ya.detach(), y.detach()) or not torch.equal(gxa, gx):
            ctx.violation("C06:apply-vs-split-add", "residual_apply differs from the split / f / add sequence", key,
                          {"out": float((ya.detach() - y.detach()).abs().max()), "grad": float((gxa - gx).abs().max())})
        # weights: measured by probing residual_add / residual_split
        one, zero = torch.ones(2, dtype=dt), torch.zeros(2, dtype=dt)
        wr, ws = float(U.residual_add(one, zero, tau)[0]), float(U.residual_add(zero, one, tau)[0])
        xs = torch.ones(2, dtype=dt, requires_grad=True)
        a_, b_ = U.residual_split(xs, tau)
        br = float(torch.autograd.grad(a_.sum(), xs, retain_graph=True)[0][0])
        bs = float(torch.autograd.grad(b_.sum(), xs)[0][0])
        d = math.sqrt(1 + tau * tau)
        if not (rel_close(wr, tau / d, 1e-12) and rel_close(ws, 1 / d, 1e-12) and rel_close(br, tau / d, 1e-12)
                and rel_close(bs, 1 / d, 1e-12) and rel_close(wr * wr + ws * ws, 1.0, 1e-12)):
            ctx.violation("C06:weights", "mixing weights are not (tau, 1)/sqrt(1+tau^2) in forward (add) and backward (split)",
                          key, {"add": [wr, ws], "split": [br, bs]})
        wreqs.append({"k": "scale", "op": "residual", "tau": f2b(tau)})
        wcases.append((key, wr, ws, br, bs))

    # ---- "arbitrary values", tau up to 1e3, in the narrow dtypes: the result (x + tau f(x))/sqrt(1+tau^2) is about the size of
    #      f(x), so wherever x, f(x) and that result are representable nothing may overflow on the way (each operand is
    #      weighted by a factor <= 1 before the sum)
    for ci, (wdt, mag) in enumerate(((torch.float16, 100.0), (torch.float16, 400.0), (torch.float32, 1e36), (torch.bfloat16, 1e36))):
        for tau in (300.0, 1000.0, 30.0):
            key = {"tau": tau, "dtype": str(wdt), "magnitude": mag, "branch": "x -> -0.5 x"}
            ctx.count(key, bucket="range")
            xv = (torch.tensor([1.0, -0.75, 0.5, 1.25], dtype=torch.float64) * mag)
            f_ = lambda t: t * -0.5  # noqa: E731
            with ctx.guard("C06:call", key):
                xw = xv.to(wdt).requires_grad_(True)
                res, skip = U.residual_split(xw, tau)
                y = U.residual_add(f_(res), skip, tau)
                ya = U.residual_apply(f_, xv.to(wdt), tau)
                want = (xv.to(wdt).double() + tau * f_(xv.to(wdt).double())) / math.sqrt(1 + tau * tau)
                tol_ = {torch.float16: 2e-3, torch.bfloat16: 2e-2, torch.float32: 1e-5}[wdt]
                for nm_, got_ in (("split/f/add", y), ("residual_apply", ya)):
                    if not bool(torch.isfinite(got_).all()) or not torch.allclose(got_.double(), want, rtol=tol_, atol=0):
                        ctx.violation("C06:forward", f"{nm_} does not compute (x + tau f(x))/sqrt(1+tau^2) for large but representable "
                                      "values (overflow of an intermediate)", key, {"got": got_.double().tolist(), "want": want.tolist()})
                        break

    # ---- the layer input does not require grad, the branch has trainable parameters: the gradient arriving inside the
    #      branch (and hence the branch's weight gradient) must still be the unattenuated upstream gradient
    for ci in range(20 if quick else 400):
        tau = math.exp(rng.uniform(math.log(1e-2), math.log(1e2)))
        n = rng.choice([3, 5])
        key = {"frozen_input": True, "tau": tau, "n": n, "via": "apply" if ci % 2 else "split-add"}
        ctx.count(key, bucket="frozen-input")
        W = torch.randn(n, n, dtype=dt, requires_grad=True)
        x = torch.randn(4, n, dtype=dt)           # requires_grad = False
        g = torch.randn(4, n, dtype=dt)
        with ctx.guard("C06:frozen-call", key):
            seen = {}

            def f(z):
                r = torch.tanh(z @ W)
                r.register_hook(lambda gr: seen.__setitem__("g", gr.clone()))
                return r

            if ci % 2:
                y = U.residual_apply(f, x, tau)
            else:
                res, skip = U.residual_split(x, tau)
                y = U.residual_add(f(res), skip, tau)
            (gW,) = torch.autograd.grad(y, W, g)
            Wr = W.detach().clone().requires_grad_(True)
            (gWr,) = torch.autograd.grad(torch.tanh(x @ Wr), Wr, g)
            if "g" not in seen or not torch.equal(seen["g"], g):
                ctx.violation("C06:branch-grad", "upstream gradient arrives attenuated inside the branch (input without grad)", key)
            elif not torch.allclose(gW, gWr, rtol=1e-11, atol=1e-13):
                ctx.violation("C06:branch-weight-grad", "branch weight gradient is not the unattenuated one", key)

    # ---- grad mode and gradient layout: the forward value is the same under torch.no_grad(); an upstream gradient that is
    #      an expanded (stride-0) view gives the same input gradient as its contiguous copy
    for ci in range(10 if quick else 200):
        tau = math.exp(rng.uniform(math.log(1e-2), math.log(1e2)))
        key = {"grad_mode_and_layout": True, "tau": tau, "via": "apply" if ci % 2 else "split-add"}
        ctx.count(key, bucket="grad-mode")
        W = torch.randn(5, 5, dtype=dt)
        fb = lambda z: torch.tanh(z @ W)  # noqa: E731

        def layer(z):
            if ci % 2:
                return U.residual_apply(fb, z, tau)
            r_, s_ = U.residual_split(z, tau)
            return U.residual_add(fb(r_), s_, tau)

        with ctx.guard("C06:grad-mode", key):
            x0 = torch.randn(4, 5, dtype=dt)
            xg = x0.clone().requires_grad_(True)
            y = layer(xg)
            with torch.no_grad():
                y_ng = layer(x0.clone())
            with torch.inference_mode():
                y_im = layer(x0.clone())
            if not torch.equal(y.detach(), y_ng) or not torch.equal(y.detach(), y_im):
                ctx.violation("C06:no-grad-forward", "the layer computes a different value under no_grad / inference_mode", key,
                              float((y.detach() - y_ng).abs().max()))
            up = torch.randn(1, 5, dtype=dt).expand(4, 5)
            (g1,) = torch.autograd.grad(y, xg, up, retain_graph=True)
            (g2,) = torch.autograd.grad(y, xg, up.contiguous())
            if not torch.allclose(g1, g2, rtol=1e-12, atol=0):
                ctx.violation("C06:expanded-upstream", "the input gradient depends on the memory layout of the upstream gradient", key)

    # ---- the branch works in place on what it is given (F.silu(t, inplace=True), t.mul_(c)): split hands it its own
    #      tensor, so neither the skip stream nor the caller's x may change, with or without requires_grad on x
    for ci in range(12 if quick else 200):
        tau = math.exp(rng.uniform(math.log(1e-2), math.log(1e2)))
        rg = ci % 2 == 0
        key = {"inplace_branch": True, "tau": tau, "x_requires_grad": rg, "via": "apply" if ci % 4 < 2 else "split-add"}
        ctx.count(key, bucket="inplace-branch")
        x0 = torch.randn(3, 5, dtype=dt)
        x = x0.clone().requires_grad_(rg)
        with ctx.guard("C06:inplace-call", key):
            def f(z):
                z = z * 1.0 if z.requires_grad and z.is_leaf else z      # a leaf requiring grad cannot be modified in place
                return torch.nn.functional.silu(z.mul_(1.5), inplace=True)

            if ci % 4 < 2:
                y = U.residual_apply(f, x, tau)
            else:
                res, skip = U.residual_split(x, tau)
                y = U.residual_add(f(res), skip, tau)
            want = (x0 + tau * torch.nn.functional.silu(x0 * 1.5)) / math.sqrt(1 + tau * tau)
            if not torch.equal(x.detach(), x0):
                ctx.violation("C06:caller-modified", "an in-place op inside the branch changed the caller's x (split does not hand "
                              "the branch its own tensor)", key)
            elif not torch.allclose(y.detach(), want, rtol=1e-11, atol=1e-13):
                ctx.violation("C06:inplace-forward", "with an in-place branch the layer no longer computes (x + tau f(x))/sqrt(1+tau^2)",
                              key, float((y.detach() - want).abs().max()))

    # ---- stacks: sequential and nested, 1..8 layers
    n_st = 60 if quick else 1500
    for ci in range(n_st):
        depth = rng.randint(1, 8)
        shape = tuple(rng.choice([2, 3, 5]) for _ in range(rng.randint(1, 2)))
        taus = [math.exp(rng.uniform(math.log(1e-2), math.log(1e2))) for _ in range(depth)]
        fam = [b for b in branches(shape) if b[2]]
        fs = [rng.choice(fam) for _ in range(depth)]
        nested = rng.random() < 0.5
        key = {"stack": "nested" if nested else "sequential", "taus": taus, "shape": list(shape),
               "branches": [f[0] for f in fs]}
        ctx.count(key, bucket=f"stack/{'nested' if nested else 'sequential'}/{depth}")
        x0 = torch.randn(shape, dtype=dt)
        g = torch.randn(shape, dtype=dt)

        def impl(x):
            if not nested:
                for tau, (_, f, _) in zip(taus, fs):
                    x = U.residual_apply(f, x, tau)
                return x
            def level(i):
                if i == depth - 1:
                    return fs[i][1]
                inner = level(i + 1)
                return lambda z: fs[i][1](U.residual_apply(inner, z, taus[i + 1]))
            return U.residual_apply(level(0), x, taus[0])

        def ref(x):
            if not nested:
                for tau, (_, f, _) in zip(taus, fs):
                    x = closed(x, tau, f)
                return x
            def level(i):
                if i == depth - 1:
                    return fs[i][1]
                inner = level(i + 1)
                return lambda z: fs[i][1](closed(z, taus[i + 1], inner))
            return closed(x, taus[0], level(0))

        ok = False
        with ctx.guard("C06:stack-call", key):
            xi = x0.clone().requires_grad_(True)
            yi = impl(xi)
            (gi,) = torch.autograd.grad(yi, xi, g)
            ok = True
        if not ok:
            continue
        xr = x0.clone().requires_grad_(True)
        yr = ref(xr)
        (gr,) = torch.autograd.grad(yr, xr, g)
        if not torch.allclose(yi.detach(), yr.detach(), rtol=1e-10, atol=1e-12):
            ctx.violation("C06:stack-forward", "stack of residual layers differs from the closed form", key,
                          float((yi.detach() - yr.detach()).abs().max()))
        if not torch.allclose(gi, gr, rtol=1e-9, atol=1e-11):
            ctx.violation("C06:stack-grad", "stack input gradient is not the derivative of the closed form", key,
                          float((gi - gr).abs().max()))

    # ---- finite differences on a sample
    from torch.autograd import gradcheck
    for _ in range(6 if quick else 60):
        tau = math.exp(rng.uniform(math.log(1e-2), math.log(1e2)))
        x = torch.randn(4, dtype=dt, requires_grad=True)
        key = {"gradcheck": True, "tau": tau}
        ctx.count(key, bucket="gradcheck")
        with ctx.guard("C06:gradcheck-call", key):
            if not gradcheck(lambda z: U.residual_apply(torch.tanh, z, tau), (x,), eps=1e-6, atol=1e-6, rtol=1e-4,
                             raise_exception=False):
                ctx.violation("C06:finite-differences", "residual_apply input gradient disagrees with finite differences", key)

    if ctx.driver_ok:
        for (key, wr, ws, br, bs), r in zip(wcases, driver.ask(wreqs)):
            mr, ms = b2f(r["residual"]), b2f(r["skip"])
            if not (rel_close(mr, wr, 1e-12) and rel_close(ms, ws, 1e-12) and rel_close(mr, br, 1e-12) and rel_close(ms, bs, 1e-12)):
                ctx.disagree("residual_weights", key, [mr, ms], {"add": [wr, ws], "split": [br, bs]}, THMS)
