"""C15 — format simulation = straight-through quantisation exactly at matmul boundaries."""
from __future__ import annotations

import copy
from typing import Any, Dict, List, Optional, Tuple

from .. import driver, fxgraphs as fg
from ..common import Ctx, import_repo

LEVEL = "proof"
EXPLANATION = (
    "Lean model of the quantisation backend (node-wise rewrite with argument splice) and of the straight-through "
    "quantisers as DOps. Theorems: quantise_fwd/bwd specs, quantised op = op on forward-quantised tensor operands with "
    "backward-quantised output gradient, lossless identity, only mapped calls change, well-formed splice, format tuple "
    "round-trip, fp8 instance; a model of Python call binding (tied to the live signatures) with theorems that the spliced "
    "call binds every operand to the parameter of the same name and forwards every other option; the rewritten graph is "
    "well-formed. Check: (a) the real backend on FX graphs of generated modules vs the model's output "
    "graph (exact); (b) the real simulate_format / simulate_fp8 through TorchDynamo vs a reference execution with the "
    "quantisation written by hand from the property text, outputs and all gradients bit for bit."
)
ASSUMPTIONS = ["FPFormat.quantise itself is C13/C14's subject and is used as the primitive of the reference",
               "stochastic rounding is pinned by substituting torch.randint with a function of (shape, high) only",
               "TorchDynamo hands the backend the graph of the module (runtime not modelled)"]
THMS = ["USProofs.C15.backend_nodes", "USProofs.C15.backend_replaced", "USProofs.C15.backend_replaced_two_args",
        "USProofs.C15.backend_other_unchanged", "USProofs.C15.format_roundtrip"]


def run(ctx: Ctx) -> None:
    import_repo()
    import torch
    import torch.nn.functional as F
    from torch import nn
    import unit_scaling.functional as U
    from unit_scaling.formats import FPFormat
    from unit_scaling.transforms import simulate_format, simulate_fp8
    from unit_scaling.transforms._simulate_format import _quantisation_backend
    from unit_scaling.transforms._unit_scale import unit_scaling_backend

    torch.set_num_threads(2)
    rng = ctx.rng
    quick = ctx.tier == "quick"
    ctx.rule = ("generated module graphs (depth 1-12) over {linear with bias positional / keyword / absent, attention "
                "with/without mask/causal/dropout_p=0, their unit-scaled forms, elementwise ops, norms, adds, reshapes, "
                "torch.nn wrappers} x format pairs {lossless E8M23, nearest E4M3/E5M2/E2M1/E3M0, stochastic with explicit "
                "srbits, fp8 default}; direct backend calls and the real Dynamo path. distinct = distinct (program, formats).")
    real_randint = torch.randint

    def pinned_randint(low, high, size, dtype=None, device=None, **kw):
        n = 1
        for d in size:
            n *= d
        r = (torch.arange(n, dtype=torch.int64) * 7919 + 13) % (high - low) + low
        pinned_randint.highs.append(high)
        return r.reshape(tuple(size)).to(dtype or torch.int64)

    pinned_randint.highs = []  # type: ignore[attr-defined]

    def fmt_pairs() -> List[Tuple[Any, Any, str]]:
        ps = [(FPFormat(8, 23, "nearest"), FPFormat(8, 23, "nearest"), "lossless"),
              (FPFormat(4, 3, "nearest"), FPFormat(5, 2, "nearest"), "rn-fp8"),
              (FPFormat(2, 1, "nearest"), FPFormat(3, 0, "nearest"), "rn-tiny"),
              (FPFormat(4, 3, "stochastic", srbits=3), FPFormat(5, 2, "stochastic", srbits=5), "sr-bits"),
              (FPFormat(4, 3), FPFormat(5, 2), "sr-default"),
              (FPFormat(8, 23, "nearest"), FPFormat(3, 1, "nearest"), "bwd-only"),
              (FPFormat(3, 2, "nearest"), FPFormat(8, 23, "nearest"), "fwd-only"),
              # all 23 mantissa bits kept: nothing to round, whatever the rounding mode
              (FPFormat(8, 23), FPFormat(8, 23), "lossless-sr")]
        return ps

    def fmt_json(f) -> Dict[str, Any]:
        return {"E": f.exponent_bits, "M": f.mantissa_bits, "rounding": f.rounding, "srbits": f.srbits}

    # reference straight-through quantisers written from the property text
    def make_ref(fwd, bwd):
        class QFwd(torch.autograd.Function):
            @staticmethod
            def forward(c, x):
                return fwd.quantise(x)

            @staticmethod
            def backward(c, g):
                return g

        class QBwd(torch.autograd.Function):
            @staticmethod
            def forward(c, x):
                return x.clone() if False else x.view_as(x)

            @staticmethod
            def backward(c, g):
                return bwd.quantise(g)

        return QFwd.apply, QBwd.apply

    def ref_table(fwd, bwd, unit: bool = False) -> fg.FnTable:
        qf, qb = make_ref(fwd, bwd)
        T = fg.FnTable()
        lin = U.linear if unit else F.linear
        sd = U.scaled_dot_product_attention if unit else F.scaled_dot_product_attention

        def linear(x, w, bias=None):
            return qb(lin(qf(x), qf(w), bias))

        def sdpa(q, k, v, **kw):
            return qb(sd(qf(q), qf(k), qf(v), **kw))

        T.linear, T.sdpa = linear, sdpa
        T.inline_nn = True
        return T

    def hand_quantise(gm, fwd, bwd):
        """Reference for graphs that already contain unit-scaled ops: every linear / attention call node is wrapped so
        that its tensor operands are forward-quantised and its output gradient backward-quantised; every other argument
        (bias, constraint, mask, mult, ...) reaches the original function exactly as the node gave it."""
        qf, qb = make_ref(fwd, bwd)
        operands = {F.linear: ("input", "weight"), U.linear: ("input", "weight"),
                    F.scaled_dot_product_attention: ("query", "key", "value"),
                    U.scaled_dot_product_attention: ("query", "key", "value")}

        def wrap(fn, names):
            def hand_quantised(*args, **kw):
                args = list(args)
                for j, nm in enumerate(names):
                    if j < len(args):
                        args[j] = qf(args[j])
                    elif nm in kw:
                        kw[nm] = qf(kw[nm])
                return qb(fn(*args, **kw))
            return hand_quantised

        for n in gm.graph.nodes:
            if n.op == "call_function" and n.target in operands:
                n.target = wrap(n.target, operands[n.target])
        gm.recompile()
        return gm

    def grads_of(mod, xs, seed):
        torch.manual_seed(seed)
        for p in mod.parameters():
            p.grad = None
        ins = [x.clone().requires_grad_(True) if x.is_floating_point() else x for x in xs]
        y = mod(*ins)
        ys = y if isinstance(y, tuple) else (y,)
        g = torch.Generator().manual_seed(seed + 1)
        loss = sum((t * torch.randn(t.shape, generator=g)).sum() for t in ys)
        loss.backward()
        return ([t.detach().clone() for t in ys], [i.grad.detach().clone() for i in ins if i.is_floating_point()],
                {n: (None if p.grad is None else p.grad.detach().clone()) for n, p in mod.named_parameters()})

    def equal_runs(a, b) -> Optional[str]:
        (y1, gi1, gp1), (y2, gi2, gp2) = a, b
        for u, v in zip(y1, y2):
            if u.shape != v.shape or not torch.equal(u, v):
                return "output"
        for u, v in zip(gi1, gi2):
            if not torch.equal(u, v):
                return "input-gradient"
        k1 = {k.split(".")[-1]: v for k, v in gp1.items()}
        k2 = {k.split(".")[-1]: v for k, v in gp2.items()}
        for k in k1:
            u, v = k1[k], k2.get(k)
            if (u is None) != (v is None) or (u is not None and not torch.equal(u, v)):
                return f"parameter-gradient:{k}"
        return None

    # ---------------- the two primitives, on sequences of formats that share E/M but differ in rounding mode / random-bit
    #                  count (fewer bits first): each call must use the format it was called on
    torch.randint = pinned_randint
    try:
        seqs = [[FPFormat(4, 3, "stochastic", srbits=2), FPFormat(4, 3, "stochastic", srbits=9), FPFormat(4, 3, "nearest"),
                 FPFormat(4, 3), FPFormat(4, 3, "stochastic", srbits=2)],
                [FPFormat(5, 2, "nearest"), FPFormat(5, 2, "stochastic", srbits=1), FPFormat(5, 2, "stochastic", srbits=12)],
                [FPFormat(8, 23, "nearest"), FPFormat(2, 1, "nearest"), FPFormat(3, 0, "stochastic", srbits=4)]]
        for si, seq in enumerate(seqs):
            for rep in range(2 if quick else 20):
                gen_ = torch.Generator().manual_seed(1000 * si + rep)
                x = torch.randn(5, 7, generator=gen_) * 3
                up = torch.randn(5, 7, generator=gen_) * 3
                for fi, fmt in enumerate(seq):
                    key = {"primitive": "quantise_fwd/bwd", "format": fmt_json(fmt), "sequence": si, "position": fi, "rep": rep}
                    ctx.count(key, bucket="primitives")
                    with ctx.guard("C15:primitive", key):
                        pinned_randint.highs.clear()
                        want_q = fmt.quantise(x)
                        want_g = fmt.quantise(up)
                        xi = x.clone().requires_grad_(True)
                        pinned_randint.highs.clear()
                        y = fmt.quantise_fwd(xi)
                        highs_f = sorted(set(pinned_randint.highs))
                        (g,) = torch.autograd.grad(y, xi, up)
                        if not torch.equal(y.detach(), want_q):
                            ctx.violation("C15:quantise_fwd:value", "quantise_fwd does not return the value quantised to the format "
                                          "it was called on", key, {"randint_highs": highs_f})
                        if not torch.equal(g, up):
                            ctx.violation("C15:quantise_fwd:grad", "quantise_fwd does not pass the gradient through unchanged", key)
                        xj = x.clone().requires_grad_(True)
                        pinned_randint.highs.clear()
                        y2 = fmt.quantise_bwd(xj)
                        (g2,) = torch.autograd.grad(y2, xj, up)
                        highs_b = sorted(set(pinned_randint.highs))
                        if not torch.equal(y2.detach(), x):
                            ctx.violation("C15:quantise_bwd:value", "quantise_bwd changes the forward value", key)
                        if not torch.equal(g2, want_g):
                            ctx.violation("C15:quantise_bwd:grad", "quantise_bwd does not quantise the gradient to the format it was "
                                          "called on", key, {"randint_highs": highs_b})
                        if fmt.rounding == "stochastic" and fmt.exponent_bits < 8 and (highs_f != [2 ** fmt.srbits] or highs_b != [2 ** fmt.srbits]):
                            ctx.violation("C15:primitive:srbits", "random-bit count used differs from the format's", key,
                                          {"fwd": highs_f, "bwd": highs_b, "want": 2 ** fmt.srbits})
    finally:
        torch.randint = real_randint

    n_direct = 40 if quick else 1500
    n_dyn = 14 if quick else 250
    mreqs, mcases = [], []
    torch.randint = pinned_randint
    try:
        # ---------------- (a) the backend called directly on FX graphs
        for i in range(n_direct):
            prog = fg.gen_program(rng, rng.randint(1, 12), residuals=rng.randint(0, 2), wrappers=True, attention=True,
                                  plain_adds=True)
            fwd, bwd, fname = rng.choice(fmt_pairs())
            unit = rng.random() < 0.4
            key = {"path": "direct", "program": prog.key(), "formats": fname, "unit_scaled_first": unit}
            ctx.count(key, bucket=f"direct/{fname}")
            mod = fg.make_module(prog, seed=i)
            xs = fg.make_inputs(prog, i)
            ok = False
            with ctx.guard("C15:direct", key):
                gm = fg.trace_fx(copy.deepcopy(mod))
                if unit:
                    gm = unit_scaling_backend()(gm, [])
                before = fg.serialise(gm.graph)
                href = hand_quantise(copy.deepcopy(gm), fwd, bwd) if unit else None
                out = _quantisation_backend(fwd, bwd)(gm, [])
                after = fg.serialise(out.graph)
                out.graph.lint()
                got = grads_of(out, xs, 3)
                ok = True
            if not ok:
                continue
            mreqs.append({"k": "graph", "pass": "simulate", "nodes": before, "fwd": fmt_json(fwd), "bwd": fmt_json(bwd)})
            mcases.append((key, after))
            # semantic reference for the direct path: the same program with hand-quantised linear / attention
            if unit:
                d = None
                with ctx.guard("C15:direct:hand-reference", key):
                    d = equal_runs(got, grads_of(href, xs, 3))
                if d:
                    ctx.violation(f"C15:direct-unit:{d.split(':')[0]}", "backend output on a unit-scaled graph differs from hand "
                                  f"quantisation of its linear/attention nodes in {d}", key)
            else:
                refm = fg.make_module(prog, ref_table(fwd, bwd), seed=i)
                refm.load_state_dict(mod.state_dict())
                want = grads_of(refm, xs, 3)
                d = equal_runs(got, want)
                if d:
                    ctx.violation(f"C15:direct:{d.split(':')[0]}", f"backend output graph differs from hand quantisation in {d}", key)
        # ---------------- (b) through TorchDynamo
        for i in range(n_dyn):
            prog = fg.gen_program(rng, rng.randint(1, 10), residuals=rng.randint(0, 2), wrappers=True, attention=True)
            fwd, bwd, fname = fmt_pairs()[i % len(fmt_pairs())]
            use_fp8 = fname == "sr-default" and i % 2 == 0
            key = {"path": "dynamo", "program": prog.key(), "formats": "simulate_fp8" if use_fp8 else fname}
            ctx.count(key, bucket=f"dynamo/{key['formats']}")
            mod = fg.make_module(prog, seed=100 + i)
            xs = fg.make_inputs(prog, 100 + i)
            base = grads_of(copy.deepcopy(mod), xs, 5)
            got = None
            pinned_randint.highs.clear()
            with ctx.guard("C15:dynamo", key):
                tm = simulate_fp8(mod) if use_fp8 else simulate_format(mod, fwd, bwd)
                got = grads_of(tm, xs, 5)
            if got is None:
                continue
            highs = sorted(set(pinned_randint.highs))
            refm = fg.make_module(prog, ref_table(fwd, bwd), seed=100 + i)
            refm.load_state_dict(mod.state_dict())
            want = grads_of(refm, xs, 5)
            d = equal_runs(got, want)
            if d:
                ctx.violation(f"C15:dynamo:{d.split(':')[0]}", "simulate_format differs from straight-through quantisation of the "
                              f"linear/attention operands with the caller's formats ({d})", key)
            if fname.startswith("lossless"):
                d0 = equal_runs(got, base)
                if d0:
                    ctx.violation("C15:lossless", f"lossless format does not reproduce the original bit for bit ({d0})", key)
            has_q = any(o.kind in ("linear", "linear_kw", "linear_nb", "linear_none", "sdpa") or
                        (o.kind == "nn" and o.p.get("cls") == "Linear") for o in prog.ops)
            if fwd.rounding == "stochastic" and has_q:
                want_h = sorted({2 ** fwd.srbits, 2 ** bwd.srbits})
                if highs != want_h:
                    ctx.violation("C15:srbits", "random-bit counts used differ from the caller's formats", key,
                                  {"used": highs, "want": want_h})
        # ---------------- one transformed module, many input shapes (varying batch / sequence length): every call is
        #                  quantised, however many different shapes the module has already seen
        class ShapeNet(nn.Module):
            def __init__(self) -> None:
                super().__init__()
                self.l1 = nn.Linear(8, 12)
                self.l2 = nn.Linear(12, 8)

            def forward(self, x):  # type: ignore[no-untyped-def]
                return x + self.l2(torch.tanh(self.l1(x)))

        f_ = FPFormat(3, 2, "nearest")
        b_ = FPFormat(4, 1, "nearest")
        torch.manual_seed(5)
        net = ShapeNet()
        qf_, qb_ = make_ref(f_, b_)
        key0 = {"path": "dynamo", "many_shapes": True, "formats": "rn E3M2/E4M1"}
        tq = None
        with ctx.guard("C15:many-shapes:transform", key0):
            tq = simulate_format(net, f_, b_)
        if tq is not None:
            shapes_ = [(2, 8), (3, 8), (1, 4, 8), (5, 8), (2, 3, 8), (7, 8), (4, 2, 8), (6, 8), (2, 5, 8), (9, 8), (3, 3, 8), (11, 8)]
            for si, sh in enumerate(shapes_ if quick else shapes_ + [(k_, 8) for k_ in range(12, 30)]):
                key = {**key0, "call": si, "shape": list(sh)}
                ctx.count(key, bucket="dynamo/many-shapes")
                x = torch.randn(*sh)
                with ctx.guard("C15:many-shapes", key):
                    xi = x.clone().requires_grad_(True)
                    y = tq(xi)
                    (gx,) = torch.autograd.grad(y.sum(), xi)
                    xr_ = x.clone().requires_grad_(True)
                    h_ = torch.tanh(qb_(F.linear(qf_(xr_), qf_(net.l1.weight), net.l1.bias)))
                    yr = xr_ + qb_(F.linear(qf_(h_), qf_(net.l2.weight), net.l2.bias))
                    (gr,) = torch.autograd.grad(yr.sum(), xr_)
                    if not torch.equal(y.detach(), yr.detach()) or not torch.equal(gx, gr):
                        plain = torch.equal(y.detach(), net(x).detach())
                        ctx.violation("C15:many-shapes", "after several different input shapes the transformed module no longer "
                                      "quantises" + (" (it computes the untransformed function)" if plain else ""), key)
                        break
        # ---------------- frozen parameters of the library's own layers: the transformed module trains exactly what the
        #                  original trains (a frozen weight stays frozen, receives no gradient), with every format
        import unit_scaling as uu_

        class UNet(nn.Module):
            def __init__(self) -> None:
                super().__init__()
                self.l1 = uu_.Linear(8, 12, bias=True)
                self.l2 = uu_.Linear(12, 8)
                self.norm = uu_.LayerNorm(8, elementwise_affine=True) if hasattr(uu_, "LayerNorm") else nn.Identity()

            def forward(self, x):  # type: ignore[no-untyped-def]
                return self.norm(self.l2(U.gelu(self.l1(x))))

        def fresh_unet(frozen):  # type: ignore[no-untyped-def]
            torch.manual_seed(17)
            n_ = UNet()
            for nm_, p_ in n_.named_parameters():
                if nm_ in frozen:
                    p_.requires_grad_(False)
            return n_

        lossless_ = FPFormat(8, 23, "nearest")
        for frozen in (["l1.weight"], ["l2.weight", "l1.bias"], ["l1.weight", "l2.weight", "norm.weight"], []):
            for fa_, fname_ in ((lossless_, "lossless"), (FPFormat(8, 23), "lossless-sr"), (FPFormat(3, 2, "nearest"), "rn E3M2")):
                key = {"path": "dynamo", "frozen": frozen, "formats": fname_, "module": "uu.Linear x2 + uu.LayerNorm"}
                ctx.count(key, bucket="dynamo/frozen-parameters")
                xs_ = [torch.randn(5, 8, generator=torch.Generator().manual_seed(3))]
                got = None
                with ctx.guard("C15:frozen", key):
                    tq = simulate_format(fresh_unet(frozen), fa_, fa_)
                    flags_ = {nm_: p_.requires_grad for nm_, p_ in tq.named_parameters()}
                    got = grads_of(tq, xs_, 5)
                if got is None:
                    continue
                ref_ = fresh_unet(frozen)
                want = grads_of(ref_, xs_, 5)
                wflags_ = {nm_: p_.requires_grad for nm_, p_ in ref_.named_parameters()}
                if {k_.split(".", 1)[-1] if k_.startswith("_orig_mod.") else k_: v_ for k_, v_ in flags_.items()} != wflags_ or \
                        any((got[2][a_] is None) != (want[2][b_] is None) for a_, b_ in zip(got[2], want[2])):
                    ctx.violation("C15:frozen-parameters", "the transformed module does not train the same parameters as the "
                                  "original (a frozen parameter became trainable / received a gradient, or the reverse)", key,
                                  {"transformed": {k_: (v_, got[2][k_] is not None) for k_, v_ in flags_.items()}})
                elif fname_.startswith("lossless"):
                    d0 = equal_runs(got, want)
                    if d0:
                        ctx.violation("C15:lossless", f"lossless format does not reproduce the original bit for bit ({d0})", key)

        # ---------------- which of (input, weight, bias) require grad must not matter: every gradient that exists is the
        #                  gradient of the hand-quantised computation (frozen weights, bias-only fine-tuning, plain data inputs)
        class LinF(nn.Module):
            def __init__(self, unit: bool) -> None:
                super().__init__()
                self.w = nn.Parameter(torch.randn(6, 8))
                self.b = nn.Parameter(torch.randn(6))
                self.unit = unit

            def forward(self, x):  # type: ignore[no-untyped-def]
                return U.linear(x, self.w, self.b) if self.unit else F.linear(x, self.w, bias=self.b)

        f_ = FPFormat(3, 2, "nearest")
        b_ = FPFormat(2, 1, "nearest")
        qf_, qb_ = make_ref(f_, b_)
        for unit_ in (False,):      # (unit-scaled linears reach the backend only as nodes left by unit_scale: main loop above)
            for combo in range(1, 8):
                rg = {"x": bool(combo & 1), "w": bool(combo & 2), "b": bool(combo & 4)}
                key = {"path": "direct", "requires_grad": rg, "op": "U.linear" if unit_ else "F.linear", "formats": "rn E3M2/E2M1"}
                ctx.count(key, bucket="direct/requires-grad")
                with ctx.guard("C15:requires-grad", key):
                    torch.manual_seed(11)
                    m_ = LinF(unit_)
                    m_.w.requires_grad_(rg["w"])
                    m_.b.requires_grad_(rg["b"])
                    gm_ = _quantisation_backend(f_, b_)(fg.trace_fx(copy.deepcopy(m_)), [])
                    x_ = torch.randn(5, 8)
                    up_ = torch.randn(5, 6)
                    xi = x_.clone().requires_grad_(rg["x"])
                    y = gm_(xi)
                    y.backward(up_)
                    got_ = {"x": xi.grad, "w": gm_.w.grad, "b": gm_.b.grad}
                    xr = x_.clone().requires_grad_(rg["x"])
                    wr = m_.w.detach().clone().requires_grad_(rg["w"])
                    br = m_.b.detach().clone().requires_grad_(rg["b"])
                    yr = qb_((U.linear if unit_ else F.linear)(qf_(xr), qf_(wr), br))
                    yr.backward(up_)
                    want_ = {"x": xr.grad, "w": wr.grad, "b": br.grad}
                    if not torch.equal(y.detach(), yr.detach()):
                        ctx.violation("C15:requires-grad:output", "output differs from the hand-quantised computation", key)
                    for nm in ("x", "w", "b"):
                        if (got_[nm] is None) != (want_[nm] is None) or (got_[nm] is not None and not torch.equal(got_[nm], want_[nm])):
                            ctx.violation(f"C15:requires-grad:grad-{nm}", f"gradient of {nm} differs from the hand-quantised computation "
                                          "for this combination of requires_grad flags", key)
        # ---------------- root module that is itself a torch.nn layer
        for layer_name, layer, x in (("nn.Linear", nn.Linear(8, 4), torch.randn(3, 8)),):
            key = {"path": "dynamo", "root": layer_name}
            ctx.count(key, bucket="root-nn-layer")
            f_ = FPFormat(2, 1, "nearest")
            with ctx.guard("C15:root", key):
                q = simulate_format(layer, f_, f_)
                y = q(x)
                qf, qb = make_ref(f_, f_)
                want = F.linear(qf(x), qf(layer.weight), layer.bias)
                if not torch.equal(y, want):
                    ctx.violation("C15:root-torch-nn-module" if torch.equal(y, layer(x)) else "C15:root:value",
                                  "a root module that is itself a torch.nn layer is not quantised", key)
    finally:
        torch.randint = real_randint

    if ctx.driver_ok and mreqs:
        for (key, after), r in zip(mcases, driver.ask(mreqs, timeout=900)):
            if r.get("nodes") != after:
                mn = r.get("nodes") or []
                i = next((i for i, (a, b) in enumerate(zip(mn, after)) if a != b), min(len(mn), len(after)))
                ctx.disagree("quantisation_backend_graph", {**key, "node": i}, mn[i] if i < len(mn) else None,
                             after[i] if i < len(after) else None, THMS)
        # the model of Python call binding vs the live signatures: random call shapes against the six introspectable
        # functions (inspect.signature(...).bind) and the two builtins (does a real call raise TypeError)
        import inspect
        from unit_scaling.transforms import _simulate_format as sf_
        live = {"U.linear": U.linear, "U.sdpa": U.scaled_dot_product_attention, "Q.linear": sf_._quantised_linear,
                "Q.u_linear": sf_._quantised_u_linear, "Q.sdpa": sf_._quantised_scaled_dot_product_attention,
                "Q.u_sdpa": sf_._quantised_u_scaled_dot_product_attention}
        builtin_params = {"F.linear": ["input", "weight", "bias"],
                          "F.sdpa": ["query", "key", "value", "attn_mask", "dropout_p", "is_causal", "scale", "enable_gqa"]}
        tq = torch.randn(2, 3, 4)
        vals = {"input": torch.randn(3, 4), "weight": torch.randn(5, 4), "bias": torch.randn(5), "query": tq, "key": tq, "value": tq,
                "attn_mask": None, "dropout_p": 0.0, "is_causal": False, "scale": None, "enable_gqa": False}
        breqs, bcases = [], []
        for tname in list(live) + list(builtin_params):
            names = list(inspect.signature(live[tname]).parameters) if tname in live else builtin_params[tname]
            names = [n_ for n_ in names if n_ != "kwargs"]
            for _ in range(12 if quick else 200):
                nargs = rng.randint(0, len(names) + 1)
                pool = names + ["bogus", "is_causal", "mult"]
                kws = sorted(set(rng.sample(pool, rng.randint(0, min(3, len(pool))))))
                breqs.append({"k": "bind", "target": tname, "nargs": nargs, "kw": kws})
                bcases.append((tname, nargs, kws, names))
        for (tname, nargs, kws, names), r in zip(bcases, driver.ask(breqs)):
            bkey = {"bind": tname, "nargs": nargs, "kw": kws}
            ctx.count(bkey, bucket="call-binding")
            args = [f"a{i}" for i in range(nargs)]
            kwargs = {k_: f"k:{k_}" for k_ in kws}
            if tname in live:
                sig = inspect.signature(live[tname])
                try:
                    ba = sig.bind(*args, **kwargs)
                    ba.apply_defaults()
                    bound = []
                    for pn, v in ba.arguments.items():
                        if sig.parameters[pn].kind is inspect.Parameter.VAR_KEYWORD:
                            bound += [[k_, v_] for k_, v_ in v.items()]
                        else:
                            bound.append([pn, v if isinstance(v, str) and (v.startswith("a") or v.startswith("k:")) else repr(v)])
                    want = {"ok": True, "bound": bound}
                except TypeError:
                    want = {"ok": False}
                got = {"ok": r.get("ok"), **({"bound": r.get("bound")} if r.get("ok") else {})}
                if got != want:
                    ctx.disagree("call_binding", bkey, got, want, ["USProofs.C15.bindCall_ok", "USProofs.C15.bindCall_inv"])
            else:
                fn = F.linear if tname == "F.linear" else F.scaled_dot_product_attention
                a_ = [vals[n_] for n_ in names[:nargs]] + [0] * max(0, nargs - len(names))
                k_ = {k2: vals.get(k2, 0) for k2 in kws}
                try:
                    fn(*a_, **k_)
                    ok_ = True
                except TypeError:
                    ok_ = False
                except Exception:
                    ok_ = True       # bound, failed later for another reason
                if bool(r.get("ok")) != ok_:
                    ctx.disagree("call_binding_builtin", bkey, r.get("ok"), ok_, ["USProofs.C15.linear2_binds", "USProofs.C15.sdpa_binds"])
        # the model's replacement map vs the live one
        from unit_scaling.transforms import _simulate_format as sf
        live = sorted((fg.target_name(k), fg.target_name(v)) for k, v in sf._replacement_map.items())
        model = sorted([("F.linear", "Q.linear"), ("U.linear", "Q.u_linear"), ("F.sdpa", "Q.sdpa"), ("U.sdpa", "Q.u_sdpa")])
        if live != model:
            ctx.disagree("replacement_map", {}, model, live, THMS)
