"""C08 — modules equal their functional form, honour every option, start unit-scaled  (partial)."""
from __future__ import annotations

import inspect
import math
from collections import OrderedDict
from typing import Any, Callable, Dict, List, Optional, Tuple

from .. import driver, ops
from ..common import Ctx, import_repo, rel_close

LEVEL = "other"
EXPLANATION = (
    "PARTIAL. The Lean theorems are over a table that transcribes the module code (every constructor option is "
    "forwarded to the unit-scaled function / consumed by the parent constructor / structural / rejected; constraint is "
    "forwarded; tags per parameter; depth containers tag every parameter with len and refuse untagged ones). The weight "
    "of the claim is the correspondence, exhaustive over options and sampled over values: module(x) and every gradient "
    "vs the functional call written from the property text on the module's own tensors (bitwise), vs the same-named "
    "torch.nn module with the same parameters (one scalar per tensor, same output shape), fresh-module statistics, "
    "tags, depth containers; the table itself is compared with the live constructor signatures and named_parameters()."
)
ASSUMPTIONS = ["the private nn.Embedding options _weight/_freeze are outside the property's option list",
               "MHSA applies its attention dropout regardless of train/eval mode (observation, not checked as a violation): "
               "attention-dropout cases use dropout_p=0 in eval mode"]
THMS = ["USProofs.C08.every_option_dealt_with", "USProofs.C08.constraint_forwarded", "USProofs.C08.tags_spec",
        "USProofs.C08.depth_tags", "USProofs.C08.depth_refuses_untagged"]


def run(ctx: Ctx) -> None:
    import_repo()
    import einops
    import torch
    import torch.nn.functional as F
    from torch import nn
    import unit_scaling as uu
    import unit_scaling.functional as U
    from unit_scaling.parameter import has_parameter_data

    torch.set_num_threads(2)
    rng = ctx.rng
    quick = ctx.tier == "quick"
    reps = 1 if quick else 8
    dt = torch.float64
    ctx.rule = ("every public module x every constructor argument varied over its valid values (all constraint names incl. "
                "None, mult, approximate, bias, padding/padding_mode/stride/dilation/groups, eps, elementwise_affine, "
                "padding_idx, max_norm, ignore_index, reduction, dropout_p, is_causal, heads, expansion factor, layers) x "
                "train/eval x input shapes. distinct = distinct (module, options, mode, shape).")

    def grads(fn: Callable[[], torch.Tensor], tensors: List[torch.Tensor], up_seed: int = 3):
        for t in tensors:
            t.grad = None
        torch.manual_seed(17)
        y = fn()
        g = torch.Generator().manual_seed(up_seed)
        y.backward(torch.randn(y.shape, generator=g, dtype=torch.float64).to(y.dtype))
        return y.detach().clone(), [None if t.grad is None else t.grad.detach().clone() for t in tensors]

    def equal(a, b) -> bool:
        (y1, g1), (y2, g2) = a, b
        if y1.shape != y2.shape or not torch.equal(y1, y2):
            return False
        return all((u is None and v is None) or (u is not None and v is not None and torch.equal(u, v)) for u, v in zip(g1, g2))

    def versus_functional(name: str, key: Dict[str, Any], m: nn.Module, x: torch.Tensor, fn: Callable[[torch.Tensor], torch.Tensor]) -> None:
        xi = x.clone().requires_grad_(True) if x.is_floating_point() else x
        ts = ([xi] if x.is_floating_point() else []) + list(m.parameters())
        a = b = None
        with ctx.guard(f"C08:{name}:forward", key):
            a = grads(lambda: m(xi), ts)
            b = grads(lambda: fn(xi), ts)
        if a is not None and b is not None and not equal(a, b):
            what = "output" if (a[0].shape != b[0].shape or not torch.equal(a[0], b[0])) else "gradient"
            ctx.violation(f"C08:{name}:functional:{what}", f"module differs from the unit-scaled function with its own parameters "
                          f"and configured options ({what})", key)

    lin_scalars: List[Any] = []

    def versus_twin(name: str, key: Dict[str, Any], m: nn.Module, twin: nn.Module, x: torch.Tensor, tol: float = 1e-9) -> List[float]:
        """same parameters; output and every gradient must be a positive scalar multiple, same output shape"""
        twin.load_state_dict(m.state_dict())
        twin.train(m.training)
        xi = x.clone().requires_grad_(True) if x.is_floating_point() else x
        xj = x.clone().requires_grad_(True) if x.is_floating_point() else x
        a = b = None
        with ctx.guard(f"C08:{name}:twin", key):
            a = grads(lambda: m(xi), ([xi] if x.is_floating_point() else []) + list(m.parameters()))
            b = grads(lambda: twin(xj), ([xj] if x.is_floating_point() else []) + list(twin.parameters()))
        scal: List[float] = []
        if a is None or b is None:
            return scal
        if a[0].shape != b[0].shape:
            ctx.violation(f"C08:{name}:twin:shape", "output shape differs from the same-named torch.nn module", key,
                          [list(a[0].shape), list(b[0].shape)])
            return scal
        s, res = ops.fit(a[0], b[0])
        scal.append(s)
        if not (res <= tol and s > 0) and not math.isnan(s):
            ctx.violation(f"C08:{name}:twin:output", "output is not a positive scalar multiple of the torch.nn module's", key,
                          {"scalar": s, "resid": res})
        for u, v in zip(a[1], b[1]):
            if u is None or v is None:
                continue
            s, res = ops.fit(u, v)
            scal.append(s)
            if not math.isnan(s) and not (res <= tol and s > 0):
                ctx.violation(f"C08:{name}:twin:gradient", "a gradient is not a positive scalar multiple of the torch.nn module's", key,
                              {"scalar": s, "resid": res})
                break
        return scal

    def check_tags(name: str, key: Dict[str, Any], m: nn.Module, want: Dict[str, str]) -> None:
        for pn, p in m.named_parameters():
            leaf = pn.split(".")[-1]
            if not has_parameter_data(p):
                ctx.violation(f"C08:{name}:untagged", f"parameter {pn} carries no u-muP tag", key)
            elif p.mup_type != want.get(pn, want.get(leaf)):
                ctx.violation(f"C08:{name}:tag", f"parameter {pn} tagged {p.mup_type}, expected {want.get(pn, want.get(leaf))}", key)

    def check_init(name: str, key: Dict[str, Any], mk: Callable[[], nn.Module]) -> None:
        """fresh module: unit-variance weights (drawn with nn.init.normal_), zero biases, unit gains"""
        calls: List[Tuple[Any, tuple, dict]] = []
        orig = nn.init.normal_

        def spy(t, *a, **k):
            calls.append((t, a, k))
            return orig(t, *a, **k)

        nn.init.normal_ = spy
        try:
            m = mk()
        finally:
            nn.init.normal_ = orig
        for pn, p in m.named_parameters():
            leaf = pn.split(".")[-1]
            kind = getattr(p, "mup_type", None)
            if kind in ("weight", "output"):
                if p.numel() >= (1 << 14):
                    sd = float(p.detach().std())
                    if abs(sd - 1) > 0.03 or abs(float(p.detach().mean())) > 0.03:
                        ctx.violation(f"C08:{name}:init-weight", f"fresh {pn} is not unit variance / zero mean", key, sd)
                if not any(t is p or t.data_ptr() == p.data_ptr() for t, a, k in calls
                           if (not a and not k) or (a[:2] in ((), (0.0,), (0.0, 1.0)) and k.get("std", 1.0) == 1.0 and k.get("mean", 0.0) == 0.0)) \
                        and name != "Embedding":
                    ctx.violation(f"C08:{name}:init-dist", f"fresh {pn} is not drawn with nn.init.normal_(mean 0, std 1)", key)
            elif kind == "bias" and float(p.detach().abs().max()) != 0.0:
                ctx.violation(f"C08:{name}:init-bias", f"fresh {pn} is not zero", key)
            elif kind == "norm" and not bool((p.detach() == 1).all()):
                ctx.violation(f"C08:{name}:init-gain", f"fresh {pn} is not one", key)

    def randomise(m: nn.Module) -> nn.Module:
        with torch.no_grad():
            for n, p in m.named_parameters():
                p.copy_(torch.randn_like(p) * (0.5 if n.endswith("bias") else 1.0) + (1.0 if getattr(p, "mup_type", "") == "norm" else 0.0))
        return m.to(dt)

    class Temp(nn.Module):
        """the same-named torch.nn module with the documented `mult` temperature applied to its input"""

        def __init__(self, inner: nn.Module, mult: float) -> None:
            super().__init__()
            self.inner, self.mult = inner, mult

        def forward(self, z):  # type: ignore[no-untyped-def]
            return self.inner(z * self.mult)

        def load_state_dict(self, sd, *a, **k):  # type: ignore[no-untyped-def]
            return self.inner.load_state_dict(sd, *a, **k)

    BIN = [None, "to_output_scale", "to_grad_input_scale", "gmean", "hmean", "amean"]

    for rep in range(reps):
        # ---------------- activations
        for c in BIN:
            for mult in (1.0, rng.choice([0.25, 4.0, 1.7])):
                for approx in ("none", "tanh"):
                    key = {"module": "GELU", "mult": mult, "constraint": c, "approximate": approx}
                    ctx.count(key, bucket="GELU")
                    m = uu.GELU(mult=mult, constraint=c, approximate=approx)
                    x = torch.randn(3, 5, dtype=dt)
                    versus_functional("GELU", key, m, x, lambda z: U.gelu(z, mult=mult, constraint=c, approximate=approx))
                    versus_twin("GELU", key, m, nn.GELU(approximate=approx) if mult == 1.0 else Temp(nn.GELU(approximate=approx), mult), x)
                key = {"module": "SiLU", "mult": mult, "constraint": c}
                ctx.count(key, bucket="SiLU")
                m = uu.SiLU(mult=mult, constraint=c)
                x = torch.randn(3, 5, dtype=dt)
                versus_functional("SiLU", key, m, x, lambda z: U.silu(z, mult=mult, constraint=c))
                versus_twin("SiLU", key, m, nn.SiLU() if mult == 1.0 else Temp(nn.SiLU(), mult), x)
                for dim in (-1, 0, 1):
                    key = {"module": "Softmax", "dim": dim, "mult": mult, "constraint": c}
                    ctx.count(key, bucket="Softmax")
                    m = uu.Softmax(dim=dim, mult=mult, constraint=c)
                    x = torch.randn(3, 5, dtype=dt)
                    versus_functional("Softmax", key, m, x, lambda z: U.softmax(z, dim=dim, mult=mult, constraint=c))
                    versus_twin("Softmax", key, m, nn.Softmax(dim=dim) if mult == 1.0 else Temp(nn.Softmax(dim=dim), mult), x)
        # hyper-parameters are public attributes read at call time: after re-assignment (a temperature sweep on one module
        # object) the module is the functional form with the *current* values
        for name_, mk_, fn_ in (("GELU", lambda: uu.GELU(mult=1.0, constraint="to_output_scale"),
                                 lambda m_, z: U.gelu(z, mult=m_.mult, constraint=m_.constraint, approximate=m_.approximate)),
                                ("SiLU", lambda: uu.SiLU(mult=1.0, constraint="to_output_scale"),
                                 lambda m_, z: U.silu(z, mult=m_.mult, constraint=m_.constraint)),
                                ("Softmax", lambda: uu.Softmax(dim=-1, mult=1.0, constraint="to_output_scale"),
                                 lambda m_, z: U.softmax(z, dim=m_.dim, mult=m_.mult, constraint=m_.constraint))):
            m = mk_()
            x = torch.randn(3, 5, dtype=dt)
            m(x)                                    # used once with the constructor's values
            for attr_, val_ in (("mult", rng.choice([0.25, 3.0])), ("constraint", rng.choice([None, "to_grad_input_scale"]))):
                setattr(m, attr_, val_)
                key = {"module": name_, "reassigned": attr_, "value": val_}
                ctx.count(key, bucket=name_)
                versus_functional(name_, key, m, x, lambda z, m_=m, fn__=fn_: fn__(m_, z))
        for p in (0.0, 0.1, 0.5):
            for training in (True, False):
                key = {"module": "Dropout", "p": p, "training": training}
                ctx.count(key, bucket="Dropout")
                m = uu.Dropout(p).train(training)
                x = torch.randn(6, 7, dtype=dt)
                versus_functional("Dropout", key, m, x, lambda z: U.dropout(z, p, training))
                versus_twin("Dropout", key, m, nn.Dropout(p), x)
        # ---------------- Linear / LinearReadout
        for cls, fnl, tag in ((uu.Linear, U.linear, "weight"), (uu.LinearReadout, U.linear_readout, "output")):
            for c in BIN:
                for bias in (False, True):
                    fi, fo = rng.choice([3, 5, 7]), rng.choice([2, 4, 6])
                    key = {"module": cls.__name__, "in": fi, "out": fo, "bias": bias, "constraint": c}
                    ctx.count(key, bucket=cls.__name__)
                    m = randomise(cls(fi, fo, bias=bias, constraint=c))
                    x = torch.randn(rng.choice([(4, fi), (2, 3, fi), (fi,)]), dtype=dt)
                    versus_functional(cls.__name__, key, m, x, lambda z: fnl(z, m.weight, m.bias, c))
                    sc = versus_twin(cls.__name__, key, m, nn.Linear(fi, fo, bias=bias).to(dt), x)
                    if len(sc) == (4 if bias else 3):
                        # [output, input gradient, weight gradient, (bias gradient)] vs the scalars of C01/C02 (the model's)
                        lin_scalars.append((key, sc, {"k": "scale", "op": "linear" if cls is uu.Linear else "linear_readout",
                                                      "fan_out": fo, "fan_in": fi, "numel": x.numel(), "constraint": c}))
                    check_tags(cls.__name__, key, m, {"weight": tag, "bias": "bias"})
            check_init(cls.__name__, {"module": cls.__name__, "fresh": True}, lambda: cls(256, 128, bias=True))
        # default constraints
        if uu.Linear(2, 2).constraint != "to_output_scale" or uu.LinearReadout(2, 2).constraint is not None:
            ctx.violation("C08:Linear:default-constraint", "default constraint of Linear/LinearReadout changed", {})
        # ---------------- Conv1d
        for c in BIN:
            for pm in ("zeros", "circular", "reflect", "replicate"):
                for _ in range(2):
                    groups = rng.choice([1, 2])
                    cin, cout = groups * rng.choice([1, 2, 3]), groups * rng.choice([1, 2, 3])
                    k, stride, dil = rng.randint(1, 4), rng.randint(1, 3), rng.randint(1, 2)
                    padding = rng.choice([0, 1, 2])
                    bias = rng.random() < 0.5
                    seq = dil * (k - 1) + 1 + rng.randint(2, 9)
                    if pm == "reflect" and padding >= seq:
                        padding = 1
                    key = {"module": "Conv1d", "in": cin, "out": cout, "kernel": k, "stride": stride, "padding": padding,
                           "dilation": dil, "groups": groups, "bias": bias, "padding_mode": pm, "constraint": c, "seq": seq}
                    ctx.count(key, bucket=f"Conv1d/{pm}")
                    m = None
                    with ctx.guard("C08:Conv1d:construct", key):
                        m = randomise(uu.Conv1d(cin, cout, k, stride, padding, dil, groups, bias, pm, constraint=c))
                    if m is None:
                        continue
                    x = torch.randn(rng.choice([(2, cin, seq), (cin, seq)]), dtype=dt)

                    def conv_fn(z):
                        if pm != "zeros":
                            z = F.pad(z, (padding, padding), mode=pm)
                            return U.conv1d(z, m.weight, m.bias, stride, 0, dil, groups, constraint=c)
                        return U.conv1d(z, m.weight, m.bias, stride, padding, dil, groups, constraint=c)

                    versus_functional("Conv1d", key, m, x, conv_fn)
                    versus_twin("Conv1d", key, m, nn.Conv1d(cin, cout, k, stride, padding, dil, groups, bias, pm).to(dt), x)
                    check_tags("Conv1d", key, m, {"weight": "weight", "bias": "bias"})
        check_init("Conv1d", {"module": "Conv1d", "fresh": True}, lambda: uu.Conv1d(64, 64, 5, bias=True))
        # ---------------- norms
        for affine in (False, True):
            for eps in (1e-5, 1e-3):
                for ns in ((5,), (3, 5)):
                    for lb in (True, False):
                        key = {"module": "LayerNorm", "normalized_shape": list(ns), "eps": eps, "elementwise_affine": affine, "bias": lb}
                        ctx.count(key, bucket="LayerNorm")
                        m = randomise(uu.LayerNorm(list(ns), eps=eps, elementwise_affine=affine, bias=lb))
                        x = torch.randn((4,) + ((3,) if len(ns) == 1 else ()) + ns, dtype=dt)
                        versus_functional("LayerNorm", key, m, x, lambda z: U.layer_norm(z, m.normalized_shape, m.weight, m.bias, eps))
                        versus_twin("LayerNorm", key, m, nn.LayerNorm(list(ns), eps=eps, elementwise_affine=affine, bias=lb).to(dt), x)
                        check_tags("LayerNorm", key, m, {"weight": "norm", "bias": "bias"})
                    key = {"module": "RMSNorm", "normalized_shape": list(ns), "eps": eps, "elementwise_affine": affine}
                    ctx.count(key, bucket="RMSNorm")
                    m = randomise(uu.RMSNorm(ns if len(ns) > 1 else ns[0], eps=eps, elementwise_affine=affine))
                    x = torch.randn((4,) + ns, dtype=dt)
                    versus_functional("RMSNorm", key, m, x, lambda z: U.rms_norm(z, normalized_shape=tuple(ns), weight=m.weight, eps=eps))
                    if hasattr(nn, "RMSNorm"):
                        # same-named torch module, also on small-magnitude inputs (where eps matters); the library computes
                        # the rms in float32, hence the looser residual
                        for xs_ in (x, x * 1e-2):
                            versus_twin("RMSNorm", {**key, "input_scale": float(xs_.abs().max())}, m,
                                        nn.RMSNorm(list(ns), eps=eps, elementwise_affine=affine).to(dt), xs_, tol=2e-5)
                    check_tags("RMSNorm", key, m, {"weight": "norm"})
                    if eps == 1e-5:
                        # eps = 0 is a legitimate value (no regularisation): on small-magnitude inputs anything else shows
                        key0 = {**key, "eps": 0.0}
                        ctx.count(key0, bucket="RMSNorm")
                        m0 = randomise(uu.RMSNorm(ns if len(ns) > 1 else ns[0], eps=0.0, elementwise_affine=affine))
                        for xs_ in (x, x * 1e-4):
                            k0 = {**key0, "input_scale": float(xs_.abs().max())}
                            versus_functional("RMSNorm", k0, m0, xs_,
                                              lambda z: U.rms_norm(z, normalized_shape=tuple(ns), weight=m0.weight, eps=0.0))
                            if hasattr(nn, "RMSNorm"):
                                versus_twin("RMSNorm", k0, m0, nn.RMSNorm(list(ns), eps=0.0, elementwise_affine=affine).to(dt), xs_, tol=2e-5)
        check_init("LayerNorm", {"module": "LayerNorm", "fresh": True}, lambda: uu.LayerNorm(8, elementwise_affine=True))
        check_init("RMSNorm", {"module": "RMSNorm", "fresh": True}, lambda: uu.RMSNorm(8, elementwise_affine=True))
        # ---------------- Embedding
        for pidx in (None, 0, 3):
            for mn, nt in ((None, 2.0), (1.0, 2.0), (1.0, 1.0), (0.7, 3.0), (1.0, float("inf"))):
                key = {"module": "Embedding", "padding_idx": pidx, "max_norm": mn, "norm_type": nt}
                ctx.count(key, bucket="Embedding")
                m = randomise(uu.Embedding(7, 4, padding_idx=pidx, max_norm=mn, norm_type=nt))
                idx = torch.randint(0, 7, (3, 5))
                if mn is None:
                    versus_functional("Embedding", key, m, idx, lambda z: U.embedding(z, m.weight, pidx, mn, 2.0))
                    versus_twin("Embedding", key, m, nn.Embedding(7, 4, padding_idx=pidx).to(dt), idx)
                else:
                    with ctx.guard("C08:Embedding:forward", key):
                        w0 = m.weight.detach().clone()
                        y = m(idx)
                        ref = F.embedding(idx, w0.clone(), pidx, mn, nt)
                        if y.shape != ref.shape or not torch.allclose(y, ref, rtol=1e-12):
                            ctx.violation("C08:Embedding:max_norm", "max_norm / norm_type is not honoured", key)
                check_tags("Embedding", key, m, {"weight": "weight"})
        check_init("Embedding", {"module": "Embedding", "fresh": True}, lambda: uu.Embedding(256, 128))
        # ---------------- CrossEntropyLoss
        for red in ("mean", "sum"):
            for ii in (-100, 2):
                for mult in (1.0, 0.5):
                    key = {"module": "CrossEntropyLoss", "reduction": red, "ignore_index": ii, "mult": mult}
                    ctx.count(key, bucket="CrossEntropyLoss")
                    m = uu.CrossEntropyLoss(mult=mult, ignore_index=ii, reduction=red)
                    logits = torch.randn(6, 5, dtype=dt)
                    tgt = torch.tensor([0, 1, 3, 4, 1, 0])   # never hits ignore_index 2 (F-C01 is C01's finding)
                    xi = logits.clone().requires_grad_(True)
                    a = b = None
                    with ctx.guard("C08:CrossEntropyLoss:forward", key):
                        a = grads(lambda: m(xi, tgt), [xi])
                        b = grads(lambda: U.cross_entropy(xi, tgt, ignore_index=ii, reduction=red, mult=mult), [xi])
                    if a and b and not equal(a, b):
                        ctx.violation("C08:CrossEntropyLoss:functional", "module differs from U.cross_entropy with its options", key)
                    if mult == 1.0 and a:
                        want = F.cross_entropy(logits, tgt, ignore_index=ii, reduction=red)
                        if not rel_close(float(a[0]), float(want), 1e-12):
                            ctx.violation("C08:CrossEntropyLoss:twin", "loss differs from torch.nn.CrossEntropyLoss", key)
        # options the library does not implement are rejected at construction
        for cls, kw in ((uu.CrossEntropyLoss, {"label_smoothing": 0.1}), (uu.CrossEntropyLoss, {"weight": torch.ones(5)}),
                        (uu.CrossEntropyLoss, {"size_average": True}), (uu.CrossEntropyLoss, {"reduce": False}),
                        (uu.SiLU, {"inplace": True}), (uu.Dropout, {"inplace": True}),
                        (uu.Embedding, {"num_embeddings": 4, "embedding_dim": 2, "sparse": True}),
                        (uu.Embedding, {"num_embeddings": 4, "embedding_dim": 2, "scale_grad_by_freq": True})):
            key = {"module": cls.__name__, "rejected_option": sorted(k for k in kw if k not in ("num_embeddings", "embedding_dim"))}
            ctx.count(key, bucket="rejected-option")
            try:
                cls(**kw)
            except Exception:
                continue
            ctx.violation(f"C08:{cls.__name__}:option-not-rejected", "an option the library does not implement is accepted silently", key)
        # ... also when the option is spelled positionally, and valid positional spellings are accepted
        for cls, pos, must_raise in ((uu.Dropout, (0.5, True), True), (uu.SiLU, (1.0, "to_output_scale", True), True),
                                     (uu.Embedding, (10, 4, None, None, 2.0, True), True),
                                     (uu.CrossEntropyLoss, (1.0, torch.ones(5)), True),
                                     (uu.Dropout, (0.5, False), False), (uu.SiLU, (1.0, "to_output_scale", False), False),
                                     (uu.Embedding, (10, 4, None, None, 2.0, False), False),
                                     (uu.CrossEntropyLoss, (1.0, None, None, 0, None, "sum"), False)):
            key = {"module": cls.__name__, "positional": [repr(a_)[:20] for a_ in pos], "unsupported": must_raise}
            ctx.count(key, bucket="rejected-option")
            raised = None
            try:
                cls(*pos)
            except Exception as e_:  # noqa: BLE001
                raised = type(e_).__name__
            if must_raise and raised is None:
                ctx.violation(f"C08:{cls.__name__}:option-not-rejected", "an option the library does not implement (passed "
                              "positionally) is accepted at construction", key)
            if not must_raise and raised is not None:
                ctx.violation(f"C08:{cls.__name__}:valid-rejected", "a valid positional spelling of the constructor arguments is rejected",
                              key, raised)
        # ---------------- composite modules
        for exp in (1, 2, 4):
            h = rng.choice([4, 6])
            key = {"module": "MLP", "hidden": h, "expansion_factor": exp}
            ctx.count(key, bucket="MLP")
            m = randomise(uu.MLP(h, exp))
            x = torch.randn(2, 3, h, dtype=dt)
            versus_functional("MLP", key, m, x, lambda z: U.linear(
                U.silu_glu(U.linear(z, m.linear_1.weight, None, None), U.linear(z, m.linear_gate.weight, None, None)),
                m.linear_2.weight, None, None))
            check_tags("MLP", key, m, {"weight": "weight"})
            if m.linear_1.weight.shape != (h * exp, h) or m.linear_2.weight.shape != (h, h * exp):
                ctx.violation("C08:MLP:expansion", "expansion factor not honoured", key)
        for heads in (1, 2, 4):
            for causal in (False, True):
                for mult in (1.0, 2.0):
                    for training in (True, False):
                        h = 8
                        key = {"module": "MHSA", "heads": heads, "is_causal": causal, "mult": mult, "training": training, "dropout_p": 0.0}
                        ctx.count(key, bucket="MHSA")
                        m = randomise(uu.MHSA(h, heads, is_causal=causal, dropout_p=0.0, mult=mult)).train(training)
                        x = torch.randn(2, 5, h, dtype=dt)

                        def mhsa_fn(z):
                            qkv = U.linear(z, m.linear_qkv.weight, None, "to_output_scale")
                            q, k, v = einops.rearrange(qkv, "b s (z h d) -> z b h s d", h=heads, z=3)
                            o = U.scaled_dot_product_attention(q, k, v, dropout_p=0.0, is_causal=causal, mult=mult)
                            return U.linear(einops.rearrange(o, "b h s d -> b s (h d)"), m.linear_o.weight, None, "to_output_scale")

                        versus_functional("MHSA", key, m, x, mhsa_fn)
        # attention dropout honoured in training mode
        key = {"module": "MHSA", "dropout_p": 0.5, "training": True}
        ctx.count(key, bucket="MHSA")
        m = randomise(uu.MHSA(8, 2, is_causal=False, dropout_p=0.5))
        x = torch.randn(2, 5, 8, dtype=dt)
        torch.manual_seed(1)
        y1 = m(x)
        m0 = uu.MHSA(8, 2, is_causal=False, dropout_p=0.0).to(dt)
        m0.load_state_dict(m.state_dict())
        if torch.equal(y1, m0(x)):
            ctx.violation("C08:MHSA:dropout_p", "dropout_p has no effect in training mode", key)
        for (t1, t2) in ((0.3, 0.7), (1.0, 1.0), (2.0, 0.25)):
            for causal in (False, True):
                for training in (True, False):
                    for p in (0.0, 0.2):
                        h, heads = 8, 2
                        key = {"module": "TransformerLayer", "mhsa_tau": t1, "mlp_tau": t2, "is_causal": causal, "training": training,
                               "dropout_p": p}
                        ctx.count(key, bucket="TransformerLayer")
                        m = randomise(uu.TransformerLayer(h, heads, mhsa_tau=t1, mlp_tau=t2, is_causal=causal, dropout_p=p)).train(training)
                        if p > 0 and training:
                            continue  # stochastic attention dropout inside MHSA: covered by the p = 0 and eval cases
                        if p > 0:
                            # eval mode: the residual dropout must be off (scale sqrt(1-p) remains), attention dropout is MHSA's own
                            m.mhsa.dropout_p = 0.0
                        x = torch.randn(2, 5, h, dtype=dt)

                        def layer_fn(z):
                            r, s = U.residual_split(z, tau=t1)
                            r = m.mhsa(m.mhsa_norm(r))
                            r = U.dropout(r, p, training)
                            z2 = U.residual_add(r, s, tau=t1)
                            r, s = U.residual_split(z2, tau=t2)
                            r = m.mlp(m.mlp_norm(r))
                            r = U.dropout(r, p, training)
                            return U.residual_add(r, s, tau=t2)

                        versus_functional("TransformerLayer", key, m, x, layer_fn)
        from unit_scaling.core.functional import transformer_residual_scaling_rule as _rule
        for layers in (4, 2, 3, 1, 5):
            key = {"module": "TransformerStack/Decoder", "layers": layers, "rule": "default (shared default argument)"}
            ctx.count(key, bucket="TransformerStack")
            with ctx.guard("C08:TransformerStack:taus", key):
                fresh = _rule()
                want_t = [fresh(i, 2 * layers) for i in range(2 * layers)]
                for mk_ in (lambda: uu.TransformerDecoder(hidden_size=8, vocab_size=11, layers=layers, heads=2).layers,
                            lambda: __import__("unit_scaling._modules", fromlist=["x"]).TransformerStack(
                                layers=layers, hidden_size=8, heads=2, is_causal=False, dropout_p=0.0)):
                    st = mk_()
                    if st is None:
                        continue
                    got_t = [t_ for l_ in st for t_ in (l_.mhsa_tau, l_.mlp_tau)]
                    if got_t != want_t:
                        ctx.violation("C08:TransformerStack:taus", "a stack built after stacks of another depth does not carry the "
                                      "residual rule's taus for its own depth", key, {"got": got_t[:4], "want": want_t[:4]})
        for layers in (1, 2, 3):
            key = {"module": "TransformerDecoder", "layers": layers}
            ctx.count(key, bucket="TransformerDecoder")
            m = None
            with ctx.guard("C08:TransformerDecoder:construct", key):
                m = uu.TransformerDecoder(hidden_size=8, vocab_size=11, layers=layers, heads=2, dropout_p=0.0).to(dt)
            if m is None:
                continue
            ids = torch.randint(0, 11, (2, 6))

            def dec_fn(z):
                hcur = U.embedding(z, m.embedding.weight)
                for layer in m.layers:
                    hcur = layer(hcur)
                return U.linear_readout(U.rms_norm(hcur, (8,), None, m.final_norm.eps), m.projection.weight, None, None)

            versus_functional("TransformerDecoder", key, m, ids, dec_fn)
            if len(m.layers) != layers:
                ctx.violation("C08:TransformerDecoder:layers", "number of layers not honoured", key)
            tags = {n: p.mup_type for n, p in m.named_parameters()}
            if tags.get("projection.weight") != "output" or tags.get("embedding.weight") != "weight":
                ctx.violation("C08:TransformerDecoder:tags", "embedding / readout tags wrong", key, tags)
            for n, p in m.named_parameters():
                want_d = layers if n.startswith("layers.") else None
                if not has_parameter_data(p) or p.mup_scaling_depth != want_d:
                    ctx.violation("C08:TransformerDecoder:depth", f"{n}: depth {getattr(p, 'mup_scaling_depth', 'missing')}, expected {want_d}", key)
                    break
        # ---------------- depth containers
        for n_layers in (1, 2, 5):
            for kind in ("DepthSequential", "DepthSequential(OrderedDict)", "DepthModuleList"):
                key = {"module": kind, "len": n_layers}
                ctx.count(key, bucket="depth-containers")
                layers_ = [uu.Linear(3, 3, bias=True) if i % 2 == 0 else uu.LayerNorm(3, elementwise_affine=True) for i in range(n_layers)]
                c = None
                with ctx.guard("C08:depth:construct", key):
                    if kind == "DepthSequential":
                        c = uu.DepthSequential(*layers_)
                    elif kind == "DepthModuleList":
                        c = uu.DepthModuleList(layers_)
                    else:
                        c = uu.DepthSequential(OrderedDict((f"l{i}", l) for i, l in enumerate(layers_)))
                if c is None:
                    continue
                for pn, p in c.named_parameters():
                    if not has_parameter_data(p) or p.mup_scaling_depth != n_layers:
                        ctx.violation("C08:depth:value", f"{pn}: depth {getattr(p, 'mup_scaling_depth', 'missing')}, expected {n_layers}", key)
                        break
                # refuses untagged parameters
                try:
                    ctor = uu.DepthModuleList if kind == "DepthModuleList" else uu.DepthSequential
                    bad = [uu.Linear(3, 3), nn.Linear(3, 3)]
                    ctor(bad) if kind == "DepthModuleList" else ctor(*bad)
                    ctx.violation("C08:depth:untagged-accepted", "a depth container accepted an untagged parameter", key)
                except ValueError:
                    pass
                except Exception as e:  # noqa
                    ctx.violation("C08:depth:untagged-error-kind", f"untagged parameter raised {type(e).__name__}, expected ValueError", key)

    # ---------------- correspondence: the scalars relating Linear / LinearReadout to torch.nn.Linear are the model's
    if ctx.driver_ok and lin_scalars:
        from ..common import b2f
        for (key, sc, _), r in zip(lin_scalars, driver.ask([rq for _, _, rq in lin_scalars])):
            if "err" in r:
                continue
            want_s = [b2f(r["fwd"])] + [b2f(v) for v in r["bwd"]][: len(sc) - 1]
            if any((not math.isnan(a_)) and abs(a_ - b_) > 1e-10 * abs(b_) for a_, b_ in zip(sc, want_s)):
                ctx.disagree("module_scalars", key, want_s, sc, ["USProofs.C08.constraint_forwarded"])

    # ---------------- correspondence: the model's table vs the live classes
    if ctx.driver_ok:
        table = driver.ask([{"k": "modules"}])[0]
        for spec in table:
            cls = getattr(uu, spec["name"])
            live = [p for p in inspect.signature(inspect.unwrap(cls.__init__)).parameters if p != "self"]
            model = [o[0] for o in spec["options"]]
            if live != model:
                ctx.disagree("module_options", {"module": spec["name"]}, model, live, THMS)
            for (o, use) in spec["options"]:
                if use.startswith("functional:") and not use.startswith("functional:pad."):
                    fn, par = use.split(":")[1].split(".")
                    if par not in inspect.signature(inspect.unwrap(getattr(U, fn))).parameters:
                        ctx.disagree("module_option_target", {"module": spec["name"], "option": o}, use, "no such parameter", THMS)
            inst = {"GELU": lambda: uu.GELU(), "SiLU": lambda: uu.SiLU(), "Softmax": lambda: uu.Softmax(-1), "Dropout": lambda: uu.Dropout(),
                    "Linear": lambda: uu.Linear(2, 2, bias=True), "LinearReadout": lambda: uu.LinearReadout(2, 2, bias=True),
                    "Conv1d": lambda: uu.Conv1d(2, 2, 1, bias=True), "LayerNorm": lambda: uu.LayerNorm(2, elementwise_affine=True),
                    "RMSNorm": lambda: uu.RMSNorm(2, elementwise_affine=True), "Embedding": lambda: uu.Embedding(3, 2),
                    "CrossEntropyLoss": lambda: uu.CrossEntropyLoss()}[spec["name"]]()
            live_p = sorted([n, p.mup_type] for n, p in inst.named_parameters())
            if live_p != sorted(spec["params"]):
                ctx.disagree("module_params", {"module": spec["name"]}, sorted(spec["params"]), live_p, THMS)
