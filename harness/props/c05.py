"""C05 — a constraint collapses forward and backward scales to one value: true gradients."""
from __future__ import annotations

import math
import string
from typing import Any, Dict, List, Optional

from .. import driver, ops
from ..common import Ctx, b2f, f2b, import_repo, near, rel_close

LEVEL = "proof"
EXPLANATION = (
    "Theorems: apply_constraint (None/'' identity, rule copies, unknown name -> ValueError), mean rules symmetric, "
    "bounded by min/max and ordered hmean<=gmean<=amean for any n>=1 positive scales (Mathlib mean inequalities), "
    "per-op collapse of forward and constrained backward scales, constrained => true gradient (HasFDerivAt + adjoint). "
    "Check: rule functions and name table against the model; for every op x constraint the fitted scalars must equal "
    "the rule applied to the scalars fitted with constraint=None (oracle) and the model's scales (correspondence); "
    "gradcheck on constrained ops."
)
ASSUMPTIONS = ["only constraint names valid for the op's arity are 'valid'; wrong-arity selectors may raise TypeError"]
DOCUMENTED = ["gmean", "hmean", "amean", "to_output_scale", "to_grad_input_scale", "to_left_grad_scale",
              "to_right_grad_scale"]
THMS = ["USProofs.C05.apply_rule", "USProofs.C05.apply_unknown", "USProofs.C05.elementwise_constrained",
        "USProofs.C05.linear_constrained", "USProofs.C05.matmul_constrained", "USProofs.C05.add_constrained"]


def rule_value(name: str, xs: List[float]) -> Optional[float]:
    """Harness-side definition of the named rules (independent of library and model)."""
    n = len(xs)
    if name == "gmean":
        return math.exp(math.fsum(math.log(x) for x in xs) / n)
    if name == "hmean":
        return n / math.fsum(1 / x for x in xs)
    if name == "amean":
        return math.fsum(xs) / n
    if name == "to_output_scale":
        return xs[0]
    if name == "to_grad_input_scale" and n == 2:
        return xs[1]
    if name == "to_left_grad_scale" and n == 3:
        return xs[1]
    if name == "to_right_grad_scale" and n == 3:
        return xs[2]
    return None


CONSTRAINED = {"gelu": ["input"], "silu": ["input"], "softmax": ["input"], "matmul": ["left", "right"],
               "linear": ["input"], "linear_readout": ["input"], "conv1d": ["input"], "add": ["input", "other"]}


def run(ctx: Ctx) -> None:
    import_repo()
    import torch
    import unit_scaling.constraints as C
    import unit_scaling.functional as U

    torch.set_num_threads(1)
    rng = ctx.rng
    quick = ctx.tier == "quick"
    ctx.rule = ("(a) scale tuples: n in 1..6, log-uniform in [1e-6,1e6], plus equal / permuted / extreme tuples; "
                "(b) names: every attribute of the live constraints module, its __all__, random strings, arity 2 and 3; "
                "(c) every op taking a constraint x every name valid for its arity x random shapes; (d) gradcheck. "
                "distinct = distinct tuples / (name, arity) / (op,cfg,shapes).")
    # ---- (a) rule functions
    tuples: List[List[float]] = []
    for _ in range(3000 if quick else 100000):
        n = rng.randint(1, 6)
        tuples.append([math.exp(rng.uniform(math.log(1e-6), math.log(1e6))) for _ in range(n)])
    for n in range(1, 7):
        tuples += [[1e-6] * n, [1e6] * n, [1.0] * n, [1e-6] + [1e6] * (n - 1), [2.0 ** k for k in range(n)]]
    reqs = []
    for xs in tuples:
        key = {"scales": xs}
        ctx.count(key, bucket=f"means/n={len(xs)}")
        lo, hi = min(xs), max(xs)
        g = h = a = None
        with ctx.guard("C05:means:call", key):
            g, h, a = C.gmean(*xs), C.hmean(*xs), C.amean(*xs)
        if g is None:
            continue
        eps = 1e-12
        if not (lo * (1 - eps) <= h and h <= g * (1 + eps) and g <= a * (1 + eps) and a <= hi * (1 + eps)):
            ctx.violation("C05:means:order", "min <= hmean <= gmean <= amean <= max violated", key, [lo, h, g, a, hi])
        perm = xs[:]
        rng.shuffle(perm)
        for fn, v in ((C.gmean, g), (C.hmean, h), (C.amean, a)):
            if not rel_close(fn(*perm), v, 1e-12):
                ctx.violation(f"C05:means:symmetry:{fn.__name__}", "mean rule is not symmetric", key, [fn(*perm), v])
        for nm, v in (("gmean", g), ("hmean", h), ("amean", a)):
            if not rel_close(v, rule_value(nm, xs), 1e-10):
                ctx.violation(f"C05:means:value:{nm}", "mean rule value differs from its definition", key, [v, rule_value(nm, xs)])
        reqs.append({"k": "mean", "scales": [f2b(x) for x in xs]})
    if ctx.driver_ok:
        for xs, r in zip(tuples, driver.ask(reqs)):
            for nm in ("gmean", "hmean", "amean"):
                iv = getattr(C, nm)(*xs)
                if not near(b2f(r[nm]), iv):
                    ctx.disagree("mean_rules", {"rule": nm, "scales": xs}, b2f(r[nm]), iv, ["USProofs.C05.means_ordered_and_bounded"])

    # ---- (b) the name table
    names = sorted(set(dir(C)) | set(getattr(C, "__all__", [])) | set(DOCUMENTED))
    alphabet = string.ascii_lowercase + "_"
    names += ["".join(rng.choice(alphabet) for _ in range(rng.randint(1, 12))) for _ in range(30 if quick else 300)]
    names += ["", "gmean ", "GMEAN", "to_output", "mean", "apply_constraint", "to_grad_input_scale"]
    nreqs, ncases = [], []
    for nm in names + [None]:
        for arity in (2, 3):
            xs = [math.exp(rng.uniform(-3, 3)) for _ in range(arity)]
            key = {"name": nm, "arity": arity}
            ctx.count(key, bucket="names")
            res: Any = None
            err = None
            try:
                res = C.apply_constraint(nm, *xs)
            except Exception as e:  # noqa
                err = type(e).__name__
            if nm is None or nm == "":
                if err or tuple(res) != tuple(xs):
                    ctx.violation("C05:apply:none", "None/'' does not leave the scales unchanged", key, err or res)
            elif nm in DOCUMENTED:
                want = rule_value(nm, xs)
                if want is not None:
                    if err or len(res) != arity or any(not rel_close(v, want, 1e-12) for v in res):
                        ctx.violation(f"C05:apply:rule:{nm}", "named rule does not return n copies of its value", key, err or res)
                elif err is None:
                    ctx.violation(f"C05:apply:arity:{nm}", "selector applied with the wrong arity succeeded silently", key, res)
            else:
                if err != "ValueError":
                    ctx.violation(f"C05:apply_constraint:unknown:{nm if nm in dir(C) else 'random'}",
                                  "unknown constraint name does not raise ValueError", key, err or res)
            nreqs.append({"k": "constraint", "name": nm, "scales": [f2b(x) for x in xs]})
            ncases.append((key, xs, res, err))
    if ctx.driver_ok:
        for (key, xs, res, err), r in zip(ncases, driver.ask(nreqs)):
            if "err" in r:
                if err != r["err"]:
                    ctx.disagree("apply_constraint", key, r, err or "ok", THMS)
            else:
                if err is not None or any(not near(b2f(m), float(v)) for m, v in zip(r["ok"], res)):
                    ctx.disagree("apply_constraint", key, [b2f(m) for m in r["ok"]], err or list(res), THMS)

    # ---- (b2) an unknown constraint name is rejected by every operation, whatever its other options (also where the
    #      operation's unconstrained scales happen to coincide, e.g. softmax with mult = 1)
    for op in CONSTRAINED:
        for rep_ in range(3 if quick else 20):
            case = ops.gen_case(rng, op)
            if op == "add" and case.cfg.get("mode") == "number":
                continue
            for force_mult in ((1.0, None) if "mult" in case.cfg else (None,)):
                cfg_ = {**case.cfg, "constraint": "to_outptu_scale"}
                if force_mult is not None:
                    cfg_["mult"] = force_mult
                bad = ops.OpCase(op, cfg_, case.shapes, case.diff)
                key = {**bad.key(), "unknown_constraint": True}
                ctx.count(key, bucket="unknown-name/op")
                err = None
                try:
                    ops.call_impl(U, bad, ops.make_inputs(bad, 3), 5)
                except ValueError:
                    err = "ValueError"
                except Exception as e:  # noqa: BLE001
                    err = type(e).__name__
                if err != "ValueError":
                    ctx.violation(f"C05:{op}:unknown-name", "an unknown constraint name is not rejected with ValueError", key,
                                  err or "call succeeded")

    # ---- (c) operations
    per = 6 if quick else 120
    mreqs, mcases = [], []
    for op, cnames in CONSTRAINED.items():
        valid = ops.TERNARY if op in ("matmul", "add") else ops.BINARY
        for cname in valid:
            for i in range(per):
                case = ops.gen_case(rng, op, constraint=cname)
                if op == "add" and case.cfg["mode"] == "number":
                    continue
                base = ops.OpCase(op, {**case.cfg, "constraint": None}, case.shapes, case.diff)
                key = case.key()
                ctx.count(key, bucket=f"op/{op}")
                mc = mn = None
                with ctx.guard(f"C05:{op}:call", key):
                    mc = ops.measure(U, case, i + 1, i + 11, warm=(i % 3 == 0))
                    mn = ops.measure(U, base, i + 1, i + 11)
                if mc is None or mn is None:
                    continue
                unc = [mn.fwd] + [mn.bwd[n] for n in cnames]
                if any(math.isnan(v) or v <= 0 for v in unc):
                    continue
                want = rule_value(cname, unc)
                got = [mc.fwd] + [mc.bwd[n] for n in cnames]
                if any(not rel_close(v, want, 1e-9) for v in got):
                    ctx.violation(f"C05:{op}:{cname}:collapse", "forward / constrained backward scales differ from the rule "
                                  "applied to the unconstrained scales", key, {"got": got, "want": want, "unconstrained": unc})
                for n in case.diff:
                    if n not in cnames and not rel_close(mc.bwd[n], mn.bwd[n], 1e-9):
                        ctx.violation(f"C05:{op}:{cname}:weight-grad", "weight/bias gradient scale changed by the constraint",
                                      key, {n: [mc.bwd[n], mn.bwd[n]]})
                req = ops.model_request(case)
                mreqs.append(req)
                mcases.append((case, key, mc))
                reqn = ops.model_request(base)
                mreqs.append(reqn)
                mcases.append((base, base.key(), mn))
    # fixed-constraint ops
    for op in ("silu_glu", "scaled_dot_product_attention"):
        for i in range(per * 2):
            case = ops.gen_case(rng, op)
            key = case.key()
            ctx.count(key, bucket=f"op/{op}")
            m = None
            with ctx.guard(f"C05:{op}:call", key):
                m = ops.measure(U, case, i + 1, i + 11)
            if m is None or math.isnan(m.fwd):
                continue
            if any(not rel_close(m.bwd[n], m.fwd, 1e-9) for n in case.diff):
                ctx.violation(f"C05:{op}:single-scale", "fixed-constraint op has different forward and backward scales", key,
                              {"fwd": m.fwd, "bwd": m.bwd})
            mreqs.append(ops.model_request(case))
            mcases.append((case, key, m))
    if ctx.driver_ok:
        for (case, key, m), r in zip(mcases, driver.ask(mreqs)):
            if "err" in r:
                ctx.disagree("op_scales", key, r, {"fwd": m.fwd}, THMS)
                continue
            names_ = ops.model_bwd_names(case)
            mb = dict(zip(names_, [b2f(x) for x in r["bwd"]]))
            bad = not rel_close(b2f(r["fwd"]), m.fwd, 1e-9)
            for n in case.diff:
                if not math.isnan(m.bwd[n]) and not rel_close(mb[n], m.bwd[n], 1e-9):
                    bad = True
            if bad:
                ctx.disagree("op_scales", key, {"fwd": b2f(r["fwd"]), "bwd": mb}, {"fwd": m.fwd, "bwd": m.bwd}, THMS)

    # ---- (d) finite differences
    from torch.autograd import gradcheck
    n_gc = 0
    for op in CONSTRAINED:
        valid = ops.TERNARY if op in ("matmul", "add") else ops.BINARY
        for cname in valid:
            case = ops.gen_case(rng, op, constraint=cname)
            if op == "add" and case.cfg["mode"] == "number":
                continue
            key = case.key()
            ctx.count({"gradcheck": key}, bucket="gradcheck")
            t = ops.make_inputs(case, 9)
            cn = CONSTRAINED[op]
            for n in case.diff:
                t[n] = t[n].clone().requires_grad_(n in cn)

            def f(*xs):
                tt = dict(t)
                for n, x in zip(cn, xs):
                    tt[n] = x
                return ops.call_impl(U, case, tt, 5)

            ok = False
            with ctx.guard(f"C05:{op}:gradcheck-call", key):
                ok = gradcheck(f, tuple(t[n] for n in cn), eps=1e-6, atol=1e-5, rtol=1e-4, raise_exception=False)
                n_gc += 1
                if not ok:
                    ctx.violation(f"C05:{op}:{cname}:finite-differences", "constrained input gradients disagree with finite differences", key)
                # the same with only ONE constrained input requiring grad (a frozen operand / plain data on the other side)
                if ok and len(cn) > 1:
                    for solo in cn:
                        t1 = {k_: (v_.detach().clone().requires_grad_(k_ == solo) if torch.is_tensor(v_) and v_.is_floating_point() else v_)
                              for k_, v_ in t.items()}

                        def f1(x, solo=solo, t1=t1):
                            tt = dict(t1)
                            tt[solo] = x
                            return ops.call_impl(U, case, tt, 5)

                        n_gc += 1
                        if not gradcheck(f1, (t1[solo],), eps=1e-6, atol=1e-5, rtol=1e-4, raise_exception=False):
                            ctx.violation(f"C05:{op}:{cname}:finite-differences:solo", "with only one operand requiring grad, its "
                                          "gradient disagrees with finite differences", {**key, "requires_grad": solo})
    # the fixed-constraint residual ops: the gradient at x is the true derivative of what is computed, for tau != 1 too,
    # through residual_apply (tau by position and by keyword) and through split / f / add
    for ri in range(6 if quick else 60):
        tau = math.exp(rng.uniform(math.log(0.05), math.log(20.0)))
        form = ("apply-pos", "apply-kw", "split-add")[ri % 3]
        key = {"op": "residual", "tau": tau, "form": form}
        ctx.count({"gradcheck": key}, bucket="gradcheck")
        wr = torch.randn(4, 4, dtype=torch.float64)
        br = lambda z: torch.tanh(z @ wr)  # noqa: E731

        def fr(a, tau=tau, form=form):
            if form == "apply-pos":
                return U.residual_apply(br, a, tau)
            if form == "apply-kw":
                return U.residual_apply(br, a, tau=tau)
            res, skip = U.residual_split(a, tau)
            return U.residual_add(br(res), skip, tau)

        xr = torch.randn(3, 4, dtype=torch.float64, requires_grad=True)
        with ctx.guard("C05:residual:gradcheck-call", key):
            n_gc += 1
            if not gradcheck(fr, (xr,), eps=1e-6, atol=1e-5, rtol=1e-4, raise_exception=False):
                ctx.violation("C05:residual:finite-differences", "the input gradient of the residual layer disagrees with finite "
                              "differences of the function it computes", key)
    # vacuity guard: unconstrained linear with fan_in != fan_out must FAIL gradcheck
    x = torch.randn(4, 3, dtype=torch.float64, requires_grad=True)
    w = torch.randn(7, 3, dtype=torch.float64)
    if gradcheck(lambda a: U.linear(a, w, None, constraint=None), (x,), eps=1e-6, atol=1e-5, rtol=1e-4, raise_exception=False):
        ctx.notes.append("gradcheck did not distinguish an unconstrained op (vacuity guard)")
        ctx.extra["gradcheck_vacuity_guard"] = "FAILED"
    else:
        ctx.extra["gradcheck_vacuity_guard"] = "ok (unconstrained linear fails gradcheck as expected)"
    ctx.extra["gradchecks"] = n_gc
