"""C14 — stochastic rounding picks a neighbour with exactly proportional probability."""
from __future__ import annotations

from typing import Any, Dict, List, Tuple

from .. import driver
from ..common import Ctx, import_repo
from .c13 import fmt_consts, gen_inputs

LEVEL = "proof"
EXPLANATION = (
    "Same bit-level model as C13 with the stochastic offset. Theorems: every draw returns one of the two enclosing "
    "multiples, representable patterns are fixed, and sr_count counts exactly the draws that round up "
    "(floor((rem + floor(2^s/2))/2^s)), hence the exact probability with all bits and the half-unit bound with fewer; "
    "countUp_eq_core ties the count of the end-to-end quantMag to the core's for in-range normal inputs. "
    "The check substitutes torch.randint (recording its arguments) and enumerates all 2^srbits draws: output bit "
    "patterns vs the model per (x, r) (correspondence) and neighbours / fixed points / counted probabilities vs the "
    "fractional position of the value (oracle)."
)
ASSUMPTIONS = ["statistical independence and uniformity of torch.randint's outputs are PyTorch's (one draw per element is checked)",
               "inputs whose power-of-two down-scaling is inexact (float32-subnormal intermediates) get the extra 2^-(k+1) slack"]
THMS = ["USProofs.C14.sr_neighbour", "USProofs.C14.sr_fixes_representable", "USProofs.C14.sr_count",
        "USProofs.C14.sr_prob_exact", "USProofs.C14.sr_prob_half_ulp"]


def _release_memory() -> None:
    """large temporaries are freed per (format, srbits); ask glibc to hand the pages back"""
    import ctypes
    import gc
    gc.collect()
    try:
        ctypes.CDLL("libc.so.6").malloc_trim(0)
    except Exception:
        pass


def run(ctx: Ctx) -> None:
    import_repo()
    import numpy as np
    import torch
    import unit_scaling.formats as fmts
    from unit_scaling.formats import FPFormat

    rng = ctx.rng
    quick = ctx.tier == "quick"
    ctx.rule = ("formats E in 2..7, M in 0..10; srbits in {1..12} and the default (all 23-M bits, enumerated when <= 12 "
                "quick / <= 18 thorough); per (format, srbits) a sample of C13's structured inputs inside the finite range "
                "x ALL 2^srbits draws. distinct = distinct (format, srbits, input pattern, draw).")
    all_formats = [(E, M) for E in range(2, 8) for M in range(0, 11)]
    formats = [(4, 3), (5, 2), (2, 1), (3, 0), (7, 10), (5, 10)] + rng.sample(all_formats, 6 if quick else 40)
    real_randint = torch.randint
    total = 0
    distinct = 0
    jobs: List[Any] = []
    for (E, M) in formats:
        k = 23 - M
        c = fmt_consts(E, M)
        sbs: List[Tuple[int, bool]] = [(sb, False) for sb in ([1, 2, 5] if quick else list(range(1, 13))) if sb <= k]
        if k <= (20 if quick else 22):
            sbs.append((k, True))  # the default: all discarded bits
        bits_all = gen_inputs(np, rng, E, M, 2, full_values=False)
        mag = bits_all[: len(bits_all) // 2]
        x_abs = mag.view(np.float32).astype(np.float64)
        mag = mag[np.isfinite(x_abs) & (x_abs <= c["absmax"] * 1.5)]
        for (sb, is_default) in sbs:
            R = 1 << sb
            n = max(8 if R >= (1 << 19) else 24, min(len(mag), (1 << (21 if quick else 23)) // R))
            # half of the inputs representable (incl. 0 and max), half arbitrary
            mv = mag.view(np.float32).astype(np.float64)
            with np.errstate(divide="ignore"):
                e_ = np.floor(np.log2(np.where(mv > 0, mv, 1.0)))
            u_ = np.where(mv >= c["min_normal"], 2.0 ** (e_ - M), c["min_sub"])
            rep_idx = np.nonzero((np.floor(mv / u_) * u_ == mv) & (mv <= c["absmax"]))[0]
            oth_idx = np.nonzero(~((np.floor(mv / u_) * u_ == mv) & (mv <= c["absmax"])))[0]
            pick = list(rng.sample(list(rep_idx), min(len(rep_idx), n // 2)))
            pick += list(rng.sample(list(oth_idx), min(len(oth_idx), n - len(pick))))
            zero_max = [int(np.nonzero(mv == 0.0)[0][0])] if (mv == 0.0).any() else []
            zero_max += [int(np.nonzero(mv == c["absmax"])[0][0])] if (mv == c["absmax"]).any() else []
            sel = np.sort(np.array(sorted(set(pick + zero_max))))
            n = len(sel)
            m = mag[sel]
            # mix signs
            sign = np.array([rng.getrandbits(1) for _ in range(n)], dtype=np.uint32) << np.uint32(31)
            xb = (m | sign).astype(np.uint32)
            key = {"E": E, "M": M, "srbits": "default" if is_default else sb}
            f = FPFormat(E, M, "stochastic") if is_default else FPFormat(E, M, "stochastic", srbits=sb)
            calls: List[Dict[str, Any]] = []

            def fake_randint(*args, **kw):
                a = list(args)
                low, high = (a[0], a[1]) if len(a) >= 3 or (len(a) == 2 and not isinstance(a[1], (tuple, list, torch.Size))) else (0, a[0])
                size = tuple(kw.get("size", a[2] if len(a) >= 3 else a[-1]))
                dt_ = kw.get("dtype") or torch.int64
                calls.append({"low": low, "high": high, "size": size, "dtype": kw.get("dtype")})
                if len(size) == 2:
                    # enumerate exactly the range the library asks for: row j holds the draw low + j
                    return (low + torch.arange(size[0], dtype=dt_)).unsqueeze(1).expand(size).contiguous()
                return torch.full(size, low, dtype=dt_)

            # dry run: learn the range [low, high) the library draws from
            torch.randint = fake_randint
            try:
                with ctx.guard("C14:call", key):
                    f.quantise(torch.zeros(3))
            finally:
                torch.randint = real_randint
            if not calls:
                ctx.violation("C14:draw", "stochastic rounding does not draw from torch.randint (cannot enumerate the draw)", key)
                continue
            lo_req, hi_req = calls[0]["low"], calls[0]["high"]
            Rr = hi_req - lo_req
            if Rr <= 0 or Rr > (1 << 23):
                ctx.violation("C14:draw", "requested random range is empty or absurd", key, [lo_req, hi_req])
                continue
            calls.clear()
            x = torch.from_numpy(np.broadcast_to(xb.view(np.float32), (Rr, n)).copy())
            y = None
            torch.randint = fake_randint
            try:
                with ctx.guard("C14:call", key):
                    y = f.quantise(x)
            finally:
                torch.randint = real_randint
            if y is None:
                continue
            ctx.evaluations += Rr * n
            distinct += Rr * n
            ctx.bump(f"srbits={'default' if is_default else sb}", Rr * n)
            if len(calls) != 1 or calls[0]["size"] != (Rr, n) or calls[0]["dtype"] not in (torch.int32,):
                ctx.violation("C14:draw", "not exactly one int32 draw per tensor element", key,
                              [{**cc, "dtype": str(cc["dtype"])} for cc in calls][:2])
                continue
            R = Rr  # probabilities are over the uniform distribution of the draw the library actually makes
            yb = y.numpy().view(np.uint32)
            # ---- oracle (exact in float64)
            xv = xb.view(np.float32).astype(np.float64)
            yv = yb.view(np.float32).astype(np.float64)
            ax = np.minimum(np.abs(xv), c["absmax"])
            with np.errstate(divide="ignore"):
                ex = np.floor(np.log2(np.where(ax > 0, ax, 1.0)))
            ex = np.where(2.0 ** ex > ax, ex - 1, ex)
            ex = np.where(2.0 ** (ex + 1) <= ax, ex + 1, ex)
            ulp = np.where(ax >= c["min_normal"], 2.0 ** (ex - M), c["min_sub"])
            lower = np.floor(ax / ulp) * ulp
            is_rep = lower == ax
            upper = np.where(is_rep, ax, lower + ulp)
            ay = np.abs(yv)
            ok_neigh = (ay == lower[None, :]) | (ay == upper[None, :])
            if not ok_neigh.all():
                r_, i = map(int, np.argwhere(~ok_neigh)[0])
                ctx.violation("C14:neighbour", "result is not one of the two representable neighbours", {**key, "x_bits": int(xb[i]), "r": r_},
                              {"y": float(yv[r_, i]), "lower": float(lower[i]), "upper": float(upper[i])})
            if not (np.signbit(yv) == np.signbit(xv)[None, :]).all():
                ctx.violation("C14:sign", "sign not preserved", key)
            moved = is_rep[None, :] & (ay != ax[None, :])
            if moved.any():
                r_, i = map(int, np.argwhere(moved)[0])
                ctx.violation("C14:moves-representable", "a representable input is moved", {**key, "x_bits": int(xb[i]), "r": r_},
                              float(yv[r_, i]))
            cnt = ((ay == upper[None, :]) & ~is_rep[None, :]).sum(axis=0).astype(np.float64)
            frac = np.where(is_rep, 0.0, (ax - lower) / np.where(is_rep, 1.0, upper - lower))
            # exactness of the power-of-two down-scaling: value is a multiple of the float32-subnormal image grid
            grid = 2.0 ** (-22 - c["B"]) if c["B"] <= 127 else 0.0
            exact_div = (np.floor(ax / grid) * grid == ax) if grid else np.ones_like(ax, dtype=bool)
            tol = np.where(exact_div, 0.0, 2.0 ** -(k + 1)) + (0.0 if sb == k else 2.0 ** -(sb + 1))
            bad = np.abs(cnt / R - frac) > tol
            if bad.any():
                i = int(np.nonzero(bad)[0][0])
                ctx.violation("C14:probability" + (":exact" if sb == k else ":half-unit"),
                              "probability of rounding away from zero differs from the fractional position" +
                              (" (all bits: must be exact)" if sb == k else " by more than half a unit of 2^-srbits"),
                              {**key, "x_bits": int(xb[i])}, {"count": int(cnt[i]), "of": R, "fraction": float(frac[i])})
            # keep only what the correspondence needs: sampled draw rows, and per-input multisets of result magnitudes
            rs_keep = list(range(R)) if R <= 64 else sorted(set([0, 1, R // 2 - 1, R // 2, R - 2, R - 1] + [rng.randrange(R) for _ in range(26)]))
            sub_cols = list(range(0, n, max(1, n // 64)))
            colcounts = {}
            if R <= 4096:
                for i in sub_cols:
                    vals_, cnts_ = np.unique(yb[:, i] & np.uint32(0x7FFFFFFF), return_counts=True)
                    colcounts[i] = dict(zip(vals_.tolist(), cnts_.tolist()))
            jobs.append((E, M, sb, xb, R, n, {r: yb[r].copy() for r in rs_keep}, colcounts, cnt))
            del yb, yv, ay, ok_neigh, moved, x, y
            _release_memory()
    # ---- the same draws through the straight-through entry points, for formats that share (E, M) and differ only in the
    #      random-bit count, fewer bits first: every draw of every element gives exactly what `quantise` gives, so the
    #      probabilities counted above are those of quantise_fwd / quantise_bwd too
    for (E, M) in ((4, 3), (5, 2), (3, 6)):
        for sb in (2, 7, 11):
            f = FPFormat(E, M, "stochastic", srbits=sb)
            R = 1 << sb
            key = {"E": E, "M": M, "srbits": sb, "entry": "quantise_fwd/quantise_bwd"}
            gen_ = torch.Generator().manual_seed(E * 100 + M * 10 + sb)
            n = 48
            x1 = (torch.randn(n, generator=gen_) * 2.0 ** torch.randint(-6, 4, (n,), generator=gen_).float())
            x = x1.unsqueeze(0).expand(R, n).contiguous()

            def enum_randint(low, high, size, dtype=None, **kw):
                return (low + torch.arange(size[0], dtype=dtype or torch.int64)).unsqueeze(1).expand(tuple(size)).contiguous()

            torch.randint = enum_randint
            try:
                with ctx.guard("C14:entry-points", key):
                    want = f.quantise(x)
                    got_f = f.quantise_fwd(x.clone().requires_grad_(True)).detach()
                    xi = torch.zeros(R, n, requires_grad=True)
                    (got_b,) = torch.autograd.grad(f.quantise_bwd(xi), xi, x)
                    ctx.evaluations += 2 * R * n
                    distinct += 2 * R * n
                    ctx.bump("entry-points", 2 * R * n)
                    for nm, got in (("quantise_fwd", got_f), ("quantise_bwd", got_b)):
                        if not torch.equal(got, want):
                            j = int((got != want).any(dim=0).nonzero()[0])
                            cnt_g = int((got[:, j].abs() > want[:, j].abs().min()).sum())
                            cnt_w = int((want[:, j].abs() > want[:, j].abs().min()).sum())
                            ctx.violation(f"C14:{nm}:probability", f"{nm} rounds away from zero with a different probability than "
                                          "the format's own stochastic rounding (draws enumerated)",
                                          {**key, "x": float(x1[j])}, {"count": cnt_g, "of": R, "expected_count": cnt_w})
            finally:
                torch.randint = real_randint

    # ---- the format is a plain dataclass: its public fields can be re-assigned (an srbits sweep on one object); quantise
    #      follows the current field values, exactly like a freshly constructed format with those values
    for (E, M, sb0, sb1) in ((4, 3, None, 4), (4, 3, 3, 6), (5, 2, 8, 2), (3, 4, None, 1)):
        key = {"E": E, "M": M, "srbits_constructed": sb0, "srbits_reassigned": sb1}
        R = 1 << sb1
        gen_ = torch.Generator().manual_seed(E * 31 + M * 7 + sb1)
        n = 40
        x1 = (torch.randn(n, generator=gen_) * 2.0 ** torch.randint(-6, 3, (n,), generator=gen_).float())
        X_ = x1.unsqueeze(0).expand(R, n).contiguous()

        def enum_randint4(low, high, size, dtype=None, **kw):
            return (low + torch.arange(size[0], dtype=dtype or torch.int64)).unsqueeze(1).expand(tuple(size)).contiguous()

        torch.randint = enum_randint4
        try:
            with ctx.guard("C14:reassigned-srbits", key):
                f_ = FPFormat(E, M, "stochastic") if sb0 is None else FPFormat(E, M, "stochastic", srbits=sb0)
                f_.quantise(X_[:1])                     # used once as constructed
                f_.srbits = sb1
                got_ = f_.quantise(X_)
                want_ = FPFormat(E, M, "stochastic", srbits=sb1).quantise(X_)
                ctx.evaluations += R * n
                distinct += R * n
                ctx.bump("reassigned-srbits", R * n)
                if not torch.equal(got_, want_):
                    j = int((got_ != want_).any(dim=0).nonzero()[0])
                    ctx.violation("C14:reassigned-srbits", "after re-assigning `srbits` the format does not round like a format "
                                  "constructed with that value (draws enumerated)", {**key, "x": float(x1[j])},
                                  {"got": sorted(set(got_[:, j].tolist())), "want": sorted(set(want_[:, j].tolist()))})
        finally:
            torch.randint = real_randint

    # ---- several formats in one autograd graph: every straight-through op rounds with ITS format (exponent, mantissa,
    #      random-bit count, rounding mode), whichever other formats have ops in the same graph and whenever backward runs
    pairs_ = [((4, 3, "stochastic", 3), (5, 2, "stochastic", 5)), ((4, 3, "stochastic", 2), (4, 3, "stochastic", 6)),
              ((5, 2, "stochastic", 4), (4, 3, "nearest", 0)), ((2, 1, "nearest", 0), (3, 6, "stochastic", 3))]
    for fa_, fb_ in pairs_:
        fmts_ = [FPFormat(e, m, mode, srbits=sb) if mode == "stochastic" else FPFormat(e, m, mode) for (e, m, mode, sb) in (fa_, fb_)]
        key = {"formats": [list(fa_), list(fb_)], "entry": "two formats, one graph"}
        gen_ = torch.Generator().manual_seed(sum(fa_[:2]) * 7 + sum(fb_[:2]))
        n = 40
        x1 = (torch.randn(n, generator=gen_) * 2.0 ** torch.randint(-6, 4, (n,), generator=gen_).float())
        Xs_ = [x1.unsqueeze(0).expand(1 << sb, n).contiguous() for (_, _, _, sb) in (fa_, fb_)]

        def enum_randint3(low, high, size, dtype=None, **kw):
            return (low + torch.arange(size[0], dtype=dtype or torch.int64)).unsqueeze(1).expand(tuple(size)).contiguous()

        torch.randint = enum_randint3
        try:
            with ctx.guard("C14:two-formats", key):
                wants_ = [f_.quantise(X_) for f_, X_ in zip(fmts_, Xs_)]
                leaves_ = [torch.zeros_like(X_).requires_grad_(True) for X_ in Xs_]
                outs_ = [f_.quantise_bwd(l_) for f_, l_ in zip(fmts_, leaves_)]       # both ops exist before backward runs
                fwd_ = [f_.quantise_fwd(X_.clone().requires_grad_(True)) for f_, X_ in zip(fmts_, Xs_)]
                sum((o_ * X_).sum() for o_, X_ in zip(outs_, Xs_)).backward()
                ctx.evaluations += 2 * sum(X_.numel() for X_ in Xs_)
                distinct += 2 * sum(X_.numel() for X_ in Xs_)
                ctx.bump("two-formats", 2 * sum(X_.numel() for X_ in Xs_))
                for k_, (w_, l_, fo_) in enumerate(zip(wants_, leaves_, fwd_)):
                    for nm, got in (("quantise_bwd", l_.grad), ("quantise_fwd", fo_.detach())):
                        if not torch.equal(got, w_):
                            j = int((got != w_).any(dim=0).nonzero()[0])
                            ctx.violation(f"C14:{nm}:other-format", f"{nm} of one format rounds differently when another format's op "
                                          "is in the same graph (draws enumerated)", {**key, "which": k_, "x": float(x1[j])},
                                          {"got": sorted(set(got[:, j].tolist())), "want": sorted(set(w_[:, j].tolist()))})
        finally:
            torch.randint = real_randint

    # ---- inputs of other dtypes: the rounding always runs on a float32 copy, so a value representable in float16 /
    #      bfloat16 / float64 gives, for every draw, the float32 result cast to that dtype
    for (E, M, sb) in ((4, 3, 3), (2, 0, 2), (5, 2, 4), (3, 1, 5), (2, 7, 3), (3, 7, 2), (4, 10, 3), (2, 10, 4), (6, 2, 3), (7, 3, 2)):
        f = FPFormat(E, M, "stochastic", srbits=sb)
        R = 1 << sb
        B_ = 2 ** (E - 1)
        # magnitudes from the format's subnormal range up to its maximum, all multiples of 2^-10 * min_sub spacing
        base_ = torch.tensor([0.0, 0.25, 0.5, 0.75, 1.0, 1.3125, 1.5, 2.0, 2.5, 3.0, 5.0, 6.5], dtype=torch.float32)
        x1 = torch.cat([base_ * 2.0 ** (1 - B_ - M), base_ * 2.0 ** (1 - B_), base_, -base_ * 2.0 ** (1 - B_)])
        for dt_ in (torch.float64, torch.float16, torch.bfloat16):
            # only dtypes that can hold every value of the format (as in C13)
            probe_ = torch.tensor([2.0 ** (2 ** E - 1 - B_) * (2 - 2.0 ** -M), 2.0 ** (1 - B_ - M), 2.0 ** (1 - B_) * (1 + 2.0 ** -M)],
                                  dtype=torch.float64)
            if not torch.equal(probe_.to(dt_).to(torch.float64), probe_):
                # wide-exponent formats on float16 tensors: the format's extremes do not fit float16, but every float16 value of
                # moderate size lies in the format's normal range and its two neighbours (<= M+1 <= 11 significant bits, same
                # binade or the next) are float16 values again - the clause about non-float32 inputs applies to them
                if not (dt_ == torch.float16 and E >= 6 and M <= 10):
                    continue
            xs_ = x1.to(dt_).to(torch.float32)          # keep only what the dtype can hold
            key = {"E": E, "M": M, "srbits": sb, "input_dtype": str(dt_)}

            def enum_randint2(low, high, size, dtype=None, **kw):
                return (low + torch.arange(size[0], dtype=dtype or torch.int64)).unsqueeze(1).expand(tuple(size)).contiguous()

            torch.randint = enum_randint2
            try:
                with ctx.guard("C14:dtype", key):
                    X = xs_.unsqueeze(0).expand(R, len(xs_)).contiguous()
                    want = f.quantise(X)
                    got = f.quantise(X.to(dt_))
                    ctx.evaluations += R * len(xs_)
                    distinct += R * len(xs_)
                    ctx.bump("input-dtypes", R * len(xs_))
                    if got.dtype != dt_ or got.shape != X.shape:
                        ctx.violation("C14:dtype:shape", "dtype or shape of the result differs from the input's", key, str(got.dtype))
                    elif not torch.equal(got.to(torch.float32), want.to(dt_).to(torch.float32)):
                        bad_ = (got.to(torch.float32) != want.to(dt_).to(torch.float32)).any(dim=0).nonzero()
                        j = int(bad_[0]) if len(bad_) else 0
                        ctx.violation("C14:dtype:value", "stochastic rounding of a non-float32 tensor differs from rounding the same "
                                      "values in float32 (result not a neighbour / wrong probability)", {**key, "x": float(xs_[j])},
                                      {"got": got[:, j].float().unique().tolist()[:4], "want": want[:, j].unique().tolist()[:4]})
            finally:
                torch.randint = real_randint

    # ---- the process-wide default dtype (torch.set_default_dtype) is not an argument of quantise: results for float32
    #      tensors, including values beyond the format's range and 0-dim tensors, are the same under any default
    old_default = torch.get_default_dtype()
    for (E, M, sb) in ((5, 10, 3), (4, 3, 2), (6, 9, 4), (3, 8, 3)):
        f = FPFormat(E, M, "stochastic", srbits=sb)
        R = 1 << sb
        mx = f.max_absolute_value
        xs_ = torch.tensor([0.3, -1.7, mx, mx * (1 + 2.0 ** -12), mx * 1.5, -mx * 4, mx * (1 - 2.0 ** -(M + 2))], dtype=torch.float32)

        def enum_randint3(low, high, size, dtype=None, **kw):
            if len(tuple(size)) == 0:
                return torch.tensor(high - 1, dtype=dtype or torch.int64)       # 0-dim tensor: the largest draw
            return (low + torch.arange(size[0], dtype=dtype or torch.int64)).unsqueeze(1).expand(tuple(size)).contiguous()

        X = xs_.unsqueeze(0).expand(R, len(xs_)).contiguous()
        torch.randint = enum_randint3
        try:
            want = want0 = None
            with ctx.guard("C14:default-dtype:float32", {"E": E, "M": M, "srbits": sb}):
                want = f.quantise(X)
                want0 = f.quantise(torch.tensor(mx * 2, dtype=torch.float32))
            for dd in ((torch.float64, torch.bfloat16, torch.float16) if want is not None and want0 is not None else ()):
                key = {"E": E, "M": M, "srbits": sb, "default_dtype": str(dd)}
                ctx.count(key, bucket="default-dtype")
                try:
                    torch.set_default_dtype(dd)
                    with ctx.guard("C14:default-dtype", key):
                        got = f.quantise(X)
                        got0 = f.quantise(torch.tensor(mx * 2, dtype=torch.float32))
                        if got.dtype != torch.float32 or not torch.equal(got, want) or not torch.equal(got0, want0):
                            ctx.violation("C14:default-dtype", "the result for a float32 tensor depends on torch's global default dtype "
                                          "(e.g. the clamp bound is no longer the format's maximum)", key,
                                          {"got_max": float(got.abs().max()), "want_max": float(want.abs().max())})
                finally:
                    torch.set_default_dtype(old_default)
        finally:
            torch.randint = real_randint
            torch.set_default_dtype(old_default)

    ctx.distinct_extra += distinct
    ctx.samples = [{"E": 4, "M": 3, "srbits": 5, "x_bits": 0x3FA66666, "draws": "all 32"}]

    # ---- correspondence: identical bit patterns per (x, r); counts vs the model's count
    if ctx.driver_ok:
        for (E, M, sb, xb, R, n, rows, colcounts, cnt) in jobs:
            if R != (1 << sb):
                ctx.disagree('draw_range', {'E': E, 'M': M, 'srbits': sb}, 1 << sb, R, THMS)
                continue
            # per-(x,r) patterns for a slice of the draws (all draws for small R)
            rs = sorted(rows)
            reqs = [{"k": "quant", "E": E, "M": M, "mode": "sr", "srbits": sb, "r": r, "bits": xb.tolist()} for r in rs]
            for r, resp in zip(rs, driver.ask(reqs, timeout=1200)):
                mo = np.array(resp["out"], dtype=np.uint32)
                d = np.nonzero(mo != rows[r])[0]
                if len(d):
                    i = int(d[0])
                    ctx.disagree("quantise_sr_bits", {"E": E, "M": M, "srbits": sb, "r": r, "x_bits": int(xb[i])},
                                 int(mo[i]), int(rows[r][i]), THMS)
                    break
            if R <= 4096:
                sub = sorted(colcounts)
                resp = driver.ask([{"k": "srcount", "E": E, "M": M, "srbits": sb,
                                    "bits": [int(xb[i] & 0x7FFFFFFF) for i in sub]}], timeout=1200)[0]
                k = 23 - M
                S = 1 << (k - sb)
                for j, i in enumerate(sub):
                    mc, q, fl, up, core = (resp[key_][j] for key_ in ("count", "q", "floor", "up", "core"))
                    # the theorem's closed form on the pre-rounding pattern q, and the core count, agree with the
                    # executed model; the implementation's count of draws giving the upper pattern agrees with both
                    formula = ((q % (1 << k)) + S // 2) // S
                    impl_cnt = colcounts[i].get(up, 0) if up != fl else 0
                    if not (mc == core == formula == impl_cnt):
                        ctx.disagree("sr_count", {"E": E, "M": M, "srbits": sb, "x_bits": int(xb[i])},
                                     {"model": mc, "core": core, "formula": formula}, impl_cnt, THMS)
                        break
