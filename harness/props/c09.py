"""C09 — u-muP parameter tags survive any history of copies, pickling and transforms."""
from __future__ import annotations

import copy
import io
import itertools
import pickle
from typing import Any, Dict, List, Optional, Tuple

from .. import driver
from ..common import Ctx, import_repo

LEVEL = "proof"
EXPLANATION = (
    "Lean state machine of the tag/hook state of one parameter; invariant (tagged, hooked, parameter, same type and "
    "depth) proved for every operation and by induction for every history of any length, hence same LR scale. The "
    "check executes every history up to the tier's length on real objects and compares the observed abstract state "
    "after every step with the model (correspondence, exhaustive over the listed histories) and evaluates the property "
    "directly: tags, values, dtype, requires_grad, registration, optimizer acceptance and learning-rate scale (oracle)."
)
ASSUMPTIONS = ["module.to/half/load_state_dict with default arguments update parameters in place (assign=True and "
               "set_overwrite_module_params_on_conversion(True) are outside the alphabet)"]
OPS = ["deepcopyParam", "deepcopyModule", "pickleParam", "pickleModule", "saveLoadParam", "saveLoadModule",
       "toFloat64", "half", "loadStateDict", "toggleRequiresGrad", "applyTransform"]
THMS = ["USProofs.C09.inv_step", "USProofs.C09.inv_history_partial", "USProofs.C09.lr_same"]
SHAPES = {"weight": (3, 4), "bias": (4,), "norm": (4,), "output": (3, 4)}


def run(ctx: Ctx) -> None:
    import_repo()
    import torch
    import unit_scaling as uu
    from torch import nn
    from unit_scaling import optim as uo
    from unit_scaling.parameter import has_parameter_data
    from unit_scaling.transforms import simulate_fp8, track_scales, unit_scale

    torch.set_num_threads(1)
    quick = ctx.tier == "quick"
    ctx.rule = ("all histories over the 11-operation alphabet: quick = length <= 3 for (weight, depth 7) and length <= 2 for "
                "all 4 tags x depth {None,1,7}; thorough = length <= 4 for one tag and <= 3 for all. Every step of every "
                "history is observed. distinct = distinct (tag, depth, history).")

    class Holder(nn.Module):
        def __init__(self, p):
            super().__init__()
            self.p = p

        def forward(self, x):
            return x * self.p.sum()

    class LinHolder(nn.Module):
        """the parameter is the bias of a unit-scaled Linear layer (what unit_scale's bias handling touches)"""

        def __init__(self, b=None):
            super().__init__()
            self.lin = uu.Linear(3, 4, bias=True)
            if b is not None:
                self.lin.bias = b

        @property
        def p(self):
            return self.lin.bias

        def forward(self, x):
            return self.lin(x)

    DT = {torch.float16: "f16", torch.float32: "f32", torch.float64: "f64"}

    def apply(op: str, h: Any, step_i: int) -> Any:
        p = h.p
        if op == "deepcopyParam":
            return Holder(copy.deepcopy(p))
        if op == "deepcopyModule":
            return copy.deepcopy(h)
        if op == "pickleParam":
            return Holder(pickle.loads(pickle.dumps(p)))
        if op == "pickleModule":
            return pickle.loads(pickle.dumps(h))
        if op == "saveLoadParam":
            b = io.BytesIO()
            torch.save(p, b)
            b.seek(0)
            return Holder(torch.load(b, weights_only=False))
        if op == "saveLoadModule":
            b = io.BytesIO()
            torch.save(h, b)
            b.seek(0)
            return torch.load(b, weights_only=False)
        if op == "toFloat64":
            return h.to(torch.float64)
        if op == "half":
            return h.half()
        if op == "loadStateDict":
            sd = {k: v.detach().clone() for k, v in h.state_dict().items()}
            h.load_state_dict(sd)
            return h
        if op == "toggleRequiresGrad":
            p.requires_grad_(not p.requires_grad)
            return h
        if op == "applyTransform":
            if isinstance(h, LinHolder) or type(h).__name__.endswith("LinHolder") or hasattr(h, "lin"):
                # rotate over three transforms; unit_scale is documented to precede track_scales, so it is not applied after it
                tracked = any(type(b_).__name__.startswith("ScaleTracking") for b_ in getattr(h, "backends", []))
                choice = (step_i + 2) % 3
                if choice == 2 and not tracked:
                    return unit_scale(h)
                return (simulate_fp8 if choice == 0 else track_scales)(h)
            return (simulate_fp8 if step_i % 2 == 0 else track_scales)(h)
        raise KeyError(op)

    def lr_of(p) -> Tuple[Any, Any]:
        q = p if p.requires_grad else None
        a = uo.Adam([p], lr=1.0).param_groups[0]["lr"]
        s = uo.SGD([p], lr=1.0, readout_constraint="to_output_scale").param_groups[0]["lr"]
        # a tensor learning rate gives the same scale (to float32 precision), whatever the parameter's dtype has become
        ta = uo.AdamW([p], lr=torch.tensor(1e-3)).param_groups[0]["lr"]
        ts = uo.SGD([p], lr=torch.tensor(1e-3), readout_constraint="to_output_scale").param_groups[0]["lr"]
        for name_, tv, fv in (("AdamW", ta, a), ("SGD", ts, s)):
            if abs(float(tv) / 1e-3 - float(fv)) > 1e-5 * abs(float(fv)):
                raise ValueError(f"tensor lr gives scale {float(tv) / 1e-3!r} but float lr gives {float(fv)!r} ({name_}, "
                                 f"parameter dtype {p.dtype})")
        return (float(a), float(s))

    plans: List[Tuple[str, Optional[int], int]] = []
    if quick:
        plans.append(("weight", 7, 3))
        plans += [(t, d, 2) for t in SHAPES for d in (None, 1, 7) if (t, d) != ("weight", 7)]
    else:
        plans.append(("weight", 7, 4))
        plans.append(("norm", None, 4))
        plans += [(t, d, 3) for t in SHAPES for d in (None, 1, 7) if (t, d) not in (("weight", 7), ("norm", None))]

    # the nn.Module classes must be picklable: register Holder at module level
    import sys
    setattr(sys.modules[__name__], "Holder", Holder)
    Holder.__qualname__ = "Holder"
    Holder.__module__ = __name__
    setattr(sys.modules[__name__], "LinHolder", LinHolder)
    LinHolder.__qualname__ = "LinHolder"
    LinHolder.__module__ = __name__

    plans_h = [(t_, d_, l_, "attr") for (t_, d_, l_) in plans] + [("bias", None, 2 if quick else 3, "linear-bias"),
                                                                 ("bias", 7, 2, "linear-bias")]
    reqs, obs_all = [], []
    for (tag, depth, maxlen, holder_kind) in plans_h:
        torch.manual_seed(0)
        data0 = torch.randn(SHAPES[tag]) if holder_kind == "attr" else torch.zeros(4)
        orig = uu.Parameter(data0.clone(), tag, depth)
        lr0 = lr_of(orig)
        for L in range(0, maxlen + 1):
            for hist in itertools.product(OPS, repeat=L):
                key = {"tag": tag, "depth": depth, "history": list(hist), **({"holder": holder_kind} if holder_kind != "attr" else {})}
                ctx.count(key, bucket=f"len{L}")
                h: Any = Holder(uu.Parameter(data0.clone(), tag, depth)) if holder_kind == "attr" else \
                    LinHolder(uu.Parameter(data0.clone(), tag, depth))
                want_rg = True
                prec = torch.float32
                trace = []
                ok = True
                transformed = False
                def record(p_) -> Dict[str, Any]:
                    d_ = p_.__dict__
                    return {"tagged": bool(has_parameter_data(p_)), "hooked": "__deepcopy__" in d_ and "__reduce_ex__" in d_,
                            "is_param": isinstance(p_, nn.Parameter), "dtype": str(p_.dtype),
                            "requires_grad": bool(p_.requires_grad), "depth": getattr(p_, "mup_scaling_depth", "missing"),
                            "type": getattr(p_, "mup_type", "missing")}

                for i, op in enumerate(hist):
                    src, src_rec = h, record(h.p)
                    try:
                        h = apply(op, h, i)
                    except Exception as e:  # noqa
                        ok = False
                        trace.append(None)
                        if op in ("pickleModule", "saveLoadModule") and transformed:
                            ctx.violation("C09:unpicklable-transformed-module",
                                          f"pickling a module returned by a library transform raises {type(e).__name__}", key,
                                          str(e)[:120])
                        else:
                            ctx.violation(f"C09:op:{op}:{type(e).__name__}", f"operation raised {type(e).__name__}: {str(e)[:120]}",
                                          {**key, "step": i})
                        break
                    if h is not src:
                        # the operation produced a new object: the one it was applied to is still the same parameter
                        # (it may be copied, pickled or transformed again later)
                        after_rec = record(src.p)
                        if after_rec != src_rec:
                            cp = copy.deepcopy(src.p)
                            ctx.violation("C09:source-damaged", f"{op} changed the parameter it was applied to: "
                                          f"{ {k: (src_rec[k], after_rec[k]) for k in src_rec if src_rec[k] != after_rec[k]} }; a later "
                                          f"deepcopy of it is {'still' if has_parameter_data(cp) else 'no longer'} tagged",
                                          {**key, "step": i})
                    if op == "applyTransform":
                        transformed = True
                    elif op in ("deepcopyParam", "pickleParam", "saveLoadParam"):
                        transformed = False
                    if op == "toggleRequiresGrad":
                        want_rg = not want_rg
                    if op == "half":
                        prec = torch.float16
                    p = h.p
                    d = p.__dict__
                    trace.append({"tagged": bool(has_parameter_data(p)), "hooked": "__deepcopy__" in d and "__reduce_ex__" in d,
                                  "is_param": isinstance(p, nn.Parameter), "dtype": DT.get(p.dtype, str(p.dtype)),
                                  "prec": DT[prec], "requires_grad": bool(p.requires_grad),
                                  "depth": getattr(p, "mup_scaling_depth", "missing")})
                if hist:
                    reqs.append({"k": "hist", "tag": tag, "depth": depth, "ops": list(hist)})
                    obs_all.append((key, trace))
                if not ok:
                    continue
                p = h.p
                # ---- property oracle at the end of the history
                fails = []
                if not has_parameter_data(p):
                    fails.append("tags lost (has_parameter_data is False)")
                else:
                    if p.mup_type != tag or p.mup_scaling_depth != depth:
                        fails.append(f"tags changed: {p.mup_type}, {p.mup_scaling_depth}")
                if not isinstance(p, nn.Parameter):
                    fails.append("no longer an nn.Parameter")
                if not any(q is p for q in h.parameters()):
                    fails.append("not registered as a module parameter")
                if p.requires_grad != want_rg:
                    fails.append(f"requires_grad is {p.requires_grad}, expected {want_rg}")
                want_dtype = torch.float32
                for op in hist:
                    want_dtype = {"toFloat64": torch.float64, "half": torch.float16}.get(op, want_dtype)
                if p.dtype != want_dtype:
                    fails.append(f"dtype is {p.dtype}, expected {want_dtype}")
                want_vals = data0.to(prec).to(p.dtype)
                if p.shape != data0.shape or not torch.equal(p.detach(), want_vals):
                    fails.append("values changed")
                if not fails:
                    lr1 = None
                    was = p.requires_grad
                    try:
                        lr1 = lr_of(p)
                    except Exception as e:  # noqa
                        fails.append(f"optimizer rejects it: {type(e).__name__}: {str(e)[:80]}")
                    if lr1 is not None and lr1 != lr0:
                        fails.append(f"learning-rate scale changed: {lr1} vs {lr0}")
                if fails:
                    kind = fails[0].split(":")[0].split(" (")[0]
                    ctx.violation(f"C09:{kind}", "; ".join(fails), key)
    ctx.exhaustive = True

    if ctx.driver_ok:
        resp = driver.ask(reqs, timeout=1800)
        bad = 0
        for (key, trace), r in zip(obs_all, resp):
            mt = r["trace"]
            if mt != trace:
                bad += 1
                if bad <= 10:
                    i = next((i for i, (a, b) in enumerate(zip(mt, trace)) if a != b), 0)
                    ctx.disagree("state_machine", {**key, "first_differing_step": i}, mt[i] if i < len(mt) else None,
                                 trace[i] if i < len(trace) else None, THMS)
        ctx.extra["transitions_compared"] = sum(len(t) for _, t in obs_all)
