"""C11 — parameter groups are preserved; weight decay is learning-rate independent."""
from __future__ import annotations

import math
from typing import Any, Dict, List, Optional

from .. import driver
from ..common import Ctx, b2f, f2b, import_repo, near, rel_close

LEVEL = "proof"
EXPLANATION = (
    "Theorems over the Lean list/heap model of scaled_parameters (params preserved, keys carried, caller's cells "
    "unchanged, fresh lr cells for scaled groups, lr'*wd' = wd, zero-gradient SGD/AdamW step = (1-wd)p). "
    "Correspondence: random group lists through the real scaled_parameters vs the model (group order, parameter "
    "identity, lr kind/value/alias partition, weight decay, carried keys, error kinds); the property oracle checks "
    "the stated clauses directly, including 1-3 real optimizer steps with zero gradients."
)
ASSUMPTIONS = ["untagged, explicitly allowed parameters keep the caller's lr object (outside 'scaled groups'; reported as an observation)"]
TAGS = ["weight", "bias", "norm", "output"]
THMS = ["USProofs.C11.params_preserved", "USProofs.C11.input_heap_unchanged", "USProofs.C11.keys_carried",
        "USProofs.C11.scaled_lr_fresh", "USProofs.C11.wd_independent", "USProofs.C11.wd_passthrough"]


def run(ctx: Ctx) -> None:
    import_repo()
    import torch
    import unit_scaling as uu
    from torch import nn
    from unit_scaling import optim as uo

    rng = ctx.rng
    quick = ctx.tier == "quick"
    n_cases = 500 if quick else 12000
    ctx.rule = ("random calls of scaled_parameters / SGD / AdamW: 1-6 groups of 1-5 params (or a bare list / generator), "
                "optional per-group lr (float, fresh tensor, or a tensor shared with other groups / the global lr), "
                "weight_decay incl. exactly 0, extra keys; both flags; 0-2 untagged params when allowed; then 1-3 "
                "zero-gradient steps. distinct = distinct structural signature + values; trivial = none.")
    reqs: List[Dict[str, Any]] = []
    after: List[Any] = []
    aliased_untagged = 0

    for ci in range(n_cases):
        opt_kind = rng.choice(["adam", "sgd_out", "adam"])
        indep = rng.random() < 0.7
        allow = rng.random() < 0.3
        lr_mode = rng.choice(["float", "t32", "t64"])
        supply = rng.choice(["bare", "generator", "groups", "groups", "groups"])
        gwd = rng.choice([0.0, 0.1, rng.uniform(0, 0.5)])
        glr_v = math.exp(rng.uniform(math.log(1e-4), math.log(10)))

        def tens(v: float):
            return torch.tensor(v, dtype=torch.float32 if lr_mode == "t32" else torch.float64)

        glr: Any = glr_v if lr_mode == "float" else tens(glr_v)
        shared = None if lr_mode == "float" else tens(math.exp(rng.uniform(-5, 1)))
        pid = 0
        params: List[Any] = []
        pmeta: List[Dict[str, Any]] = []

        def new_param():
            nonlocal pid
            r = rng.choice((1, 2, 3))
            untagged = allow and rng.random() < 0.2
            tag = None if untagged else rng.choice(TAGS)
            # "whatever its shape": scalars (a learnable gain / temperature) and 4-d parameters wherever the rule of the
            # unchanged library needs no fan-in (weights of rank 0 / >= 4 are rejected by design; the SGD bias/norm rule
            # reads shape[0])
            if rng.random() < 0.25:
                if tag != "weight":
                    r = 4
                if tag in (None, "output") or (tag in ("bias", "norm") and opt_kind == "adam"):
                    r = rng.choice((0, 4))
            shape = tuple(rng.choice([1, 2, 3, 4, 5, 6]) for _ in range(r))
            if untagged:
                p = nn.Parameter(torch.randn(shape, dtype=torch.float64))
                meta = {"id": pid, "tag": None, "shape": list(shape), "depth": None}
            else:
                depth = rng.choice([None, None, 1, 4, 9])
                p = uu.Parameter(torch.randn(shape, dtype=torch.float64), tag, depth)
                meta = {"id": pid, "tag": tag, "shape": list(shape), "depth": depth}
            if rng.random() < 0.12:
                # frozen when the groups are built: still an input parameter (it is listed, in place, and decays like the rest
                # once it holds a gradient)
                p.requires_grad_(False)
            pid += 1
            params.append(p)
            pmeta.append(meta)
            return p, meta

        entries_impl: List[Any] = []
        entries_model: List[Any] = []
        heap: List[Any] = []  # distinct caller tensors

        def addr(t) -> int:
            for i, h in enumerate(heap):
                if h is t:
                    return i
            heap.append(t)
            return len(heap) - 1

        def lrjson(v) -> Any:
            if v is None:
                return None
            if isinstance(v, torch.Tensor):
                return {"c": addr(v)}
            return {"f": f2b(v)}

        if supply in ("bare", "generator"):
            for _ in range(rng.randint(1, 8)):
                p, m = new_param()
                entries_impl.append(p)
                entries_model.append({"bare": m})
        else:
            for _ in range(rng.randint(1, 6)):
                g: Dict[str, Any] = {"params": []}
                gm: Dict[str, Any] = {"params": [], "lr": None, "wd": None, "extra": []}
                for _ in range(rng.randint(1, 5)):
                    p, m = new_param()
                    g["params"].append(p)
                    gm["params"].append(m)
                c = rng.random()
                if c < 0.25:
                    g["lr"] = math.exp(rng.uniform(-6, 1))
                elif c < 0.4 and lr_mode != "float":
                    g["lr"] = tens(math.exp(rng.uniform(-6, 1)))
                elif c < 0.6 and lr_mode != "float":
                    g["lr"] = shared if rng.random() < 0.7 else glr
                if "lr" in g:
                    gm["lr"] = lrjson(g["lr"])
                if rng.random() < 0.4:
                    g["weight_decay"] = rng.choice([0.0, 0.0, 0.01, rng.uniform(0, 0.5)])
                    gm["wd"] = f2b(g["weight_decay"])
                for key, val in (("betas", (0.8, 0.95)), ("momentum", 0.0), ("eps", 1e-6), ("foo", "bar"),
                                 ("maximize", False)):
                    if rng.random() < 0.25 and not (key == "momentum" and opt_kind != "sgd_out") \
                            and not (key == "betas" and opt_kind == "sgd_out"):
                        g[key] = val
                        gm["extra"].append([key, repr(val)])
                entries_impl.append(g)
                entries_model.append({"group": gm})
        glr_json = lrjson(glr)
        heap_before = [float(t) for t in heap]
        heap_ids = {id(t) for t in heap}
        # deep snapshot of the caller's groups
        snap = [(sorted((k, id(v) if k in ("params", "lr") else repr(v)) for k, v in e.items()),
                 [id(p) for p in e["params"]]) if isinstance(e, dict) else id(e) for e in entries_impl]
        fn = uo.lr_scale_func_adam if opt_kind == "adam" else uo.lr_scale_func_sgd("to_output_scale")
        # a group's "params" may itself be a one-shot iterator, as in {"params": module.parameters(), "lr": ...}
        iter_groups = [isinstance(e, dict) and rng.random() < 0.3 for e in entries_impl]
        passed = [({**e, "params": (q for q in e["params"])} if it else e) for e, it in zip(entries_impl, iter_groups)]
        arg = (e for e in passed) if supply == "generator" else passed
        case = {"opt": opt_kind, "indep": indep, "allow": allow, "lr_mode": lr_mode, "supply": supply,
                "wd": gwd, "lr": glr_v, "entries": entries_model, "iterator_params": iter_groups}
        sig = {"opt": opt_kind, "indep": indep, "allow": allow, "lr_mode": lr_mode, "supply": supply,
               "shape": [[len(e["group"]["params"]), e["group"]["lr"] is not None, e["group"]["wd"] is not None,
                          len(e["group"]["extra"])] if "group" in e else 0 for e in entries_model],
               "tags": [m["tag"] for m in pmeta], "v": [round(gwd, 6), round(glr_v, 9)]}
        ctx.count(sig, bucket=f"{supply}/{lr_mode}/{'indep' if indep else 'dep'}")
        out = None
        with ctx.guard("C11:call", case):
            out = uo.scaled_parameters(arg, fn, lr=glr, weight_decay=gwd, independent_weight_decay=indep,
                                       allow_non_unit_scaling_params=allow)
        reqs.append({"k": "groups", "opt": opt_kind, "indep": indep, "allow": allow, "lr": glr_json,
                     "wd": f2b(gwd), "heap": [f2b(v) for v in heap_before], "entries": entries_model})
        after.append((case, out, heap_ids, [id(p) for p in params], lr_mode))
        if out is None:
            continue

        # ---- property oracle on the real result
        flat = [p for e in entries_impl for p in (e["params"] if isinstance(e, dict) else [e])]
        src = [e if isinstance(e, dict) else {} for e in entries_impl for _ in (e["params"] if isinstance(e, dict) else [e])]
        if len(out) != len(flat) or any(len(g["params"]) != 1 or g["params"][0] is not p for g, p in zip(out, flat)):
            ctx.violation("C11:params", "groups do not contain every input parameter exactly once, in order, one per group",
                          case, [len(g["params"]) for g in out])
            continue
        for g, s, p in zip(out, src, flat):
            for k, v in s.items():
                if k in ("params", "lr", "weight_decay"):
                    continue
                if k not in g or g[k] != v:
                    ctx.violation("C11:keys", f"option {k!r} of the source group not carried over", case, str(g.get(k)))
            for k in g:
                if k not in ("params", "lr", "weight_decay") and k not in s:
                    ctx.violation("C11:keys-extra", f"unexpected option {k!r} in produced group", case)
        snap2 = [(sorted((k, id(v) if k in ("params", "lr") else repr(v)) for k, v in e.items()),
                  [id(p) for p in e["params"]]) if isinstance(e, dict) else id(e) for e in entries_impl]
        if snap2 != snap:
            ctx.violation("C11:caller-groups", "the caller's groups were modified", case)
        if [float(t) for t in heap] != heap_before:
            ctx.violation("C11:caller-lr", "a caller's learning-rate tensor was modified", case,
                          {"before": heap_before, "after": [float(t) for t in heap]})
        seen: Dict[int, int] = {}
        for i, (g, p, s) in enumerate(zip(out, flat, src)):
            tagged = uu.parameter.has_parameter_data(p)
            if isinstance(g["lr"], torch.Tensor):
                if tagged:
                    if id(g["lr"]) in heap_ids:
                        ctx.violation("C11:alias-caller", "a scaled group's lr tensor is the caller's tensor", case, i)
                    if id(g["lr"]) in seen:
                        ctx.violation("C11:alias-groups", "two scaled groups share one lr tensor", case, [seen[id(g['lr'])], i])
                    seen[id(g["lr"])] = i
                else:
                    aliased_untagged += 1
            req_wd = s.get("weight_decay", gwd)
            lrv = float(g["lr"])
            if indep:
                if lrv > 0 and not rel_close(lrv * g["weight_decay"], req_wd, 1e-12) and not (req_wd == 0 and g["weight_decay"] == 0):
                    ctx.violation("C11:wd-independent", "lr x weight_decay differs from the requested decay", case,
                                  {"lr": lrv, "wd": g["weight_decay"], "requested": req_wd})
            elif g["weight_decay"] != req_wd:
                ctx.violation("C11:wd-passthrough", "weight decay changed although independence is disabled", case,
                              {"wd": g["weight_decay"], "requested": req_wd})

        # ---- real optimizer steps with zero gradients (SGD and AdamW classes of the library)
        if ci % (4 if quick else 2) == 0 and not any(isinstance(e, dict) and ("foo" in e) for e in entries_impl):
            for cls_name in ("SGD", "AdamW"):
                ents = []
                for e in entries_impl:
                    if isinstance(e, dict):
                        d = {k: v for k, v in e.items() if k not in ("betas", "momentum", "eps", "maximize")}
                        ents.append(d)
                    else:
                        ents.append(e)
                kw: Dict[str, Any] = {}
                if cls_name == "SGD":
                    kw["readout_constraint"] = None if opt_kind == "adam" else "to_output_scale"
                p0 = [p.detach().clone() for p in flat]
                steps = rng.randint(1, 3)
                scase = {**case, "optimizer": cls_name, "steps": steps}
                ctx.count({"steps": sig, "optimizer": cls_name, "n": steps}, bucket="steps/" + cls_name)
                ok = False
                with ctx.guard("C11:step", scase):
                    o = getattr(uo, cls_name)(ents, lr=glr, weight_decay=gwd, independent_weight_decay=True,
                                              allow_non_unit_scaling_params=allow, **kw)
                    for _ in range(steps):
                        for p in flat:
                            p.grad = torch.zeros_like(p)
                        o.step()
                    ok = True
                if ok:
                    for p, q, s in zip(flat, p0, src):
                        req_wd = s.get("weight_decay", gwd)
                        want = q * (1 - req_wd) ** steps
                        tol = 1e-6 if lr_mode == "t32" else 1e-12
                        if not torch.allclose(p.detach(), want, rtol=tol, atol=1e-300):
                            ctx.violation(f"C11:zero-step:{cls_name}", "zero-gradient step(s) did not multiply the parameter by (1-wd)^k",
                                          scase, {"ratio": float((p.detach() / q).flatten()[0]), "want": (1 - req_wd) ** steps})
                            break
                with torch.no_grad():
                    for p, q in zip(flat, p0):
                        p.copy_(q)
                        p.grad = None

    # ---- correspondence with the Lean model
    if ctx.driver_ok:
        resp = driver.ask(reqs)
        for (case, out, heap_ids, pids, lr_mode), r in zip(after, resp):
            if out is None:
                if "err" not in r:
                    ctx.disagree("scaled_parameters", case, "ok", "exception", THMS)
                continue
            if "err" in r:
                ctx.disagree("scaled_parameters", case, r, "ok", THMS)
                continue
            mg = r["groups"]
            tol_ulp = 4
            ok = len(mg) == len(out)
            cellmap: Dict[int, int] = {}
            if ok:
                for g, m in zip(out, mg):
                    import torch as _t
                    is_t = isinstance(g["lr"], _t.Tensor)
                    if is_t != ("c" in m["lr"]):
                        ok = False
                        break
                    mv = b2f(r["heap"][m["lr"]["c"]]) if is_t else b2f(m["lr"]["f"])
                    iv = float(g["lr"])
                    close = rel_close(mv, iv, 2.0 ** -21) if lr_mode == "t32" and is_t else near(mv, iv)
                    mwd, iwd = b2f(m["wd"]), float(g["weight_decay"])
                    close_wd = (rel_close(mwd, iwd, 2.0 ** -21) if lr_mode == "t32" and is_t else near(mwd, iwd)) \
                        or (math.isinf(mwd) and math.isinf(iwd)) or (math.isnan(mwd) and math.isnan(iwd))
                    if not (close and close_wd):
                        ok = False
                        break
                    if is_t:
                        # alias partition: same model cell <-> same implementation tensor object
                        a = m["lr"]["c"]
                        if cellmap.setdefault(a, id(g["lr"])) != id(g["lr"]):
                            ok = False
                            break
                    mextra = sorted((k, v) for k, v in m["extra"])
                    iextra = sorted((k, repr(v)) for k, v in g.items() if k not in ("params", "lr", "weight_decay"))
                    if mextra != iextra:
                        ok = False
                        break
                if ok and len(set(cellmap.values())) != len(cellmap):
                    ok = False
            if not ok:
                ctx.disagree("scaled_parameters", case, mg[:6],
                             [{"lr": float(g["lr"]), "wd": float(g["weight_decay"])} for g in out[:6]], THMS)
    ctx.extra["untagged_allowed_params_sharing_callers_lr_tensor"] = aliased_untagged
