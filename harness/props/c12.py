"""C12 — width-independent updates: one Adam step moves every output by exactly lr."""
from __future__ import annotations

import copy
import math
import pickle
from collections import OrderedDict
from typing import Any, List

from .. import driver
from ..common import Ctx, b2f, f2b, import_repo, rel_close

LEVEL = "proof"
EXPLANATION = (
    "Theorem adam_step_width_free connects the forward-scale model, the tag->LR model and the first Adam step: every "
    "output coordinate moves by eta/sqrt(depth) with sign -sign(g), for all fan_in/fan_out/kernel. The check runs real "
    "Linear / LinearReadout / single-position Conv1d layers (standalone and inside every kind of depth container) with "
    "the library's Adam and AdamW in float64 and compares |delta out| with eta/sqrt(depth) (oracle) and with "
    "fwdScale x lrScale x fan_in computed by the model (correspondence)."
)
ASSUMPTIONS = ["torch.optim.Adam/AdamW first step with eps=0 and no weight decay is lr * sign(grad)"]
THMS = ["USProofs.C12.adam_step_width_free", "USProofs.C12.linear_width_free", "USProofs.C12.readout_width_free",
        "USProofs.C12.conv1d_width_free"]
WIDTHS = [1, 2, 3, 5, 7, 13, 16, 64, 127, 256, 1024, 4096]


def run(ctx: Ctx) -> None:
    import_repo()
    import torch
    import unit_scaling as uu
    from unit_scaling import optim as uo

    rng = ctx.rng
    quick = ctx.tier == "quick"
    n_cases = 220 if quick else 5000
    ctx.rule = ("layer kind x fan_in, fan_out in {1..4096} (primes and powers of two) x kernel 1-9 x depth {None,1,2,5,64} "
                "via DepthSequential(*layers) / DepthSequential(OrderedDict) / DepthModuleList x eta log-uniform [1e-4,1] x "
                "Adam/AdamW x constraint {default, None}; random +-1 input and a zero-free upstream gradient.")
    dt = torch.float64
    reqs, rcases = [], []
    for ci in range(n_cases):
        kind = rng.choice(["Linear", "LinearReadout", "Conv1d"])
        fi, fo = rng.choice(WIDTHS), rng.choice(WIDTHS)
        if fi * fo > 4096 * 1024:
            fo = rng.choice(WIDTHS[:8])
        k = rng.randint(1, 9) if kind == "Conv1d" else 1
        if kind == "Conv1d" and fi * fo * k > 2_000_000:
            fi = rng.choice(WIDTHS[:9])
        depth = rng.choice([None, None, 1, 2, 5, 64])
        container = rng.choice(["seq_args", "seq_odict", "modulelist"]) if depth else None
        eta = math.exp(rng.uniform(math.log(1e-4), 0.0))
        opt_name = rng.choice(["Adam", "AdamW"])
        default_c = rng.random() < 0.5
        # how the trained object came to be: fresh; layers cloned from a template (as in stacks built with deepcopy);
        # the finished container deep-copied or pickled before training (checkpoint / EMA copy)
        built = rng.choice(["fresh", "fresh", "cloned-layers", "copied-container", "cloned+copied", "pickled-container"]) \
            if depth and fi * fo * k <= 200_000 else "fresh"
        key = {"layer": kind, "fan_in": fi, "fan_out": fo, "kernel": k, "depth": depth, "container": container,
               "eta": eta, "optimizer": opt_name, "constraint": "default" if default_c else None, "built": built,
               "unbatched": ci % 2 == 1, "tensor_lr": ci % 3 == 2, "bias": ci % 4 >= 2,
               "hyperparameters": ("keywords", "group-options", "group-all")[ci % 5 % 3] if ci % 5 < 3 else "keywords",
               "small_gradient": ci % 7 == 3, "nested_in_blocks": bool(depth) and ci % 6 == 5}
        ctx.count(key, bucket=f"{kind}/{container or 'standalone'}")

        with_bias = ci % 4 >= 2      # a trainable bias next to the weight (its own update is taken out again below)

        def mk():
            kw = {} if default_c else {"constraint": None}
            if with_bias:
                kw["bias"] = True
            if kind == "Linear":
                return uu.Linear(fi, fo, **kw)
            if kind == "LinearReadout":
                return uu.LinearReadout(fi, fo, **kw)
            return uu.Conv1d(fi, fo, k, **kw)

        ok = False
        with ctx.guard("C12:call", key):
            if depth is None:
                layer = mk()
            else:
                layers = [mk()] + [uu.Linear(2, 2) for _ in range(depth - 1)]
                if built in ("cloned-layers", "cloned+copied"):
                    layers = [copy.deepcopy(m) for m in layers]
                rng.shuffle(layers)
                nested = ci % 6 == 5
                if nested:
                    # "a layer inside a depth container": the container's elements are blocks holding the layers one level
                    # (or two) further down
                    layers = [torch.nn.Sequential(m) if j_ % 2 == 0 else torch.nn.Sequential(torch.nn.ModuleDict({"inner": m}))
                              for j_, m in enumerate(layers)]
                if container == "seq_args":
                    cont = uu.DepthSequential(*layers)
                elif container == "seq_odict":
                    cont = uu.DepthSequential(OrderedDict((f"l{i}", m) for i, m in enumerate(layers)))
                else:
                    cont = uu.DepthModuleList(layers)
                if built in ("copied-container", "cloned+copied"):
                    cont = copy.deepcopy(cont)
                elif built == "pickled-container":
                    cont = pickle.loads(pickle.dumps(cont))
                layer = [m for m in cont.modules() if type(m).__name__ == kind and (m.weight.shape[0], m.weight.shape[1]) == (fo, fi)
                         and (kind != "Conv1d" or m.weight.shape[2] == k)][0]
            layer = layer.to(dt)
            unbatched = ci % 2 == 1          # "one example": with or without a leading batch dim of 1
            if kind == "Conv1d":
                x = (torch.randint(0, 2, (fi, k) if unbatched else (1, fi, k)) * 2 - 1).to(dt)
            else:
                x = (torch.randint(0, 2, (fi,) if unbatched else (1, fi)) * 2 - 1).to(dt)
            lr_arg = torch.tensor(eta, dtype=dt) if ci % 3 == 2 else eta      # float or 0-dim tensor learning rate
            # the hyper-parameters reach the optimizer as constructor keywords or as options of a parameter group
            how = ("keywords", "group-options", "group-all")[ci % 5 % 3] if ci % 5 < 3 else "keywords"
            if how == "keywords":
                opt = getattr(uo, opt_name)(layer.parameters(), lr=lr_arg, eps=0.0, weight_decay=0.0)
            elif how == "group-options":
                opt = getattr(uo, opt_name)([{"params": list(layer.parameters()), "eps": 0.0, "weight_decay": 0.0}], lr=lr_arg)
            else:
                opt = getattr(uo, opt_name)([{"params": list(layer.parameters()), "eps": 0.0, "weight_decay": 0.0, "lr": lr_arg}])
            y0 = layer(x)
            g = torch.randn(y0.shape, dtype=dt)
            g = torch.where(g.abs() < 1e-3, torch.ones_like(g), g)
            if ci % 7 == 3:
                g = g * 10.0 ** rng.uniform(-6, 0)      # "any upstream gradient with no zero entries": small ones too
            y0.backward(g)
            b_old = layer.bias.detach().clone() if getattr(layer, "bias", None) is not None else None
            opt.step()
            with torch.no_grad():
                if b_old is not None:
                    layer.bias.copy_(b_old)       # the statement is about the weight update: undo the bias's own step
                y1 = layer(x)
            delta = (y1 - y0.detach())
            ok = True
        if not ok:
            continue
        want = eta / math.sqrt(depth) if depth else eta
        # float64: the step is a difference of two O(|y|) outputs, so its rounding error is ~eps sqrt(n) |y| (n-term dot products); anything beyond that
        # (e.g. a scale factor rounded to float32, 1e-8 relative) is a real deviation from "exactly eta"
        ymax = float(max(y0.detach().abs().max(), y1.abs().max(), 1.0))
        n_terms = fi * k
        mag_ok = bool(((delta.abs() - want).abs() <= 2e-9 * want + 16 * 2.2e-16 * math.sqrt(n_terms) * ymax).all())
        sign_ok = bool((torch.sign(delta) == -torch.sign(g)).all())
        if not (mag_ok and sign_ok):
            ctx.violation(f"C12:{kind}:move", "first Adam step does not move every output by eta/sqrt(depth) against the gradient sign",
                          key, {"want": want, "got_min": float(delta.abs().min()), "got_max": float(delta.abs().max()),
                                "sign_ok": sign_ok})
        # model: fwdScale x (eta x lrScale) x n
        c = "to_output_scale" if (default_c and kind != "LinearReadout") else None
        if kind == "Conv1d":
            sreq = {"k": "scale", "op": "conv1d", "fan_out": fo, "fan_in": fi, "kernel": k, "seq_len": k, "lead": 1,
                    "constraint": c}
            shape, tag, n = [fo, fi, k], "weight", fi * k
        else:
            sreq = {"k": "scale", "op": "linear" if kind == "Linear" else "linear_readout", "fan_out": fo, "fan_in": fi,
                    "numel": fi, "constraint": c}
            shape, tag, n = [fo, fi], ("weight" if kind == "Linear" else "output"), fi
        reqs += [sreq, {"k": "lr", "opt": "adam", "tag": tag, "shape": shape, "depth": depth}]
        rcases.append((key, n, eta, float(delta.abs().mean())))
    if ctx.driver_ok:
        resp = driver.ask(reqs)
        for i, (key, n, eta, got) in enumerate(rcases):
            s, l = resp[2 * i], resp[2 * i + 1]
            if "err" in s or "err" in l:
                ctx.disagree("step_size", key, [s, l], got, THMS)
                continue
            m = b2f(s["fwd"]) * (eta * b2f(l["scale"])) * n
            if not rel_close(m, got, 1e-7):  # model computed in Float with its own rounding of sqrt
                ctx.disagree("step_size", key, m, got, THMS)
