"""C17 — transforms are non-destructive and compose in any order."""
from __future__ import annotations

import copy
import logging
from typing import Any, Callable, Dict, List, Tuple

from .. import driver
from ..common import Ctx, import_repo

LEVEL = "proof"
EXPLANATION = (
    "Lean list model of apply_transform / _order_backends / cached call. Theorems over the whole (finite) family of "
    "chains: final backend order = [unit?, quant?, last?], both orders commute, each transform once, repeat-stable, "
    "intermediate calls irrelevant; for action sequences of any length, interleaved calls never change the backend list; "
    "for EVERY chain the real code accepts (any length, repeated transforms): the final backend list is a permutation of "
    "the applied transforms' backends (each exactly once), the backends other than unit scaling keep their application "
    "order, and the last unit-scaling backend precedes the last quantisation backend (chain_spec, by induction over the "
    "chain; lastIdx characterised by lastIdx_eq_some_iff). The guard (no unit_scale after track_scales/compile: "
    "_order_backends raises AttributeError there) is part of the model and its error branch is observed. "
    "The check runs the real transforms through TorchDynamo on small modules: backend "
    "kinds and re-run flag after every action vs the model (correspondence); original module untouched (parameters, "
    "outputs, gradients, no shared storage), repeated calls equal, unit_scale∘simulate = simulate∘unit_scale on outputs "
    "and gradients, every backend logged exactly once (oracle)."
)
ASSUMPTIONS = ["TorchDynamo hands each backend the graph of the module (runtime not modelled)",
               "stochastic formats are pinned by resetting the global RNG seed before every call"]
THMS = ["USProofs.C17.order_spec", "USProofs.C17.chain_commutes", "USProofs.C17.repeat_stable",
        "USProofs.C17.intermediate_calls_irrelevant", "USProofs.C17.chain_spec", "USProofs.C17.family_accepted"]


def run(ctx: Ctx) -> None:
    import_repo()
    import torch
    import torch.nn.functional as F
    from torch import nn
    import unit_scaling as uu
    from unit_scaling.formats import FPFormat
    from unit_scaling.transforms import compile as us_compile
    from unit_scaling.transforms import simulate_format, simulate_fp8, track_scales, unit_scale

    torch.set_num_threads(2)
    quick = ctx.tier == "quick"
    rng = ctx.rng
    ctx.rule = ("chains of the family (unit_scale <= once, one format simulation <= once, either order, optionally ended "
                "by track_scales [or compile in the thorough tier]) x format {lossless E8M23, E5M2-nearest, fp8 with "
                "pinned RNG} x module {MLP, residual block, attention block, unit-scaled layers} x intermediates called "
                "or not; each followed by 1-3 forward/backward calls. distinct = distinct (module, chain, format, variant).")

    class Res(nn.Module):
        def __init__(self):
            super().__init__()
            self.norm = nn.LayerNorm(8)
            self.l1 = nn.Linear(8, 16)
            self.l2 = nn.Linear(16, 8)

        def forward(self, x):
            return x + self.l2(F.gelu(self.l1(self.norm(x))))

    class Attn(nn.Module):
        def __init__(self):
            super().__init__()
            self.qkv = nn.Linear(8, 24)
            self.o = nn.Linear(8, 8)

        def forward(self, x):
            q, k, v = self.qkv(x).chunk(3, dim=-1)
            a = F.scaled_dot_product_attention(q, k, v)
            return x + self.o(a)

    class UnitLayers(nn.Module):
        def __init__(self):
            super().__init__()
            self.l1 = uu.Linear(8, 16)
            self.act = uu.GELU()
            self.l2 = uu.Linear(16, 8)

        def forward(self, x):
            return self.l2(self.act(self.l1(x)))

    class MLP(nn.Module):
        def __init__(self):
            super().__init__()
            self.l1 = nn.Linear(8, 16)
            self.act = nn.GELU()
            self.l2 = nn.Linear(16, 8)

        def forward(self, x):
            return self.l2(self.act(self.l1(x)))

    def _freeze_first(m_: nn.Module) -> nn.Module:
        for p_ in m_.l1.parameters():
            p_.requires_grad_(False)
        return m_

    builders: Dict[str, Tuple[Callable[[], nn.Module], Tuple[int, ...]]] = {
        "MLP": (MLP, (4, 8)),
        # fine-tune-the-head set-up: the first layer is frozen when the transforms are applied
        "MLPFrozen": (lambda: _freeze_first(MLP()), (4, 8)),
        # root module that is itself a torch.nn class: TorchDynamo skips its forward frame (finding F-ROOT)
        "SeqRoot": (lambda: nn.Sequential(nn.Linear(8, 16), nn.GELU(), nn.Linear(16, 8)), (4, 8)),
        "Res": (Res, (4, 8)),
        "Attn": (Attn, (2, 5, 8)),
        "UnitLayers": (UnitLayers, (4, 8)),
    }
    formats = {
        "lossless": lambda m: simulate_format(m, FPFormat(8, 23, "nearest"), FPFormat(8, 23, "nearest")),
        "e5m2rn": lambda m: simulate_format(m, FPFormat(5, 2, "nearest"), FPFormat(5, 2, "nearest")),
        "fp8": simulate_fp8,
    }
    cores = [[], ["unit_scale"], ["simulate"], ["unit_scale", "simulate"], ["simulate", "unit_scale"]]
    lasts = [[], ["track_scales"]] + ([] if quick else [["compile"]])

    def kind_of(b: Any) -> str:
        q = getattr(b, "__qualname__", type(b).__name__)
        if "unit_scaling_backend" in q:
            return "unit"
        if "quantisation_backend" in q:
            return "quant"
        if "ScaleTracking" in q or "ScaleTracking" in type(b).__name__:
            return "track"
        if "Inductor" in type(b).__name__ or "compile" in q.lower():
            return "compile"
        return "other:" + q

    class Capture(logging.Handler):
        def __init__(self):
            super().__init__()
            self.msgs: List[str] = []

        def emit(self, record):
            self.msgs.append(record.getMessage())

    cap = Capture()
    loggers = [logging.getLogger("unit_scaling.transforms._unit_scale"), logging.getLogger("unit_scaling.transforms._simulate_format")]
    old_levels = [(lg, lg.level) for lg in loggers]
    for lg in loggers:
        lg.addHandler(cap)
        lg.setLevel(logging.INFO)

    def fwd_bwd(m: nn.Module, x: torch.Tensor, seed: int):
        torch.manual_seed(seed)
        for p in m.parameters():
            p.grad = None
        xi = x.clone().requires_grad_(True)
        y = m(xi)
        y.sum().backward()
        grads = [None if p.grad is None else p.grad.detach().clone() for p in m.parameters()]
        return y.detach().clone(), xi.grad.detach().clone(), grads

    def same(a, b) -> bool:
        (y1, g1, p1), (y2, g2, p2) = a, b
        if not (torch.equal(y1, y2) and torch.equal(g1, g2) and len(p1) == len(p2)):
            return False
        return all((u is None and v is None) or (u is not None and v is not None and torch.equal(u, v)) for u, v in zip(p1, p2))

    mod_names = ["MLP", "MLPFrozen", "Res", "SeqRoot", "Attn", "UnitLayers"] if quick else list(builders)
    model_reqs, model_obs = [], []
    try:
        # other formats have been simulated earlier in the same process (the stochastic FP8 pair shares its exponent / mantissa
        # widths with the nearest-rounding E5M2 format used below): what a chain computes depends on its own formats only
        with ctx.guard("C17:earlier-formats", {"history": "simulate_fp8 on an MLP, one forward/backward call"}):
            torch.manual_seed(0)
            fwd_bwd(simulate_fp8(MLP()), torch.randn(4, 8), 7)
        for mname in mod_names:
            build, xshape = builders[mname]
            for fname in (({"SeqRoot": ["e5m2rn"], "Attn": ["lossless"], "UnitLayers": ["lossless"], "MLPFrozen": ["lossless"]}.get(mname, ["lossless", "e5m2rn"]))
                          if quick else list(formats)):
                results: Dict[Tuple, Any] = {}
                for core in cores:
                    if fname != "lossless" and "simulate" not in core and not (fname == "e5m2rn"):
                        continue
                    for last in lasts:
                        for call_mid in ((False, True) if (len(core) + len(last) > 1) else (False,)):
                            if quick and call_mid and rng.random() < 0.5:
                                continue
                            chain = core + last
                            key = {"module": mname, "chain": chain, "format": fname, "intermediates_called": call_mid}
                            ctx.count(key, bucket=f"len{len(chain)}")
                            torch.manual_seed(1234)
                            m0 = build()
                            x = torch.randn(xshape)
                            sd0 = {k: v.detach().clone() for k, v in m0.state_dict().items()}
                            ref0 = fwd_bwd(m0, x, 7)
                            ptr0 = {t.data_ptr() for t in list(m0.parameters()) + list(m0.buffers())}
                            actions: List[str] = []
                            trace: List[Any] = []
                            cur = m0
                            ok = True
                            final_first = None
                            inter: List[Any] = []      # (step, module, backend kinds at creation, result if it was called)
                            for ti, t in enumerate(chain):
                                with ctx.guard("C17:transform", {**key, "step": ti}) as g:
                                    if t == "unit_scale":
                                        nxt = unit_scale(cur)
                                    elif t == "simulate":
                                        nxt = formats[fname](cur)
                                    elif t == "track_scales":
                                        nxt = track_scales(cur)
                                    else:
                                        nxt = us_compile(cur)
                                if g.failed:
                                    ok = False
                                    break
                                if nxt is cur:
                                    ctx.violation("C17:same-object", "transform returned its argument instead of a new module", key)
                                cur = nxt
                                actions.append(t)
                                trace.append({"backends": [kind_of(b) for b in cur.backends], "rerun": bool(cur.rerun_transform)})
                                mid_res = None
                                if call_mid and ti < len(chain) - 1:
                                    with ctx.guard("C17:call", {**key, "step": ti}) as g:
                                        mid_res = fwd_bwd(cur, x, 7)
                                    if g.failed:
                                        ok = False
                                        break
                                if ti < len(chain) - 1:
                                    inter.append((ti, cur, [kind_of(b) for b in cur.backends], mid_res))
                                if call_mid and ti < len(chain) - 1:
                                    actions.append("call")
                                    trace.append({"backends": [kind_of(b) for b in cur.backends], "rerun": bool(cur.rerun_transform)})
                            if not ok:
                                continue
                            # 1-3 forward/backward calls of the final module
                            outs = []
                            n_calls = rng.randint(2, 3)
                            logs_per_call = []
                            for ci in range(n_calls):
                                cap.msgs.clear()
                                with ctx.guard("C17:call", {**key, "call": ci}) as g:
                                    # only the stochastic format is pinned by re-seeding; nearest / lossless formats and
                                    # plain unit scaling are deterministic, so the RNG state must not matter
                                    outs.append(fwd_bwd(cur, x, 7 if fname == "fp8" else 7 + 13 * ci))
                                if g.failed:
                                    ok = False
                                    break
                                logs_per_call.append(list(cap.msgs))
                                if chain:
                                    actions.append("call")
                                    trace.append({"backends": [kind_of(b) for b in cur.backends], "rerun": bool(cur.rerun_transform)})
                            if not ok:
                                continue
                            if any(not same(outs[0], o) for o in outs[1:]):
                                ctx.violation("C17:repeat", "repeated calls of the transformed module give different results", key)
                            if chain and chain[-1] == "track_scales" and mname in ("MLP", "Res") and not call_mid:
                                # plain data inputs (fresh tensors that do not require grad), as in the documented usage, from the
                                # very first call of a freshly built chain: every call must treat them alike (track_scales makes the
                                # inputs require grad in order to record their gradients)
                                got_ = []
                                with ctx.guard("C17:call", {**key, "plain_inputs": True}):
                                    torch.manual_seed(1234)
                                    cur2 = build()
                                    for t in chain:
                                        cur2 = (unit_scale(cur2) if t == "unit_scale" else formats[fname](cur2) if t == "simulate"
                                                else track_scales(cur2))
                                    for ci in range(3):
                                        for p_ in cur2.parameters():
                                            p_.grad = None
                                        xi_ = x.clone()
                                        torch.manual_seed(7)
                                        cur2(xi_).sum().backward()
                                        got_.append(None if xi_.grad is None else xi_.grad.detach().clone())
                                if got_ and any((g_ is None) != (got_[0] is None) or (g_ is not None and not torch.equal(g_, got_[0])) for g_ in got_):
                                    ctx.violation("C17:repeat", "repeated calls with fresh plain inputs are not treated alike (input gradient "
                                                  "recorded on some calls only)", key, {"input_grad_present": [g_ is not None for g_ in got_]})
                            # every earlier transform applied exactly once, on the first call only
                            if chain:
                                first = logs_per_call[0]
                                n_unit = sum("running unit scaling backend" in m_ for m_ in first)
                                n_quant = sum("running quantisation backend" in m_ for m_ in first)
                                if n_unit != chain.count("unit_scale") or n_quant != chain.count("simulate"):
                                    ctx.violation("C17:root-torch-nn-module" if (mname == "SeqRoot" and n_unit == 0 and n_quant == 0)
                                                  else "C17:applied-once", "a transform of the chain was not applied exactly once", key,
                                                  {"unit": n_unit, "quant": n_quant})
                                if any("running" in m_ for later in logs_per_call[1:] for m_ in later):
                                    ctx.violation("C17:rerun", "backends were re-run on a repeated call", key)
                            # a transformed module that was transformed further is an "original" too: it still is what it was
                            for (ti, im, kinds0, res0) in inter:
                                ikey = {**key, "intermediate_step": ti}
                                kinds1 = [kind_of(b) for b in im.backends]
                                if kinds1 != kinds0:
                                    ctx.violation("C17:intermediate-backends", "transforming a transformed module changed the "
                                                  "transforms the latter applies", ikey, {"before": kinds0, "after": kinds1})
                                with ctx.guard("C17:call-intermediate", ikey):
                                    res1 = fwd_bwd(im, x, 7)
                                    prefix = results.get((tuple(chain[: ti + 1]), (), False)) if ti + 1 <= len(core) else None
                                    want = res0 if res0 is not None else prefix
                                    if want is not None and not same(want, res1):
                                        ctx.violation("C17:intermediate-behaviour", "a transformed module computes something else after "
                                                      "it was transformed further", ikey,
                                                      {"max_out_diff": float((want[0] - res1[0]).abs().max())})
                            # original untouched
                            sd1 = m0.state_dict()
                            if list(sd1) != list(sd0) or any(not torch.equal(sd1[k], sd0[k]) for k in sd0):
                                ctx.violation("C17:original-params", "the original module's parameters/buffers changed", key)
                            if not same(ref0, fwd_bwd(m0, x, 7)):
                                ctx.violation("C17:original-behaviour", "the original module's outputs/gradients changed", key)
                            if chain:
                                ptr1 = {t.data_ptr() for t in list(cur.parameters()) + list(cur.buffers())}
                                if ptr0 & ptr1:
                                    ctx.violation("C17:shared-storage", "the result shares parameter storage with the original", key)
                                if any(p.grad is not None for p in m0.parameters()) and False:
                                    pass
                            results[(tuple(core), tuple(last), call_mid)] = outs[0]
                            if chain:
                                model_reqs.append({"k": "backends", "actions": actions})
                                model_obs.append((key, actions, trace))
                # order independence: unit_scale∘simulate == simulate∘unit_scale
                for last in lasts:
                    for cm in (False, True):
                        a = results.get((("unit_scale", "simulate"), tuple(last), cm))
                        b = results.get((("simulate", "unit_scale"), tuple(last), cm))
                        if a is not None and b is not None and not same(a, b):
                            ctx.violation("C17:order", "simulate(unit_scale(m)) and unit_scale(simulate(m)) compute different functions",
                                          {"module": mname, "format": fname, "last": last, "intermediates_called": cm},
                                          {"max_out_diff": float((a[0] - b[0]).abs().max())})
                    # a lossless format simulation changes nothing, wherever it is nested: in particular it must not undo
                    # what the earlier (or later) unit_scale did
                    if fname == "lossless":
                        for with_sim, without in ((("unit_scale", "simulate"), ("unit_scale",)), (("simulate", "unit_scale"), ("unit_scale",)),
                                                  (("simulate",), ())):
                            a = results.get((with_sim, tuple(last), False))
                            b = results.get((without, tuple(last), False))
                            if a is not None and b is not None and not same(a, b):
                                ctx.violation("C17:lossless-nesting", "nesting a lossless format simulation changes what the other "
                                              "transforms of the chain compute", {"module": mname, "chain": list(with_sim) + last},
                                              {"max_out_diff": float((a[0] - b[0]).abs().max()),
                                               "max_input_grad_diff": float((a[1] - b[1]).abs().max())})
                    # intermediates called or not must not matter either
                    for core in cores:
                        a = results.get((tuple(core), tuple(last), False))
                        b = results.get((tuple(core), tuple(last), True))
                        if a is not None and b is not None and not same(a, b):
                            ctx.violation("C17:stale-forward", "calling an intermediate module before nesting changes the result",
                                          {"module": mname, "format": fname, "chain": core + last})
    finally:
        for lg, lvl in old_levels:
            lg.removeHandler(cap)
            lg.setLevel(lvl)

    # ---- model correspondence on chains of ANY composition (repeated transforms, up to 7 steps; no calls, so nothing is
    #      compiled): the backend list and the rerun flag after every step.  These chains lie outside the property's family -
    #      they only tie the model, whose general theorems (`chain_spec`: permutation, order of the others, unit before
    #      quant) quantify over all chains, to `apply_transform` / `_order_backends` as they are.
    names_ = ["unit_scale", "simulate", "track_scales", "compile"]
    for gi in range(40 if quick else 600):
        chain_ = [rng.choice(names_) for _ in range(rng.randint(1, 7))]
        key = {"general_chain": chain_}
        ctx.count(key, bucket="general-chains")
        cur = builders["MLP"][0]()
        trace_: List[Dict[str, Any]] = []
        ok_ = False
        with ctx.guard("C17:general-chain", key):
            for t_ in chain_:
                if t_ == "unit_scale":
                    try:
                        cur = unit_scale(cur)
                    except AttributeError:
                        # `_order_backends` reads `__qualname__` of every backend; the tracking / compile backends are objects
                        # without one (outside the property's family, where both come last): the model has this error branch
                        trace_.append({"err": "AttributeError"})
                        break
                elif t_ == "simulate":
                    cur = formats["lossless"](cur)
                elif t_ == "track_scales":
                    cur = track_scales(cur)
                else:
                    cur = us_compile(cur)
                trace_.append({"backends": [kind_of(b) for b in cur.backends], "rerun": bool(cur.rerun_transform)})
            ok_ = True
        if ok_:
            model_reqs.append({"k": "backends", "actions": chain_})
            model_obs.append((key, chain_, trace_))

    if ctx.driver_ok and model_reqs:
        for (key, actions, trace), r in zip(model_obs, driver.ask(model_reqs)):
            mt = [({"err": t["err"]} if "err" in t else {"backends": t["backends"], "rerun": t["rerun"]}) for t in r["trace"]]
            if mt != trace:
                i = next((i for i, (a, b) in enumerate(zip(mt, trace)) if a != b), min(len(mt), len(trace)) - 1)
                ctx.disagree("backend_chain", {**key, "actions": actions, "step": i}, mt[i], trace[i], THMS)
