"""C03 — exact unit scale of (bi)linear ops at initialisation."""
from __future__ import annotations

import math
from fractions import Fraction
from typing import Any, Dict, List, Optional, Tuple

from .. import driver, ops
from ..common import Ctx, b2f, f2b, import_repo, rel_close

LEVEL = "proof"
EXPLANATION = (
    "Theorems: scale^2 x terms = 1 for every shape, per op and role (ℝ), plus the abstract second-moment lemma "
    "E[(c sum t_i)^2] = c^2 |s| under E(t_i t_j) = delta_ij; broadcast fibres are uniform (operand numel divides output "
    "numel for every broadcastable pair of shapes), so add's term counts are exact. The check measures the term counts by running the PyTorch "
    "reference op and its autograd on all-ones tensors (not from a formula), fits the implementation's scalars with "
    "constraint=None, and requires fitted_scale^2 x measured_count = 1 (oracle); model term counts and model scales "
    "are compared with the measured ones (correspondence)."
)
ASSUMPTIONS = ["independence / zero mean / unit variance of the summed products is the hypothesis of second_moment",
               "dropout: keep probability 1-p is PyTorch's; the kept value is measured on all-ones input",
               "conv1d input gradient: mean over whole stride periods of interior positions, no padding"]
THMS = ["USProofs.C03.linear_unit_scale", "USProofs.C03.matmul_unit_scale", "USProofs.C03.conv1d_unit_scale",
        "USProofs.C03.add_unit_scale", "USProofs.C03.embedding_unit_scale", "USProofs.C03.norm_unit_scale",
        "USProofs.C03.mse_unit_scale", "USProofs.C03.dropout_unit_scale", "USProofs.C03.residual_unit_scale"]
TOL = 1e-9


def gen(rng, op: str) -> ops.OpCase:
    P = ops.PRIMES
    if op in ("linear", "linear_readout"):
        fi, fo = rng.sample(P, 2)
        lead = tuple(rng.choice([2, 3, 5, 7]) for _ in range(rng.randint(0, 3)))
        bias = rng.random() < 0.6
        shapes = {"input": lead + (fi,), "weight": (fo, fi)}
        if bias:
            shapes["bias"] = (fo,)
        cfg_ = {"constraint": None, "bias": bias}
        if len(lead) >= 2 and rng.random() < 0.5:
            cfg_["input_layout"] = "permuted"
        return ops.OpCase(op, cfg_, shapes, list(shapes))
    if op == "matmul":
        m, k, n = rng.sample(P, 3)
        lead = tuple(rng.choice([2, 3, 5]) for _ in range(rng.randint(0, 3)))
        return ops.OpCase(op, {"constraint": None, "mode": "equal"}, {"left": lead + (m, k), "right": lead + (k, n)},
                          ["left", "right"])
    if op == "conv1d":
        groups = rng.choice([1, 1, 2, 3])
        cin_g, cout_g = rng.choice([1, 2, 3, 5]), rng.choice([1, 2, 3, 5])
        k, stride, dil = rng.randint(1, 5), rng.randint(1, 3), rng.randint(1, 2)
        span = dil * (k - 1)
        seq = 2 * span + 1 + stride * rng.randint(2, 5)
        seq += (-(seq - span - 1)) % stride  # outputs tile the input exactly
        lead = rng.choice([(), (2,), (3,)])
        bias = rng.random() < 0.5
        shapes = {"input": lead + (cin_g * groups, seq), "weight": (cout_g * groups, cin_g, k)}
        if bias:
            shapes["bias"] = (cout_g * groups,)
        return ops.OpCase(op, {"stride": stride, "padding": 0, "dilation": dil, "groups": groups, "constraint": None,
                               "bias": bias}, shapes, list(shapes))
    if op == "add":
        shape = tuple(rng.sample(P, rng.randint(1, 4)))
        mode = rng.choice(["same", "size1", "missing", "both", "missing+size1", "missing+size1", "both-equal-numel"])
        if mode == "both-equal-numel":
            # both operands are expanded, by the same factor, so they have the same number of elements although their shapes
            # differ: (k,1)+(1,k), (k,1)+(k,), (m,k,1)+(m,1,k), (2,1,4)+(1,8,1)
            k_ = rng.choice([2, 3, 5, 8])
            m_ = rng.choice([2, 3])
            a, b = rng.choice([((k_, 1), (1, k_)), ((k_, 1), (k_,)), ((m_, k_, 1), (m_, 1, k_)), ((2, 1, 4), (1, 8, 1))])
            if rng.random() < 0.5:
                a, b = b, a
            return ops.OpCase(op, {"constraint": None, "mode": mode, "swap": False}, {"input": a, "other": b}, ["input", "other"])
        if mode == "same":
            a, b = shape, shape
        elif mode == "size1":
            a, b = shape, tuple(1 if rng.random() < 0.5 else d for d in shape)
        elif mode == "missing":
            a, b = shape, shape[rng.randint(0, len(shape) - 1):]
        elif mode == "missing+size1":
            # lower rank AND an expanded size-1 dim in the same operand, e.g. (4,8,16) + (8,1) or (1,16) + (4,8,16)
            tail = list(shape[rng.randint(1, max(1, len(shape) - 1)):]) or list(shape)
            j = rng.randrange(len(tail))
            tail[j] = 1
            a, b = shape, tuple(tail)
        else:
            a = tuple(1 if i % 2 == 0 else d for i, d in enumerate(shape))
            b = tuple(1 if i % 2 == 1 else d for i, d in enumerate(shape))
        if math.prod(a) == 1 or math.prod(b) == 1:
            a, b = shape, shape
        if rng.random() < 0.5:
            a, b = b, a
        return ops.OpCase(op, {"constraint": None, "mode": mode, "swap": False}, {"input": a, "other": b}, ["input", "other"])
    if op == "embedding":
        vocab, dim = rng.choice([5, 7, 11, 13]), rng.choice([2, 3, 5])
        idx_shape = tuple(rng.choice([2, 3, 5]) for _ in range(rng.randint(1, 3)))
        return ops.OpCase(op, {"padding_idx": rng.choice([None, None, 0, vocab - 1, -1, -2]), "max_norm": None,
                               "idx_shape": idx_shape, "vocab": vocab},
                          {"weight": (vocab, dim)}, ["weight"])
    if op == "dropout":
        return ops.OpCase(op, {"p": rng.choice([0.1, 0.25, 0.5, 0.9, rng.uniform(0.01, 0.99)]), "training": True},
                          {"input": (64, 64)}, ["input"])
    if op == "mse_loss":
        shape = tuple(rng.sample(P, rng.randint(1, 3)))
        return ops.OpCase(op, {"reduction": rng.choice(["sum", "mean"])}, {"input": shape, "target": shape}, ["input", "target"])
    if op in ("layer_norm", "rms_norm"):
        shape = tuple(rng.sample(P, rng.randint(2, 4)))
        nn_ = rng.randint(1, 2)
        if rng.random() < 0.3:
            k_ = rng.choice([2, 3, 4, 5])
            shape = tuple(rng.sample(P, rng.randint(1, 2))) + ((k_, k_) if rng.random() < 0.7 else (k_, k_, k_))   # equal sizes
            nn_ = len(shape) - rng.randint(1, len(shape) - 2) if len(shape) > 3 else 2
            nn_ = max(2, min(nn_, len(shape) - 1))
        shapes = {"input": shape, "weight": shape[-nn_:]}
        if op == "layer_norm":
            shapes["bias"] = shape[-nn_:]
            form = rng.choice(["gain+bias", "gain+bias", "gain only", "bias only"])
            if form == "gain only":
                del shapes["bias"]
            elif form == "bias only":
                del shapes["weight"]           # F.layer_norm(x, shape, None, b)
        return ops.OpCase(op, {"normalized_shape": shape[-nn_:], "eps": 1e-12}, shapes, list(shapes))
    raise KeyError(op)


def measured_counts(case: ops.OpCase) -> Dict[str, Fraction]:
    """Term counts read off the PyTorch reference op (and its autograd) on all-ones tensors."""
    import torch
    import torch.nn.functional as F

    op, c, s = case.op, case.cfg, case.shapes
    ones = {n: torch.ones(sh, dtype=torch.float64, requires_grad=True) for n, sh in s.items()}
    out: Dict[str, Fraction] = {}

    def frac(x) -> Fraction:
        return Fraction(float(x)).limit_denominator(10 ** 6)

    if op in ("linear", "linear_readout", "matmul", "conv1d", "add"):
        t = dict(ones)
        if "bias" in t:
            t["bias"] = torch.zeros(s["bias"], dtype=torch.float64, requires_grad=True)
        y = ops.call_ref(case, t)
        vals = y.detach().flatten()
        assert bool((vals == vals[0]).all()) or op == "conv1d"
        out["out"] = frac(vals[0])
        gs = torch.autograd.grad(y, [t[n] for n in s], torch.ones_like(y))
        for n, g in zip(s, gs):
            if op == "conv1d" and n == "input":
                k, stride, dil = s["weight"][2], c["stride"], c["dilation"]
                span = dil * (k - 1)
                seq = s["input"][-1]
                length = ((seq - 2 * span) // stride) * stride
                region = g[..., span:span + length]
                out[n] = frac(region.mean())
            else:
                gv = g.flatten()
                assert bool((gv == gv[0]).all()), (op, n)
                out[n] = frac(gv[0])
        return out
    if op == "embedding":
        w = ones["weight"]
        idx = ops.make_inputs(case, 1)["idx"]
        y = F.embedding(idx, w)
        (g,) = torch.autograd.grad(y, w, torch.ones_like(y))
        out["out"] = Fraction(1)
        out["weight"] = frac(g.mean())  # mean number of looked-up positions per row = batch/vocab
        return out
    if op == "dropout":
        torch.manual_seed(0)
        y = F.dropout(torch.ones(1 << 16, dtype=torch.float64), c["p"], True)
        kept = float(y.max())
        out["out"] = Fraction(kept * kept * (1 - c["p"]))  # second moment of one kept-or-dropped unit term
        out["input"] = out["out"]
        return out
    if op == "mse_loss":
        n = 4
        x = torch.randn(n, dtype=torch.float64, requires_grad=True)
        t = torch.randn(n, dtype=torch.float64, requires_grad=True)

        def grad_fn(a, b):
            return torch.autograd.grad(F.mse_loss(a, b, reduction="sum"), a, create_graph=True)[0]

        J = torch.autograd.functional.jacobian(grad_fn, (x, t))
        tot = float((J[0] ** 2).sum(dim=1)[0] + (J[1] ** 2).sum(dim=1)[0])
        out["out"] = Fraction(1)
        out["input"] = out["target"] = frac(tot)
        return out
    if op in ("layer_norm", "rms_norm"):
        x = torch.randn(s["input"], dtype=torch.float64)
        ns = list(c["normalized_shape"])
        xhat = F.layer_norm(x, ns, eps=1e-12) if op == "layer_norm" else F.rms_norm(x, ns, eps=1e-12)
        rows = float((xhat ** 2).sum()) / math.prod(ns)
        out["out"] = Fraction(1)
        out["input"] = Fraction(1)
        out["weight"] = Fraction(rows).limit_denominator(1000)
        if op == "layer_norm":
            b = torch.zeros(ns, dtype=torch.float64, requires_grad=True)
            y = F.layer_norm(x, ns, None, b, 1e-12)
            (g,) = torch.autograd.grad(y, b, torch.ones_like(y))
            out["bias"] = frac(g.flatten()[0])
        return out
    raise KeyError(op)


def terms_request(case: ops.OpCase) -> Optional[Dict[str, Any]]:
    op, c, s = case.op, case.cfg, case.shapes
    if op in ("linear", "linear_readout"):
        return {"k": "terms", "op": "linear", "fan_out": s["weight"][0], "fan_in": s["weight"][1], "lead": list(s["input"][:-1])}
    if op == "matmul":
        return {"k": "terms", "op": op, "left": s["left"][-2], "inner": s["left"][-1], "right": s["right"][-1]}
    if op == "conv1d":
        seq, k = s["input"][-1], s["weight"][2]
        out_size = (seq - c["dilation"] * (k - 1) - 1) // c["stride"] + 1
        return {"k": "terms", "op": op, "fan_out": s["weight"][0], "fan_in": s["weight"][1], "kernel": k,
                "out_size": out_size, "lead": math.prod(s["input"][:-2]) if len(s["input"]) > 2 else 1,
                "stride": c["stride"], "groups": c["groups"]}
    if op == "add":
        return {"k": "terms", "op": op, "shapes": [list(s["input"]), list(s["other"])]}
    if op in ("layer_norm", "rms_norm"):
        return {"k": "terms", "op": "norm", "norm_numel": math.prod(c["normalized_shape"]), "numel": math.prod(s["input"])}
    if op == "embedding":
        return {"k": "terms", "op": op, "vocab": c["vocab"], "batch": math.prod(c["idx_shape"])}
    if op == "mse_loss":
        return {"k": "terms", "op": op}
    return None


def run(ctx: Ctx) -> None:
    import_repo()
    import torch
    import unit_scaling.functional as U

    torch.set_num_threads(1)
    rng = ctx.rng
    quick = ctx.tier == "quick"
    per = 40 if quick else 1500
    ctx.rule = ("per op in {linear, linear_readout, matmul(equal batch dims), conv1d(no padding), add(no single-element "
                "operand), embedding, dropout(training), mse_loss, layer_norm, rms_norm, residual add}: random shapes of "
                "distinct primes with 0-3 batch dims, kernel 1-5 x stride 1-3 x dilation 1-2 x groups {1,2,3}, broadcast "
                "patterns; distinct = distinct (op,cfg,shapes).")
    treqs, tcases, sreqs, scases = [], [], [], []
    for op in ("linear", "linear_readout", "matmul", "conv1d", "add", "embedding", "dropout", "mse_loss", "layer_norm", "rms_norm"):
        for i in range(per if op != "dropout" else max(6, per // 6)):
            case = gen(rng, op)
            key = case.key()
            ctx.count(key, bucket=op)
            m = None
            with ctx.guard(f"C03:{op}:call", key):
                m = ops.measure(U, case, i + 1, i + 3, warm=(i % 3 == 0))
            if m is None:
                continue
            if op in ("linear", "matmul", "conv1d", "add") and i % 4 == 1:
                # the scale factors are functions of the shapes, not of the dtype the operands arrive in
                for dt_ in (torch.float16, torch.bfloat16):
                    if not ops.reference_survives(case, ops.make_inputs(case, i + 1, dt_)):
                        ctx.bump(f"torch-kernel-crash-skipped/{dt_}")
                        continue
                    mh = None
                    with ctx.guard(f"C03:{op}:call", {**key, "dtype": str(dt_)}):
                        mh = ops.measure(U, case, i + 1, i + 3, dtype=dt_)
                    if mh is None:
                        continue
                    bad = [] if rel_close(mh.fwd, m.fwd, 3e-2) else ["out"]
                    bad += [n for n in case.diff if not (math.isnan(m.bwd[n]) or math.isnan(mh.bwd[n])) and not rel_close(mh.bwd[n], m.bwd[n], 3e-2)]
                    if bad:
                        ctx.violation(f"C03:{op}:dtype", "scale factor differs between float64 and a half-precision dtype", {**key, "dtype": str(dt_)},
                                      {"tensors": bad, "half": [mh.fwd] + [mh.bwd[n] for n in case.diff], "float64": [m.fwd] + [m.bwd[n] for n in case.diff]})
            counts = measured_counts(case)
            tol = 1e-5 if op == "rms_norm" else TOL
            if op == "linear_readout":
                fi = case.shapes["weight"][1]
                if not rel_close(m.fwd, 1.0 / fi, TOL):
                    ctx.violation("C03:linear_readout:out", "linear_readout output scale is not 1/fan_in", key, m.fwd)
            elif op not in ("mse_loss",) or case.cfg["reduction"] == "sum":
                if not rel_close(m.fwd * m.fwd * float(counts["out"]), 1.0, 1e3 * tol if op == "dropout" else tol):
                    ctx.violation(f"C03:{op}:out", "output scale^2 x term count != 1", key,
                                  {"scale": m.fwd, "count": str(counts["out"])})
            for n in case.diff:
                if n not in counts or math.isnan(m.bwd[n]):
                    continue
                if op in ("layer_norm", "rms_norm") and n == "weight":
                    # the gain-gradient count is sum(xhat^2)/width: statistical (eps and tiny rows), the exact row count
                    # is read off the bias gradient where there is one
                    t_ = 5e-3
                    if "bias" in counts:
                        counts = {**counts, "weight": counts["bias"]}
                        t_ = 1e-5
                else:
                    t_ = 1e3 * tol if op == "dropout" else tol
                if not rel_close(m.bwd[n] ** 2 * float(counts[n]), 1.0, t_):
                    ctx.violation(f"C03:{op}:grad:{n}", "gradient scale^2 x term count != 1", {**key, "wrt": n},
                                  {"scale": m.bwd[n], "count": str(counts[n])})
            tr = terms_request(case)
            if tr is not None:
                treqs.append(tr)
                tcases.append((case, key, counts))
            sr = ops.model_request(case)
            if sr is not None:
                sreqs.append(sr)
                scases.append((case, key, m))
    # residual add
    rreqs, rcases = [], []
    for i in range(per):
        tau = math.exp(rng.uniform(math.log(1e-3), math.log(1e3))) if i else 1.0
        key = {"op": "residual_add", "tau": tau}
        ctx.count(key, bucket="residual_add")
        with ctx.guard("C03:residual:call", key):
            one, zero = torch.ones(3, dtype=torch.float64), torch.zeros(3, dtype=torch.float64)
            wr = float(U.residual_add(one, zero, tau)[0])
            ws = float(U.residual_add(zero, one, tau)[0])
            if not rel_close(wr * wr + ws * ws, 1.0, TOL):
                ctx.violation("C03:residual_add:weights", "squares of the two mixing weights do not sum to 1", key, [wr, ws])
            rreqs.append({"k": "scale", "op": "residual", "tau": f2b(tau)})
            rcases.append((key, wr, ws))

    if ctx.driver_ok:
        for (case, key, counts), r in zip(tcases, driver.ask(treqs)):
            names = ops.model_bwd_names(case)
            mt = {"out": Fraction(*r["out"])}
            for n, g in zip(names, r["grads"]):
                mt[n] = Fraction(*g)
            for n, v in counts.items():
                if case.op == "linear_readout" and n == "out":
                    continue
                if n != "out" and n not in case.shapes:
                    continue            # a role this call does not have (e.g. the gain of a bias-only layer_norm)
                if n in mt and mt[n] != v and not (case.op in ("layer_norm", "rms_norm") and abs(float(mt[n]) - float(v)) < 1e-3 * float(v)):
                    ctx.disagree("term_counts", {**key, "role": n}, str(mt[n]), str(v), THMS)
        for (case, key, m), r in zip(scases, driver.ask(sreqs)):
            if "err" in r:
                ctx.disagree("scales", key, r, m.fwd, THMS)
                continue
            names = ops.model_bwd_names(case)
            mb = dict(zip(names, [b2f(x) for x in r["bwd"]]))
            tol = 1e-5 if case.op == "rms_norm" else TOL
            # for mean-reduced losses the fitted scalar is relative to PyTorch's mean, the model's to its sum
            mean_loss = case.op in ("mse_loss", "cross_entropy") and case.cfg.get("reduction") == "mean"
            bad = (not mean_loss) and not rel_close(b2f(r["fwd"]), m.fwd, tol)
            for n in case.diff:
                if not math.isnan(m.bwd[n]) and not rel_close(mb[n], m.bwd[n], tol):
                    bad = True
            if bad:
                ctx.disagree("scales", key, {"fwd": b2f(r["fwd"]), "bwd": mb}, {"fwd": m.fwd, "bwd": m.bwd}, THMS)
        for (key, wr, ws), r in zip(rcases, driver.ask(rreqs)):
            if not rel_close(b2f(r["residual"]), wr, TOL) or not rel_close(b2f(r["skip"]), ws, TOL):
                ctx.disagree("residual_weights", key, [b2f(r["residual"]), b2f(r["skip"])], [wr, ws],
                             ["USProofs.C03.residual_unit_scale"])
