"""C20 — eager and torch.compile execution of scaled ops agree (fx: forward values)  (partial)."""
from __future__ import annotations

import copy
import math
from typing import Any, Callable, Dict, List, Optional, Tuple

from .. import ops
from ..common import Ctx, import_repo

LEVEL = "other"
EXPLANATION = (
    "PARTIAL. Modelled and proved in Lean: the library-side logic of _ScaledGrad under the tracers (plain fx records "
    "only the forward multiplication: forward values agree, backward uses the forward scale and agrees with eager iff "
    "the scales coincide; eager saves the backward scale rounded to the input dtype). TorchDynamo, AOT autograd and "
    "Inductor are PyTorch's runtime and are NOT modelled: agreement is differential only - every public function and "
    "module and random compositions are executed eagerly and under torch.compile (aot_eager in the quick tier, inductor "
    "in the thorough tier) in float32/float64/bfloat16 and outputs and all gradients compared; fx.symbolic_trace + "
    "GraphModule execution for forward values of modules with non-trivial parameters."
)
ASSUMPTIONS = ["torch.compile / TorchDynamo / AOT autograd / Inductor are not modelled (differential agreement only)",
               "tolerances: float64 1e-12, float32 1e-6, bfloat16 2^-6 (relative to the tensor's max)"]
TOL = {"torch.float64": 1e-12, "torch.float32": 2e-6, "torch.bfloat16": 2.0 ** -6}


def run(ctx: Ctx) -> None:
    import_repo()
    import torch
    import torch._dynamo
    from torch import nn
    import unit_scaling as uu
    import unit_scaling.functional as U

    torch.set_num_threads(2)
    rng = ctx.rng
    quick = ctx.tier == "quick"
    backend = "aot_eager" if quick else "inductor"
    ctx.rule = ("every public unit-scaled function (random configurations as in C01, every constraint) and module, and random "
                "compositions of 2-6 modules, x dtype {float32,float64,bfloat16} x backend aot_eager (quick) / inductor "
                "(thorough); fx.symbolic_trace of modules for forward values. distinct = distinct (callable, cfg, dtype).")

    def close(a: torch.Tensor, b: torch.Tensor, dt: torch.dtype) -> bool:
        if a.shape != b.shape or a.dtype != b.dtype:
            return False
        tol = TOL[str(dt)]
        scale = max(float(b.double().abs().max()) if b.numel() else 0.0, 1e-30)
        return bool(((a.double() - b.double()).abs().max() if a.numel() else torch.tensor(0.0)) <= tol * scale)

    if not quick:
        # Inductor generates its own random numbers unless told to fall back to eager's generator
        import torch._inductor.config as icfg
        icfg.fallback_random = True

    def perturbed(t: torch.Tensor, eps: float, seed: int) -> torch.Tensor:
        g = torch.Generator().manual_seed(seed)
        sgn = torch.randint(0, 2, t.shape, generator=g).to(t.dtype) * 2 - 1
        return t * (1 + eps * sgn)

    def rounding_close(a: torch.Tensor, b: torch.Tensor, ref: Any, allow: float, dt: torch.dtype, f32_internal: bool = False,
                       floor: float = 0.0) -> bool:
        """`a` (compiled) agrees with `b` (eager) to float rounding.  Directly within the dtype's tolerance; or - for
        ill-conditioned results (e.g. the input gradient of a normalisation, a difference of nearly equal terms), where
        fused kernels legitimately round intermediates differently - judged against the float64 evaluation `ref` of the
        same computation: a's error is at most 4x the larger of eager's own error here and eager's error on four
        neighbouring inputs (`allow`, the rounding noise of this computation in this dtype), plus the tolerance.
        In float64 the second route exists only for callables that compute internally in float32 (the library's rms):
        there `allow` is the change a float32-level perturbation of the inputs causes."""
        if close(a, b, dt):
            return True
        if a.shape != b.shape or a.dtype != b.dtype:
            return False
        if dt == torch.float64:
            # `allow` = how much eager's own result moves when its inputs are perturbed at rounding level (float32 level for
            # callables that compute internally in float32, a few float64 ulps otherwise): the conditioning of this result.
            # A gradient that is (nearly) zero by cancellation or saturation has no meaningful relative scale of its own.
            # `floor`: the natural size of the terms a gradient is made of (upstream gradient / input scale); a gradient
            # that vanishes identically (layer_norm over two elements: the output is the constant +-1) still carries the
            # rounding of those terms
            if allow is None:
                return False
            scale = max(float(b.double().abs().max()), floor, 1e-30)
            return float((a.double() - b.double()).abs().max()) <= TOL["torch.float32" if f32_internal else "torch.float64"] * scale + 8 * allow
        if ref is None or ref.shape != a.shape:
            return False
        ea = float((a.double() - ref.double()).abs().max())
        eb = float((b.double() - ref.double()).abs().max())
        scale = max(float(ref.double().abs().max()), 1e-30)
        return ea <= 4 * max(eb, allow or 0.0) + TOL[str(dt)] * scale

    def maxdiff(u: Any, v: Any) -> float:
        if u is None or v is None or u.shape != v.shape:
            return 0.0
        return float((u.double() - v.double()).abs().max()) if u.numel() else 0.0

    def run_fn(fn: Callable, tensors: Dict[str, Any], diff: List[str], seed: int, up_dtype: Any = None, eps: float = 0.0):
        if eps:
            tensors = {k: (perturbed(v, eps, 17 + j) if torch.is_tensor(v) and v.is_floating_point() else v)
                       for j, (k, v) in enumerate(tensors.items())}
        t = {k: (v.detach().clone().requires_grad_(True) if (k in diff) else v) for k, v in tensors.items()}
        torch.manual_seed(seed)
        y = fn(t)
        # never the data stream's seed: an upstream gradient equal to the input makes the input gradient of a normalisation
        # pure cancellation (true value ~0), where eager and compiled kernels differ by the rounding of the cancelling terms
        g = torch.Generator().manual_seed((seed + 1) * 7919 + 104729)
        up = torch.randn(y.shape, generator=g, dtype=torch.float64).to(up_dtype or y.dtype).to(y.dtype)
        if eps:
            up = perturbed(up, eps, 16)
        grads = torch.autograd.grad(y, [t[n] for n in diff], up, allow_unused=True) if diff else []
        return y.detach(), [None if x is None else x.detach() for x in grads]

    # ---------------- functions
    per_op = 1 if quick else 12
    for op in ops.OPS:
        for i in range(per_op):
            case = ops.gen_case(rng, op)
            for dt in (torch.float32, torch.float64, torch.bfloat16):
                key = {**case.key(), "dtype": str(dt), "backend": backend}
                ctx.count(key, bucket=f"fn/{op}")
                base = ops.make_inputs(case, 3 + i, dt)

                def f(t, case=case):
                    return ops.call_impl(U, case, t, 11)

                try:
                    want = run_fn(f, base, case.diff, 5)
                except Exception:
                    ctx.bump("eager-unsupported-dtype")
                    continue
                got = None
                with ctx.guard(f"C20:{op}:compile", key):
                    torch._dynamo.reset()
                    cf = torch.compile(f, backend=backend)
                    got = run_fn(cf, base, case.diff, 5)
                if got is None:
                    continue
                none = (None, [None] * len(case.diff))
                ref: Any = none
                allow: Any = (None, [None] * len(case.diff))
                random_op = (op == "dropout" and case.cfg.get("training") and case.cfg.get("p", 0) > 0) or \
                    (case.cfg.get("dropout_p", 0) or 0) > 0
                f32i = op == "rms_norm"
                if not random_op:
                    try:
                        isf = lambda v: torch.is_tensor(v) and v.is_floating_point()  # noqa: E731
                        b64 = {k: (v.double() if isf(v) else v) for k, v in base.items()}
                        ref = run_fn(f, b64, case.diff, 5, up_dtype=dt)
                        if dt == torch.float64:
                            rp = run_fn(f, b64, case.diff, 5, up_dtype=dt,
                                        eps=float(torch.finfo(torch.float32).eps) if f32i else 8 * float(torch.finfo(torch.float64).eps))
                            allow = (maxdiff(rp[0], want[0]), [maxdiff(u, v) for u, v in zip(rp[1], want[1])])
                        else:
                            no, ng = 0.0, [0.0] * len(case.diff)
                            for j in range(4):
                                pj = {k: (perturbed(v, float(torch.finfo(dt).eps), 50 + 7 * j + i_).to(dt) if isf(v) else v)
                                      for i_, (k, v) in enumerate(b64.items())}
                                wj = run_fn(f, pj, case.diff, 5)
                                rj = run_fn(f, {k: (v.double() if isf(v) else v) for k, v in pj.items()}, case.diff, 5, up_dtype=dt)
                                no = max(no, maxdiff(wj[0], rj[0]))
                                ng = [max(g0, maxdiff(u, v)) for g0, u, v in zip(ng, wj[1], rj[1])]
                            allow = (no, ng)
                    except Exception:
                        ref, allow = none, (None, [None] * len(case.diff))
                if not rounding_close(got[0], want[0], ref[0], allow[0], dt, f32i):
                    ctx.violation(f"C20:{op}:output", "compiled output differs from eager", key,
                                  float((got[0].double() - want[0].double()).abs().max()))
                rms_ = [float(v.double().pow(2).mean().sqrt()) for v in base.values()
                        if torch.is_tensor(v) and v.is_floating_point() and v.numel()]
                gfloor = 4.0 * max(1.0, 1.0 / max(min(rms_), 1e-6)) if rms_ else 4.0
                for n, a, b, r64, al in zip(case.diff, got[1], want[1], ref[1], allow[1]):
                    if (a is None) != (b is None) or (a is not None and not rounding_close(a, b, r64, al, dt, f32i, floor=gfloor)):
                        ctx.violation(f"C20:{op}:grad:{n}", "compiled gradient differs from eager", {**key, "wrt": n},
                                      None if a is None or b is None else float((a.double() - b.double()).abs().max()))

    # ---------------- one geometry, every constraint name in turn: eager must not carry anything from one call to the next
    #                  (the compiled function is traced afresh), so eager == compiled for every constraint in the sequence
    sweep_ops = ["gelu", "silu", "softmax", "matmul", "linear", "conv1d", "add"] if quick else \
        ["gelu", "silu", "softmax", "matmul", "linear", "linear_readout", "conv1d", "add"]
    for op in sweep_ops:
        base_case = ops.gen_case(rng, op)
        if op == "add" and base_case.cfg.get("mode") == "number":
            continue
        names_ = list(ops.TERNARY if op in ("matmul", "add") else ops.BINARY)
        rng.shuffle(names_)
        seq = names_[: (3 if quick else len(names_))] + [None] + names_[:1]
        for si, cname in enumerate(seq):
            case = ops.OpCase(op, {**base_case.cfg, "constraint": cname}, base_case.shapes, base_case.diff)
            dt = torch.float32
            key = {**case.key(), "dtype": str(dt), "backend": backend, "constraint_sequence_position": si}
            ctx.count(key, bucket=f"constraint-sweep/{op}")
            base = ops.make_inputs(case, 31, dt)

            def f2(t, case=case):
                return ops.call_impl(U, case, t, 11)

            got = want = None
            with ctx.guard(f"C20:{op}:constraint-sweep", key):
                want = run_fn(f2, base, case.diff, 5)
                torch._dynamo.reset()
                got = run_fn(torch.compile(f2, backend=backend), base, case.diff, 5)
            if got is None or want is None:
                continue
            if not close(got[0], want[0], dt) or any((a is None) != (b is None) or (a is not None and not close(a, b, dt))
                                                      for a, b in zip(got[1], want[1])):
                ctx.violation(f"C20:{op}:constraint-sweep", "after calls with other constraints on the same geometry, eager and "
                              "compiled results differ", key)

    # ---------------- modules and compositions
    Hd = 8

    from ..custom_ops import CustomScaledOp

    def mk_modules() -> List[Tuple[str, Callable[[], nn.Module], Tuple[int, ...], bool]]:
        return [
            ("CustomScaledOp", CustomScaledOp, (4, Hd), False),
            ("GELU", lambda: uu.GELU(mult=rng.choice([0.5, 1.0, 2.0]), constraint=rng.choice([None, "to_output_scale"])), (4, Hd), False),
            ("SiLU", lambda: uu.SiLU(constraint=None), (4, Hd), False),
            ("Softmax", lambda: uu.Softmax(dim=-1, mult=2.0), (4, Hd), False),
            ("Dropout", lambda: uu.Dropout(0.0), (4, Hd), False),
            ("Linear", lambda: uu.Linear(Hd, 5, bias=True, constraint=rng.choice([None, "gmean", "to_output_scale"])), (4, Hd), False),
            ("LinearReadout", lambda: uu.LinearReadout(Hd, 5, bias=True), (4, Hd), False),
            ("Conv1d", lambda: uu.Conv1d(Hd, 6, 3, bias=True, padding=1), (2, Hd, 7), False),
            ("LayerNorm", lambda: uu.LayerNorm(Hd, elementwise_affine=True), (4, Hd), False),
            ("RMSNorm", lambda: uu.RMSNorm(Hd, elementwise_affine=True), (4, Hd), False),
            ("Embedding", lambda: uu.Embedding(11, Hd), (3, 5), True),
            ("MLP", lambda: uu.MLP(Hd), (2, 5, Hd), False),
            ("MHSA", lambda: uu.MHSA(Hd, heads=2, is_causal=rng.random() < 0.5), (2, 5, Hd), False),
            ("TransformerLayer", lambda: uu.TransformerLayer(Hd, 2, mhsa_tau=0.3, mlp_tau=0.7, is_causal=True), (2, 5, Hd), False),
        ]

    def randomise(m: nn.Module, dt: torch.dtype) -> nn.Module:
        with torch.no_grad():
            for n, p in m.named_parameters():
                if n.endswith("bias"):
                    p.copy_(torch.randn_like(p) * 0.5)           # non-trivial biases
                elif p.dim() == 1:
                    p.copy_(1.0 + 0.3 * torch.randn_like(p))     # non-trivial gains
        return m.to(dt)

    def compare_module(name: str, m: nn.Module, x: torch.Tensor, dt: torch.dtype, key: Dict[str, Any]) -> None:
        def fb(mod, seed=7, x=x, eps=0.0):
            for p in mod.parameters():
                p.grad = None
            if eps:
                with torch.no_grad():
                    for j, p in enumerate(mod.parameters()):
                        p.copy_(perturbed(p, eps, 40 + j))
                x = perturbed(x, eps, 39) if x.is_floating_point() else x
            xi = x.clone().requires_grad_(True) if x.is_floating_point() else x
            torch.manual_seed(seed)
            y = mod(xi)
            g = torch.Generator().manual_seed(seed)
            up = torch.randn(y.shape, generator=g, dtype=torch.float64).to(dt).to(y.dtype)
            y.backward(perturbed(up, eps, 38) if eps else up)
            return y.detach(), ([xi.grad.detach()] if x.is_floating_point() else []) + \
                [None if p.grad is None else p.grad.detach().clone() for p in mod.parameters()]

        want = fb(m)
        ref: Any = None
        allow: Any = None
        f32i = any(isinstance(sm, uu.RMSNorm) for sm in m.modules())
        if True:
            try:
                x64 = x.double() if x.is_floating_point() else x
                ref = fb(copy.deepcopy(m).double(), x=x64)
                if dt == torch.float64:
                    rp = fb(copy.deepcopy(m).double(), x=x64,
                            eps=float(torch.finfo(torch.float32).eps) if f32i else 8 * float(torch.finfo(torch.float64).eps))
                    allow = (maxdiff(rp[0], want[0]), [maxdiff(u, v) for u, v in zip(rp[1], want[1])])
                else:
                    no, ng = 0.0, [0.0] * len(want[1])
                    for j in range(4):
                        mj = copy.deepcopy(m).double()
                        with torch.no_grad():
                            for i_, p_ in enumerate(mj.parameters()):
                                p_.copy_(perturbed(p_, float(torch.finfo(dt).eps), 60 + 11 * j + i_))
                        mj = mj.to(dt)
                        xj = perturbed(x64, float(torch.finfo(dt).eps), 59 + j).to(dt) if x.is_floating_point() else x
                        wj = fb(mj, x=xj)
                        rj = fb(copy.deepcopy(mj).double(), x=xj.double() if x.is_floating_point() else xj)
                        no = max(no, maxdiff(wj[0], rj[0]))
                        ng = [max(g0, maxdiff(u, v)) for g0, u, v in zip(ng, wj[1], rj[1])]
                    allow = (no, ng)
            except Exception:
                ref = allow = None
        got = None
        with ctx.guard(f"C20:{name}:compile", key):
            torch._dynamo.reset()
            cm = torch.compile(copy.deepcopy(m), backend=backend)
            got = fb(cm)
        if got is not None:
            if not rounding_close(got[0], want[0], ref[0] if ref else None, allow[0] if allow else None, dt, f32i):
                ctx.violation(f"C20:{name}:output", "compiled module output differs from eager", key)
            for j, (a, b) in enumerate(zip(got[1], want[1])):
                r64 = ref[1][j] if ref and j < len(ref[1]) else None
                al = allow[1][j] if allow and j < len(allow[1]) else None
                if (a is None) != (b is None) or (a is not None and not rounding_close(a, b, r64, al, dt, f32i)):
                    ctx.violation(f"C20:{name}:grad", "compiled module gradient differs from eager", key)
                    break
        # plain fx symbolic tracing: forward values
        gm = None
        # modules whose forward is plain tensor code trace on the unchanged tree; the rest (einops, len(), data-dependent
        # asserts, non-numeric interpolation of a traced size) do not and are only counted
        hard = (uu.Conv1d, uu.RMSNorm, uu.MHSA, uu.TransformerLayer, uu.Embedding)
        fx_expected = not any(isinstance(sm, hard) or (isinstance(sm, uu.Linear) and not isinstance(sm, uu.LinearReadout)
                                                       and getattr(sm, "constraint", None) not in (None, "to_output_scale"))
                              for sm in m.modules())
        try:
            gm = torch.fx.symbolic_trace(copy.deepcopy(m))
        except Exception as e:  # noqa: BLE001
            ctx.bump("fx-untraceable/" + name)
            if fx_expected:
                ctx.violation(f"C20:{name}:fx-trace-fails", "plain fx.symbolic_trace no longer traces this module "
                              f"({type(e).__name__}: {str(e)[:80]})", key)
        if gm is not None:
            ctx.bump("fx-traced/" + name)
            with ctx.guard(f"C20:{name}:fx-run", key):
                torch.manual_seed(7)
                yf = gm(x)
                if not close(yf.detach(), want[0], dt):
                    ctx.violation(f"C20:{name}:fx-forward", "fx.symbolic_trace GraphModule forward differs from eager", key,
                                  float((yf.detach().double() - want[0].double()).abs().max()))

        # the library's leaf-wrapping tracer (analyse_module): unit-scaled functions stay leaf calls, so the traced graph
        # reproduces forward values AND gradients (backward-only factors included)
        from unit_scaling.utils import _DeepTracer
        dg = None
        try:
            dg = torch.fx.GraphModule(copy.deepcopy(m), _DeepTracer().trace(copy.deepcopy(m)))
        except Exception as e:  # noqa: BLE001
            ctx.violation(f"C20:{name}:leaf-tracer-fails", f"the library's leaf-wrapping tracer cannot trace this module "
                          f"({type(e).__name__}: {str(e)[:80]})", key)
        if dg is not None:
            ctx.bump("leaf-traced/" + name)
            gotd = None
            with ctx.guard(f"C20:{name}:leaf-tracer-run", key):
                # parameters of the traced copy are those of a deep copy: load the same values
                dg.load_state_dict(m.state_dict(), strict=False)
                gotd = fb(dg)
            if gotd is not None:
                if not rounding_close(gotd[0], want[0], ref[0] if ref else None, allow[0] if allow else None, dt, f32i):
                    ctx.violation(f"C20:{name}:leaf-tracer-forward", "leaf-traced module output differs from eager", key)
                for j, (a, b) in enumerate(zip(gotd[1], want[1])):
                    r64 = ref[1][j] if ref and j < len(ref[1]) else None
                    al = allow[1][j] if allow and j < len(allow[1]) else None
                    if (a is None) != (b is None) or (a is not None and not rounding_close(a, b, r64, al, dt, f32i)):
                        ctx.violation(f"C20:{name}:leaf-tracer-grad", "gradient of the leaf-traced module differs from eager "
                                      "(a backward-only scale factor was lost or changed)", key,
                                      None if a is None or b is None else float((a.double() - b.double()).abs().max()))
                        break

    for (name, mk, shape, is_idx) in mk_modules():
        for dt in (torch.float32, torch.float64, torch.bfloat16):
            key = {"module": name, "dtype": str(dt), "backend": backend}
            ctx.count(key, bucket=f"module/{name}")
            torch.manual_seed(rng.randrange(1 << 30))
            with ctx.guard(f"C20:{name}:build", key):
                m = randomise(mk(), dt)
                x = torch.randint(0, 11, shape) if is_idx else torch.randn(shape, dtype=torch.float64).to(dt)
                compare_module(name, m, x, dt, key)
    # random compositions of 2-6 layers (B, S, H) -> (B, S, H)
    layer_makers = [lambda: uu.Linear(Hd, Hd, bias=True), lambda: uu.GELU(), lambda: uu.SiLU(), lambda: uu.LayerNorm(Hd, elementwise_affine=True),
                    lambda: uu.RMSNorm(Hd), lambda: uu.MLP(Hd, 2), lambda: uu.MHSA(Hd, 2, is_causal=True), lambda: uu.Softmax(-1),
                    lambda: uu.Dropout(0.0), lambda: uu.TransformerLayer(Hd, 2, 0.4, 0.6, is_causal=False)]
    for i in range(3 if quick else 60):
        n = rng.randint(2, 6)
        dt = [torch.float32, torch.float64, torch.bfloat16][i % 3]
        picks = [rng.randrange(len(layer_makers)) for _ in range(n)]
        key = {"composition": picks, "dtype": str(dt), "backend": backend}
        ctx.count(key, bucket="composition")
        with ctx.guard("C20:composition:build", key):
            torch.manual_seed(i)
            m = randomise(nn.Sequential(*[layer_makers[j]() for j in picks]) if i % 2 else uu.DepthSequential(*[layer_makers[j]() for j in picks]), dt)
            x = torch.randn(2, 5, Hd, dtype=torch.float64).to(dt)
            compare_module("composition", m, x, dt, key)
    torch._dynamo.reset()
