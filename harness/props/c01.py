"""C01 — scaled functions equal PyTorch counterparts up to one data-independent scalar."""
from __future__ import annotations

import os
import sys

import math
from typing import Any, Dict, List

from .. import driver, ops
from ..common import Ctx, b2f, import_repo, rel_close

LEVEL = "proof"
EXPLANATION = (
    "Theorems: for every reference op F the modelled composite returns fwdScale . F(pre x); fwdScale is positive "
    "for every valid configuration and constraint, exactly 1 for norms / embedding / sum-reduced losses, 1/batch "
    "resp. 1/numel for mean; argument validation rejects non-default unsupported args. The check fits the "
    "implementation's forward scalar against an independent PyTorch reference on two data draws for every "
    "function (property oracle) and compares the identity/validation clauses with the model (correspondence)."
)
ASSUMPTIONS = ["reference built from torch primitives with the documented temperature inside",
               "rms_norm is computed by the library in float32: compared to 1e-5 instead of 1e-10"]
THMS = ["USProofs.C01.scaled1_fwd", "USProofs.C01.norm_fwd_one", "USProofs.C01.validate_rejects"]

UNSUPPORTED = {
    "silu": [("inplace", True)],
    "dropout": [("inplace", True)],
    "add": [("alpha", 2)],
    "embedding": [("scale_grad_by_freq", True), ("sparse", True)],
    "cross_entropy": [("weight", "TENSOR"), ("size_average", True), ("size_average", False), ("reduce", True),
                      ("reduce", False), ("label_smoothing", 0.1)],
    "mse_loss": [("size_average", True), ("reduce", False)],
}


def tol_for(op: str) -> float:
    return 1e-5 if op == "rms_norm" else 1e-10


def run(ctx: Ctx) -> None:
    import_repo()
    import torch
    import unit_scaling.functional as U

    torch.set_num_threads(1)
    rng = ctx.rng
    quick = ctx.tier == "quick"
    per_op = 45 if quick else 1200
    ctx.rule = ("per function: random valid configurations (0-3 leading batch dims, dims distinct primes, broadcasting "
                "patterns, hyper-parameters from grids and log-uniform draws, every constraint name and None), two "
                "independent float64 data draws each, plus float32/bfloat16/float16 shape-dtype runs and "
                "unsupported-argument calls. distinct = distinct (op, cfg, shapes); trivial = none.")
    ident_reqs: List[Any] = []
    ident_cases: List[Any] = []
    # corpus: minimised past failures run first (the listed known finding is exercised on every run)
    corpus = {"cross_entropy": [ops.OpCase("cross_entropy", {"reduction": "mean", "mult": 1.0, "ignore_index": 0,
                                                             "hit_ignore": True, "vocab": 7}, {"input": (5, 7)}, ["input"])],
              "gelu": [ops.OpCase("gelu", {"mult": 0.5, "constraint": None, "approximate": "tanh"}, {"input": (5, 3)}, ["input"])],
              "rms_norm": [ops.OpCase("rms_norm", {"normalized_shape": (5,), "eps": 1.0}, {"input": (3, 5)}, ["input"])]}
    for op in ops.OPS:
        for i in range(per_op):
            case = corpus[op][i] if i < len(corpus.get(op, [])) else ops.gen_case(rng, op)
            key = case.key()
            ctx.count(key, bucket=op)
            ms = []
            with ctx.guard(f"C01:{op}:call", key):
                ms = [ops.measure(U, case, 2 * i + 1, 7 * i + 1, want_grads=False),
                      ops.measure(U, case, 2 * i + 2, 7 * i + 2, want_grads=False)]
            if not ms:
                continue
            tol = tol_for(op)
            m1, m2 = ms
            ce_ignored = (op == "cross_entropy" and case.cfg["reduction"] == "mean" and case.cfg["hit_ignore"]
                          and case.cfg["ignore_index"] >= 0 and len(case.shapes["input"]) == 2)
            for m in ms:
                if m.out_shape != m.ref_shape or m.out_dtype != m.ref_dtype:
                    ctx.violation(f"C01:{op}:shape-dtype", "result shape/dtype differs from PyTorch's", key,
                                  {"out": [m.out_shape, str(m.out_dtype)], "ref": [m.ref_shape, str(m.ref_dtype)]})
                elif m.fwd_resid > tol:
                    ctx.violation(f"C01:{op}:not-scalar-multiple", "result is not a scalar multiple of the PyTorch result",
                                  key, {"resid": m.fwd_resid, "a": m.fwd})
                if m.mutated:
                    ctx.violation(f"C01:{op}:mutated", "an input tensor was modified", key, m.mutated)
            if math.isnan(m1.fwd) or math.isnan(m2.fwd):
                continue  # reference identically zero (e.g. dropout p with all dropped): nothing to fit
            if not (m1.fwd > 0 and m2.fwd > 0):
                ctx.violation(f"C01:{op}:sign", "forward scalar is not positive", key, [m1.fwd, m2.fwd])
            if ce_ignored:
                # PyTorch divides by the number of non-ignored targets, the library by the batch size
                batch = case.shapes["input"][0]
                for m, seed in ((m1, 2 * i + 1), (m2, 2 * i + 2)):
                    tgt = ops.make_inputs(case, seed)["target"]
                    valid = int((tgt != case.cfg["ignore_index"]).sum())
                    if valid != batch and rel_close(m.fwd, valid / batch, 1e-9):
                        ctx.violation("C01:cross_entropy:mean:ignored-targets",
                                      "mean-reduced cross_entropy with ignored targets divides by batch size, "
                                      "PyTorch by the non-ignored count", key, {"ratio": m.fwd, "valid": valid, "batch": batch})
                    elif not rel_close(m.fwd, 1.0, 1e-9):
                        ctx.violation("C01:cross_entropy:value", "loss differs from PyTorch's", key, m.fwd)
                continue
            if not rel_close(m1.fwd, m2.fwd, 1e3 * tol):
                ctx.violation(f"C01:{op}:data-dependent", "forward scalar differs between two data draws", key,
                              [m1.fwd, m2.fwd])
            if op in ops.IDENTITY_FWD:
                exact = op in ("layer_norm", "embedding")
                for m in ms:
                    if exact and not torch.equal(m.out, m.ref):
                        ctx.violation(f"C01:{op}:not-identity", "result differs from PyTorch's (should be identical)", key, m.fwd)
                    elif not rel_close(m.fwd, 1.0, 1e-5 if op == "rms_norm" else 1e-12):
                        ctx.violation(f"C01:{op}:not-identity", "scalar is not 1 for a loss/normalisation/embedding", key, m.fwd)
                req = ops.model_request(case)
                if req is not None:
                    ident_reqs.append(req)
                    ident_cases.append((key, op, case.cfg.get("reduction")))

            # lower-precision dtypes: shape, dtype, finiteness, rough agreement
            if i % 3 == 0:
                for dt in (torch.float32, torch.bfloat16, torch.float16):
                    base = ops.make_inputs(case, 5, dt)
                    if os.environ.get("VERIF_DEBUG_CASES"):
                        print("lowp-case", case.op, case.cfg, case.shapes, dt, file=sys.stderr, flush=True)
                    if not ops.reference_survives(case, base):
                        ctx.bump(f"torch-kernel-crash-skipped/{dt}")
                        continue
                    try:
                        ref = ops.call_ref(case, dict(base), 77)
                    except Exception:
                        ctx.bump(f"dtype-unsupported-by-torch/{dt}")
                        continue
                    dkey = {**key, "dtype": str(dt)}
                    ctx.count(dkey, bucket=f"dtype/{str(dt).split('.')[-1]}")
                    out = None
                    with ctx.guard(f"C01:{op}:call-lowp", dkey):
                        out = ops.call_impl(U, case, dict(base), 77)
                    if out is None:
                        continue
                    if tuple(out.shape) != tuple(ref.shape) or out.dtype != ref.dtype:
                        ctx.violation(f"C01:{op}:shape-dtype", "result shape/dtype differs from PyTorch's", dkey,
                                      {"out": [tuple(out.shape), str(out.dtype)], "ref": [tuple(ref.shape), str(ref.dtype)]})
                        continue
                    a = m1.fwd
                    d = (out.double() - a * ref.double()).abs().max() if out.numel() else torch.tensor(0.0)
                    scale = max(float((a * ref.double()).abs().max()) if out.numel() else 0.0, 1e-3)
                    lim = {torch.float32: 1e-4, torch.bfloat16: 0.06, torch.float16: 0.02}[dt]
                    if not bool(torch.isfinite(out).all()) and bool(torch.isfinite(ref).all()):
                        ctx.violation(f"C01:{op}:lowp-nonfinite", "non-finite result where PyTorch's is finite", dkey)
                    elif float(d) / scale > lim and bool(torch.isfinite(ref).all()):
                        ctx.violation(f"C01:{op}:lowp-value", "low-precision result is not the same scalar multiple", dkey,
                                      float(d) / scale)

    # ---- cross_entropy with class-probability targets (float target of the logits' shape): the loss is PyTorch's, exactly
    for shape in ((5, 7), (7,), (3, 2), (6, 11)):
        for red in ("mean", "sum"):
            for dt_ in (torch.float64, torch.float32):
                for mult in (1.0, 0.5):
                    key = {"op": "cross_entropy", "target": "class probabilities", "shape": list(shape), "reduction": red,
                           "dtype": str(dt_), "mult": mult}
                    ctx.count(key, bucket="cross_entropy/prob-target")
                    gen_ = torch.Generator().manual_seed(sum(shape) + (red == "sum"))
                    x_ = torch.randn(shape, generator=gen_, dtype=torch.float64).to(dt_)
                    p_ = torch.softmax(torch.randn(shape, generator=gen_, dtype=torch.float64), -1).to(dt_)
                    with ctx.guard("C01:cross_entropy:prob-target", key):
                        a_ = U.cross_entropy(x_, p_, reduction=red, mult=mult)
                        b_ = torch.nn.functional.cross_entropy(x_ * mult, p_, reduction=red)
                        if a_.shape != b_.shape or a_.dtype != b_.dtype or \
                                not torch.allclose(a_, b_, rtol=1e-12 if dt_ == torch.float64 else 1e-5, atol=0):
                            ctx.violation("C01:cross_entropy:prob-target", "loss with class-probability targets differs from "
                                          "PyTorch's", key, {"got": float(a_), "want": float(b_)})

    # ---- unsupported arguments
    vreqs: List[Any] = []
    vcases: List[Any] = []
    for op, argl in UNSUPPORTED.items():
        for (name, val) in argl:
            for how in ("keyword", "default-keyword"):
                case = ops.gen_case(rng, op)
                t = ops.make_inputs(case, 3)
                v = val
                if val == "TENSOR":
                    v = torch.ones(case.cfg["vocab"], dtype=torch.float64)
                default = {"inplace": False, "alpha": 1, "scale_grad_by_freq": False, "sparse": False, "weight": None,
                           "size_average": None, "reduce": None, "label_smoothing": 0.0}[name]
                kw = {name: v if how == "keyword" else default}
                key = {"op": op, "arg": name, "value": repr(val), "how": how}
                ctx.count(key, bucket="unsupported-arg")
                fn = getattr(U, op)
                args: List[Any]
                if op in ("silu", "dropout"):
                    args = [t["input"]]
                elif op == "add":
                    if case.cfg["mode"] == "number":
                        args = [t["input"], 2.0]
                    else:
                        args = [t["input"], t["other"]]
                elif op == "embedding":
                    args = [t["idx"], t["weight"]]
                else:
                    args = [t["input"], t["target"]]
                raised = None
                try:
                    fn(*args, **kw)
                except Exception as e:  # noqa
                    raised = type(e).__name__
                if how == "keyword" and raised is None:
                    ctx.violation(f"C01:{op}:unsupported-arg:{name}", "unsupported argument silently accepted", key)
                if how == "default-keyword" and raised is not None:
                    ctx.violation(f"C01:{op}:default-arg-rejected:{name}", "default value of an unsupported argument rejected", key, raised)
                vreqs.append({"k": "validate", "fn": op, "pos": [], "kw": [[name, repr(v if how == "keyword" else default) if val != "TENSOR" or how != "keyword" else "tensor"]]})
                vcases.append((key, raised))
    # values of a *supported* argument that the library does not implement (reduction='none'): rejected, or else the
    # PyTorch result (shape included) up to the scalar - never silently something else
    for op in ("cross_entropy", "mse_loss"):
        for red in ("none",):
            case = ops.gen_case(rng, op)
            t = ops.make_inputs(case, 3)
            key = {"op": op, "arg": "reduction", "value": red, "how": "keyword"}
            ctx.count(key, bucket="unsupported-arg")
            raised = None
            out_ = None
            try:
                out_ = getattr(U, op)(t["input"], t["target"], reduction=red)
            except Exception as e:  # noqa
                raised = type(e).__name__
            if raised is None:
                ref_ = getattr(torch.nn.functional, op)(t["input"], t["target"], reduction=red)
                if tuple(out_.shape) != tuple(ref_.shape):
                    ctx.violation(f"C01:{op}:unsupported-value:reduction", "an unimplemented value of `reduction` is silently accepted and "
                                  "the result does not have the shape of the PyTorch result", key,
                                  {"got_shape": list(out_.shape), "want_shape": list(ref_.shape)})
    # positional binding of an unsupported parameter
    for op, args_fn, n_pos in (("dropout", lambda t: [t["input"], 0.5, True, True], 4),
                               ("silu", lambda t: [t["input"], 1.0, None, True], 4)):
        case = ops.gen_case(rng, op)
        t = ops.make_inputs(case, 3)
        key = {"op": op, "arg": "inplace", "how": "positional"}
        ctx.count(key, bucket="unsupported-arg")
        raised = None
        try:
            getattr(U, op)(*args_fn(t))
        except Exception as e:  # noqa
            raised = type(e).__name__
        if raised is None:
            ctx.violation(f"C01:{op}:unsupported-arg:inplace", "unsupported argument (positional) silently accepted", key)
        vreqs.append({"k": "validate", "fn": op, "pos": ["x", "0.5" if op == "dropout" else "1.0",
                                                         "True" if op == "dropout" else "None", "True"], "kw": []})
        vcases.append((key, raised))

    # ---- correspondence with the model
    if ctx.driver_ok:
        for (key, op, red), r in zip(ident_cases, driver.ask(ident_reqs)):
            want_one = not (op in ("cross_entropy", "mse_loss") and red == "mean")
            mf = b2f(r["fwd"])
            if want_one and mf != 1.0:
                ctx.disagree("identity_forward", key, mf, 1.0, THMS)
        for (key, raised), r in zip(vcases, driver.ask(vreqs)):
            model_err = r.get("err")
            if (model_err is not None) != (raised is not None):
                ctx.disagree("validate", key, r, raised, ["USProofs.C01.validate_rejects", "USProofs.C01.validate_accepts"])
        # the model's signature table against the live functions
        import inspect
        for op in UNSUPPORTED:
            r = driver.ask([{"k": "validate", "fn": op, "pos": [], "kw": []}])[0]
            live = inspect.getfullargspec(inspect.unwrap(getattr(U, op))).args
            if r.get("args") != live:
                ctx.disagree("signature", {"op": op}, r.get("args"), live, ["USProofs.C01.validate_rejects"])
