"""C16 — unit_scale() equals the hand conversion prescribed by the User Guide."""
from __future__ import annotations

import copy
from typing import Any, Dict, List, Optional, Set, Tuple

from .. import driver, fxgraphs as fg
from ..common import Ctx, import_repo

LEVEL = "proof"
EXPLANATION = (
    "Lean model of unit_scaling_backend pass by pass (sweep with user precedence, dependency sets, add classification, "
    "plain-add replacement, residual rewrite, re-computation, un-constraining). Theorems pin each pass's decision logic "
    "(user precedence, residual iff one operand among the other's transitive inputs, other adds plain, single keyword "
    "binding); allDeps = the transitive-input relation for every topologically ordered graph, the rewritten graph IS "
    "topologically ordered for every well-formed input (node insertions of the residual rewrite included), hence "
    "'residual iff one operand is computed from the other', 'exactly the ops with a later residual add stay constrained' "
    "and 'the output graph is well-formed' for all graphs. Check: (a) the real backend on FX graphs of generated modules vs the model's output graph, exactly; "
    "(b) the real unit_scale() through TorchDynamo vs an independent interpreter that executes the User-Guide recipe on the "
    "program IR with the real U.* functions: outputs and all gradients; re-initialisation and user replacements."
)
ASSUMPTIONS = ["the reference interpreter classifies additions on the program IR's own ancestor relation",
               "TorchDynamo hands the backend the graph of the module (runtime not modelled)",
               "`a @ b` (operator.matmul) and tensor-method calls are outside the mapped vocabulary"]
THMS = ["USProofs.C16.user_precedence", "USProofs.C16.builtin_replaced", "USProofs.C16.residual_detect",
        "USProofs.C16.other_adds_plain", "USProofs.C16.setKw_count"]
SA_KINDS = {"softmax", "sdpa"}


def analyse(prog: fg.Program):
    """Ancestors, residual adds (skip, residual operand, tau) and constrained values — on the IR."""
    n_in = len(prog.inputs)
    anc: List[Set[int]] = [set() for _ in range(n_in)]
    for op in prog.ops:
        a: Set[int] = set()
        for i in op.ins:
            a |= {i} | anc[i]
        anc.append(a)

    def kind_of(v: int) -> Optional[str]:
        if v < n_in:
            return None
        op = prog.ops[v - n_in]
        if op.kind == "nn":
            return {"Softmax": "softmax"}.get(op.p["cls"], "nn." + op.p["cls"])
        return op.kind

    residual: Dict[int, Tuple[int, int, float]] = {}     # add value -> (skip value, residual value, tau)
    for k, op in enumerate(prog.ops):
        v = n_in + k
        if op.kind in ("add", "iadd") and len(op.ins) == 2:
            l, r = op.ins
            if l in anc[r] or r in anc[l]:
                skip, res = (l, r) if l in anc[r] else (r, l)
                # branch = everything reachable backwards from the residual operand without passing the skip
                seen: Set[int] = set()
                stack = [res]
                sa = False
                while stack:
                    p = stack.pop()
                    if p == skip or p < n_in or p in seen:
                        continue
                    seen.add(p)
                    if kind_of(p) in SA_KINDS:
                        sa = True
                    stack += prog.ops[p - n_in].ins
                residual[v] = (skip, res, 0.01 if sa else 0.5)
    constrained: Set[int] = set()
    for v in residual:
        constrained |= {v} | anc[v]
    return anc, residual, constrained


def recipe_forward(U: Any, torch: Any, F: Any, prog: fg.Program, mod: fg.IRModule, inputs: List[Any],
                   user_gelu: Any = None) -> Any:
    """Execute the User-Guide conversion of the program with the real unit-scaled functions."""
    n_in = len(prog.inputs)
    anc, residual, constrained = analyse(prog)
    skip_of: Dict[int, Tuple[int, float]] = {}
    for v, (s, _r, tau) in residual.items():
        if s in skip_of:
            raise NotImplementedError("skip tensor shared by two residual adds")
        skip_of[s] = (v, tau)
    vals: List[Any] = list(inputs)
    split: Dict[int, Tuple[Any, Any]] = {}

    def after(v: int) -> None:
        if v in skip_of:
            split[v] = U.residual_split(vals[v], skip_of[v][1])

    for v in range(n_in):
        after(v)

    def read(i: int, consumer: int) -> Any:
        """every user of a skip tensor other than its residual add reads the residual output of the split"""
        if i in split and skip_of[i][0] != consumer:
            return split[i][0]
        return vals[i]

    P = mod.params
    for k, op in enumerate(prog.ops):
        v = n_in + k
        a = [read(i, v) for i in op.ins]
        p = op.p
        c: Dict[str, Any] = {} if v in constrained else {"constraint": None}
        kd = op.kind
        if kd == "linear":
            out = U.linear(a[0], P[p["w"]], P[p["b"]], **c)
        elif kd == "linear_kw":
            out = U.linear(a[0], P[p["w"]], bias=P[p["b"]], **c)
        elif kd in ("linear_nb", "linear_none"):
            out = U.linear(a[0], P[p["w"]], None, **c)
        elif kd == "nn":
            m = mod.mods[p["m"]]
            cls = p["cls"]
            if cls == "Linear":
                out = U.linear(a[0], m.weight, m.bias, **c)
            elif cls == "LayerNorm":
                out = U.layer_norm(a[0], m.normalized_shape, m.weight, m.bias, m.eps)
            elif cls == "GELU":
                out = (user_gelu or U.gelu)(a[0], **({} if user_gelu else {"approximate": m.approximate, **c}))
            elif cls == "Softmax":
                out = U.softmax(a[0], m.dim, **c)
            else:
                out = m(a[0])
        elif kd == "matmul":
            out = U.matmul(a[0], P[p["w"]], **c)
        elif kd == "gelu":
            out = user_gelu(a[0]) if user_gelu else U.gelu(a[0], **c, **({"approximate": "tanh"} if p.get("kw") else {}))
        elif kd == "silu":
            out = U.silu(a[0], **c)
        elif kd == "softmax":
            out = U.softmax(a[0], dim=-1, **c)
        elif kd == "dropout":
            out = U.dropout(a[0], p=0.0)
        elif kd == "layer_norm":
            out = U.layer_norm(a[0], (fg.H,), P[p["w"]], P[p["b"]])
        elif kd == "sdpa":
            kw: Dict[str, Any] = {}
            if p.get("causal"):
                kw["is_causal"] = True
            if p.get("mask"):
                kw["attn_mask"] = P[p["mask"]]
            if p.get("dropout0"):
                kw["dropout_p"] = 0.0
            out = U.scaled_dot_product_attention(a[0], a[1], a[2], **kw)
        elif kd == "embedding":
            out = U.embedding(a[0], P[p["w"]])
        elif kd == "conv1d":
            out = U.conv1d(a[0].transpose(1, 2), P[p["w"]], None, 1, 1, **c).transpose(1, 2)
        elif kd == "cross_entropy":
            out = U.cross_entropy(a[0].flatten(0, 1), a[1].flatten())
        elif kd == "mse_loss":
            out = U.mse_loss(a[0], a[1])
        elif kd in ("add", "iadd") and v in residual:
            s, r, tau = residual[v]
            out = U.residual_add(read(r, v), split[s][1], tau)
        elif kd in ("add", "iadd"):
            out = U.add(a[0], a[1], constraint=None)
        elif kd == "add_scalar":
            out = U.add(a[0], p["c"], constraint=None)
        else:
            # unmapped operations are untouched: run the original implementation on the (re-routed) inputs
            tmp = fg.Program([fg.Op(kd, list(range(len(a))), p)], ["x"] * len(a), [len(a)], {}, {})
            out = fg.IRModule.run(_Shim(mod, tmp), list(a))
        vals.append(out)
        after(v)
    outs = [read(i, -1) for i in prog.outputs]
    return outs[0] if len(outs) == 1 else tuple(outs)


class _Shim:
    """runs a single unmapped op with the original function table and the module's parameters"""

    def __init__(self, mod: fg.IRModule, prog: fg.Program) -> None:
        self.prog, self.table, self.params, self.mods = prog, fg.FnTable(), mod.params, mod.mods


def run(ctx: Ctx) -> None:
    import_repo()
    import torch
    import torch.nn.functional as F
    from torch import nn
    import unit_scaling.functional as U
    from unit_scaling.transforms import unit_scale
    from unit_scaling.transforms._unit_scale import unit_scaling_backend

    torch.set_num_threads(2)
    rng = ctx.rng
    quick = ctx.tier == "quick"
    ctx.rule = ("generated module graphs: chains and DAGs of 1-16 ops over the mapped vocabulary, unmapped ops, tensor+tensor "
                "/ tensor+scalar / in-place adds, 0-4 well-nested residual blocks whose skip is an input, a residual output or a "
                "plain sum, torch.nn wrappers, losses; (a) backend on FX graphs, (b) unit_scale() through Dynamo. distinct = "
                "distinct programs.")

    def gen(i: int) -> fg.Program:
        return fg.gen_program(rng, rng.randint(1, 16), residuals=rng.randint(0, 4), wrappers=True, attention=True,
                              losses=(i % 4 == 0), fan_out=True, embedding=(i % 5 == 0), plain_adds=True,
                              side_paths=(i % 2 == 0), kw_tensors=(i % 3 == 1), inplace_stmts=(i % 4 == 2))

    # ---------------- call history: an earlier unit_scale() call in this process supplied its own replacement; it must
    #                  hold for that call only (everything below runs after it)
    def earlier_gelu(x, approximate="none"):
        return x * torch.sigmoid(1.702 * x)

    class Tiny(torch.nn.Module):
        def __init__(self) -> None:
            super().__init__()
            self.l = torch.nn.Linear(4, 4)

        def forward(self, x):  # type: ignore[no-untyped-def]
            return F.gelu(self.l(x))

    map_before = dict(U.torch_map)
    with ctx.guard("C16:earlier-call", {"history": "unit_scale(Tiny, replace={F.gelu: f})"}):
        unit_scale(Tiny(), replace={F.gelu: earlier_gelu})(torch.randn(2, 4))
    if dict(U.torch_map) != map_before:
        ctx.violation("C16:replace-leaks", "a replacement supplied to one unit_scale() call changed the built-in map used by "
                      "later calls", {"history": "unit_scale(Tiny, replace={F.gelu: f}); then any unit_scale(m)"},
                      sorted(fg.target_name(k) for k in U.torch_map if U.torch_map[k] is not map_before.get(k)))

    # ---------------- (a) the backend called directly on FX graphs vs the model
    n_direct = 120 if quick else 4000
    mreqs, mcases = [], []
    for i in range(n_direct):
        prog = gen(i)
        key = {"path": "direct", "program": prog.key()}
        ctx.count(key, bucket="direct")
        with ctx.guard("C16:direct", key):
            gm = fg.trace_fx(fg.make_module(prog, seed=i))
            before = fg.serialise(gm.graph)
            out = unit_scaling_backend()(gm, [])
            after = fg.serialise(out.graph)
            out(*fg.make_inputs(prog, i))   # the rewritten graph must be executable
            mreqs.append({"k": "graph", "pass": "unit_scale", "nodes": before})
            mcases.append((key, after))

    # ---------------- (b) the real unit_scale() through TorchDynamo vs the recipe interpreter
    def grads_of(fn, params, xs, seed):
        for p in params:
            p.grad = None
        ins = [x.clone().requires_grad_(True) if x.is_floating_point() else x for x in xs]
        y = fn(*ins)
        ys = y if isinstance(y, tuple) else (y,)
        g = torch.Generator().manual_seed(seed)
        loss = sum((t * torch.randn(t.shape, generator=g)).sum() for t in ys)
        loss.backward()
        return ([t.detach().clone() for t in ys], [i.grad.detach().clone() if i.grad is not None else None
                                                   for i in ins if i.is_floating_point()],
                [None if p.grad is None else p.grad.detach().clone() for p in params])

    def first_diff(a, b) -> Optional[str]:
        names = ("output", "input-gradient", "parameter-gradient")
        for nm, xs, ys in zip(names, a, b):
            for u, v in zip(xs, ys):
                if (u is None) != (v is None):
                    return nm
                if u is not None and (u.shape != v.shape or not torch.allclose(u, v, rtol=1e-5, atol=1e-6)):
                    return nm
        return None

    # ---- frozen layers (fine-tune-the-head set-up): the re-initialisation happens "in the returned copy" - the original
    #      module, frozen parameters included, is what it was, and shares no storage with the copy
    class FrozenNet(nn.Module):
        def __init__(self) -> None:
            super().__init__()
            self.tok = nn.Embedding(11, 8)
            self.l1 = nn.Linear(8, 8)
            self.l2 = nn.Linear(8, 4)

        def forward(self, idx):  # type: ignore[no-untyped-def]
            h = self.tok(idx)
            return self.l2(h + torch.nn.functional.gelu(self.l1(h)))

    for frozen in (["tok"], ["l1"], ["tok", "l1"], []):
        key = {"path": "dynamo", "module": "Embedding + residual Linear + Linear", "frozen": frozen}
        ctx.count(key, bucket="dynamo/frozen")
        torch.manual_seed(77)
        net = FrozenNet()
        for nm_ in frozen:
            for p_ in getattr(net, nm_).parameters():
                p_.requires_grad_(False)
        idx_ = torch.randint(0, 11, (3, 5))
        sd0 = {k: v.detach().clone() for k, v in net.state_dict().items()}
        y0 = net(idx_).detach().clone()
        um = None
        with ctx.guard("C16:unit_scale", key):
            um = unit_scale(net)
            um(idx_).sum().backward()
        if um is None:
            continue
        if any(not torch.equal(v, sd0[k]) for k, v in net.state_dict().items()) or not torch.equal(net(idx_).detach(), y0):
            ctx.violation("C16:original-modified", "unit_scale modified the original module's parameters", key,
                          {k: float(v.std()) for k, v in net.state_dict().items() if not torch.equal(v, sd0[k])})
        if {p_.data_ptr() for p_ in net.parameters()} & {p_.data_ptr() for p_ in um.parameters()}:
            ctx.violation("C16:original-modified", "the returned copy shares parameter storage with the original", key)
        for name, sub in um.named_modules():
            if isinstance(sub, (nn.Linear, nn.Embedding)):
                if abs(float(sub.weight.detach().std()) - 1.0) > 1e-4:
                    ctx.violation("C16:reinit-weight", "Linear/Embedding weight of the returned copy is not unit variance", key,
                                  float(sub.weight.detach().std()))
                if getattr(sub, "bias", None) is not None and float(sub.bias.detach().abs().max()) != 0.0:
                    ctx.violation("C16:reinit-bias", "bias of the returned copy is not zero", key)

    n_dyn = 16 if quick else 300
    for i in range(n_dyn):
        prog = gen(1000 + i)
        try:
            analyse(prog)
        except NotImplementedError:
            continue
        key = {"path": "dynamo", "program": prog.key()}
        ctx.count(key, bucket="dynamo")
        mod = fg.make_module(prog, seed=i)
        sd0 = {k: v.detach().clone() for k, v in mod.state_dict().items()}
        xs = fg.make_inputs(prog, i)
        got = um = None
        with ctx.guard("C16:unit_scale", key):
            um = unit_scale(mod)
            got = grads_of(um, list(um.parameters()), xs, 9)
        if got is None:
            continue
        # the original is untouched; the copy's Linear/Embedding weights are unit variance, biases zero
        if any(not torch.equal(v, sd0[k]) for k, v in mod.state_dict().items()):
            ctx.violation("C16:original-modified", "unit_scale modified the original module's parameters", key)
        for name, sub in um.named_modules():
            if isinstance(sub, (nn.Linear, nn.Embedding)):
                if abs(float(sub.weight.detach().std()) - 1.0) > 1e-4:
                    ctx.violation("C16:reinit-weight", "Linear/Embedding weight of the returned copy is not unit variance", key,
                                  float(sub.weight.detach().std()))
                if getattr(sub, "bias", None) is not None and float(sub.bias.detach().abs().max()) != 0.0:
                    ctx.violation("C16:reinit-bias", "bias of the returned copy is not zero", key)
        # reference: same parameters as the returned copy
        ref = fg.make_module(prog, seed=i)
        ref.load_state_dict(um.state_dict())
        want = None
        try:
            want = grads_of(lambda *a: recipe_forward(U, torch, F, prog, ref, list(a)), list(ref.parameters()), xs, 9)
        except NotImplementedError:
            continue
        d = first_diff(got, want)
        if d:
            ctx.violation(f"C16:recipe:{d}", f"unit_scale(module) differs from the User-Guide hand conversion in {d}", key)

    # ---------------- user-supplied replacements take precedence
    def my_gelu(x):
        return x * torch.sigmoid(1.702 * x)

    for i in range(4 if quick else 40):
        prog = fg.gen_program(rng, rng.randint(2, 8), residuals=1, wrappers=False, attention=False)
        if not any(o.kind == "gelu" for o in prog.ops):
            prog.ops.append(fg.Op("gelu", [prog.outputs[0]]))
            prog.outputs = [len(prog.inputs) + len(prog.ops) - 1]
        key = {"path": "dynamo", "replace": "F.gelu -> custom", "program": prog.key()}
        ctx.count(key, bucket="replace")
        mod = fg.make_module(prog, seed=i)
        xs = fg.make_inputs(prog, i)
        got = None
        with ctx.guard("C16:replace", key):
            um = unit_scale(mod, replace={F.gelu: my_gelu})
            got = grads_of(um, list(um.parameters()), xs, 9)
        if got is None:
            continue
        ref = fg.make_module(prog, seed=i)
        ref.load_state_dict(um.state_dict())
        want = grads_of(lambda *a: recipe_forward(U, torch, F, prog, ref, list(a), user_gelu=my_gelu), list(ref.parameters()), xs, 9)
        d = first_diff(got, want)
        if d:
            ctx.violation(f"C16:replace:{d}", "user-supplied replacement does not take precedence over the built-in one", key)
        # direct backend + model with the replacement
        with ctx.guard("C16:direct-replace", key):
            gm = fg.trace_fx(fg.make_module(prog, seed=i))
            before = fg.serialise(gm.graph)
            out = unit_scaling_backend({F.gelu: my_gelu})(gm, [])
            mreqs.append({"k": "graph", "pass": "unit_scale", "nodes": before,
                          "replace": [["F.gelu", fg.target_name(my_gelu)]], "constraint_targets": []})
            mcases.append((key, fg.serialise(out.graph)))

    # ---------------- root module that is a torch.nn class (listed finding)
    key = {"path": "dynamo", "root": "nn.Sequential"}
    ctx.count(key, bucket="root-nn")
    with ctx.guard("C16:root", key):
        torch.manual_seed(0)
        seq = nn.Sequential(nn.Linear(8, 16), nn.GELU(), nn.Linear(16, 8))
        us = unit_scale(seq)
        x = torch.randn(64, 8)
        want = U.linear(U.gelu(U.linear(x, us[0].weight, us[0].bias, constraint=None), constraint=None), us[2].weight, us[2].bias,
                        constraint=None)
        if not torch.allclose(us(x), want, rtol=1e-5, atol=1e-6):
            ctx.violation("C16:root-torch-nn-module", "unit_scale of a root nn.Sequential does not unit-scale its operations", key,
                          float(us(x).std()))

    if ctx.driver_ok:
        for (key, after), r in zip(mcases, driver.ask(mreqs, timeout=900)):
            if r.get("nodes") != after:
                mn = r.get("nodes") or []
                j = next((j for j, (a, b) in enumerate(zip(mn, after)) if a != b), min(len(mn), len(after)))
                ctx.disagree("unit_scaling_backend_graph", {**key, "node": j}, mn[j] if j < len(mn) else None,
                             after[j] if j < len(after) else None, THMS)
            # premise of the reachability theorems (deps_spec / marked_spec / unconstrained_set): the rewritten graph is
            # topologically ordered with distinct ids — evaluated by the model's `topoB` (sound: `topoB_sound`)
            if r.get("topo") is not True:
                ctx.disagree("rewritten_graph_topological", key, True, r.get("topo"),
                             ["USProofs.C16.marked_spec", "USProofs.C16.unconstrained_set", "USProofs.C16.constrained_kept"])
        # the model's tables vs the live ones
        import inspect
        t = driver.ask([{"k": "graph", "pass": "tables", "nodes": []}])[0]
        live_map = sorted([fg.target_name(k), fg.target_name(v)] for k, v in U.torch_map.items())
        if sorted(t["torch_map"]) != live_map:
            ctx.disagree("torch_map", {}, sorted(t["torch_map"]), live_map, THMS)
        live_ct = sorted("U." + {"scaled_dot_product_attention": "sdpa"}.get(n, n) for n in U.__all__
                         if "constraint" in inspect.signature(getattr(U, n)).parameters)
        if sorted(t["constraint_targets"]) != live_ct:
            ctx.disagree("constraint_targets", {}, sorted(t["constraint_targets"]), live_ct, THMS)
