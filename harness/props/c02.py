"""C02 — gradients are PyTorch's gradients times per-input data-independent scalars."""
from __future__ import annotations

import math
from typing import Any, List

from .. import driver, ops
from ..common import Ctx, b2f, import_repo, rel_close

LEVEL = "proof"
EXPLANATION = (
    "Theorems: the VJP of the modelled composite is bwdScale_i . F.vjp for every reference op, point and upstream "
    "gradient; scale_fwd / scale_bwd multiply only the value resp. only the gradient for every real factor; "
    "mean-reduced losses back-propagate the sum-reduced loss. The check fits one scalar per differentiable input "
    "against autograd of an independent PyTorch reference over two data draws x two upstream draws x a repeated "
    "call, and exercises the two primitives bitwise over shapes, dtypes and factors."
)
ASSUMPTIONS = ["reference gradients come from torch.autograd on the PyTorch reference with the same upstream gradient"]
THMS = ["USProofs.C02.scaled1_vjp", "USProofs.C02.scaled2_vjp", "USProofs.C02.scaled3_vjp",
        "USProofs.C02.cross_entropy_vjp", "USProofs.C02.mse_vjp"]


def run(ctx: Ctx) -> None:
    import_repo()
    import torch
    import unit_scaling.functional as U
    from unit_scaling.scale import scale_bwd, scale_fwd

    torch.set_num_threads(1)
    rng = ctx.rng
    quick = ctx.tier == "quick"
    per_op = 40 if quick else 1000
    ctx.rule = ("per function: random valid configurations as in C01; for each, every differentiable input, data "
                "draws {1,2} x upstream draws {1,2} and one repeated call; plus the two primitives over rank 0-4, four "
                "dtypes and factors incl. 0, negatives, 1e3, subnormal. distinct = distinct (op,cfg,shapes) / "
                "(primitive,shape,dtype,factor).")
    sreqs: List[Any] = []
    scases: List[Any] = []
    cold: List[Any] = []
    corpus = {"embedding": [ops.OpCase("embedding", {"padding_idx": 0, "max_norm": None, "idx_shape": (4, 6), "vocab": 10},
                                       {"weight": (10, 3)}, ["weight"])]}
    for op in ops.OPS:
        for i in range(per_op):
            case = corpus[op][i] if i < len(corpus.get(op, [])) else ops.gen_case(rng, op)
            key = case.key()
            ctx.count(key, bucket=op)
            tol = 1e-5 if op == "rms_norm" else 1e-10
            ms = []
            with ctx.guard(f"C02:{op}:call", key):
                for (ds, us) in ((1, 1), (2, 1), (1, 2), (1, 1), (3, 3)):
                    ms.append(ops.measure(U, case, 10 * i + ds, 100 * i + us, warm=(i % 4 == 0 and len(ms) == 0)))
            if len(ms) < 5:
                continue
            if i % 2 == 0 and case.diff:
                # the same tensor objects used again (step 2 of a training loop): identical gradients, nothing may have been
                # left behind on the caller's tensors by the first call
                with ctx.guard(f"C02:{op}:second-call", key):
                    t_same = ops._req(ops.make_inputs(case, 10 * i + 1, torch.float64), case)
                    gs = []
                    for rep_ in range(3):
                        y_ = ops.call_impl(U, case, t_same, 7)
                        gen_ = torch.Generator().manual_seed(100 * i + 5)
                        up_ = torch.randn(y_.shape, generator=gen_, dtype=torch.float64)
                        gs.append(torch.autograd.grad(y_, [t_same[n] for n in case.diff], up_, allow_unused=True))
                    for n, g1, g2, g3 in zip(case.diff, *gs):
                        if g1 is None:
                            continue
                        if not (torch.allclose(g1, g2, rtol=1e-12, atol=0) and torch.allclose(g1, g3, rtol=1e-12, atol=0)):
                            ctx.violation(f"C02:{op}:{n}:repeat-same-tensors", "calling the op again on the same tensors gives a "
                                          "different gradient (state left on the caller's tensors)", {**key, "wrt": n},
                                          [float((g2 / g1).flatten()[0]), float((g3 / g1).flatten()[0])])
            sr = ops.model_request(case)
            if sr is not None:
                sreqs.append(sr)
                scases.append((case, key, ms[0]))
            if i % 4 == 0:
                cold.append((case, 10 * i + 1, 100 * i + 1, key, ms[0]))
            for name in case.diff:
                if op == "rms_norm" and name == "input":
                    # the library computes the RMS in float32, and the input gradient of a normalisation is a difference
                    # of nearly equal terms for small widths: judge it by absolute error against the gradient's natural
                    # scale |upstream| / rms(x), with the scalar fixed at 1
                    worst = max(m.bwd_abs1.get(name, 0.0) / max(m.up_max / max(m.in_rms, 1e-30), 1e-30) for m in ms)
                    if worst > 1e-5:
                        ctx.violation("C02:rms_norm:input:direction", "input gradient differs from PyTorch's beyond float32 rounding",
                                      {**key, "wrt": name}, worst)
                    continue
                bs = [m.bwd[name] for m in ms]
                rs = [m.bwd_resid[name] for m in ms]
                if any(r > tol for r in rs):
                    ctx.violation(f"C02:{op}:{name}:direction", "gradient is not a scalar multiple of PyTorch's gradient",
                                  {**key, "wrt": name}, {"resid": max(rs), "b": bs})
                    continue
                bs_f = [b for b in bs if not math.isnan(b)]
                if not bs_f:
                    continue
                if any(b <= 0 for b in bs_f):
                    ctx.violation(f"C02:{op}:{name}:sign", "gradient scalar is not positive", {**key, "wrt": name}, bs)
                if any(not rel_close(b, bs_f[0], 1e3 * tol) for b in bs_f):
                    ctx.violation(f"C02:{op}:{name}:varies", "gradient scalar varies with data, upstream gradient or between calls",
                                  {**key, "wrt": name}, bs)
            if op == "layer_norm":
                # the model says the *input* gradient of the normalisations is PyTorch's (scalar 1)
                b = ms[0].bwd.get("input")
                if b is not None and not math.isnan(b) and not rel_close(b, 1.0, 1e-5 if op == "rms_norm" else 1e-12):
                    ctx.disagree("norm_input_grad_one", key, 1.0, b, ["USProofs.C01.norm_input_grad_one"])

    # ---- which inputs require grad must not matter: the gradient an input receives when it is the only one requiring grad
    #      equals the one it receives when all do (frozen weights, plain data inputs)
    for op in ops.OPS:
        for rep_ in range(2 if quick else 30):
            case = ops.gen_case(rng, op)
            if len(case.diff) < 2:
                continue
            key = {**case.key(), "requires_grad": "one input at a time"}
            ctx.count(key, bucket="partial-requires-grad")
            with ctx.guard(f"C02:{op}:partial-grad", key):
                base_ = ops.make_inputs(case, 77 + rep_, torch.float64)
                t_all = ops._req(base_, case)
                y_ = ops.call_impl(U, case, t_all, 7)
                gen_ = torch.Generator().manual_seed(991 + rep_)
                up_ = torch.randn(y_.shape, generator=gen_, dtype=torch.float64)
                g_all = torch.autograd.grad(y_, [t_all[n] for n in case.diff], up_, allow_unused=True)
                for n, ga in zip(case.diff, g_all):
                    if ga is None:
                        continue
                    t_one = {k: (v.detach().clone().requires_grad_(k == n) if torch.is_tensor(v) and v.is_floating_point() else v)
                             for k, v in base_.items()}
                    y1 = ops.call_impl(U, case, t_one, 7)
                    (g1,) = torch.autograd.grad(y1, [t_one[n]], up_, allow_unused=True)
                    if g1 is None or not torch.allclose(g1, ga, rtol=1e-12, atol=0):
                        ctx.violation(f"C02:{op}:{n}:partial-requires-grad", "the gradient of an input changes when the other inputs "
                                      "do not require grad", {**key, "wrt": n},
                                      None if g1 is None else float((g1 / ga).flatten()[0]))

    # ---- an upstream gradient that is an expanded (stride-0) view, as produced by a partial sum downstream
    for op in ops.OPS:
        for rep_ in range(1 if quick else 20):
            case = ops.gen_case(rng, op)
            key = {**case.key(), "upstream": "expanded view"}
            with ctx.guard(f"C02:{op}:expanded-upstream", key):
                t_ = ops._req(ops.make_inputs(case, 55 + rep_, torch.float64), case)
                y_ = ops.call_impl(U, case, t_, 7)
                if y_.dim() < 2 or not case.diff:
                    continue
                ctx.count(key, bucket="expanded-upstream")
                gen_ = torch.Generator().manual_seed(313 + rep_)
                row = torch.randn((1,) + tuple(y_.shape[1:]), generator=gen_, dtype=torch.float64)
                up_e = row.expand(y_.shape)                       # stride 0 along dim 0
                g_e = torch.autograd.grad(y_, [t_[n] for n in case.diff], up_e, allow_unused=True, retain_graph=True)
                g_c = torch.autograd.grad(y_, [t_[n] for n in case.diff], up_e.contiguous(), allow_unused=True)
                for n, a_, b_ in zip(case.diff, g_e, g_c):
                    if (a_ is None) != (b_ is None) or (a_ is not None and not torch.allclose(a_, b_, rtol=1e-12, atol=0)):
                        ctx.violation(f"C02:{op}:{n}:expanded-upstream", "the gradient depends on the memory layout of the upstream "
                                      "gradient (expanded view vs contiguous copy)", {**key, "wrt": n})

    # ---- cross_entropy: the number of ignored targets is data; the gradient scalar (relative to the sum-reduced reference)
    #      must not depend on it
    for red in ("mean", "sum"):
        for V_, B_ in ((5, 6), (3, 8)):
            scal = []
            key = {"op": "cross_entropy", "reduction": red, "vocab": V_, "batch": B_, "ignored_targets": "0..B-2"}
            ctx.count(key, bucket="cross_entropy/ignored-count")
            with ctx.guard("C02:cross_entropy:ignored-count", key):
                gen_ = torch.Generator().manual_seed(V_ * B_)
                x0 = torch.randn(B_, V_, generator=gen_, dtype=torch.float64)
                tg0 = torch.randint(1, V_, (B_,), generator=gen_)
                for k_ in range(0, B_ - 1):
                    tg = tg0.clone()
                    tg[:k_] = 0                                     # ignore_index = 0
                    xi = x0.clone().requires_grad_(True)
                    (ga,) = torch.autograd.grad(U.cross_entropy(xi, tg, ignore_index=0, reduction=red), xi)
                    xr = x0.clone().requires_grad_(True)
                    (gr,) = torch.autograd.grad(torch.nn.functional.cross_entropy(xr, tg, ignore_index=0, reduction="sum"), xr)
                    s_, res_ = ops.fit(ga, gr)
                    scal.append(s_)
                    if res_ > 1e-10:
                        ctx.violation("C02:cross_entropy:ignored:direction", "gradient is not a multiple of the reference's", {**key, "k": k_}, res_)
                if any(not rel_close(v, scal[0], 1e-9) for v in scal):
                    ctx.violation("C02:cross_entropy:ignored:varies", "the gradient scalar depends on how many targets are ignored "
                                  "(tensor values)", key, scal)

    # ---- call-history independence: the scalars measured above after lower-precision warm-up calls equal the scalars a
    #      fresh process measures for the same configuration with no history at all
    if cold:
        import os
        import pickle
        import subprocess
        import sys
        import json as _json
        with ctx.guard("C02:cold-process", {"cases": len(cold)}):
            p = subprocess.run([sys.executable, "-m", "harness.cold"], input=pickle.dumps([(c, d, u) for c, d, u, _, _ in cold]),
                               stdout=subprocess.PIPE, stderr=subprocess.PIPE, timeout=1800,
                               cwd=os.path.dirname(os.path.dirname(os.path.dirname(os.path.abspath(__file__)))))
            if p.returncode != 0:
                raise RuntimeError("cold process failed: " + p.stderr.decode()[-400:])
            for (case, _, _, key, m), r in zip(cold, _json.loads(p.stdout.decode())):
                ctx.count({**key, "cold": True}, bucket="history")
                if "err" in r:
                    continue
                tol = 1e-5 if case.op == "rms_norm" else 1e-10
                for n in case.diff:
                    b0, b1 = r["bwd"].get(n), m.bwd.get(n)
                    if b0 is None or b1 is None or math.isnan(b1):
                        continue
                    if not rel_close(b0, b1, tol):
                        ctx.violation(f"C02:{case.op}:{n}:history", "gradient scalar depends on the calls made before it "
                                      "(fresh process vs after bfloat16/float32 calls of the same configuration)",
                                      {**key, "wrt": n}, {"fresh": b0, "after_warm_up": b1})

    # ---- correspondence: the fitted gradient scalars are the model's bwdScale_i(shapes, hyperparameters)
    if ctx.driver_ok and sreqs:
        for (case, key, m), r in zip(scases, driver.ask(sreqs)):
            if "err" in r:
                ctx.disagree("bwd_scales", key, r, m.bwd, THMS)
                continue
            mb = dict(zip(ops.model_bwd_names(case), [b2f(x) for x in r["bwd"]]))
            if case.op == "cross_entropy":
                # the reference takes mult * logits, so its input gradient already carries the factor mult
                mb = {k: v / case.cfg.get("mult", 1.0) for k, v in mb.items()}
            tol = 1e-5 if case.op == "rms_norm" else 1e-9
            if any((not math.isnan(m.bwd[n])) and not rel_close(mb[n], m.bwd[n], tol) for n in case.diff):
                ctx.disagree("bwd_scales", key, mb, m.bwd, THMS)

    # ---- the two primitives (lower precisions first, so that nothing cached for one dtype can hide in a wider one)
    factors = [0.0, -0.0, 1.0, -1.0, 1e3, -1e3, 0.5, -3.25, 1e-310, 7.0]
    factors += [rng.uniform(-1e3, 1e3) for _ in range(4 if quick else 40)]
    shapes = [(), (1,), (3,), (2, 3), (2, 1, 4), (2, 3, 1, 2)]
    for dt in (torch.bfloat16, torch.float16, torch.float32, torch.float64):
        for shape in shapes:
            for c in factors:
                x = torch.randn(shape, dtype=torch.float64).to(dt)
                g = torch.randn(shape, dtype=torch.float64).to(dt)
                for prim in ("scale_fwd", "scale_bwd"):
                    key = {"primitive": prim, "shape": list(shape), "dtype": str(dt), "factor": c}
                    ctx.count(key, bucket=prim)
                    xi = x.clone().requires_grad_(True)
                    ok = False
                    with ctx.guard(f"C02:{prim}:call", key):
                        y = (scale_fwd if prim == "scale_fwd" else scale_bwd)(xi, c)
                        (gx,) = torch.autograd.grad(y, xi, g)
                        ok = True
                    if not ok:
                        continue
                    if prim == "scale_fwd":
                        want_y, want_g = c * x, g
                    else:
                        want_y, want_g = x, torch.tensor(c, dtype=dt) * g
                    if not torch.equal(y.detach(), want_y) or y.dtype != dt or y.shape != x.shape:
                        ctx.violation(f"C02:{prim}:forward", f"{prim} forward value is not " +
                                      ("factor * x" if prim == "scale_fwd" else "x unchanged"), key)
                    if not torch.equal(gx, want_g) or gx.dtype != dt:
                        ctx.violation(f"C02:{prim}:backward", f"{prim} gradient is not " +
                                      ("unchanged" if prim == "scale_fwd" else "factor * g"), key)
                    if not torch.equal(xi.detach(), x):
                        ctx.violation(f"C02:{prim}:mutated", f"{prim} modified its input", key)
