"""C02 — gradients are PyTorch's gradients times per-input data-independent scalars."""
from __future__ import annotations

import math
from typing import Any, List

from .. import driver, ops
from ..common import Ctx, b2f, import_repo, rel_close

LEVEL = "proof"
EXPLANATION = (
    "Theorems: the VJP of the modelled composite is bwdScale_i . F.vjp for every reference op, point and upstream "
    "gradient; scale_fwd / scale_bwd multiply only the value resp. only the gradient for every real factor; "
    "mean-reduced losses back-propagate the sum-reduced loss. The check fits one scalar per differentiable input "
    "against autograd of an independent PyTorch reference over two data draws x two upstream draws x a repeated "
    "call, and exercises the two primitives bitwise over shapes, dtypes and factors."
)
ASSUMPTIONS = ["reference gradients come from torch.autograd on the PyTorch reference with the same upstream gradient"]
THMS = ["USProofs.C02.scaled1_vjp", "USProofs.C02.scaled2_vjp", "USProofs.C02.scaled3_vjp",
        "USProofs.C02.cross_entropy_vjp", "USProofs.C02.mse_vjp"]


def run(ctx: Ctx) -> None:
    import_repo()
    import torch
    import unit_scaling.functional as U
    from unit_scaling.scale import scale_bwd, scale_fwd

    torch.set_num_threads(1)
    rng = ctx.rng
    quick = ctx.tier == "quick"
    per_op = 40 if quick else 1000
    ctx.rule = ("per function: random valid configurations as in C01; for each, every differentiable input, data "
                "draws {1,2} x upstream draws {1,2} and one repeated call; plus the two primitives over rank 0-4, four "
                "dtypes and factors incl. 0, negatives, 1e3, subnormal. distinct = distinct (op,cfg,shapes) / "
                "(primitive,shape,dtype,factor).")
    norm_reqs: List[Any] = []
    norm_cases: List[Any] = []
    corpus = {"embedding": [ops.OpCase("embedding", {"padding_idx": 0, "max_norm": None, "idx_shape": (4, 6), "vocab": 10},
                                       {"weight": (10, 3)}, ["weight"])]}
    for op in ops.OPS:
        for i in range(per_op):
            case = corpus[op][i] if i < len(corpus.get(op, [])) else ops.gen_case(rng, op)
            key = case.key()
            ctx.count(key, bucket=op)
            tol = 1e-5 if op == "rms_norm" else 1e-10
            ms = []
            with ctx.guard(f"C02:{op}:call", key):
                for (ds, us) in ((1, 1), (2, 1), (1, 2), (1, 1), (3, 3)):
                    ms.append(ops.measure(U, case, 10 * i + ds, 100 * i + us))
            if len(ms) < 5:
                continue
            for name in case.diff:
                if op == "rms_norm" and name == "input":
                    # the library computes the RMS in float32, and the input gradient of a normalisation is a difference
                    # of nearly equal terms for small widths: judge it by absolute error against the gradient's natural
                    # scale |upstream| / rms(x), with the scalar fixed at 1
                    worst = max(m.bwd_abs1.get(name, 0.0) / max(m.up_max / max(m.in_rms, 1e-30), 1e-30) for m in ms)
                    if worst > 1e-5:
                        ctx.violation("C02:rms_norm:input:direction", "input gradient differs from PyTorch's beyond float32 rounding",
                                      {**key, "wrt": name}, worst)
                    continue
                bs = [m.bwd[name] for m in ms]
                rs = [m.bwd_resid[name] for m in ms]
                if any(r > tol for r in rs):
                    ctx.violation(f"C02:{op}:{name}:direction", "gradient is not a scalar multiple of PyTorch's gradient",
                                  {**key, "wrt": name}, {"resid": max(rs), "b": bs})
                    continue
                bs_f = [b for b in bs if not math.isnan(b)]
                if not bs_f:
                    continue
                if any(b <= 0 for b in bs_f):
                    ctx.violation(f"C02:{op}:{name}:sign", "gradient scalar is not positive", {**key, "wrt": name}, bs)
                if any(not rel_close(b, bs_f[0], 1e3 * tol) for b in bs_f):
                    ctx.violation(f"C02:{op}:{name}:varies", "gradient scalar varies with data, upstream gradient or between calls",
                                  {**key, "wrt": name}, bs)
            if op == "layer_norm":
                # the model says the *input* gradient of the normalisations is PyTorch's (scalar 1)
                b = ms[0].bwd.get("input")
                if b is not None and not math.isnan(b) and not rel_close(b, 1.0, 1e-5 if op == "rms_norm" else 1e-12):
                    ctx.disagree("norm_input_grad_one", key, 1.0, b, ["USProofs.C01.norm_input_grad_one"])

    # ---- the two primitives
    factors = [0.0, -0.0, 1.0, -1.0, 1e3, -1e3, 0.5, -3.25, 1e-310, 7.0]
    factors += [rng.uniform(-1e3, 1e3) for _ in range(4 if quick else 40)]
    shapes = [(), (1,), (3,), (2, 3), (2, 1, 4), (2, 3, 1, 2)]
    for dt in (torch.float64, torch.float32, torch.bfloat16, torch.float16):
        for shape in shapes:
            for c in factors:
                x = torch.randn(shape, dtype=torch.float64).to(dt)
                g = torch.randn(shape, dtype=torch.float64).to(dt)
                for prim in ("scale_fwd", "scale_bwd"):
                    key = {"primitive": prim, "shape": list(shape), "dtype": str(dt), "factor": c}
                    ctx.count(key, bucket=prim)
                    xi = x.clone().requires_grad_(True)
                    ok = False
                    with ctx.guard(f"C02:{prim}:call", key):
                        y = (scale_fwd if prim == "scale_fwd" else scale_bwd)(xi, c)
                        (gx,) = torch.autograd.grad(y, xi, g)
                        ok = True
                    if not ok:
                        continue
                    if prim == "scale_fwd":
                        want_y, want_g = c * x, g
                    else:
                        want_y, want_g = x, torch.tensor(c, dtype=dt) * g
                    if not torch.equal(y.detach(), want_y) or y.dtype != dt or y.shape != x.shape:
                        ctx.violation(f"C02:{prim}:forward", f"{prim} forward value is not " +
                                      ("factor * x" if prim == "scale_fwd" else "x unchanged"), key)
                    if not torch.equal(gx, want_g) or gx.dtype != dt:
                        ctx.violation(f"C02:{prim}:backward", f"{prim} gradient is not " +
                                      ("unchanged" if prim == "scale_fwd" else "factor * g"), key)
                    if not torch.equal(xi.detach(), x):
                        ctx.violation(f"C02:{prim}:mutated", f"{prim} modified its input", key)
