"""C07 — transformer residual scaling rule balances layer contributions at every depth."""
from __future__ import annotations

import math
from fractions import Fraction
from typing import Any, List

from .. import driver
from ..common import Ctx, b2f, f2b, import_repo, near

LEVEL = "proof"
EXPLANATION = (
    "Theorems (all depths L>=1, all real r,rho>0) over the Lean model of _tau/TransformerStack; "
    "the model is tied to the code by comparing, for every branch index of every sampled stack, the "
    "implementation's tau with the model's Float tau (<=4 ulp) and with the model's exact Rat tau^2; "
    "the property oracle recomputes the contributions from the implementation's own taus in exact "
    "rational arithmetic."
)
ASSUMPTIONS = [
    "contribution bookkeeping (c_emb = prod 1/(1+tau_j^2), c_i = tau_i^2/(1+tau_i^2) prod_{j>i} 1/(1+tau_j^2)) "
    "is the residual scheme of C06 applied to uncorrelated unit-variance branch outputs",
]
GRID = [Fraction(1, 16), Fraction(1, 8), Fraction(1, 4), Fraction(1, 3), Fraction(1, 2), Fraction(2, 3),
        Fraction(1), Fraction(3, 2), Fraction(2), Fraction(3), Fraction(4), Fraction(8), Fraction(16)]
THMS = ["USProofs.C07.emb_contribution", "USProofs.C07.layer_contributions", "USProofs.C07.tau_sq_eq",
        "USProofs.C07.stack_wiring"]
RTOL = Fraction(1, 10**9)


def close(a: Fraction, b: Fraction, rtol: Fraction = RTOL) -> bool:
    return abs(a - b) <= rtol * max(abs(a), abs(b))


def oracle(ctx: Ctx, r: Fraction, rho: Fraction, L: int, taus: List[float], query_order: Any = None) -> None:
    """Property clauses evaluated on the implementation's own taus.

    Small stacks are evaluated in exact rational arithmetic (Fraction of the float taus);
    deep ones in float64 with compensated sums (error << the 1e-9 tolerance)."""
    case = {"residual_mult": str(r), "residual_attn_ratio": str(rho), "layers": L}
    if query_order is not None:   # the order in which the rule object was asked for its taus (replay)
        case["query_order"] = query_order
    exact = L <= 4
    one = Fraction(1) if exact else 1.0
    t2 = [Fraction(t) ** 2 if exact else t * t for t in taus]
    n = len(t2)
    suf = [one] * (n + 1)  # suffix products of 1/(1+t_j)
    for j in range(n - 1, -1, -1):
        suf[j] = suf[j + 1] / (1 + t2[j])
    emb = suf[0]
    cs = [t2[i] / (1 + t2[i]) * suf[i + 1] for i in range(n)]
    attn, mlp = cs[0::2], cs[1::2]
    tot = (lambda xs: sum(xs)) if exact else math.fsum
    rt = RTOL if exact else 1e-9

    def close_(a, b):
        return abs(a - b) <= rt * max(abs(a), abs(b))

    if not close_(emb + tot(cs), one):
        ctx.violation("C07:sum", "squared contributions do not sum to 1", case, float(emb + tot(cs)))
    if any(t <= 0 for t in taus):
        ctx.violation("C07:tau-sign", "non-positive tau", case, taus[:4])
    for name, xs in (("attn", attn), ("mlp", mlp)):
        if any(not close_(x, xs[0]) for x in xs):
            ctx.violation(f"C07:{name}-unequal", f"{name} layers contribute unequal amounts", case,
                          [float(x) for x in xs[:6]])
            break
    want_ratio = rho ** 2 if exact else float(rho) ** 2
    if not close_(attn[0] / mlp[0], want_ratio):
        ctx.violation("C07:ratio", "attention:MLP contribution ratio differs from requested", case,
                      float(attn[0] / mlp[0]))
    want_mult = r ** 2 if exact else float(r) ** 2
    if not close_((tot(attn) + tot(mlp)) / 2 / emb, want_mult):
        ctx.violation("C07:mult", "mean layer contribution relative to embedding differs from residual_mult^2",
                      case, float((tot(attn) + tot(mlp)) / 2 / emb))


def run(ctx: Ctx) -> None:
    import_repo()
    from unit_scaling.core.functional import transformer_residual_scaling_rule

    ctx.rule = ("stacks (r, rho, L): r, rho on the rational grid {1/16..16} (13 values each), L over the depth "
                "list; all pairs for small L, a seeded sample of pairs for larger L; every branch index 0..2L-1 "
                "is evaluated. distinct = distinct (r,rho,L,index) with L>=1; all are non-trivial.")
    quick = ctx.tier == "quick"
    depths = list(range(1, 33)) + [64, 128, 256] if quick else list(range(1, 257))
    pairs_all = [(r, rho) for r in GRID for rho in GRID]
    stacks = []
    for L in depths:
        if L <= (4 if quick else 16):
            ps = pairs_all
        else:
            k = 6 if quick else (10 if L <= 64 else 4)
            ps = ctx.rng.sample(pairs_all, k) + [(Fraction(1), Fraction(1))]
        stacks += [(r, rho, L) for (r, rho) in ps]

    reqs: List[Any] = []
    impl = []
    # One rule object per (r, rho), reused across depths in a shuffled order: the rule must be a
    # function of (index, layers) alone, whatever it was asked before.
    ctx.rng.shuffle(stacks)
    rules = {}
    for (r, rho, L) in stacks:
        if (r, rho) not in rules:
            rules[(r, rho)] = transformer_residual_scaling_rule(float(r), float(rho))
        rule = rules[(r, rho)]
        # The rule is a plain callable (index, layers) -> tau: a caller may ask for the branches in
        # any order (all attention taus first, back to front, some twice).  The order is seeded.
        n = 2 * L
        mode = ctx.rng.choice(["seq", "seq", "rev", "even-odd", "odd-even", "perm", "skip"])
        if mode == "seq":
            order = list(range(n))
        elif mode == "rev":
            order = list(range(n - 1, -1, -1))
        elif mode == "even-odd":
            order = list(range(0, n, 2)) + list(range(1, n, 2))
        elif mode == "odd-even":
            order = list(range(1, n, 2)) + list(range(0, n, 2))
        elif mode == "perm":
            order = list(range(n))
            ctx.rng.shuffle(order)
        else:  # ascending with a gap, then the skipped ones
            step = ctx.rng.choice([2, 3, 5])
            first = list(range(0, n, step))
            order = first + [i for i in range(n) if i % step]
        ctx.bump(f"query-order:{mode}")
        taus = [0.0] * n
        for i in order:
            taus[i] = rule(i, n)
        for i in ctx.rng.sample(range(n), min(n, 3)):   # asked again: same answer
            again = rule(i, n)
            if again != taus[i]:
                ctx.violation("C07:rule-stateful", "the rule returns a different tau for the same (index, layers) "
                              "when asked again", {"residual_mult": str(r), "residual_attn_ratio": str(rho),
                                                   "layers": n, "index": i, "query_order": mode,
                                                   "first": taus[i], "again": again})
        impl.append(taus)
        oracle(ctx, r, rho, L, taus, {"mode": mode, "indices": order if n <= 64 else order[:64] + ["..."]})
        for i in range(2 * L):
            ctx.count({"r": str(r), "rho": str(rho), "L": L, "i": i})
        ctx.bump(f"L<={'8' if L <= 8 else '64' if L <= 64 else '256'}")
        reqs.append({"k": "stack", "r": str(r), "rho": str(rho), "layers": L})
        reqs += [{"k": "tau", "r": f2b(float(r)), "rho": f2b(float(rho)), "index": i, "layers": 2 * L}
                 for i in range(2 * L)]
    if ctx.driver_ok:
        resp = driver.ask(reqs)
        pos = 0
        for (r, rho, L), taus in zip(stacks, impl):
            st = resp[pos]
            pos += 1
            exact = [Fraction(s) for s in st["tausq"]]
            for i, t in enumerate(taus):
                m = b2f(resp[pos + i]["tau"])
                case = {"residual_mult": str(r), "residual_attn_ratio": str(rho), "layers": 2 * L, "index": i}
                if not near(m, t):
                    ctx.disagree("tau_float", case, m, t, THMS)
                # float(r), float(rho) are not exactly r, rho for 1/3, 2/3: allow 1e-12
                if not close(Fraction(t) ** 2, exact[i], Fraction(1, 10**12)):
                    ctx.disagree("tau_sq_exact", case, str(exact[i]), t * t, THMS)
            pos += 2 * L

    # the stack wiring (attention tau then MLP tau for each layer), through the real module
    import unit_scaling as uu
    import unit_scaling.functional as U
    import torch

    for L in ([1, 2, 3, 5, 10, 11, 12, 23] if quick else list(range(1, 41)) + [64, 100, 128]):
        for pair in ctx.rng.sample(pairs_all, 2) + [(Fraction(1), Fraction(1)), "default"]:
            if pair == "default":
                # the library's own default rule object (shared between all stacks)
                r, rho = Fraction(1), Fraction(1)
                dec = uu.TransformerDecoder(hidden_size=8, vocab_size=16, layers=L, heads=2)
            else:
                r, rho = pair
                dec = uu.TransformerDecoder(hidden_size=8, vocab_size=16, layers=L, heads=2,
                                            residual_scaling=rules.setdefault(
                                                (r, rho), transformer_residual_scaling_rule(float(r), float(rho))))
            conv = ctx.rng.choice([None, None, "bfloat16", "half-float", "float", "load_state_dict", "load_state_dict"])
            if conv == "load_state_dict":
                # a checkpoint round trip (own state, or the checkpoint of an identically configured stack): the residual
                # weights are part of what the stack is
                import copy as _copy
                other = uu.TransformerDecoder(hidden_size=8, vocab_size=16, layers=L, heads=2) if pair == "default" else \
                    uu.TransformerDecoder(hidden_size=8, vocab_size=16, layers=L, heads=2,
                                          residual_scaling=transformer_residual_scaling_rule(float(r), float(rho)))
                dec.load_state_dict(_copy.deepcopy((other if ctx.rng.random() < 0.5 else dec).state_dict()))
            elif conv == "bfloat16":
                dec = dec.to(torch.bfloat16)
            elif conv == "half-float":
                dec = dec.half().float()
            elif conv == "float":
                dec = dec.double().float()
            stack = dec.layers
            case = {"TransformerDecoder": {"layers": L, "r": str(r), "rho": str(rho), "rule": str(pair == "default"),
                                           "converted": conv}}
            ctx.count(case)
            # reference taus from a fresh rule object
            fresh = transformer_residual_scaling_rule(float(r), float(rho))
            want = [fresh(i, 2 * L) for i in range(2 * L)]
            if len(stack) != L or any(not hasattr(layer, "mhsa_tau") or not hasattr(layer, "mlp_tau") for layer in stack):
                ctx.violation("C07:structure", "the stack does not consist of `layers` transformer layers, each with an attention "
                              "and an MLP residual weight", case, {"len": len(stack), "children": [type(m_).__name__ for m_ in stack]})
                continue
            attrs = [t for layer in stack for t in (layer.mhsa_tau, layer.mlp_tau)]
            # record the taus actually used by the forward pass, in order
            used: List[Any] = []
            o_split, o_add = U.residual_split, U.residual_add

            def split(x, tau=1.0):
                used.append(("split", tau))
                return o_split(x, tau)

            def add(res, skip, tau=1.0):
                used.append(("add", tau))
                return o_add(res, skip, tau)

            U.residual_split, U.residual_add = split, add
            try:
                dec(torch.randint(0, 16, (2, 4)))
            finally:
                U.residual_split, U.residual_add = o_split, o_add
            want_used = [x for t in want for x in (("split", t), ("add", t))]
            if attrs != want or used != want_used:
                ctx.violation("C07:wiring", "TransformerStack does not assign/apply the rule's taus in order "
                              "(attention tau then MLP tau per layer)", case,
                              {"attrs": attrs[:6], "used": used[:6], "want": want[:6]})
            if ctx.driver_ok:
                m = driver.ask([{"k": "stacktaus", "r": f2b(float(r)), "rho": f2b(float(rho)), "layers": L}])[0]
                mt = [b2f(x) for pair in m["taus"] for x in pair]
                if len(mt) != len(attrs) or any(not near(a, b) for a, b in zip(mt, attrs)):
                    ctx.disagree("stack_wiring", case, mt[:8], attrs[:8], ["USProofs.C07.stack_wiring"])

    # end to end through the real residual ops: branch k always emits the unit vector e_{k+1}, the embedding is e_0, so the
    # k-th component of the final stream *is* the contribution of branch k (taus above 1 occur for large residual_mult)
    e2e = [(1, Fraction(3), Fraction(1, 3)), (2, Fraction(4), Fraction(1)), (3, Fraction(1), Fraction(1)),
           (2, Fraction(16), Fraction(1, 16)), (5, Fraction(1, 2), Fraction(2))]
    e2e += [(ctx.rng.randint(1, 6), *ctx.rng.choice(pairs_all)) for _ in range(4 if quick else 60)]
    for (L, r, rho) in e2e:
        case = {"end_to_end": True, "layers": L, "residual_mult": str(r), "residual_attn_ratio": str(rho)}
        ctx.count(case, bucket="end-to-end")
        rule = transformer_residual_scaling_rule(float(r), float(rho))
        n = 2 * L
        with ctx.guard("C07:end-to-end", case):
            x = torch.zeros(n + 1, dtype=torch.float64)
            x[0] = 1.0
            taus = [rule(k, n) for k in range(n)]
            import contextlib
            with (torch.no_grad() if case["layers"] % 2 == 0 else contextlib.nullcontext()):     # inference as well as training
                for k in range(n):
                    unit = torch.zeros(n + 1, dtype=torch.float64)
                    unit[k + 1] = 1.0
                    x = U.residual_apply(lambda _z, u=unit: u, x, taus[k])
            got = [float(v) ** 2 for v in x]
            # the same unrolling the clause oracle applies to the taus (squared weights of the normalised mix)
            t2 = [t * t for t in taus]
            suf = [1.0] * (n + 1)
            for j in range(n - 1, -1, -1):
                suf[j] = suf[j + 1] / (1 + t2[j])
            want = [suf[0]] + [t2[i] / (1 + t2[i]) * suf[i + 1] for i in range(n)]
            oracle(ctx, r, rho, L, taus)
            if any(abs(a - b) > 1e-9 for a, b in zip(got, want)):
                ctx.violation("C07:end-to-end", "applying the layers with the real residual ops and the rule's taus does not give "
                              "the balanced contributions", case,
                              {"taus": taus[:4], "got": got[:5], "want": want[:5]})
    ctx.exhaustive = False
