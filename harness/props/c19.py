"""C19 — graph pruning removes exactly the intended nodes, keeps the graph connected."""
from __future__ import annotations

import math
from typing import Any, Dict, List, Optional, Set

from .. import driver, fxgraphs as fg, tracking
from ..common import Ctx, f2b, import_repo

LEVEL = "proof"
EXPLANATION = (
    "Lean model of _prune and the three helpers on id-carrying graphs. Theorems: after pruning no reference to the "
    "removed node survives in positional or keyword arguments at any nesting depth, every occurrence is replaced by "
    "the bypass input (or cut to None for selective pruning), exactly that node disappears, surviving ids form a "
    "sublist of the input's; a bypass of a single-input node preserves reachability among survivors exactly (no path "
    "lost, none created), a cut creates none; every helper returns a well-formed graph for every well-formed input. Check: tracked graphs of generated modules (list-taking ops, keyword tensors, integer "
    "intermediates, views/negations, multi-output) from the tracking backend run directly and through Dynamo; the "
    "returned graph vs the model (exact) and vs an independent oracle (survivors in order, bypass wiring, lint, input "
    "graph unchanged)."
)
ASSUMPTIONS = ["graphs come from track_scales / ScaleTrackingBackend (they carry outputs_float_tensor and metrics)"]
THMS = ["USProofs.C19.prune_no_dangling_args", "USProofs.C19.prune_no_dangling_kwargs", "USProofs.C19.prune_ids",
        "USProofs.C19.prune_bypass_arg", "USProofs.C19.prune_cut_arg", "USProofs.C19.sweep_sublist"]


def isclose(a: float, b: float, rtol: float) -> bool:
    return math.isclose(a, b, rel_tol=rtol)


def expected(nodes: List[Dict[str, Any]], helper: str, rtol: float = 0.0, targets: Set[str] = frozenset()):
    """Independent sequential oracle on the serialised input graph: returns (survivor positions in order,
    for each survivor the positions it reads after bypassing, in first-occurrence order)."""
    alias: Dict[int, Optional[int]] = {}

    def refs(a: Any) -> List[int]:
        if "ref" in a:
            return [a["ref"]]
        if "seq" in a:
            return [r for x in a["seq"] for r in refs(x)]
        return []

    def inputs(d) -> List[int]:
        out: List[int] = []
        for a in d["args"] + [kv[1] for kv in d["kwargs"]]:
            for r in refs(a):
                while r in alias and alias[r] is not None:
                    r = alias[r]
                if r in alias:
                    continue  # cut
                if r not in out:
                    out.append(r)
        return out

    survivors: List[int] = []
    wiring: Dict[int, List[int]] = {}
    for i, d in enumerate(nodes):
        ins = inputs(d)
        remove = False
        repl: Optional[int] = None
        if d["op"] != "output":
            fl = [j for j in ins if nodes[j]["outputs_float_tensor"]]
            if helper == "nonfloat" and not d["outputs_float_tensor"]:
                remove, repl = True, (fl[0] if len(fl) == 1 else None)
            elif helper == "same" and d["outputs_float_tensor"] and len(fl) == 1:
                a = nodes[fl[0]]
                nf, af = d.get("fwd_mean_abs"), a.get("fwd_mean_abs")
                nb, ab = d.get("bwd_mean_abs"), a.get("bwd_mean_abs")
                if nf is not None and af is not None:
                    from ..common import b2f
                    if nb is None and ab is None:
                        same = isclose(b2f(nf), b2f(af), rtol)
                    elif nb is None or ab is None:
                        same = False
                    else:
                        same = isclose(b2f(nf), b2f(af), rtol) and isclose(b2f(nb), b2f(ab), rtol)
                    if same:
                        remove, repl = True, fl[0]
            elif helper == "selected" and d["target"] in targets:
                remove, repl = True, None
        if remove:
            alias[i] = repl
        else:
            survivors.append(i)
            wiring[i] = ins
    return survivors, wiring


def run(ctx: Ctx) -> None:
    import_repo()
    import torch
    from unit_scaling.transforms import (prune_non_float_tensors, prune_same_scale_tensors, prune_selected_nodes,
                                         track_scales)

    torch.set_num_threads(2)
    rng = ctx.rng
    quick = ctx.tier == "quick"
    ctx.rule = ("tracked graphs of generated modules incl. cat/stack/rotate-half (list arguments), keyword tensor arguments, "
                "integer/bool intermediates, reshapes/negations, multi-output; forward-only and forward+backward; rtol in "
                "{2^-16, 2^-8, 2^-2}; random target sets (functions, method names, placeholders). distinct = distinct "
                "(program, helper, parameter).")
    n_direct = 60 if quick else 1500
    n_dyn = 6 if quick else 80
    reqs, cases = [], []

    def check_helper(graph, ser_in, helper: str, key, rtol: float = 0.0, targets=None):
        names = [n.name for n in graph.nodes]
        res = None
        with ctx.guard(f"C19:{helper}", key):
            if helper == "nonfloat":
                res = prune_non_float_tensors(graph)
            elif helper == "same":
                res = prune_same_scale_tensors(graph, rtol)
            else:
                res = prune_selected_nodes(graph, targets)
        if res is None:
            return
        try:
            res.lint()
        except Exception as e:  # noqa
            ctx.violation(f"C19:{helper}:lint", f"returned graph is not well-formed: {str(e)[:120]}", key)
            return
        tnames = {fg.target_name(t) for t in (targets or [])}
        surv, wiring = expected(ser_in, helper, rtol, tnames)
        got_names = [n.name for n in res.nodes]
        want_names = [names[i] for i in surv]
        if got_names != want_names:
            ctx.violation(f"C19:{helper}:nodes", "surviving nodes are not exactly the input's nodes minus the documented ones, in order",
                          key, {"unexpected": [n for n in got_names if n not in want_names][:5],
                                "missing": [n for n in want_names if n not in got_names][:5]})
            return
        ids_first = [names.index(n.name) for n in res.nodes]
        for n, i in zip(res.nodes, surv):
            got_in = sorted(x.name for x in n.all_input_nodes)
            want_in = sorted(names[j] for j in wiring[i])
            if got_in != want_in:
                ctx.violation(f"C19:{helper}:wiring", "a consumer is not re-wired to the bypass input (or not cut) as documented",
                              {**key, "node": n.name}, {"got": got_in, "want": want_in})
                break
        if helper != "selected":
            ser_after = tracking.serialise_tracked(graph)
            if ser_after != ser_in:
                ctx.violation(f"C19:{helper}:input-modified", "the copying helper modified its input graph", key)
            # a copying helper hands out a graph of its own on every call: what the caller does to one result (selective
            # pruning works in place) cannot show up in the next result for the same input
            first = fg.serialise(res)
            with ctx.guard(f"C19:{helper}:second-call", key):
                cand_ = [n.target for n in res.nodes if n.op in ("call_function", "call_method")]
                if cand_:
                    prune_selected_nodes(res, cand_[: max(1, len(cand_) // 2)])
                res2 = prune_non_float_tensors(graph) if helper == "nonfloat" else prune_same_scale_tensors(graph, rtol)
                if res2 is res or fg.serialise(res2) != first:
                    ctx.violation(f"C19:{helper}:aliased-result", "a second call on the same input does not return a fresh graph with "
                                  "the same nodes (it reflects what was done to the first result)", key,
                                  {"same_object": res2 is res, "nodes_first": len(first), "nodes_second": len(list(res2.nodes))})
            # `res` was pruned further in place above: the model comparison below uses the serialisation taken before
        req = {"k": "graph", "nodes": ser_in, "pass": {"nonfloat": "prune_nonfloat", "same": "prune_same",
                                                        "selected": "prune_selected"}[helper]}
        if helper == "same":
            req["rtol"] = f2b(rtol)
        if helper == "selected":
            req["targets"] = sorted(tnames)
        reqs.append(req)
        cases.append((key, first if helper != "selected" else fg.serialise(res), ids_first))

    def exercise(graph, key):
        ser_in = tracking.serialise_tracked(graph)
        check_helper(graph, ser_in, "nonfloat", {**key, "helper": "non_float"})
        for rtol in (2.0 ** -16, 2.0 ** -8, 2.0 ** -2):
            check_helper(graph, ser_in, "same", {**key, "helper": "same_scale", "rtol": rtol}, rtol=rtol)
        # selective pruning is in place: do it last, on the original graph object
        cand = []
        for n in graph.nodes:
            if n.op in ("call_function", "call_method", "placeholder", "get_attr") and n.target not in cand:
                cand.append(n.target)
        targets = rng.sample(cand, min(len(cand), rng.randint(1, 3)))
        check_helper(graph, ser_in, "selected",
                     {**key, "helper": "selected", "targets": [fg.target_name(t) for t in targets]}, targets=targets)

    def rescaled(graph, factor: float):
        """the same tracked graph with every recorded magnitude multiplied by `factor` (as if the whole computation ran
        at another scale): the same-scale rule is purely relative, so nothing about the pruning may change"""
        import copy
        g2 = copy.deepcopy(graph)
        for n in g2.nodes:
            mt = n.meta.get("metrics")
            if mt is None:
                continue
            for d in (mt.fwd, getattr(mt, "bwd", None)):
                if d is None:
                    continue
                for fld in ("mean_abs", "abs_mean", "std", "abs_max", "abs_min"):
                    setattr(d, fld, getattr(d, fld) * factor)
        return g2

    for i in range(n_direct):
        prog = fg.gen_program(rng, rng.randint(1, 12), residuals=rng.randint(0, 2), wrappers=True, attention=(i % 3 == 0),
                              lists=True, nonfloat=True, fan_out=True, multi_out=(i % 4 == 0), losses=(i % 5 == 0),
                              embedding=(i % 6 == 0))
        bwd = i % 3 != 0
        key = {"path": "direct", "program": prog.key(), "backward": bwd}
        ctx.count(key, bucket="direct")
        graph = None
        with ctx.guard("C19:track", key):
            graph, _, _, _ = tracking.run_tracked_direct(prog, i, backward=bwd)
        if graph is not None:
            if i % 3 == 1:
                # tiny activations and gradients (2^-40 ~ 1e-12 times smaller; exact in floating point)
                with ctx.guard("C19:rescale", key):
                    exercise(rescaled(graph, 2.0 ** -40), {**key, "metrics_scaled_by": "2^-40"})
            exercise(graph, key)
    for i in range(n_dyn):
        prog = fg.gen_program(rng, rng.randint(2, 10), residuals=1, wrappers=True, attention=False, lists=True,
                              nonfloat=True, fan_out=True)
        key = {"path": "dynamo", "program": prog.key(), "backward": True}
        ctx.count(key, bucket="dynamo")
        graph = None
        with ctx.guard("C19:track", key):
            tm = track_scales(fg.make_module(prog, seed=i))
            y = tm(*fg.make_inputs(prog, i))
            (y if not isinstance(y, tuple) else y[0]).sum().backward()
            graph = tm.scales_graph()
        if graph is not None:
            exercise(graph, key)

    # ---- node names come from the user's variable names: a local called `output` (Dynamo then names the real output node
    #      `output_1`), `output_ids`, `outputs` ... must be treated like any other node, and the output node like the output
    class OutNamed(torch.nn.Module):
        def __init__(self) -> None:
            super().__init__()
            self.l = torch.nn.Linear(4, 4)

        def forward(self, x):  # type: ignore[no-untyped-def]
            h = self.l(x)
            output = torch.tanh(h)
            output_ids = output.argmax(-1)
            outputs = output.reshape(-1, 4)
            return outputs * 2, output_ids

    key = {"path": "dynamo", "module": "locals named output / output_ids / outputs", "backward": True}
    ctx.count(key, bucket="dynamo/output-names")
    graph = None
    with ctx.guard("C19:track", key):
        torch.manual_seed(3)
        tm = track_scales(OutNamed())
        y, _ = tm(torch.randn(3, 4))
        y.sum().backward()
        graph = tm.scales_graph()
    if graph is not None:
        exercise(graph, key)

    # ---- views of a tensor that is later updated in place, and in-place ops with one float input: "same scale" is a
    #      statement about the tensors that flowed.  The expectations below come from the true mean |x| of those tensors,
    #      recomputed here eagerly - not from the recorded metadata.
    import operator as _op
    from unit_scaling.transforms import prune_same_scale_tensors as _pss

    class InPlaceNet(torch.nn.Module):
        def __init__(self, shift: float, use_relu: bool) -> None:
            super().__init__()
            self.l = torch.nn.Linear(4, 4)
            self.w = torch.nn.Parameter(torch.tensor([1.0, -2.0, 0.5, 3.0]))
            self.shift, self.use_relu = shift, use_relu

        def forward(self, x):  # type: ignore[no-untyped-def]
            h = self.l(x)
            v = h.view(-1, 4)               # same values as h: same scale
            s = (v * self.w).sum()
            h += self.shift                 # in place: the scale of h changes, v's recorded scale must not
            if self.use_relu:
                h = torch.nn.functional.relu(h, inplace=True)
            c = h.contiguous()              # no-op: same scale as its input
            return c * 2.0, s

    for ci_, (shift_, relu_) in enumerate(((1.0, False), (3.0, True), (-2.0, False), (0.75, True))):
        for path_ in ("dynamo", "direct"):
            key = {"path": path_, "module": "view + later in-place update, in-place ops", "shift": shift_, "relu": relu_,
                   "backward": False}
            ctx.count(key, bucket=f"{path_}/in-place")
            graph = None
            torch.manual_seed(40 + ci_)
            net_ = InPlaceNet(shift_, relu_)
            x_ = torch.randn(6, 4)
            with ctx.guard("C19:track", key):
                if path_ == "dynamo":
                    tm = track_scales(net_)
                    tm(x_.clone())
                    graph = tm.scales_graph()
                else:
                    from unit_scaling.transforms._track_scales import ScaleTrackingBackend as _STB
                    be_ = _STB()
                    be_(torch.fx.symbolic_trace(net_), [])(x_.clone())
                    graph = be_.graph
            if graph is None:
                continue
            with torch.no_grad():
                h0_ = net_.l(x_)
                h1_ = h0_ + shift_
                h2_ = torch.relu(h1_) if relu_ else h1_
            ma_ = lambda t: float(t.abs().mean())  # noqa: E731
            for rtol in (2.0 ** -16, 2.0 ** -8):
                pruned = None
                with ctx.guard("C19:same-scale:in-place", {**key, "rtol": rtol}):
                    pruned = _pss(graph, rtol=rtol)
                if pruned is None:
                    continue
                tg_ = [n.target for n in pruned.nodes]
                def clearly_differs(a: float, b: float) -> bool:
                    return abs(a - b) > 8 * rtol * max(abs(a), abs(b))
                problems = []
                if "view" in tg_:
                    problems.append("the view of h (identical values, identical scale) was kept")
                if "contiguous" in tg_:
                    problems.append("the no-op .contiguous() was kept")
                if clearly_differs(ma_(h1_), ma_(h0_)) and _op.iadd not in tg_ and _op.add not in tg_:
                    problems.append("the in-place add, which changes the scale of h, was removed")
                if relu_ and clearly_differs(ma_(h2_), ma_(h1_)) and not any("relu" in str(t) for t in tg_):
                    problems.append("the in-place relu, which changes the scale, was removed")
                if problems:
                    ctx.violation("C19:same-scale:true-statistics", "same-scale pruning decided against the scales of the tensors "
                                  "that actually flowed: " + "; ".join(problems), {**key, "rtol": rtol},
                                  {"mean_abs": {"h": ma_(h0_), "h after +=": ma_(h1_), "after relu": ma_(h2_)},
                                   "kept_targets": [str(t) for t in tg_]})
            exercise(graph, key)

    # ---- which nodes "produce float tensors" is a fact about the tensors (any floating dtype: float64 segments of a
    #      float32 model, a model converted with .double(), bfloat16), decided here from the dtypes an eager run produces
    from unit_scaling.transforms import prune_non_float_tensors as _pnf

    class MixedPrecision(torch.nn.Module):
        def __init__(self) -> None:
            super().__init__()
            self.l = torch.nn.Linear(4, 4)

        def forward(self, x):  # type: ignore[no-untyped-def]
            h = self.l(x)
            d = h.double()                      # a float64 segment inside the model
            e = torch.tanh(d) * 2.0
            idx = e.argmax(-1)                  # the only non-float value
            f = e.to(h.dtype)
            return f + h, idx

    for dt_ in (torch.float32, torch.float64, torch.bfloat16):
        for path_ in ("dynamo", "direct"):
            key = {"path": path_, "module": "float64 segment (double -> tanh -> mul -> cast back), argmax", "dtype": str(dt_),
                   "backward": False}
            ctx.count(key, bucket=f"{path_}/dtypes")
            graph = None
            torch.manual_seed(60)
            net_ = MixedPrecision().to(dt_)
            x_ = torch.randn(5, 4).to(dt_)
            with ctx.guard("C19:track", key):
                if path_ == "dynamo":
                    tm = track_scales(net_)
                    tm(x_.clone())
                    graph = tm.scales_graph()
                else:
                    from unit_scaling.transforms._track_scales import ScaleTrackingBackend as _STB2
                    be_ = _STB2()
                    be_(torch.fx.symbolic_trace(net_), [])(x_.clone())
                    graph = be_.graph
            if graph is None:
                continue
            pruned = None
            with ctx.guard("C19:non-float:dtypes", key):
                pruned = _pnf(graph)
            if pruned is not None:
                tg_ = [str(n.target) for n in pruned.nodes]
                missing_ = [w_ for w_ in ("double", "tanh", "mul", "add") if not any(w_ in t_ for t_ in tg_)]
                if missing_ or any("argmax" in t_ for t_ in tg_):
                    ctx.violation("C19:non-float:true-dtypes", "non-float pruning decided against the dtypes of the tensors that "
                                  "flowed: float-producing nodes removed " + str(missing_) + (", argmax kept" if any("argmax" in t_ for t_ in tg_) else ""),
                                  key, {"kept_targets": tg_})
            exercise(graph, key)

    if ctx.driver_ok and reqs:
        for (key, got, ids), r in zip(cases, driver.ask(reqs, timeout=1200)):
            if r.get("ids") != ids or r.get("nodes") != got:
                mn = r.get("nodes") or []
                j = next((j for j, (a, b) in enumerate(zip(mn, got)) if a != b), min(len(mn), len(got)))
                ctx.disagree("prune_graph", {**key, "node": j}, {"ids": r.get("ids"), "node": mn[j] if j < len(mn) else None},
                             {"ids": ids, "node": got[j] if j < len(got) else None}, THMS)
