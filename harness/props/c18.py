"""C18 — scale tracking is purely observational; its metrics are the true statistics."""
from __future__ import annotations

import re
from typing import Any, Dict, List, Optional

from .. import driver, fxgraphs as fg, tracking
from ..common import Ctx, b2f, f2b, import_repo, rel_close

LEVEL = "proof"
EXPLANATION = (
    "Lean model of the tracker as the identity two-sided op that logs its forward argument and incoming cotangent. "
    "Theorems: instrumented chains of any length have the same outputs and gradients, the logged forward value is the "
    "node's value, the logged cotangent of a fanned-out tensor is the sum over consumers, |mean x| <= mean|x|, "
    "min|x| <= mean|x| <= max|x|. Check: outputs and all gradients with and without track_scales / the tracking backend "
    "bit-identical (three dtypes, multi-step runs on one tracked module); recorded metrics vs statistics of tensors "
    "captured by an independent fx.Interpreter with gradient hooks; no backward metrics without gradient; non-float "
    "values never instrumented; analyse_module leaves gradients unchanged. DAG level: Lean model of the tracking interpreter "
    "and of autograd's reverse sweep (one gradient buffer per node, no law of + assumed); theorems: the table of logged "
    "gradients solves the adjoint equation (seed plus the cotangents of every consumer, every argument position) and is "
    "its only solution. Correspondence: random integer DAG programs (fan-out, repeated arguments, multiple outputs, "
    "forward-only) run through the model driver and through the real tracking backend / track_scales; every logged "
    "statistic, forward and backward, must agree exactly."
)
ASSUMPTIONS = ["TorchDynamo hands the backend the graph of the module (runtime not modelled)"]
THMS = ["USProofs.C18.track_transparent", "USProofs.C18.track_fwd_value", "USProofs.C18.track_bwd_total",
        "USProofs.C18.abs_mean_le_mean_abs", "USProofs.C18.mean_abs_bounds",
        "USProofs.C18.logged_solves_adjoint", "USProofs.C18.adjoint_unique", "USProofs.C18.dag_transparent"]
FIELDS = ["mean_abs", "abs_mean", "std", "abs_max", "abs_min", "numel"]


def run(ctx: Ctx) -> None:
    import_repo()
    import torch
    from torch import nn
    from unit_scaling.transforms import track_scales
    from unit_scaling.transforms._track_scales import ScaleTrackingBackend
    from unit_scaling.utils import analyse_module

    torch.set_num_threads(2)
    rng = ctx.rng
    quick = ctx.tier == "quick"
    ctx.rule = ("generated module graphs with fan-out, integer/bool intermediates, multiple outputs, parameters, list ops; "
                "inputs incl. zeros; forward-only and forward+backward; float32/float64/bfloat16; direct tracking backend on "
                "FX graphs and real track_scales through Dynamo incl. multi-step runs on one tracked module. distinct = "
                "distinct (program, dtype, path, run pattern).")

    def stats(t: torch.Tensor) -> Dict[str, float]:
        a = t.abs()
        return {"mean_abs": a.mean().item(), "abs_mean": t.mean().abs().item(), "std": t.std().item(),
                "abs_max": a.max().item(), "abs_min": a.min().item(), "numel": t.numel()}

    def same_stats(m: Any, want: Dict[str, float]) -> Optional[str]:
        for f in FIELDS:
            g, w = getattr(m, f), want[f]
            if f == "numel":
                if g != w:
                    return f
            elif f == "abs_mean":
                # |mean| is ill-conditioned (cancellation): tolerance relative to mean |x|
                if not (g == w or (g != g and w != w) or abs(g - w) <= 1e-5 * max(want["mean_abs"], 1e-30)):
                    return f
            elif not (g == w or (g != g and w != w) or rel_close(g, w, 1e-5)):
                return f
        return None

    class _Copy(torch.autograd.Function):
        """the only thing the tracker does to values: contiguous copies in both directions"""

        @staticmethod
        def forward(c, t):  # type: ignore[no-untyped-def]
            return t.clone()

        @staticmethod
        def backward(c, g):  # type: ignore[no-untyped-def]
            return g.clone()

    class Capture(torch.fx.Interpreter):
        """independent observer: runs the plain graph, keeps every float tensor and its total gradient"""

        def __init__(self, gm, clone: bool = False):
            super().__init__(gm)
            self.clone = clone
            self.vals: Dict[str, torch.Tensor] = {}
            self.grads: Dict[str, torch.Tensor] = {}
            self.nonfloat: List[str] = []

        def run_node(self, n):
            out = super().run_node(n)
            if isinstance(out, torch.Tensor) and n.op not in ("placeholder", "get_attr", "output"):
                # an op may return its input object itself (dropout with p=0): give the node's value its own
                # autograd identity so that "the gradient that reached this point" is well defined
                a_, k_ = self.fetch_args_kwargs_from_env(n)
                if any(out is t for t in list(a_) + list(k_.values())):
                    out = out.view_as(out)
            if isinstance(out, torch.Tensor) and out.is_floating_point():
                self.vals[n.name] = out.detach().clone()
                if out.requires_grad:
                    out.register_hook(lambda g, name=n.name: self.grads.__setitem__(name, g.detach().clone()))
                if self.clone:
                    out = _Copy.apply(out)
            elif n.op != "output":
                self.nonfloat.append(n.name)
            return out

    def backward_through(outs, which: str, seed: int):
        fl = [t for t in outs if isinstance(t, torch.Tensor) and t.is_floating_point() and t.requires_grad]
        if not fl or which == "none":
            return
        use = fl if which == "all" else fl[:1]
        g = torch.Generator().manual_seed(seed)
        loss = sum((t * torch.randn(t.shape, generator=g).to(t.dtype)).sum() for t in use)
        loss.backward()

    n_direct = 40 if quick else 900
    n_dyn = 8 if quick else 100
    dtypes = [torch.float32, torch.float64, torch.bfloat16]
    import json as _json
    from ..common import VERIF
    corpus = _json.loads((VERIF / "corpus" / "C18_layout.json").read_text())
    for i in range(-1, n_direct + n_dyn):
        via_dynamo = i >= n_direct
        prog = fg.program_from_key(corpus["program"]) if i < 0 else fg.gen_program(rng, rng.randint(1, 10), residuals=rng.randint(0, 2), wrappers=True, attention=(i % 3 == 0) and not via_dynamo,
                              lists=True, nonfloat=True, fan_out=True, multi_out=(i % 2 == 0), embedding=(i % 7 == 0))
        dt = torch.bfloat16 if i < 0 else dtypes[i % 3]
        pattern = ["all"] if i < 0 else rng.choice([["all"], ["none"], ["all", "first", "none"], ["first", "all"], ["all", "none"]])
        key = {"path": "dynamo" if via_dynamo else "direct", "program": prog.key(), "dtype": str(dt), "runs": pattern}
        ctx.count(key, bucket=f"{key['path']}/{str(dt).split('.')[-1]}")
        base = fg.make_module(prog, seed=max(i, 0)).to(dt)
        xs0 = fg.make_inputs(prog, max(i, 0), dt)
        if i % 4 == 0:
            xs0 = [torch.where(torch.rand_like(x) < 0.3, torch.zeros_like(x), x) if x.is_floating_point() else x for x in xs0]
        # tracked module (one object, several runs)
        ok = False
        with ctx.guard("C18:track", key):
            if via_dynamo:
                tm = track_scales(base)
                graph_of = tm.scales_graph
                params_t = list(tm.parameters())
                call_t = tm
            else:
                import copy
                mod_t = copy.deepcopy(base)
                gm = fg.trace_fx(mod_t)
                backend = ScaleTrackingBackend()
                call_t = backend(gm, [])
                graph_of = lambda: backend.graph  # noqa: E731
                params_t = list(mod_t.parameters())
            ok = True
        if not ok:
            continue
        for ri, which in enumerate(pattern):
            rkey = {**key, "run": ri, "backward": which}
            # untracked reference run with the independent observer
            import copy
            mod_r = copy.deepcopy(base)
            cap = Capture(fg.trace_fx(mod_r))
            xr = [x.clone().requires_grad_(True) if x.is_floating_point() else x for x in xs0]
            outr = cap.run(*xr)
            outr = outr if isinstance(outr, tuple) else (outr,)
            backward_through(outr, which, 50 + ri)
            # tracked run
            for p in params_t:
                p.grad = None
            xt = [x.clone().requires_grad_(True) if x.is_floating_point() else x for x in xs0]
            outt = None
            with ctx.guard("C18:run", rkey):
                outt = call_t(*xt)
                outt = outt if isinstance(outt, tuple) else (outt,)
                backward_through(outt, which, 50 + ri)
            if outt is None:
                break
            # (1) bit-identical values and gradients
            sliced = any(o.kind in ("cat_slice", "rot_half", "stack_mean", "conv1d", "reshape") for o in prog.ops)
            tol = {torch.float32: 1e-5, torch.float64: 1e-12, torch.bfloat16: 2.0 ** -6}[dt]

            def layout_only() -> bool:
                """Counterfactual for the listed finding: an untracked run in which every float tensor is replaced by a
                contiguous copy (forward) and every gradient by a contiguous copy (backward) - the only thing the tracker
                does to values. If that run is bit-identical to the tracked one, the difference from the plain run is the
                memory-layout effect and nothing else."""
                class Copy(torch.autograd.Function):
                    @staticmethod
                    def forward(c, t):  # type: ignore[no-untyped-def]
                        return t.clone()

                    @staticmethod
                    def backward(c, g):  # type: ignore[no-untyped-def]
                        return g.clone()

                class LayoutRef(torch.fx.Interpreter):
                    def run_node(self, n):  # type: ignore[no-untyped-def]
                        o = super().run_node(n)
                        return Copy.apply(o) if isinstance(o, torch.Tensor) and o.is_floating_point() else o

                try:
                    mod_l = copy.deepcopy(base)
                    xl = [x.clone().requires_grad_(True) if x.is_floating_point() else x for x in xs0]
                    outl = LayoutRef(fg.trace_fx(mod_l)).run(*xl)
                    outl = outl if isinstance(outl, tuple) else (outl,)
                    backward_through(outl, which, 50 + ri)
                    if len(outl) != len(outt) or any(a.dtype != b.dtype or not torch.equal(a, b) for a, b in zip(outt, outl)):
                        return False
                    gl = [x.grad for x in xl if x.is_floating_point()] + [p.grad for p in mod_l.parameters()]
                    gt = [x.grad for x in xt if x.is_floating_point()] + [p.grad for p in params_t]
                    return len(gl) == len(gt) and all((a is None) == (b is None) and (a is None or torch.equal(a, b))
                                                      for a, b in zip(gt, gl))
                except Exception:  # noqa: BLE001
                    return False

            def rounding_level(pairs) -> bool:
                for a, b in pairs:
                    if (a is None) != (b is None):
                        return False
                    if a is not None and (a.dtype != b.dtype or a.shape != b.shape or
                                          not torch.allclose(a.double(), b.double(), rtol=tol, atol=tol)):
                        return False
                return True

            if len(outt) != len(outr) or any(a.dtype != b.dtype or not torch.equal(a, b) for a, b in zip(outt, outr)):
                ctx.violation("C18:clone-changes-layout" if (sliced and len(outt) == len(outr) and
                                                             (rounding_level(zip(outt, outr)) or layout_only()))
                              else "C18:outputs", "outputs differ (value or dtype) with tracking", rkey, [str(a.dtype) for a in outt])
                break
            gi_t = [x.grad for x in xt if x.is_floating_point()]
            gi_r = [x.grad for x in xr if x.is_floating_point()]
            gp_t = [p.grad for p in params_t]
            gp_r = [p.grad for p in mod_r.parameters()]
            pairs = list(zip(gi_t, gi_r)) + list(zip(gp_t, gp_r))
            if any((a is None) != (b is None) or (a is not None and not torch.equal(a, b)) for a, b in pairs):
                ctx.violation("C18:clone-changes-layout" if (sliced and (rounding_level(pairs) or layout_only())) else "C18:gradients",
                              "gradients differ with tracking", rkey)
                break
            # (2) metrics = statistics of the tensors that flowed.  What was recorded is what flowed *during the run*: the
            # parameters and inputs are changed in place (as an optimizer step would) before the metrics are read, and
            # restored afterwards.
            def compare_metrics(cap=cap, emit=ctx.violation) -> bool:
                if not via_dynamo:
                    g = graph_of()
                    for n in g.nodes:
                        m = n.meta.get("metrics")
                        if n.name in cap.nonfloat:
                            if m is not None or n.meta.get("outputs_float_tensor"):
                                emit("C18:nonfloat-instrumented", "a non-float value was instrumented", {**rkey, "node": n.name})
                            continue
                        if n.name not in cap.vals:
                            continue
                        if m is None:
                            emit("C18:missing-metrics", "no metrics recorded for a float tensor", {**rkey, "node": n.name})
                            return True
                        f = same_stats(m.fwd, stats(cap.vals[n.name]))
                        if f:
                            emit(f"C18:fwd-metric:{f}", "forward metric differs from the statistic of the tensor that flowed",
                                          {**rkey, "node": n.name}, {"got": getattr(m.fwd, f), "want": stats(cap.vals[n.name])[f]})
                            return True
                        if n.name in cap.grads:
                            if m.bwd is None:
                                emit("C18:bwd-missing", "no backward metrics although a gradient reached the tensor",
                                              {**rkey, "node": n.name})
                                return True
                            f = same_stats(m.bwd, stats(cap.grads[n.name]))
                            if f:
                                emit(f"C18:bwd-metric:{f}", "backward metric differs from the statistic of the total gradient",
                                              {**rkey, "node": n.name}, {"got": getattr(m.bwd, f), "want": stats(cap.grads[n.name])[f]})
                                return True
                        elif m.bwd is not None:
                            emit("C18:bwd-stale", "backward metrics reported for a tensor that received no gradient in this run",
                                          {**rkey, "node": n.name})
                            return True
                else:
                    # Dynamo path: names differ; check the multiset of (numel, mean_abs) of float tensors and the no-gradient clause
                    g = graph_of()
                    got = sorted((n.meta["metrics"].fwd.numel, round(n.meta["metrics"].fwd.mean_abs, 6)) for n in g.nodes
                                 if n.meta.get("metrics") is not None)
                    want = sorted((t.numel(), round(stats(t)["mean_abs"], 6)) for t in cap.vals.values())
                    miss = [w for w in set(want) if w not in got]
                    if miss:
                        emit("C18:dynamo-metrics", "a float tensor of the computation has no matching recorded metrics", rkey, miss[:3])
                        return True
                    if which == "none" and any(n.meta.get("metrics") is not None and n.meta["metrics"].bwd is not None for n in g.nodes):
                        emit("C18:bwd-stale", "backward metrics reported after a forward-only run", rkey)
                        return True
                return False

            saved_ = [(t_, t_.detach().clone()) for t_ in list(params_t) + [x for x in xt if x.is_floating_point()]]
            with torch.no_grad():
                for t_, _ in saved_:
                    t_.add_(1.0)
            found_: List[Any] = []
            try:
                stop = compare_metrics(cap, lambda *a_: found_.append(a_))
            finally:
                with torch.no_grad():
                    for t_, v_ in saved_:
                        t_.copy_(v_)
            if found_ and sliced:
                # The listed finding can also touch an intermediate tensor only (outputs and gradients happen to agree). The
                # recorded metrics must then be the statistics of what flowed through the *tracked* run: compare them with
                # the counterfactual run that does to values exactly what the tracker does (contiguous copies).
                found2_: List[Any] = [None]
                try:
                    cap2 = Capture(fg.trace_fx(copy.deepcopy(base)), clone=True)
                    x2_ = [x.clone().requires_grad_(True) if x.is_floating_point() else x for x in xs0]
                    out2_ = cap2.run(*x2_)
                    backward_through(out2_ if isinstance(out2_, tuple) else (out2_,), which, 50 + ri)
                    found2_ = []
                    compare_metrics(cap2, lambda *a_: found2_.append(a_))
                except Exception:  # noqa: BLE001
                    found2_ = [None]
                if not found2_:
                    found_ = [("C18:clone-changes-layout", "an intermediate tensor differs with tracking; the recorded metrics are "
                               "those of the tensors that flowed through the tracked run", rkey)]
            for a_ in found_:
                ctx.violation(*a_)
            if stop:
                break

    # ---- analyse_module: gradients unchanged, reported scales are the true standard deviations
    for i in range(4 if quick else 40):
        prog = fg.gen_program(rng, rng.randint(1, 6), residuals=1, wrappers=False, attention=False)
        key = {"path": "analyse_module", "program": prog.key()}
        ctx.count(key, bucket="analyse_module")
        m1, m2 = fg.make_module(prog, seed=i), fg.make_module(prog, seed=i)
        x = fg.make_inputs(prog, i)[0]
        x1, x2 = x.clone().requires_grad_(True), x.clone().requires_grad_(True)
        bwd = torch.randn(fg.B, fg.S, fg.H)
        code = None
        with ctx.guard("C18:analyse_module", key):
            code = analyse_module(m1, x1, bwd, syntax_highlight=False)
        if code is None:
            continue
        m2(x2).backward(bwd)
        if not torch.equal(x1.grad, x2.grad) or any(not torch.equal(a.grad, b.grad) for a, b in zip(m1.parameters(), m2.parameters())
                                                     if a.grad is not None or b.grad is not None):
            ctx.violation("C18:analyse-gradients", "analyse_module changes the gradients the module produces", key)
        first = re.search(r"\(-> ([0-9.e+-]+), <- ([0-9.e+-]+)\)", code)
        if first and not rel_close(float(first.group(1)), float(x.std()), 0.01):
            ctx.violation("C18:analyse-scale", "analyse_module reports a wrong input scale", key, [first.group(1), float(x.std())])

    # ---- analyse_module on modules that mix tensors inside and outside the autograd graph: every float tensor is
    #      annotated with its true forward scale and its true backward scale ("n/a" iff no gradient reaches it);
    #      non-float values carry no annotation
    import torch.nn.functional as F_

    class MixedNet(nn.Module):
        def __init__(self, din: int, dh: int, flags: Dict[str, bool]) -> None:
            super().__init__()
            self.lin = nn.Linear(din, dh)
            with torch.no_grad():
                self.lin.bias.zero_()                         # a tensor whose standard deviation is exactly 0
            self.w = nn.Parameter(torch.randn(dh))
            self.register_buffer("shift", torch.randn(dh))
            self.flags, self.dh = flags, dh

        def forward(self, x, pos):  # type: ignore[no-untyped-def]
            f = self.flags
            h = F_.linear(x, self.lin.weight, self.lin.bias)
            a = torch.tanh(h)                                   # fan-out
            out = torch.mul(a, self.w)
            if f["buffer"]:
                out = torch.add(out, self.shift)                # registered buffer: float, no grad
            if f["gate"]:
                out = torch.mul(out, torch.gt(a, 0).to(x.dtype))        # bool intermediate cast to float: no grad
            if f["onehot"]:
                out = torch.add(out, F_.one_hot(torch.argmax(a, dim=-1), self.dh).to(x.dtype))   # int -> float: no grad
            if f["pos"]:
                out = torch.add(out, pos)                       # float input that does not require grad
            out = torch.mul(out, torch.ones_like(out))          # constant tensor: std 0, no gradient
            return torch.sin(out)

    class Probe(torch.fx.Interpreter):
        def __init__(self, gm):  # type: ignore[no-untyped-def]
            super().__init__(gm)
            self.fwd: Dict[str, Any] = {}
            self.leaf: Dict[str, Any] = {}
            self.grads: Dict[str, Any] = {}
            self.kinds: Dict[str, str] = {}

        def run_node(self, n):  # type: ignore[no-untyped-def]
            out = super().run_node(n)
            if n.op != "output" and isinstance(out, torch.Tensor):
                self.kinds[n.name] = "float" if out.is_floating_point() else "nonfloat"
                if out.is_floating_point():
                    self.fwd[n.name] = float(out.detach().std())
                    if out.requires_grad:
                        if out.is_leaf:
                            self.leaf[n.name] = out
                        else:
                            out.register_hook(lambda g, nm=n.name: self.grads.__setitem__(nm, float(g.std())))
            return out

    ann_re = re.compile(r"\(-> ([^,]+), <- ([^)]+)\)")

    def shown_ok(shown: str, true: Optional[float]) -> bool:
        shown = shown.strip()
        if shown == "n/a":
            return true is None
        if true is None:
            return False
        try:
            v = float(shown)
        except ValueError:
            return False
        return (v != v and true != true) or abs(v - true) <= 1e-2 * abs(true) + 1e-12

    for i in range(6 if quick else 120):
        flags = {k: rng.random() < 0.6 for k in ("buffer", "gate", "onehot", "pos")}
        din, dh, bsz = rng.choice([3, 6]), rng.choice([4, 5, 8]), rng.choice([7, 9])
        key = {"path": "analyse_module", "family": "mixed-grad", "flags": flags, "dims": [bsz, din, dh]}
        ctx.count(key, bucket="analyse_module/mixed")
        torch.manual_seed(1000 + i)
        net = MixedNet(din, dh, flags)
        x = torch.randn(bsz, din)
        x[0, : din // 2] = 0.0
        pos = torch.randn(bsz, dh)
        bwd = torch.randn(bsz, dh)
        code = None
        with ctx.guard("C18:analyse_module", key):
            code = analyse_module(copy.deepcopy(net), (x.clone().requires_grad_(True), pos), bwd, syntax_highlight=False)
        if code is None:
            continue
        pr = Probe(torch.fx.symbolic_trace(copy.deepcopy(net)))
        xr = x.clone().requires_grad_(True)
        pr.run(xr, pos).backward(bwd)
        for nm, t in pr.leaf.items():
            if t.grad is not None:
                pr.grads[nm] = float(t.grad.std())
        shown: Dict[str, Any] = {}
        for line in code.splitlines():
            ls = line.strip()
            if ls.startswith("def "):
                names = [a.strip().split(":")[0].strip() for a in ls.split("(", 1)[1].split(")")[0].split(",")][1:]
                anns = ann_re.findall(ls.split("):", 1)[1]) if "):" in ls else []
                fl = [n_ for n_ in names if pr.kinds.get(n_) == "float"]
                if len(anns) != len(fl):
                    ctx.violation("C18:analyse-inputs", "not every floating-point input is annotated on the signature line",
                                  key, {"inputs": fl, "annotations": anns})
                else:
                    shown.update(dict(zip(fl, anns)))
                continue
            m_ = re.match(r"(\w+) = ", ls)
            if m_:
                a_ = ann_re.findall(ls.split(";", 1)[1]) if ";" in ls else []
                shown[m_.group(1)] = a_[0] if a_ else None
        for nm, kind in pr.kinds.items():
            if nm not in shown:
                if kind == "float" and nm not in ("x", "pos"):
                    ctx.violation("C18:analyse-missing", f"float tensor `{nm}` does not appear in the analysed code", key)
                continue
            ann = shown[nm]
            if kind == "nonfloat":
                if ann is not None:
                    ctx.violation("C18:analyse-nonfloat", f"non-float value `{nm}` is annotated", key, ann)
                continue
            if ann is None:
                ctx.violation("C18:analyse-unannotated", f"float tensor `{nm}` carries no scale annotation "
                              f"(true -> {pr.fwd[nm]:.3}, <- {pr.grads.get(nm, 'n/a')})", key)
                continue
            if not shown_ok(ann[0], pr.fwd[nm]):
                ctx.violation("C18:analyse-fwd", f"forward scale of `{nm}`: shown {ann[0]}, true {pr.fwd[nm]:.4}", key)
            if not shown_ok(ann[1], pr.grads.get(nm)):
                ctx.violation("C18:analyse-bwd", f"backward scale of `{nm}`: shown {ann[1]}, true {pr.grads.get(nm, 'n/a')}", key)

    # ---- one tracked module, two compilations: after a call that Dynamo has to re-trace (train -> eval drops a branch, so
    #      the new graph is smaller) scales_graph() describes the LAST call, not an earlier one
    class Branchy(nn.Module):
        def __init__(self) -> None:
            super().__init__()
            self.l = nn.Linear(6, 6)

        def forward(self, x):  # type: ignore[no-untyped-def]
            h = self.l(x)
            if self.training:
                h = torch.tanh(h) * 2.0 + 1.0
                h = torch.relu(h)
            return h * 3.0

    key = {"path": "dynamo", "family": "recompile to a smaller graph (train -> eval)"}
    ctx.count(key, bucket="dynamo/recompile")
    with ctx.guard("C18:recompile", key):
        torch.manual_seed(21)
        tm = track_scales(Branchy())
        tm.train()
        x1 = torch.randn(5, 6)
        tm(x1).sum().backward()
        n1 = len(list(tm.scales_graph().nodes))
        tm.eval()
        x2 = torch.randn(9, 6) * 4.0
        y2 = tm(x2)
        g2 = tm.scales_graph()
        ins = [n for n in g2.nodes if n.op == "placeholder" and n.meta.get("metrics") is not None
               and n.meta["metrics"].fwd.numel == x2.numel()]
        want_in = stats(x2)
        if not any(same_stats(n.meta["metrics"].fwd, want_in) is None for n in ins):
            ctx.violation("C18:stale-graph", "after a second call that was re-traced, scales_graph() still describes an earlier "
                          "call (no node records the statistics of the new input)", key,
                          {"nodes_first": n1, "nodes_now": len(list(g2.nodes))})
        outs_ = [n for n in g2.nodes if n.meta.get("metrics") is not None and n.meta["metrics"].fwd.numel == y2.numel()]
        if not any(same_stats(n.meta["metrics"].fwd, stats(y2.detach())) is None for n in outs_):
            ctx.violation("C18:stale-graph", "scales_graph() has no node with the statistics of the last output", key)
        if any(n.meta.get("metrics") is not None and n.meta["metrics"].bwd is not None for n in g2.nodes):
            ctx.violation("C18:bwd-stale", "backward metrics reported after a forward-only call", key)

    # ---- model correspondence: DAG programs over exact integers.  The Lean model (`USModel.Dag`: forward interpreter with a
    #      tracker after every node + autograd's reverse sweep with one gradient buffer per node) and the real tracking
    #      backend run the same program; what each tracker logged (value and total gradient, or no gradient) must agree
    #      exactly.  Entries are small integers in float64 tensors of 4 elements, so every statistic is exact.
    import operator

    def gen_dag(n_nodes: int) -> Dict[str, Any]:
        nodes: List[Dict[str, Any]] = []
        n_in = rng.randint(1, 3)
        for _ in range(n_in):
            nodes.append({"op": "input", "v": [rng.randint(-3, 3) for _ in range(4)]})
        muls = 0
        while len(nodes) < n_in + n_nodes:
            j = len(nodes)
            kind = rng.choice(["add", "sub", "scale", "mul", "add", "fan"])
            # prefer recent nodes, but reach back (fan-out: one tensor read by several consumers, or twice by one)
            pick = lambda: rng.choice([j - 1, rng.randrange(j), rng.randrange(j)])  # noqa: E731
            if kind == "mul" and muls < 3:
                muls += 1
                nodes.append({"op": "mul", "ins": [pick(), pick()]})
            elif kind == "scale":
                nodes.append({"op": "lin", "ins": [pick()], "w": [rng.choice([-2, -1, 2, 3])]})
            elif kind == "sub":
                nodes.append({"op": "lin", "ins": [pick(), pick()], "w": [1, -1]})
            elif kind == "fan":
                a = pick()
                nodes.append({"op": "lin", "ins": [a, a], "w": [1, 1]})
            else:
                nodes.append({"op": "lin", "ins": [pick(), pick()], "w": [1, 1]})
        # one output near the end (so that most nodes lie on a path to an output), possibly a second one anywhere
        outs = sorted({rng.randrange(max(n_in, len(nodes) - 2), len(nodes))} |
                      ({rng.randrange(n_in, len(nodes))} if rng.random() < 0.5 else set()))
        if rng.random() < 0.3:
            outs = []  # forward only
        seed = [{"node": o, "g": [rng.randint(-2, 2) for _ in range(4)]} for o in outs]
        return {"nodes": nodes, "seed": seed}

    def fx_of(spec: Dict[str, Any]) -> torch.fx.GraphModule:
        g = torch.fx.Graph()
        env: List[torch.fx.Node] = []
        for k, nd in enumerate(spec["nodes"]):
            if nd["op"] == "input":
                env.append(g.placeholder(f"x{k}"))
            elif nd["op"] == "mul":
                env.append(g.call_function(operator.mul, (env[nd["ins"][0]], env[nd["ins"][1]])))
            elif nd["w"] == [1, 1]:
                env.append(g.call_function(operator.add, (env[nd["ins"][0]], env[nd["ins"][1]])))
            elif nd["w"] == [1, -1]:
                env.append(g.call_function(operator.sub, (env[nd["ins"][0]], env[nd["ins"][1]])))
            else:
                env.append(g.call_function(operator.mul, (env[nd["ins"][0]], nd["w"][0])))
        g.output(tuple(env[s["node"]] for s in spec["seed"]) if spec["seed"] else env[-1])
        return torch.fx.GraphModule(nn.Module(), g)

    class DagModule(nn.Module):
        def __init__(self, spec: Dict[str, Any]) -> None:
            super().__init__()
            self.spec = spec

        def forward(self, xs):  # type: ignore[no-untyped-def]
            env: List[Any] = []
            k = 0
            for nd in self.spec["nodes"]:
                if nd["op"] == "input":
                    env.append(xs[k])
                    k += 1
                elif nd["op"] == "mul":
                    env.append(env[nd["ins"][0]] * env[nd["ins"][1]])
                elif nd["w"] == [1, 1]:
                    env.append(env[nd["ins"][0]] + env[nd["ins"][1]])
                elif nd["w"] == [1, -1]:
                    env.append(env[nd["ins"][0]] - env[nd["ins"][1]])
                else:
                    env.append(env[nd["ins"][0]] * nd["w"][0])
            return tuple(env[s["node"]] for s in self.spec["seed"]) if self.spec["seed"] else env[-1]

    def int_stats(v: List[int]) -> tuple:
        return (sum(abs(x) for x in v), abs(sum(v)), max(abs(x) for x in v), min(abs(x) for x in v), len(v))

    def rec_stats(d: Any) -> tuple:
        return (d.mean_abs * d.numel, d.abs_mean * d.numel, d.abs_max, d.abs_min, d.numel)

    n_dag = 60 if quick else 1500
    specs = [gen_dag(rng.randint(1, 12)) for _ in range(n_dag)]
    resp = driver.ask([{"k": "dag", **s} for s in specs])
    for ci, (spec, r) in enumerate(zip(specs, resp)):
        log = r["log"]
        if any(abs(x) >= 2 ** 40 for e in log for x in (e["v"] + (e["g"] or []))):
            ctx.bump("dag/skipped-too-large")
            continue
        via_dynamo = ci % 10 == 9
        key = {"path": "dag-dynamo" if via_dynamo else "dag-direct", "spec": spec}
        # input distribution of the correspondence (goes into the evidence histogram)
        uses_: Dict[int, int] = {}
        for nd in spec["nodes"]:
            ctx.bump("dag/op:" + ("input" if nd["op"] == "input" else "mul" if nd["op"] == "mul" else
                                  {(1, 1): "add", (1, -1): "sub"}.get(tuple(nd["w"]), "scale")))
            for a_ in nd.get("ins", []):
                uses_[a_] = uses_.get(a_, 0) + 1
            if len(nd.get("ins", [])) == 2 and nd["ins"][0] == nd["ins"][1]:
                ctx.bump("dag/same-tensor-twice")
        ctx.bump("dag/fan-out-nodes", sum(1 for v_ in uses_.values() if v_ > 1))
        ctx.bump("dag/forward-only" if not spec["seed"] else f"dag/outputs:{len(spec['seed'])}")
        ctx.bump("dag/nodes-without-gradient", sum(1 for e in log if e["g"] is None))
        ctx.bump("dag/nodes-with-gradient", sum(1 for e in log if e["g"] is not None))
        ctx.count(key, bucket=key["path"])
        xs = [torch.tensor(nd["v"], dtype=torch.float64) for nd in spec["nodes"] if nd["op"] == "input"]
        graph = None
        with ctx.guard("C18:dag-run", key):
            if via_dynamo:
                tm = track_scales(DagModule(spec))
                xs = [x.requires_grad_(True) for x in xs]
                out = tm(xs)
                graph_fn = tm.scales_graph
            else:
                backend = ScaleTrackingBackend()
                xs = [x.requires_grad_(True) for x in xs]
                out = backend(fx_of(spec), [])(*xs)
                graph_fn = lambda: backend.graph  # noqa: E731
            if spec["seed"]:
                loss = sum((o * torch.tensor(s["g"], dtype=torch.float64)).sum() for o, s in zip(out, spec["seed"]))
                loss.backward()
            graph = graph_fn()
        if graph is None:
            continue
        model_recs = [(int_stats(e["v"]), None if e["g"] is None else int_stats(e["g"])) for e in log]
        # (an `output` node that returns a single tensor is itself wrapped: an identity node the model does not have)
        tracked = [n for n in graph.nodes if n.meta.get("metrics") is not None and n.op != "output"]
        impl_recs = [(rec_stats(n.meta["metrics"].fwd), None if n.meta["metrics"].bwd is None else rec_stats(n.meta["metrics"].bwd))
                     for n in tracked]
        if via_dynamo:
            # Dynamo names and orders its nodes itself and drops nodes nothing reads: every tracked node must be one of the
            # model's log entries, and every node on a path to an output must be present
            missing = [m for m in impl_recs if m not in model_recs]
            if missing:
                ctx.disagree("dag_log", key, model_recs, impl_recs, ["USProofs.C18.logged_solves_adjoint", "USProofs.C18.adjoint_unique"])
            elif spec["seed"] and any(m[1] is not None and m not in impl_recs for m in model_recs):
                ctx.disagree("dag_log", key, model_recs, impl_recs, ["USProofs.C18.logged_solves_adjoint", "USProofs.C18.adjoint_unique"])
        elif impl_recs != model_recs:
            bad = next((k for k, (a, b) in enumerate(zip(model_recs, impl_recs)) if a != b), min(len(model_recs), len(impl_recs)))
            ctx.disagree("dag_log", {**key, "node": bad}, model_recs[bad:bad + 1], impl_recs[bad:bad + 1],
                         ["USProofs.C18.logged_solves_adjoint", "USProofs.C18.adjoint_unique"])

    # ---- many tracked instances of one class in one process (a width sweep): every one of them is instrumented and reports
    #      the statistics of its own tensors; and a tracked copy trains exactly the parameters the original trains
    import unit_scaling as uu_

    class Sweep(nn.Module):
        def __init__(self, width: int, freeze: bool) -> None:
            super().__init__()
            self.l1 = uu_.Linear(6, width)
            self.l2 = uu_.Linear(width, 6)
            if freeze:
                self.l1.weight.requires_grad_(False)

        def forward(self, x):  # type: ignore[no-untyped-def]
            return self.l2(torch.relu(self.l1(x)))

    for wi, width in enumerate(range(3, 3 + (12 if quick else 24))):
        freeze = wi % 3 == 1
        key = {"path": "dynamo", "family": "instances of one class", "instance": wi, "width": width, "frozen_l1_weight": freeze}
        ctx.count(key, bucket="dynamo/instances")
        with ctx.guard("C18:instances", key):
            torch.manual_seed(100 + wi)
            plain = Sweep(width, freeze)
            torch.manual_seed(100 + wi)
            tm = track_scales(Sweep(width, freeze))
            x0 = torch.randn(4 + wi, 6)
            xp, xt = x0.clone().requires_grad_(True), x0.clone().requires_grad_(True)
            if wi % 2 == 0:
                # the tracked module sits inside a larger computation: its input is the output of an upstream layer (a
                # non-leaf tensor) and, every other time, also feeds a skip connection around it
                torch.manual_seed(500 + wi)
                stem_p = nn.Linear(6, 6)
                torch.manual_seed(500 + wi)
                stem_t = nn.Linear(6, 6)
                hp, ht = stem_p(xp), stem_t(xt)
                yp, yt = plain(hp), tm(ht)
                out_p = yp
                if wi % 4 == 0:
                    yp, yt = yp + hp, yt + ht
            else:
                stem_p = stem_t = None
                yp, yt = plain(xp), tm(xt)
                out_p = yp
            yp.sum().backward()
            yt.sum().backward()
            if not torch.equal(yp, yt) or not torch.equal(xp.grad, xt.grad):
                ctx.violation("C18:outputs", "outputs / input gradients differ with tracking", key)
            if stem_p is not None and any((a_.grad is None) != (b_.grad is None) or (a_.grad is not None and not torch.equal(a_.grad, b_.grad))
                                          for a_, b_ in zip(stem_p.parameters(), stem_t.parameters())):
                ctx.violation("C18:gradients", "gradients of the layer that produced the tracked module's input differ with tracking",
                              key, {"upstream_grads_tracked": [b_.grad is not None for b_ in stem_t.parameters()]})
            gp = {n_: p_.grad for n_, p_ in plain.named_parameters()}
            gt = {n_.replace("_orig_mod.", ""): p_.grad for n_, p_ in tm.named_parameters()}
            if any((gp[n_] is None) != (gt.get(n_) is None) or (gp[n_] is not None and not torch.equal(gp[n_], gt[n_])) for n_ in gp):
                ctx.violation("C18:gradients", "the tracked module does not produce the gradients of the plain module (a frozen "
                              "parameter received a gradient, or a gradient differs)", key,
                              {n_: [gp[n_] is not None, gt.get(n_) is not None] for n_ in gp})
            g_ = tm.scales_graph()
            recs = [n for n in g_.nodes if n.meta.get("metrics") is not None]
            hidden = torch.relu(plain.l1(x0 if stem_p is None else stem_p(x0))).detach()
            if not any(same_stats(n.meta["metrics"].fwd, stats(hidden)) is None for n in recs) or \
                    not any(same_stats(n.meta["metrics"].fwd, stats(out_p.detach())) is None for n in recs):
                ctx.violation("C18:not-instrumented", "a tracked instance recorded no metrics for the tensors that flowed through "
                              "it (instance number %d of its class in this process)" % wi, key, {"recorded_nodes": len(recs)})
            if freeze:
                w_ = plain.l1.weight.detach()
                for n in recs:
                    if n.meta["metrics"].fwd.numel == w_.numel() and same_stats(n.meta["metrics"].fwd, stats(w_)) is None \
                            and n.meta["metrics"].bwd is not None and n.op in ("placeholder", "get_attr"):
                        ctx.violation("C18:bwd-stale", "backward metrics reported for a frozen parameter, which receives no gradient", key,
                                      {"node": n.name})
