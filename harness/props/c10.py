"""C10 — optimizer learning rates follow the u-muP rule for every type, shape, depth."""
from __future__ import annotations

import itertools
import math
from typing import Any, Dict, List, Optional, Tuple

from .. import driver
from ..common import Ctx, b2f, f2b, import_repo, near, rel_close

LEVEL = "proof"
EXPLANATION = (
    "Theorems over the Lean model of _get_fan_in / lr_scale_func_* / scaled_parameters for all shapes, tags, "
    "depths. Correspondence: the learning rate of every produced optimizer group vs lr x model scale, over the "
    "grid tag x rank x dims x depth x lr kind x supply kind x optimizer x readout setting; the property oracle "
    "recomputes the u-muP factor from the property text."
)
ASSUMPTIONS = ["torch.optim.{SGD,Adam,AdamW} keep the per-group lr they are given (read back from param_groups)"]
TAGS = ["weight", "bias", "norm", "output"]
DIMS = [1, 2, 3, 5, 16, 4096]
THMS = ["USProofs.C10.lr_adam_weight", "USProofs.C10.lr_adam_other", "USProofs.C10.lr_sgd_out_weight",
        "USProofs.C10.lr_sgd_out_vector", "USProofs.C10.lr_sgd_out_output", "USProofs.C10.tagged_float_lr",
        "USProofs.C10.tagged_tensor_lr"]


def want_factor(readout: Optional[str], tag: str, shape: Tuple[int, ...], depth: Optional[int]) -> float:
    """The factor stated by the property (independent of the model)."""
    if len(shape) == 1:
        fan_in = shape[0]
    elif len(shape) == 2:
        fan_in = shape[1]
    else:
        fan_in = shape[1] * shape[2]
    if readout is None:
        f = fan_in ** -0.5 if tag == "weight" else 1.0
    else:
        f = {"weight": fan_in ** 0.5, "bias": float(shape[0]), "norm": float(shape[0]), "output": 1.0}[tag]
    if depth is not None:
        f *= depth ** -0.5
    return f


def run(ctx: Ctx) -> None:
    import_repo()
    import torch
    import unit_scaling as uu
    from torch import nn
    from unit_scaling import optim as uo

    quick = ctx.tier == "quick"
    rng = ctx.rng
    ctx.rule = ("cells (optimizer, readout, tag, shape, depth, lr kind, supply kind); shapes of rank 1-3 with dims "
                "from {1,2,3,5,16,4096} distinct per axis plus random dims in [1,4096]; depth in {None,1,2,7,1024} "
                "plus random; lr log-uniform in [1e-8,1e2]. distinct = distinct cells; trivial = none.")
    shapes: List[Tuple[int, ...]] = []
    for r in (1, 2, 3):
        perms = list(itertools.permutations(DIMS, r))
        shapes += perms if (not quick or r < 3) else rng.sample(perms, 40)
    for _ in range(20 if quick else 300):
        r = rng.choice((1, 2, 3))
        shapes.append(tuple(rng.randint(1, 4096) for _ in range(r)))
    depths: List[Optional[int]] = [None, 1, 2, 7, 1024]

    def mk(tag: str, shape: Tuple[int, ...], depth: Optional[int]):
        p_ = uu.Parameter(torch.empty(shape, device="meta"), tag, depth)
        if rng.random() < 0.15:
            # frozen when the groups / the optimizer are built (freeze, build, unfreeze later): the rule is about the
            # parameter's type, shape and depth, not about whether it currently requires a gradient
            p_.requires_grad_(False)
        return p_

    opts = [("Adam", None), ("AdamW", None), ("SGD", None), ("SGD", "to_output_scale"),
            ("fn_adam", None), ("fn_sgd", None), ("fn_sgd", "to_output_scale")]
    lr_kinds = ["float", "t32", "t64"]
    supplies = ["bare", "generator", "group_own_lr", "group_global_lr"]
    model_reqs: Dict[Tuple, int] = {}
    pending: List[Tuple[Dict[str, Any], float, float, Tuple]] = []  # (case, impl_lr, src_lr, modelkey)

    def model_key(readout, tag, shape, depth):
        k = ("sgd_out" if readout else "adam", tag, shape, depth)
        if k not in model_reqs:
            model_reqs[k] = len(model_reqs)
        return k

    n_calls = 0
    reps = 1 if quick else 6
    for (oname, readout) in opts:
        for lr_kind in lr_kinds:
            for supply in supplies:
                for _ in range(reps):
                    n_calls += 1
                    lr = math.exp(rng.uniform(math.log(1e-8), math.log(1e2)))
                    own = math.exp(rng.uniform(math.log(1e-8), math.log(1e2)))

                    def as_lr(v: float):
                        if lr_kind == "float":
                            return v
                        return torch.tensor(v, dtype=torch.float32 if lr_kind == "t32" else torch.float64)

                    k = 60 if quick else 150
                    specs = [(rng.choice(TAGS), rng.choice(shapes), rng.choice(depths) if rng.random() < 0.8
                              else rng.randint(1, 1024)) for _ in range(k)]
                    # make sure every tag x rank cell is present in every call
                    for tag in TAGS:
                        for r in (1, 2, 3):
                            specs.append((tag, rng.choice([s for s in shapes if len(s) == r]), rng.choice(depths)))
                    params = [mk(*s) for s in specs]
                    src_lr = {}
                    if supply == "bare":
                        arg: Any = list(params)
                        for p in params:
                            src_lr[id(p)] = lr
                    elif supply == "generator":
                        arg = (p for p in params)
                        for p in params:
                            src_lr[id(p)] = lr
                    else:
                        arg = []
                        i = 0
                        while i < len(params):
                            n = rng.randint(1, 4)
                            g: Dict[str, Any] = {"params": params[i:i + n]}
                            if supply == "group_own_lr" and rng.random() < 0.7:
                                g["lr"] = as_lr(own)
                                for p in g["params"]:
                                    src_lr[id(p)] = own
                            else:
                                for p in g["params"]:
                                    src_lr[id(p)] = lr
                            arg.append(g)
                            i += n
                    glr = as_lr(lr)
                    groups = None
                    with ctx.guard("C10:call", {"opt": oname, "readout": readout, "lr_kind": lr_kind, "supply": supply}):
                        if oname == "fn_adam":
                            groups = uo.scaled_parameters(arg, uo.lr_scale_func_adam, lr=glr)
                        elif oname == "fn_sgd":
                            groups = uo.scaled_parameters(arg, uo.lr_scale_func_sgd(readout), lr=glr)
                        elif oname == "SGD":
                            groups = uo.SGD(arg, glr, readout_constraint=readout).param_groups
                        else:
                            groups = getattr(uo, oname)(arg, lr=glr).param_groups
                    if groups is None:
                        continue
                    got = {}
                    for g in groups:
                        if len(g["params"]) != 1:
                            ctx.violation("C10:group-shape", "a produced group does not hold exactly one parameter",
                                          {"opt": oname, "supply": supply}, len(g["params"]))
                            continue
                        got[id(g["params"][0])] = g["lr"]
                    for p, (tag, shape, depth) in zip(params, specs):
                        case = {"opt": oname, "readout": readout, "tag": tag, "shape": list(shape), "depth": depth,
                                "lr_kind": lr_kind, "supply": supply, "lr": src_lr[id(p)]}
                        ctx.count({k: case[k] for k in ("opt", "readout", "tag", "shape", "depth", "lr_kind", "supply")},
                                  bucket=f"{tag}/rank{len(shape)}")
                        if id(p) not in got:
                            ctx.violation("C10:missing-param", "parameter missing from the produced groups", case)
                            continue
                        v = got[id(p)]
                        if lr_kind != "float" and not isinstance(v, torch.Tensor):
                            ctx.violation("C10:lr-type", "tensor learning rate became a non-tensor", case, str(type(v)))
                        try:
                            impl = float(v)
                        except Exception as e:  # noqa: BLE001
                            ctx.violation("C10:lr-unreadable", "the group's learning rate is not a readable number any more (its device "
                                          f"or dtype follows the parameter's: {type(e).__name__})", case,
                                          {"device": str(getattr(v, "device", None)), "dtype": str(getattr(v, "dtype", None))})
                            continue
                        if isinstance(v, torch.Tensor) and lr_kind != "float" and \
                                v.dtype != (torch.float32 if lr_kind == "t32" else torch.float64):
                            ctx.violation("C10:lr-dtype", "the tensor learning rate changed dtype", case, str(v.dtype))
                        src = src_lr[id(p)]
                        if lr_kind == "t32":
                            src = float(torch.tensor(src, dtype=torch.float32))
                        want = src * want_factor(readout, tag, shape, depth)
                        tol = 2.0 ** -21 if lr_kind == "t32" else 1e-12
                        if not rel_close(impl, want, tol):
                            ctx.violation(f"C10:lr:{tag}:rank{len(shape)}:{'depth' if depth else 'nodepth'}:"
                                          f"{'sgd_out' if readout else 'adam'}",
                                          "group learning rate differs from lr x u-muP factor", case,
                                          {"got": impl, "want": want})
                        pending.append((case, impl, src, model_key(readout, tag, shape, depth)))

    # ---- error / rejection clauses
    def expect_error(name: str, fn, case) -> None:
        ctx.count(case, bucket="error:" + name)
        try:
            fn()
        except ValueError:
            return
        except Exception as e:  # noqa
            ctx.violation(f"C10:{name}", f"expected ValueError, got {type(e).__name__}", case, str(e)[:200])
            return
        ctx.violation(f"C10:{name}", "expected ValueError, call succeeded", case)

    for (oname, readout) in opts[:4]:
        cls = getattr(uo, oname)
        kw = {"readout_constraint": readout} if oname == "SGD" else {}
        plain = nn.Parameter(torch.zeros(3, 4))
        good = uu.Parameter(torch.zeros(3, 4), "weight")
        expect_error("untagged-rejected", lambda: cls([good, plain], lr=0.1, **kw), {"opt": oname, "untagged": True})
        for rank in (4, 5):
            w = uu.Parameter(torch.zeros(*([2] * rank)), "weight")
            expect_error("rank4-error", lambda: cls([w], lr=0.1, **kw), {"opt": oname, "rank": rank})
            # the flag that admits untagged parameters says nothing about tagged weights without a fan-in
            expect_error("rank4-error", lambda: cls([w, good], lr=0.1, allow_non_unit_scaling_params=True, **kw),
                         {"opt": oname, "rank": rank, "allow_untagged": True})
            expect_error("rank4-error", lambda: cls([{"params": [good, plain, w]}], lr=0.1, allow_non_unit_scaling_params=True, **kw),
                         {"opt": oname, "rank": rank, "allow_untagged": True, "layout": "one-mixed-group"})
        # allowed: left unscaled, tagged ones still scaled
        for lrv, layout in ((0.25, "bare"), (torch.tensor(0.25), "bare"), (0.25, "one-mixed-group"), (0.25, "mixed-group-own-lr"),
                            (torch.tensor(0.25), "one-mixed-group"), (0.25, "untagged-first")):
            case = {"opt": oname, "allow_untagged": True, "tensor_lr": isinstance(lrv, torch.Tensor), "layout": layout}
            ctx.count(case, bucket="allow-untagged")
            if layout == "bare":
                arg, glr_ = [good, plain], lrv
            elif layout == "one-mixed-group":      # tagged and untagged parameters inside one explicit group
                arg, glr_ = [{"params": [good, plain]}], lrv
            elif layout == "untagged-first":
                arg, glr_ = [{"params": [plain, good]}], lrv
            else:
                arg, glr_ = [{"params": [good, plain], "lr": lrv}], 7.0
            o = cls(arg, lr=glr_, allow_non_unit_scaling_params=True, **kw)
            lrs = {id(g["params"][0]): float(g["lr"]) for g in o.param_groups}
            if lrs.get(id(plain)) != 0.25:
                ctx.violation("C10:untagged-unscaled", "allowed untagged parameter's lr was changed", case, lrs.get(id(plain)))
            if not rel_close(lrs.get(id(good), -1), 0.25 * want_factor(readout, "weight", (3, 4), None), 1e-6):
                ctx.violation("C10:allow-scales-tagged", "tagged parameter not scaled when untagged ones are allowed",
                              case, lrs.get(id(good)))
    for fn in (uo.lr_scale_func_adam, uo.lr_scale_func_sgd(None), uo.lr_scale_func_sgd("to_output_scale")):
        p = uu.Parameter(torch.zeros(3), "bias")
        expect_error("missing-lr", lambda: uo.scaled_parameters([p], fn), {"missing_lr": "bare"})
        expect_error("missing-lr", lambda: uo.scaled_parameters([{"params": [p]}], fn), {"missing_lr": "group"})
        # a group with its own lr needs no global lr
        ctx.count({"own_lr_no_global": True})
        try:
            g = uo.scaled_parameters([{"params": [p], "lr": 0.5}], fn)
            if not rel_close(float(g[0]["lr"]), 0.5 * (3.0 if fn.__name__.endswith("inner") else 1.0), 1e-12):
                ctx.violation("C10:own-lr", "group lr not used when no global lr is given", {}, float(g[0]["lr"]))
        except Exception as e:  # noqa
            ctx.violation("C10:own-lr", "group with own lr rejected when no global lr is given", {}, str(e)[:200])

    # ---- correspondence with the Lean model
    if ctx.driver_ok:
        keys = list(model_reqs)
        resp = driver.ask([{"k": "lr", "opt": k[0], "tag": k[1], "shape": list(k[2]), "depth": k[3]} for k in keys])
        scale = {k: b2f(r["scale"]) for k, r in zip(keys, resp) if "scale" in r}
        bad = 0
        for case, impl, src, k in pending:
            if k not in scale:
                ctx.disagree("lr_scale", case, "error", impl, THMS)
                continue
            m = src * scale[k]
            ok = near(m, impl) if case["lr_kind"] != "t32" else rel_close(m, impl, 2.0 ** -21)
            if not ok:
                bad += 1
                if bad <= 20:
                    ctx.disagree("lr_scale", case, m, impl, THMS)
        # error kinds
        for shape in ([2, 2, 2, 2], [], [2] * 5):
            r = driver.ask([{"k": "lr", "opt": "adam", "tag": "weight", "shape": shape, "depth": None}])[0]
            if r.get("err") != "ValueError":
                ctx.disagree("fan_in_error", {"shape": shape}, r, "ValueError", ["USProofs.C10.weight_rank_ge4_error"])
    ctx.extra["optimizer_calls"] = n_calls
