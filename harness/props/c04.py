"""C04 — nonlinear ops stay near unit scale across their hyper-parameter range (partial)."""
from __future__ import annotations

import math
from typing import Any, Dict, List, Tuple

from .. import driver, ops
from ..common import Ctx, b2f, f2b, import_repo, rel_close

LEVEL = "other"
EXPLANATION = (
    "PARTIAL. Proved in Lean: the structure of the library's scale functions (interpolation weight in (0,1) and "
    "increasing in mult; scale between its two limits, monotone, end-points) and exact unit scale at the analytic "
    "limits (cross-entropy with uniform logits for every V>=2, softmax flat / one-hot, flat non-causal attention, norm "
    "gradients). NOT proved: the numerical bands over continuous hyper-parameter ranges (they need verified "
    "enclosures of Gaussian moments of erf-type functions; Mathlib has no verified quadrature) - they are evaluated "
    "numerically on the real functions: 200-point Gauss-Hermite quadrature for elementwise ops, fixed-seed Monte-Carlo "
    "with >= 2^20 elements otherwise. The implementation's scale values are tied to the model's by a dense "
    "correspondence over the hyper-parameter grid."
)
ASSUMPTIONS = ["Gauss-Hermite quadrature (float64, 200 nodes) and fixed-seed Monte-Carlo (>= 2^20 elements) are numerical "
               "support, not proofs", "expectation over standard-normal inputs and upstream gradients"]
THMS = ["USProofs.C04.logInterp_between", "USProofs.C04.alpha_mem", "USProofs.C04.ce_uniform_exact"]


def run(ctx: Ctx) -> None:
    import_repo()
    import numpy as np
    import torch
    import unit_scaling.functional as U

    torch.set_num_threads(8)
    rng = ctx.rng
    quick = ctx.tier == "quick"
    ctx.rule = ("mult on a log grid over the stated range plus end-points and log-uniform draws; widths / sequence lengths / "
                "vocabulary sizes at range end-points and powers of two in between; both causal settings; dropout 0-0.3. "
                "distinct = distinct (op, hyper-parameters).")
    dt = torch.float64
    # ---------------- elementwise ops: Gauss-Hermite quadrature of the real functions
    xg, wg = np.polynomial.hermite_e.hermegauss(200)
    wg = wg / wg.sum()
    x = torch.tensor(xg, dtype=dt)
    w = torch.tensor(wg, dtype=dt)
    n_grid = 33 if quick else 161
    mults = [2.0 ** (-4 + 8 * i / (n_grid - 1)) for i in range(n_grid)]
    mults += [math.exp(rng.uniform(math.log(1 / 16), math.log(16))) for _ in range(8 if quick else 64)]

    def band(name: str, key: Dict[str, Any], value: float, lo: float, hi: float) -> None:
        if not (lo <= value <= hi) or value != value:
            ctx.violation(f"C04:{name}", f"{name} = {value:.4f} outside [{lo}, {hi}]", key, value)

    for m in mults:
        for opn, kw in (("gelu", {"approximate": "none"}), ("gelu", {"approximate": "tanh"}), ("silu", {})):
            key = {"op": opn, **kw, "mult": m}
            ctx.count(key, bucket=opn)
            with ctx.guard(f"C04:{opn}:call", key):
                xi = x.clone().requires_grad_(True)
                y = getattr(U, opn)(xi, mult=m, constraint=None, **kw)
                (g,) = torch.autograd.grad(y.sum(), xi)
                mean = float((w * y.detach()).sum())
                std = math.sqrt(float((w * y.detach() ** 2).sum()) - mean * mean)
                grms = math.sqrt(float((w * g ** 2).sum()))
                band(f"{opn}:out-std", key, std, 0.93, 1.07)
                band(f"{opn}:grad-rms", key, grms, 0.93, 1.07)
    # silu_glu: two independent standard normals: tensor-product quadrature
    xg2, wg2 = np.polynomial.hermite_e.hermegauss(80)
    wg2 = wg2 / wg2.sum()
    X = torch.tensor(xg2, dtype=dt)
    W2 = torch.tensor(np.outer(wg2, wg2), dtype=dt)
    for m in mults[:: (2 if quick else 1)]:
        key = {"op": "silu_glu", "mult": m}
        ctx.count(key, bucket="silu_glu")
        with ctx.guard("C04:silu_glu:call", key):
            a = X[:, None].expand(80, 80).clone().requires_grad_(True)
            b = X[None, :].expand(80, 80).clone().requires_grad_(True)
            y = U.silu_glu(a, b, mult=m)
            ga, gb = torch.autograd.grad(y.sum(), (a, b))
            mean = float((W2 * y.detach()).sum())
            std = math.sqrt(float((W2 * y.detach() ** 2).sum()) - mean * mean)
            band("silu_glu:out-std", key, std, 0.93, 1.07)
            band("silu_glu:grad-rms:input", key, math.sqrt(float((W2 * ga ** 2).sum())), 0.93, 1.07)
            band("silu_glu:grad-rms:gate", key, math.sqrt(float((W2 * gb ** 2).sum())), 0.93, 1.07)

    # ---------------- Monte-Carlo ops (fixed seed, >= 2^20 elements, float32)
    gen = torch.Generator().manual_seed(1234 + ctx.seed)

    def randn(*shape):
        return torch.randn(*shape, generator=gen)

    N = 1 << 20
    widths = [16, 64, 256, 1024, 4096]
    sm_mults = [1 / 8, 1 / 2, 1.0, 2.0, 4.0] + [math.exp(rng.uniform(math.log(1 / 8), math.log(4))) for _ in range(2 if quick else 12)]
    for wd in (widths if not quick else [16, 256, 4096]):
        for m in sm_mults:
            key = {"op": "softmax", "width": wd, "mult": m}
            ctx.count(key, bucket="softmax")
            with ctx.guard("C04:softmax:call", key):
                xi = randn(N // wd, wd).requires_grad_(True)
                y = U.softmax(xi, dim=-1, mult=m, constraint=None)
                (g,) = torch.autograd.grad(y, xi, randn(N // wd, wd))
                band("softmax:out-rms", key, float(y.detach().pow(2).mean().sqrt()), 0.55, 1.35)
                band("softmax:grad-rms", key, float(g.pow(2).mean().sqrt()), 0.55, 1.35)
    att_cfgs: List[Tuple[int, int, float, bool, float]] = []
    for seq in ([16, 128, 1024] if quick else [16, 64, 128, 512, 1024]):
        for dh in ([16, 128] if quick else [16, 32, 64, 128]):
            for m in ([0.25, 1.0, 16.0] if quick else [0.25, 1.0, 4.0, 16.0, math.exp(rng.uniform(math.log(0.25), math.log(16)))]):
                for causal in (False, True):
                    att_cfgs.append((seq, dh, m, causal, rng.choice([0.0, 0.0, 0.1, 0.3])))
    if quick:
        att_cfgs = [c for c in att_cfgs if c[2] == 16.0 or c[0] != 1024 or c[1] == 16][:30]
    for (seq, dh, m, causal, p) in att_cfgs:
        key = {"op": "attention", "seq": seq, "d_head": dh, "mult": m, "causal": causal, "dropout_p": p}
        ctx.count(key, bucket="attention")
        with ctx.guard("C04:attention:call", key):
            bsz = max(1, N // (seq * dh))
            torch.manual_seed(99)
            q, k = randn(bsz, seq, dh), randn(bsz, seq, dh)
            v = randn(bsz, seq, dh).requires_grad_(True)
            y = U.scaled_dot_product_attention(q, k, v, dropout_p=p, is_causal=causal, mult=m)
            (gv,) = torch.autograd.grad(y, v, randn(bsz, seq, dh))
            band("attention:out-rms", key, float(y.detach().pow(2).mean().sqrt()), 0.7, 1.3)
            band("attention:value-grad-rms", key, float(gv.pow(2).mean().sqrt()), 0.7, 1.3)
    for V in ([2, 3, 4, 16, 256, 4096] if quick else [2, 3, 4, 5, 8, 10, 16, 64, 256, 1024, 4096]):
        for m in [1 / 16, 0.5, 1.0, 2.0, 4.0]:
            key = {"op": "cross_entropy", "vocab": V, "mult": m}
            ctx.count(key, bucket="cross_entropy")
            with ctx.guard("C04:cross_entropy:call", key):
                b = max(2, N // V)
                xi = randn(b, V).requires_grad_(True)
                t = torch.randint(0, V, (b,), generator=gen)
                loss = U.cross_entropy(xi, t, reduction="sum", mult=m)
                (g,) = torch.autograd.grad(loss, xi)
                band("cross_entropy:logit-grad-rms", key, float(g.pow(2).mean().sqrt()), 0.95, 1.45)
        # exactly 1 for uniform logits
        key = {"op": "cross_entropy", "vocab": V, "logits": "uniform"}
        ctx.count(key, bucket="cross_entropy-uniform")
        with ctx.guard("C04:cross_entropy:call", key):
            xi = torch.zeros(64, V, dtype=dt, requires_grad=True)
            t = torch.randint(0, V, (64,), generator=gen)
            (g,) = torch.autograd.grad(U.cross_entropy(xi, t, reduction="sum"), xi)
            v_ = float(g.pow(2).mean().sqrt())
            if not rel_close(v_, 1.0, 1e-12):
                ctx.violation("C04:cross_entropy:uniform-exact", "logit-gradient RMS is not exactly 1 for uniform logits", key, v_)
    # normalised width = number of normalised elements; the normalised shape may span several trailing dimensions
    nshapes = [(16,), (64,), (1024,), (4, 4), (2, 8), (8, 32), (32, 8), (2, 2, 4)] if quick else \
        [(16,), (32,), (64,), (256,), (1024,), (4096,), (4, 4), (2, 8), (8, 2), (8, 32), (32, 8), (2, 2, 4), (4, 16, 16), (16, 1)]
    for ns in nshapes:
        wd = math.prod(ns)
        for opn, gains in (("layer_norm", True), ("rms_norm", True), ("rms_norm", False), ("layer_norm", False)):
            key = {"op": opn, "width": wd, "normalized_shape": list(ns), "gain": "ones" if gains else None}
            ctx.count(key, bucket=opn)
            with ctx.guard(f"C04:{opn}:call", key):
                xi = randn(N // wd, *ns).requires_grad_(True)
                gain = torch.ones(ns) if gains else None
                y = U.layer_norm(xi, ns, gain, torch.zeros(ns) if gains else None) if opn == "layer_norm" else U.rms_norm(xi, ns, gain)
                (g,) = torch.autograd.grad(y, xi, randn(N // wd, *ns))
                band(f"{opn}:out-rms", key, float(y.detach().pow(2).mean().sqrt()), 0.9, 1.1)
                band(f"{opn}:grad-rms", key, float(g.pow(2).mean().sqrt()), 0.9, 1.1)

    # ---------------- correspondence: the library's scale values vs the model's, on the grid
    torch.set_num_threads(1)
    reqs, cases = [], []
    for m in mults:
        for opn, cfg, shapes in (("gelu", {"mult": m, "constraint": None, "approximate": "none"}, {"input": (7,)}),
                                 ("silu", {"mult": m, "constraint": None}, {"input": (7,)}),
                                 ("silu_glu", {"mult": m}, {"input": (7,), "gate": (7,)}),
                                 ("softmax", {"dim": -1, "mult": m, "constraint": None}, {"input": (3, rng.choice([2, 5, 16, 33]))})):
            case = ops.OpCase(opn, cfg, shapes, list(shapes))
            with ctx.guard(f"C04:{opn}:scale-call", case.key()):
                mm = ops.measure(U, case, 1, 2)
                reqs.append(ops.model_request(case))
                cases.append((case, mm))
    for _ in range(20 if quick else 300):
        case = ops.gen_case(rng, "scaled_dot_product_attention")
        case.cfg["attn_mask"] = None
        with ctx.guard("C04:sdpa:scale-call", case.key()):
            mm = ops.measure(U, case, 1, 2)
            reqs.append(ops.model_request(case))
            cases.append((case, mm))
    for V in (2, 3, 5, 7, 11, 101):
        case = ops.OpCase("cross_entropy", {"reduction": "sum", "mult": 1.0, "ignore_index": -100, "hit_ignore": False, "vocab": V},
                          {"input": (4, V)}, ["input"])
        mm = ops.measure(U, case, 1, 2)
        reqs.append(ops.model_request(case))
        cases.append((case, mm))
    if ctx.driver_ok:
        for (case, mm), r in zip(cases, driver.ask(reqs)):
            names = ops.model_bwd_names(case)
            mb = dict(zip(names, [b2f(v) for v in r["bwd"]]))
            bad = (not math.isnan(mm.fwd)) and not rel_close(b2f(r["fwd"]), mm.fwd, 1e-9)
            for n in case.diff:
                if not math.isnan(mm.bwd[n]) and not rel_close(mb[n], mm.bwd[n], 1e-9):
                    bad = True
            if bad:
                ctx.disagree("scale_functions", case.key(), {"fwd": b2f(r["fwd"]), "bwd": mb}, {"fwd": mm.fwd, "bwd": mm.bwd}, THMS)
