"""./check <Cnn> [--tier quick|thorough] [--replay file]"""
from __future__ import annotations

import argparse
import importlib
import json
import os
import sys
import time
import traceback

from . import leanbuild
from .common import EVIDENCE, REPLAYS, REPO, VERIF, Ctx, canon

TRUSTED_BASE = [
    "Lean 4.33.0 kernel; Mathlib v4.33.0 as installed",
    "axioms allowed: propext, Classical.choice, Quot.sound (audited with #print axioms on every run; no sorry, native_decide, bv_decide or own axioms)",
    "Lean compiler + C toolchain for the native driver; Lean Float = IEEE binary64 + libm (opaque to the kernel)",
    "hand-written Lean model tied to /repo only by the differential correspondence harness (Python) run in this check",
    "PyTorch reference ops, autograd, CPython copy/pickle are parameters of the theorems, instantiated by the real ones in the harness",
]


def write_replay(prop: str, seed: int, idx: int, body: dict) -> str:
    REPLAYS.mkdir(parents=True, exist_ok=True)
    path = REPLAYS / f"{prop}_seed{seed}_{idx}.json"
    path.write_text(json.dumps(body, indent=1, sort_keys=True, default=str))
    try:
        return str(path.relative_to(VERIF))
    except ValueError:
        return str(path)


def main() -> int:
    import warnings
    warnings.filterwarnings("ignore")
    ap = argparse.ArgumentParser()
    ap.add_argument("prop")
    ap.add_argument("--tier", default=os.environ.get("VERIF_TIER", "quick"), choices=["quick", "thorough"])
    ap.add_argument("--replay", default=None)
    a = ap.parse_args()
    prop = a.prop.upper()
    seed = int(os.environ.get("VERIF_SEED", "0"))
    mod = importlib.import_module(f"harness.props.{prop.lower()}")
    ctx = Ctx(prop, a.tier, seed)

    # 1. proofs
    lb = leanbuild.build_and_audit()
    ob = leanbuild.obligations_for(prop, lb)
    if not lb["build_ok"]:
        # without the driver nothing can be compared; the real-code oracle still runs below
        print("lean build failed:\n" + lb["build_log"][-1500:], file=sys.stderr)
    proofs_ok = lb["build_ok"] and not lb.get("forbidden") and not ob["failed"] and bool(ob["theorems"])
    rechecked = None
    if a.tier == "thorough" and lb["build_ok"]:
        rechecked = leanbuild.recheck(prop)
        if not rechecked["ok"]:
            print("leanchecker rejected the compiled proofs:\n" + rechecked.get("log", ""), file=sys.stderr)
            proofs_ok = False

    # 2. harness
    replay_key = None
    if a.replay:
        # generic replay: re-run the generator with the recorded seed and tier (every random choice derives from
        # them) and report only the recorded violation key / correspondence
        body = json.loads(open(a.replay).read())
        seed = int(body.get("seed", seed))
        ctx = Ctx(prop, body.get("tier", a.tier), seed)
        replay_key = body.get("key") or ",".join(body.get("broken_correspondences", []))
        ctx.driver_ok = lb["build_ok"]
        mod.run(ctx)
        if body.get("key"):
            ctx.violations = [v for v in ctx.violations if v["key"] == body["key"]]
            ctx.disagreements = []
        print(f"[replay] {replay_key}: {'reproduced' if (ctx.violations or ctx.disagreements) else 'not reproduced'}", file=sys.stderr)
    else:
        ctx.driver_ok = lb["build_ok"]
        try:
            mod.run(ctx)
        except Exception as e:  # noqa: BLE001
            # an exception that escaped every guard: if it was raised inside the library under test (a frame of the traceback
            # lies in the repository) it is the implementation failing on an input of the property's domain -> violation;
            # anything else is a defect of the harness itself and must surface as a crash
            import traceback
            frames = traceback.extract_tb(e.__traceback__)
            in_repo = [f for f in frames if str(REPO) in f.filename and "/tests/" not in f.filename]
            if not in_repo:
                raise
            last = in_repo[-1]
            ctx.violation(f"{prop}:uncaught:{type(e).__name__}", f"the implementation raised {type(e).__name__}: {str(e)[:160]} "
                          f"({last.filename.split('/')[-1]}:{last.lineno}) outside any guarded call; the run was cut short",
                          {"where": f"{frames[-1].filename.split('/')[-1]}:{frames[-1].lineno}"})

    # 2b. a correspondence or a proof no longer checks but the oracle saw nothing this run: search the real code for a
    #     concrete failing input with further generator seeds (bounded by time) before settling for no-failing-input-found
    replay_seed = seed
    search = None
    if not a.replay and not ctx.violations and (ctx.disagreements or not proofs_ok):
        import time
        t0, rounds = time.time(), 0
        budget = float(os.environ.get("VERIF_SEARCH_S", "150" if a.tier == "quick" else "1200"))
        while time.time() - t0 < budget and rounds < 24:
            rounds += 1
            s2 = (seed + 1) * 100003 + rounds
            c2 = Ctx(prop, a.tier, s2)
            c2.driver_ok = False          # oracle only: the correspondence is already known to be broken
            try:
                mod.run(c2)
            except Exception as e:  # noqa: BLE001
                print(f"[search] round {rounds}: {type(e).__name__}: {e}", file=sys.stderr)
                continue
            if c2.violations:
                ctx.violations, replay_seed = c2.violations, s2
                break
        search = {"rounds": rounds, "found": bool(ctx.violations), "seed": replay_seed if ctx.violations else None,
                  "wall_s": round(time.time() - t0, 1)}
        print(f"[search] failing-input search: {search}", file=sys.stderr)

    # 3. verdict
    rc = 0
    for key, kh in ctx.known_hits.items():
        print(f"KNOWN-FINDING: property={prop} {key}: {kh['what']} ({kh['n']} case(s) this run)")
    lines = []
    if ctx.violations:
        rc = 1
        seen = set()
        for i, v in enumerate(ctx.violations):
            if v["key"] in seen:
                continue
            seen.add(v["key"])
            if len(seen) > ctx.max_report:
                break
            path = write_replay(prop, replay_seed, i, {"property": prop, "seed": replay_seed, "tier": a.tier,
                                                       "kind": "failing-input", **v})
            lines.append(f"VIOLATION property={prop} replay={path}")
            print(f"  {v['key']}: {v['what']}", file=sys.stderr)
    elif ctx.disagreements or not proofs_ok:
        rc = 1
        body = {"property": prop, "seed": seed, "tier": a.tier, "kind": "no-failing-input-found",
                "broken_correspondences": sorted({d["correspondence"] for d in ctx.disagreements}),
                "theorems_resting_on_them": sorted({t for d in ctx.disagreements for t in d["theorems"]}),
                "disagreements": ctx.disagreements[:20],
                "proofs": {"build_ok": lb["build_ok"], "forbidden": lb.get("forbidden"),
                           "failed": ob["failed"], "build_log": lb["build_log"][-1500:] if not lb["build_ok"] else "",
                           **({"leanchecker": rechecked} if rechecked is not None else {})}}
        path = write_replay(prop, seed, 0, body)
        lines.append(f"VIOLATION property={prop} replay={path} no-failing-input-found")
    for l in lines:
        print(l)

    # 4. evidence
    level = getattr(mod, "LEVEL", "proof")
    cov = {
        "evaluations": ctx.evaluations,
        "distinct_nontrivial": ctx.distinct_nontrivial,
        "rule": ctx.rule,
        "samples": ctx.samples[:8] or ["(none)"],
        "histogram": dict(sorted(ctx.hist.items())),
        "obligations": len(ob["theorems"]),
        "discharged": len(ob["discharged"]),
        "theorems": ob["theorems"],
        "checker_cmd": "cd lean && lake build && lake env lean .lake/VerifAudit.lean   # #print axioms on every registered theorem",
        "trusted_base": TRUSTED_BASE,
        "disagreements_checked": len(ctx.disagreements),
        "known_findings_hit": {k: v["n"] for k, v in ctx.known_hits.items()},
        "explanation": getattr(mod, "EXPLANATION", ""),
        "lean": {"build_ok": lb["build_ok"], "source_hash": lb.get("hash"), "forbidden_hits": lb.get("forbidden"),
                 "axioms": {t: lb.get("axioms", {}).get(t) for t in ob["theorems"]},
                 **({"leanchecker": {k: v for k, v in rechecked.items() if k != "log"}} if rechecked is not None else {})},
        "repo": str(REPO),
        **({"failing_input_search": search} if search else {}),
        **ctx.extra,
    }
    if ctx.exhaustive is not None:
        cov["exhaustive"] = ctx.exhaustive
    ev = {
        "property_id": prop,
        "tier": a.tier,
        "seed": seed,
        "level": level,
        "coverage": cov,
        "assumptions": ctx.assumptions + getattr(mod, "ASSUMPTIONS", []),
        "wall_s": round(ctx.elapsed(), 2),
        "violations": len(ctx.violations) + (1 if (rc == 1 and not ctx.violations) else 0),
    }
    if not a.replay:
        EVIDENCE.mkdir(parents=True, exist_ok=True)
        (EVIDENCE / f"{prop}.json").write_text(json.dumps(ev, indent=1, default=str))
    print(f"[{prop}] tier={a.tier} seed={seed} evaluations={ctx.evaluations} distinct={ctx.distinct_nontrivial} "
          f"theorems={len(ob['discharged'])}/{len(ob['theorems'])} disagreements={len(ctx.disagreements)} "
          f"violations={len(ctx.violations)} known={len(ctx.known_hits)} wall={ctx.elapsed():.1f}s", file=sys.stderr)
    return rc


if __name__ == "__main__":
    try:
        sys.exit(main())
    except SystemExit:
        raise
    except BaseException:
        traceback.print_exc()
        sys.exit(2)
