"""Fresh-process measurement: `python -m harness.cold` reads pickled [(OpCase, data_seed, up_seed)] on stdin and prints
the fitted forward / backward scalars of each, measured in float64 with no call history at all.  The C02 check compares
them with the scalars it measures in-process after lower-precision warm-up calls ("never varies between repeated calls")."""
from __future__ import annotations

import json
import math
import pickle
import sys
import warnings


def main() -> None:
    warnings.filterwarnings("ignore")
    from .common import import_repo
    import_repo()
    import torch
    import unit_scaling.functional as U
    from . import ops

    torch.set_num_threads(1)
    out = []
    for case, ds, us in pickle.load(sys.stdin.buffer):
        try:
            m = ops.measure(U, case, ds, us)
            out.append({"fwd": m.fwd, "bwd": {k: (None if math.isnan(v) else v) for k, v in m.bwd.items()}})
        except Exception as e:  # noqa: BLE001
            out.append({"err": f"{type(e).__name__}: {e}"})
    sys.stdout.write(json.dumps(out))


if __name__ == "__main__":
    main()
