"""Build the Lean project and audit the axioms of the property theorems.

* `lake build` (no-op when fresh) — builds model, proofs and the native driver.
* source scan: no `sorry`, `admit`, `axiom`, `native_decide`, `bv_decide`, `implemented_by`,
  `unsafe`, `maxHeartbeats 0` outside comments.
* `#print axioms` on every theorem registered for the property in
  `lean/USProofs/registry.json`; each must depend on at most propext / Classical.choice /
  Quot.sound.  The audit result is cached by the hash of all Lean sources.
"""
from __future__ import annotations

import fcntl
import hashlib
import json
import os
import re
import subprocess
import time
from pathlib import Path
from typing import Any, Dict, List, Tuple

from .common import ALLOWED_AXIOMS, LEAN

CACHE = LEAN / ".lake" / "verif_audit.json"
LOCK = LEAN / ".lake_verif.lock"
FORBIDDEN = re.compile(
    r"\bsorry\b|\badmit\b|^\s*axiom\s|\bnative_decide\b|\bbv_decide\b|implemented_by|\bunsafe\s|maxHeartbeats\s+0\b"
)


def _sources() -> List[Path]:
    out = [p for p in LEAN.rglob("*.lean") if ".lake" not in p.parts]
    out.append(LEAN / "lakefile.toml")
    out.append(LEAN / "USProofs" / "registry.json")
    return sorted(out)


def source_hash() -> str:
    h = hashlib.sha256()
    for p in _sources():
        h.update(str(p.relative_to(LEAN)).encode())
        h.update(p.read_bytes() if p.exists() else b"")
    return h.hexdigest()


def strip_comments(text: str) -> str:
    # remove nested block comments /- ... -/ and line comments
    out = []
    i, depth, n = 0, 0, len(text)
    while i < n:
        if text.startswith("/-", i):
            depth += 1
            i += 2
        elif depth and text.startswith("-/", i):
            depth -= 1
            i += 2
        elif depth:
            if text[i] == "\n":
                out.append("\n")
            i += 1
        elif text.startswith("--", i):
            while i < n and text[i] != "\n":
                i += 1
        else:
            out.append(text[i])
            i += 1
    return "".join(out)


def scan_forbidden() -> List[str]:
    hits = []
    for p in _sources():
        if p.suffix != ".lean":
            continue
        body = strip_comments(p.read_text())
        # string literals may mention the words (e.g. in messages): drop them
        body = re.sub(r'"(?:\\.|[^"\\])*"', '""', body)
        for ln, line in enumerate(body.splitlines(), 1):
            if FORBIDDEN.search(line):
                hits.append(f"{p.relative_to(LEAN)}:{ln}: {line.strip()[:120]}")
    return hits


def registry() -> Dict[str, List[str]]:
    return json.loads((LEAN / "USProofs" / "registry.json").read_text())


def _run(cmd: List[str], timeout: float) -> Tuple[int, str]:
    p = subprocess.run(cmd, cwd=LEAN, capture_output=True, text=True, timeout=timeout)
    return p.returncode, (p.stdout + p.stderr)


def build_and_audit() -> Dict[str, Any]:
    """Returns {"build_ok", "build_log", "forbidden", "axioms": {thm: [axioms] | None}}."""
    LEAN.joinpath(".lake").mkdir(exist_ok=True)
    with open(LOCK, "w") as lk:
        fcntl.flock(lk, fcntl.LOCK_EX)
        h = source_hash()
        t0 = time.time()
        rc, log = _run(["lake", "build"], timeout=3000)
        res: Dict[str, Any] = {"build_ok": rc == 0, "build_log": log[-4000:], "hash": h,
                               "build_s": round(time.time() - t0, 1)}
        if rc != 0:
            res["forbidden"] = scan_forbidden()
            res["axioms"] = {}
            return res
        if CACHE.exists():
            try:
                c = json.loads(CACHE.read_text())
                if c.get("hash") == h:
                    c["build_s"] = res["build_s"]
                    c["cached"] = True
                    return c
            except Exception:
                pass
        res["forbidden"] = scan_forbidden()
        reg = registry()
        names = sorted({t for ts in reg.values() for t in ts})
        audit = LEAN / ".lake" / "VerifAudit.lean"
        audit.write_text("import USProofs\n" + "".join(f"#print axioms {n}\n" for n in names))
        rc, out = _run(["lake", "env", "lean", str(audit)], timeout=1800)
        axioms: Dict[str, Any] = {n: None for n in names}
        # messages may wrap over several lines: normalise whitespace first
        flat = re.sub(r"\s+", " ", out)
        for m in re.finditer(r"'([^']+)' depends on axioms: \[([^\]]*)\]", flat):
            axioms[m.group(1)] = [a.strip() for a in m.group(2).split(",") if a.strip()]
        for m in re.finditer(r"'([^']+)' does not depend on any axioms", flat):
            axioms[m.group(1)] = []
        res["axioms"] = axioms
        res["audit_rc"] = rc
        res["audit_log"] = out[-3000:] if rc != 0 else ""
        res["audit_s"] = round(time.time() - t0 - res["build_s"], 1)
        CACHE.write_text(json.dumps(res))
        return res


RECHECK = LEAN / ".lake" / "verif_recheck.json"


def recheck(prop: str) -> Dict[str, Any]:
    """Thorough tier: replay the compiled proofs of the property's modules through `leanchecker`, the toolchain's
    independent re-checker of .olean files (every declaration is re-checked by a fresh kernel instance; a declaration the
    kernel does not accept, or an olean that does not match its source build, makes it exit non-zero).  Cached by the hash of
    all Lean sources."""
    mods = sorted("USProofs.Properties." + f.stem for f in (LEAN / "USProofs" / "Properties").glob(prop + "*.lean"))
    with open(LOCK, "w") as lk:
        fcntl.flock(lk, fcntl.LOCK_EX)
        h = source_hash()
        cache: Dict[str, Any] = {}
        if RECHECK.exists():
            try:
                cache = json.loads(RECHECK.read_text())
            except Exception:
                cache = {}
        if cache.get("hash") != h:
            cache = {"hash": h, "props": {}}
        if prop in cache["props"]:
            return {**cache["props"][prop], "cached": True}
        t0 = time.time()
        try:
            rc, out = _run(["lake", "env", "leanchecker"] + mods, timeout=1800)
        except Exception as e:  # noqa: BLE001
            rc, out = 1, f"{type(e).__name__}: {e}"
        res = {"modules": mods, "ok": rc == 0 and bool(mods), "log": out[-1500:] if rc != 0 else "", "wall_s": round(time.time() - t0, 1)}
        cache["props"][prop] = res
        RECHECK.write_text(json.dumps(cache))
        return res


def obligations_for(prop: str, res: Dict[str, Any]) -> Dict[str, Any]:
    reg = registry()
    thms = reg.get(prop, [])
    ok, bad = [], []
    for t in thms:
        ax = res.get("axioms", {}).get(t)
        if res.get("build_ok") and ax is not None and set(ax) <= ALLOWED_AXIOMS:
            ok.append(t)
        else:
            bad.append({"theorem": t, "axioms": ax})
    return {"theorems": thms, "discharged": ok, "failed": bad}
