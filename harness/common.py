"""Shared plumbing of the correspondence harness.

Every check:
  1. builds the Lean project (no-op when fresh) and audits the axioms of the property's
     theorems (`leanbuild.py`);
  2. runs its generator; for every case evaluates (a) the *property oracle* directly on the
     real implementation imported from the repository working tree and (b) the
     *correspondence* model-vs-implementation through the native Lean driver;
  3. decides:  oracle failure            -> VIOLATION with the failing input as replay
               correspondence broken only -> VIOLATION ... no-failing-input-found
               listed known finding       -> KNOWN-FINDING line, exit code unaffected.
"""
from __future__ import annotations

import hashlib
import json
import math
import os
import random
import struct
import sys
import time
from pathlib import Path
from typing import Any, Callable, Dict, Iterable, List, Optional

VERIF = Path(__file__).resolve().parent.parent
REPO = Path(os.environ.get("VERIF_REPO", "/repo")).resolve()
LEAN = VERIF / "lean"
DRIVER = LEAN / ".lake" / "build" / "bin" / "usdriver"
# VERIF_OUT redirects evidence/replays (used when trying seeded mutations in a scratch tree)
_OUT = Path(os.environ["VERIF_OUT"]).resolve() if os.environ.get("VERIF_OUT") else VERIF
EVIDENCE = _OUT / "evidence"
REPLAYS = _OUT / "replays"
KNOWN = VERIF / "known_findings.json"

ALLOWED_AXIOMS = {"propext", "Classical.choice", "Quot.sound"}


def import_repo():
    """Import unit_scaling from the repository working tree (never a cached copy)."""
    sys.path.insert(0, str(REPO))
    import unit_scaling  # noqa

    f = Path(unit_scaling.__file__).resolve()
    if not str(f).startswith(str(REPO) + os.sep):
        raise RuntimeError(f"unit_scaling imported from {f}, expected under {REPO}")
    return unit_scaling


# ---------------------------------------------------------------- float helpers
def f2b(x: float) -> int:
    return struct.unpack("<Q", struct.pack("<d", float(x)))[0]


def b2f(b: int) -> float:
    return struct.unpack("<d", struct.pack("<Q", int(b)))[0]


def ulp_diff(a: float, b: float) -> float:
    """Distance between two finite doubles in units in the last place."""
    if a == b:
        return 0.0
    if math.isnan(a) or math.isnan(b) or math.isinf(a) or math.isinf(b):
        return math.inf

    def key(x: float) -> int:
        i = struct.unpack("<q", struct.pack("<d", x))[0]
        return i if i >= 0 else -(i & 0x7FFFFFFFFFFFFFFF)

    return float(abs(key(a) - key(b)))


def near(a: float, b: float) -> bool:
    """Model Float value vs implementation Python float: equal up to a few thousand ulps (1e-12 relative), so that a
    harmless rewrite of an expression (x**-0.5 vs 1/sqrt(x)) does not break a correspondence."""
    if a == b or (a != a and b != b):
        return True
    return abs(a - b) <= 1e-12 * max(abs(a), abs(b))


def rel_close(a: float, b: float, rtol: float) -> bool:
    if a == b:
        return True
    return abs(a - b) <= rtol * max(abs(a), abs(b))


def canon(obj: Any) -> str:
    return json.dumps(obj, sort_keys=True, default=str)


# ---------------------------------------------------------------- known findings
def load_known() -> Dict[str, Any]:
    if KNOWN.exists():
        return json.loads(KNOWN.read_text())
    return {"findings": [], "fixed": []}


class Ctx:
    """Accumulates coverage, disagreements and violations for one check run."""

    def __init__(self, prop: str, tier: str, seed: int) -> None:
        self.prop = prop
        self.tier = tier
        self.seed = seed
        self.rng = random.Random(f"{prop}:{seed}")
        self.t0 = time.time()
        self.evaluations = 0
        self._distinct: set = set()
        self.distinct_extra = 0   # distinct cases counted in bulk (exhaustive sweeps), not hashed one by one
        self.samples: List[Any] = []
        self.hist: Dict[str, int] = {}
        self.violations: List[Dict[str, Any]] = []  # oracle failures (not known)
        self.known_hits: Dict[str, Dict[str, Any]] = {}
        self.disagreements: List[Dict[str, Any]] = []
        self.notes: List[str] = []
        self.extra: Dict[str, Any] = {}
        self.rule = ""
        self.assumptions: List[str] = []
        self.exhaustive: Optional[bool] = None
        self.known = load_known()
        self._known_keys = {
            f["key"]: f for f in self.known.get("findings", []) if f.get("property") == prop
        }
        self.max_report = 5

    # -- coverage
    def count(self, case: Any, nontrivial: bool = True, bucket: Optional[str] = None) -> None:
        self.evaluations += 1
        if nontrivial:
            self._distinct.add(hashlib.blake2b(canon(case).encode(), digest_size=8).digest())
        if bucket is not None:
            self.hist[bucket] = self.hist.get(bucket, 0) + 1
        if len(self.samples) < 6 and (self.evaluations in (1, 2, 3) or self.rng.random() < 0.002):
            self.samples.append(case)

    def bump(self, bucket: str, n: int = 1) -> None:
        self.hist[bucket] = self.hist.get(bucket, 0) + n

    @property
    def distinct_nontrivial(self) -> int:
        return len(self._distinct) + self.distinct_extra

    # -- verdicts
    def violation(self, key: str, what: str, case: Any, observed: Any = None) -> None:
        """The property oracle failed on the real implementation for `case`."""
        if key in self._known_keys:
            if key not in self.known_hits:
                self.known_hits[key] = {"what": self._known_keys[key].get("what", what), "n": 0,
                                        "example": case}
            self.known_hits[key]["n"] += 1
            return
        self.violations.append({"key": key, "what": what, "case": case, "observed": observed})

    def disagree(self, name: str, case: Any, model: Any, impl: Any, theorems: Iterable[str] = ()) -> None:
        """Model and implementation differ on `case` (correspondence `name` broken)."""
        self.disagreements.append(
            {"correspondence": name, "case": case, "model": model, "impl": impl,
             "theorems": list(theorems)}
        )

    def guard(self, key: str, case: Any):
        """Context manager: an exception raised by the implementation on an input inside the
        property's quantifier is a failure of the property (not a harness crash)."""
        ctx = self

        class _G:
            failed = False

            def __enter__(self_g):
                return self_g

            def __exit__(self_g, et, ev, tb):
                if et is None or not issubclass(et, Exception):
                    return False
                import traceback as _tb
                self_g.failed = True
                frames = _tb.extract_tb(tb)
                where = f"{frames[-1].filename.split('/')[-1]}:{frames[-1].lineno}" if frames else ""
                ctx.violation(f"{key}:{et.__name__}", f"implementation raised {et.__name__}: {str(ev)[:160]} ({where})",
                              case, {"exception": et.__name__})
                return True

        return _G()

    def elapsed(self) -> float:
        return time.time() - self.t0
