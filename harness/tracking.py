"""Tracked graphs for C18 / C19: run the scale-tracking backend directly on FX graphs of generated
programs (no Dynamo) or through the real `track_scales` (Dynamo), and serialise with metadata."""
from __future__ import annotations

from typing import Any, Dict, List, Optional, Tuple

import torch

from . import fxgraphs as fg
from .common import f2b


def run_tracked_direct(prog: fg.Program, seed: int, backward: bool = True, dtype: torch.dtype = torch.float32):
    """ScaleTrackingBackend called on the plainly traced FX graph; returns (graph, outputs, module, inputs)."""
    from unit_scaling.transforms._track_scales import ScaleTrackingBackend

    mod = fg.make_module(prog, seed=seed).to(dtype)
    gm = fg.trace_fx(mod)
    backend = ScaleTrackingBackend()
    interp = backend(gm, [])
    xs = [x.clone().requires_grad_(True) if x.is_floating_point() else x for x in fg.make_inputs(prog, seed, dtype)]
    out = interp(*xs)
    outs = out if isinstance(out, tuple) else (out,)
    if backward:
        g = torch.Generator().manual_seed(seed + 5)
        loss = sum((t * torch.randn(t.shape, generator=g).to(t.dtype)).sum() for t in outs if t.is_floating_point())
        loss.backward()
    return backend.graph, outs, mod, xs


def serialise_tracked(graph: torch.fx.Graph) -> List[Dict[str, Any]]:
    nodes = fg.serialise(graph)
    for d, n in zip(nodes, graph.nodes):
        d["name"] = n.name
        d["outputs_float_tensor"] = bool(n.meta.get("outputs_float_tensor", False))
        m = n.meta.get("metrics")
        if m is not None:
            d["fwd_mean_abs"] = f2b(m.fwd.mean_abs)
            if m.bwd is not None:
                d["bwd_mean_abs"] = f2b(m.bwd.mean_abs)
    return nodes
