"""Shared measurement facility for the 16 public functions of `unit_scaling.functional`.

For a configuration (`OpCase`) it builds inputs, calls the real unit-scaled function and an
independent PyTorch reference (with the documented `mult` temperature inside), and fits

    out      = a   · ref                      (forward scalar)
    grad_i   = b_i · autograd(ref)_i          (one scalar per differentiable input)

The reference is built from torch primitives only, never from the library's `_unscaled_*`
helpers.  Used by C01, C02, C03, C05 (and C04 / C20 for the call wrappers).
"""
from __future__ import annotations

import math
import random
from dataclasses import dataclass, field
from typing import Any, Callable, Dict, List, Optional, Tuple

import torch
import torch.nn.functional as F

PRIMES = [2, 3, 5, 7, 11, 13]
BINARY = ["to_output_scale", "to_grad_input_scale", "gmean", "hmean", "amean"]
TERNARY = ["to_output_scale", "to_left_grad_scale", "to_right_grad_scale", "gmean", "hmean", "amean"]
OPS = ["gelu", "silu", "silu_glu", "softmax", "dropout", "matmul", "linear", "linear_readout", "conv1d",
       "layer_norm", "rms_norm", "add", "embedding", "scaled_dot_product_attention", "cross_entropy", "mse_loss"]
IDENTITY_FWD = {"layer_norm", "rms_norm", "embedding", "cross_entropy", "mse_loss"}


@dataclass
class OpCase:
    op: str
    cfg: Dict[str, Any]
    # names of tensor inputs in call order, their shapes, which are differentiable
    shapes: Dict[str, Tuple[int, ...]] = field(default_factory=dict)
    diff: List[str] = field(default_factory=list)

    def key(self) -> Dict[str, Any]:
        return {"op": self.op, **{k: (list(v) if isinstance(v, tuple) else v) for k, v in self.cfg.items()},
                "shapes": {k: list(v) for k, v in self.shapes.items()}}


def _distinct_primes(rng: random.Random, n: int) -> List[int]:
    return rng.sample(PRIMES, n)


def _lead(rng: random.Random, maxn: int = 3) -> Tuple[int, ...]:
    return tuple(rng.choice([2, 3, 5]) for _ in range(rng.randint(0, maxn)))


def _mult(rng: random.Random) -> float:
    return rng.choice([1.0, 1.0, 0.0625, 16.0, 0.5, 2.0, math.exp(rng.uniform(math.log(1 / 16), math.log(16)))])


def gen_case(rng: random.Random, op: str, constraint: Any = "random") -> OpCase:
    """A random valid configuration of `op`; `constraint="random"` draws any valid name or None."""
    def con(names):
        if constraint == "random":
            return rng.choice(names + [None, None])
        return constraint

    if op in ("gelu", "silu"):
        shape = tuple(_distinct_primes(rng, rng.randint(1, 4)))
        cfg = {"mult": _mult(rng), "constraint": con(BINARY)}
        if op == "gelu":
            cfg["approximate"] = rng.choice(["none", "tanh"])
        return OpCase(op, cfg, {"input": shape}, ["input"])
    if op == "silu_glu":
        shape = tuple(_distinct_primes(rng, rng.randint(1, 4)))
        return OpCase(op, {"mult": _mult(rng)}, {"input": shape, "gate": shape}, ["input", "gate"])
    if op == "softmax":
        shape = tuple(_distinct_primes(rng, rng.randint(1, 4)))
        dim = rng.randint(-len(shape), len(shape) - 1)
        # `dtype=`: the computation (and the result) in a wider dtype than the input's, as F.softmax offers
        return OpCase(op, {"dim": dim, "mult": _mult(rng), "constraint": con(BINARY),
                           "dtype": rng.choice([None, None, "float64"])}, {"input": shape}, ["input"])
    if op == "dropout":
        shape = tuple(_distinct_primes(rng, rng.randint(1, 4)))
        return OpCase(op, {"p": rng.choice([0.0, 0.1, 0.5, 0.9]), "training": rng.random() < 0.7},
                      {"input": shape}, ["input"])
    if op == "matmul":
        m, k, n = _distinct_primes(rng, 3)
        lead = _lead(rng)
        mode = rng.choice(["equal", "equal", "left_only", "broadcast"])
        if mode == "equal":
            ls, rs = lead + (m, k), lead + (k, n)
        elif mode == "left_only":
            ls, rs = lead + (m, k), (k, n)
        else:
            rl = tuple(1 if rng.random() < 0.5 else d for d in lead)
            ls, rs = lead + (m, k), rl + (k, n)
        return OpCase(op, {"constraint": con(TERNARY), "mode": mode}, {"left": ls, "right": rs}, ["left", "right"])
    if op in ("linear", "linear_readout"):
        fi, fo = _distinct_primes(rng, 2)
        if rng.random() < 0.15:
            fo = 1
        lead = _lead(rng)
        bias = rng.random() < 0.6
        shapes = {"input": lead + (fi,), "weight": (fo, fi)}
        diff = ["input", "weight"]
        if bias:
            shapes["bias"] = (fo,)
            diff.append("bias")
        cfg_ = {"constraint": con(BINARY), "bias": bias}
        if len(lead) >= 2 and rng.random() < 0.4:
            cfg_["input_layout"] = "permuted"
        return OpCase(op, cfg_, shapes, diff)
    if op == "conv1d":
        groups = rng.choice([1, 1, 2, 3])
        cin_g, cout_g = rng.choice([1, 2, 3, 5]), rng.choice([1, 2, 3, 5])
        k = rng.randint(1, 5)
        stride, dilation = rng.randint(1, 3), rng.randint(1, 2)
        padding = rng.choice([0, 0, 1, 2])
        seq = dilation * (k - 1) + 1 + rng.randint(0, 12)
        lead = rng.choice([(), (2,), (3,), (5,)])
        bias = rng.random() < 0.5
        shapes = {"input": lead + (cin_g * groups, seq), "weight": (cout_g * groups, cin_g, k)}
        diff = ["input", "weight"]
        if bias:
            shapes["bias"] = (cout_g * groups,)
            diff.append("bias")
        return OpCase(op, {"stride": stride, "padding": padding, "dilation": dilation, "groups": groups,
                           "constraint": con(BINARY), "bias": bias}, shapes, diff)
    if op in ("layer_norm", "rms_norm"):
        shape = tuple(_distinct_primes(rng, rng.randint(1, 4)))
        nn_ = rng.randint(1, min(2, len(shape)))
        if rng.random() < 0.25:
            k_ = rng.choice([2, 3, 4])
            shape = tuple(_distinct_primes(rng, rng.randint(0, 2))) + (k_, k_)       # normalised dims of equal size
            nn_ = 2
        norm_shape = shape[-nn_:]
        affine = rng.random() < 0.7
        shapes = {"input": shape}
        diff = ["input"]
        if affine:
            shapes["weight"] = norm_shape
            diff.append("weight")
            if op == "layer_norm" and rng.random() < 0.7:
                shapes["bias"] = norm_shape
                diff.append("bias")
        elif op == "layer_norm" and rng.random() < 0.5:
            shapes["bias"] = norm_shape            # bias without gain: F.layer_norm(x, shape, None, b)
            diff.append("bias")
        return OpCase(op, {"normalized_shape": norm_shape, "eps": rng.choice([1e-5, 1e-5, 1e-3, 1e-8])}, shapes, diff)
    if op == "add":
        shape = tuple(_distinct_primes(rng, rng.randint(1, 4)))
        mode = rng.choice(["same", "same", "size1", "missing", "missing+size1", "leading1", "scalar_tensor", "number"])
        other: Any
        if mode == "same":
            other = shape
        elif mode == "size1":
            other = tuple(1 if rng.random() < 0.5 else d for d in shape)
        elif mode == "missing":
            other = shape[rng.randint(1, len(shape)):] if len(shape) > 1 else shape
        elif mode == "missing+size1":
            tail = shape[rng.randint(1, len(shape)):] if len(shape) > 1 else shape
            other = tuple(1 if (i % 2 == 0 or rng.random() < 0.5) else d for i, d in enumerate(tail)) if len(tail) > 1 \
                else ((1,) if len(shape) > 1 else shape)
        elif mode == "leading1":
            other = (1,) * rng.randint(1, 2) + shape      # same element count, higher rank
        elif mode == "scalar_tensor":
            other = rng.choice([(), (1,), (1,) * len(shape)])
        else:
            other = None
        cfg = {"constraint": con(TERNARY), "mode": mode, "swap": rng.random() < 0.5}
        if mode == "number":
            cfg["number"] = rng.choice([2, -1.5, 0.25])
            return OpCase(op, cfg, {"input": shape}, ["input"])
        a, b = (other, shape) if cfg["swap"] else (shape, other)
        return OpCase(op, cfg, {"input": a, "other": b}, ["input", "other"])
    if op == "embedding":
        vocab, dim = rng.choice([5, 7, 11, 13]), rng.choice([2, 3, 5])
        idx_shape = tuple(rng.choice([2, 3, 5]) for _ in range(rng.randint(1, 3)))
        cfg = {"padding_idx": rng.choice([None, None, 0, vocab - 1, -1]),
               "max_norm": rng.choice([None, None, None, 1.0, 100.0]), "idx_shape": idx_shape, "vocab": vocab}
        return OpCase(op, cfg, {"weight": (vocab, dim)}, ["weight"])
    if op == "scaled_dot_product_attention":
        lead = rng.choice([(), (2,), (2, 3), (3, 2)])
        L = rng.choice([3, 5, 7])
        S = L if rng.random() < 0.7 else rng.choice([2, 5, 11])
        d = rng.choice([2, 3, 5])
        causal = rng.random() < 0.4 and True
        mask = None
        if not causal:
            mask = rng.choice([None, None, "bool", "float"])
        if causal:
            S = L
        cfg = {"is_causal": causal, "attn_mask": mask, "dropout_p": rng.choice([0.0, 0.0, 0.0, 0.1, 0.3]),
               "mult": _mult(rng)}
        return OpCase(op, cfg, {"query": lead + (L, d), "key": lead + (S, d), "value": lead + (S, d)},
                      ["query", "key", "value"])
    if op == "cross_entropy":
        vocab = rng.choice([2, 3, 5, 7, 11])
        if rng.random() < 0.25:
            shape: Tuple[int, ...] = (vocab,)
        else:
            shape = (rng.choice([2, 3, 5, 7]), vocab)
        cfg = {"reduction": rng.choice(["mean", "sum"]), "mult": _mult(rng) if rng.random() < 0.6 else 1.0,
               "ignore_index": rng.choice([-100, -100, 0, 1]), "hit_ignore": rng.random() < 0.3, "vocab": vocab}
        return OpCase(op, cfg, {"input": shape}, ["input"])
    if op == "mse_loss":
        shape = tuple(_distinct_primes(rng, rng.randint(1, 3)))
        return OpCase(op, {"reduction": rng.choice(["mean", "sum"])}, {"input": shape, "target": shape},
                      ["input", "target"])
    raise KeyError(op)


# ------------------------------------------------------------------------------ inputs
def make_inputs(case: OpCase, seed: int, dtype: torch.dtype = torch.float64) -> Dict[str, Any]:
    g = torch.Generator().manual_seed(seed)
    t: Dict[str, Any] = {}
    for name, shape in case.shapes.items():
        x = torch.randn(shape, generator=g, dtype=torch.float64).to(dtype)
        if case.op in ("layer_norm", "rms_norm") and name in ("weight", "bias"):
            x = x + (1.0 if name == "weight" else 0.0)
        if case.cfg.get("input_layout") == "permuted" and name == "input" and x.dim() >= 3:
            # same shape and values, leading dims stored in permuted order (as after a transpose / head-split permute):
            # not mergeable by `view`
            x = x.transpose(0, 1).contiguous().transpose(0, 1)
        t[name] = x
    cfg = case.cfg
    if case.op == "embedding":
        idx = torch.randint(0, cfg["vocab"], cfg["idx_shape"], generator=g)
        t["idx"] = idx
    if case.op == "cross_entropy":
        shape = case.shapes["input"]
        if len(shape) == 1:
            tgt = torch.randint(0, cfg["vocab"], (), generator=g)
            # a single ignored target gives a 0/0 mean in PyTorch: never ignore the only target
            if int(tgt) == cfg["ignore_index"]:
                tgt = torch.tensor((int(tgt) + 1) % cfg["vocab"])
        else:
            tgt = torch.randint(0, cfg["vocab"], (shape[0],), generator=g)
            if cfg["hit_ignore"] and cfg["ignore_index"] >= 0:
                tgt[0] = cfg["ignore_index"]
                tgt[-1] = (cfg["ignore_index"] + 1) % cfg["vocab"]  # at least one valid target
            elif cfg["ignore_index"] >= 0:
                tgt[tgt == cfg["ignore_index"]] = (cfg["ignore_index"] + 1) % cfg["vocab"]
        t["target"] = tgt
    if case.op == "scaled_dot_product_attention" and cfg["attn_mask"] is not None:
        L, S = case.shapes["query"][-2], case.shapes["key"][-2]
        gm = torch.Generator().manual_seed(12345)  # mask is a hyper-parameter, not data
        if cfg["attn_mask"] == "bool":
            m = torch.rand(L, S, generator=gm) < 0.7
            m[:, 0] = True
            t["mask"] = m
        else:
            t["mask"] = torch.randn(L, S, generator=gm, dtype=torch.float64).to(dtype)
    return t


def reference_survives(case: OpCase, t: Dict[str, Any], timeout_s: float = 20.0) -> bool:
    """PyTorch's own CPU float16 conv1d kernel dies with SIGSEGV for some geometries (torch 2.14: batch 5, length 1,
    stride 2, padding 1, dilation 2, groups 2 - `F.conv1d` alone, no library code involved).  Such a case cannot be
    evaluated at all (the library calls the same kernel), so float16 convolutions are first tried in a forked child; a
    child killed by a signal (or hanging) means the case is skipped and counted, not that anything is wrong with the
    library."""
    import os
    import time as _time
    if not (case.op == "conv1d" and any(torch.is_tensor(v) and v.dtype == torch.float16 for v in t.values())):
        return True
    pid = os.fork()
    if pid == 0:
        try:
            torch.set_num_threads(1)
            call_ref(case, dict(t), 0)
        except BaseException:  # noqa: BLE001
            pass
        os._exit(0)
    t0 = _time.time()
    while _time.time() - t0 < timeout_s:
        done, status = os.waitpid(pid, os.WNOHANG)
        if done:
            return os.WIFEXITED(status)
        _time.sleep(0.01)
    try:
        os.kill(pid, 9)
        os.waitpid(pid, 0)
    except Exception:  # noqa: BLE001
        pass
    return False


def _req(t: Dict[str, Any], case: OpCase) -> Dict[str, Any]:
    out = dict(t)
    for n in case.diff:
        out[n] = t[n].detach().clone().requires_grad_(True)
    return out


# ------------------------------------------------------------------------------ calls
def call_impl(U: Any, case: OpCase, t: Dict[str, Any], rng_seed: int = 0) -> torch.Tensor:
    c, op = case.cfg, case.op
    torch.manual_seed(rng_seed)
    if op == "gelu":
        return U.gelu(t["input"], mult=c["mult"], constraint=c["constraint"], approximate=c["approximate"])
    if op == "silu":
        return U.silu(t["input"], mult=c["mult"], constraint=c["constraint"])
    if op == "silu_glu":
        return U.silu_glu(t["input"], t["gate"], mult=c["mult"])
    if op == "softmax":
        if c.get("dtype"):
            return U.softmax(t["input"], dim=c["dim"], dtype=getattr(torch, c["dtype"]), constraint=c["constraint"], mult=c["mult"])
        return U.softmax(t["input"], dim=c["dim"], constraint=c["constraint"], mult=c["mult"])
    if op == "dropout":
        return U.dropout(t["input"], c["p"], c["training"])
    if op == "matmul":
        return U.matmul(t["left"], t["right"], constraint=c["constraint"])
    if op == "linear":
        return U.linear(t["input"], t["weight"], t.get("bias"), constraint=c["constraint"])
    if op == "linear_readout":
        return U.linear_readout(t["input"], t["weight"], t.get("bias"), constraint=c["constraint"])
    if op == "conv1d":
        return U.conv1d(t["input"], t["weight"], t.get("bias"), c["stride"], c["padding"], c["dilation"],
                        c["groups"], constraint=c["constraint"])
    if op == "layer_norm":
        return U.layer_norm(t["input"], c["normalized_shape"], t.get("weight"), t.get("bias"), c["eps"])
    if op == "rms_norm":
        return U.rms_norm(t["input"], tuple(c["normalized_shape"]), t.get("weight"), c["eps"])
    if op == "add":
        if c["mode"] == "number":
            a, b = (c["number"], t["input"]) if c["swap"] else (t["input"], c["number"])
            return U.add(a, b, constraint=c["constraint"])
        return U.add(t["input"], t["other"], constraint=c["constraint"])
    if op == "embedding":
        return U.embedding(t["idx"], t["weight"], c["padding_idx"], c["max_norm"])
    if op == "scaled_dot_product_attention":
        return U.scaled_dot_product_attention(t["query"], t["key"], t["value"], attn_mask=t.get("mask"),
                                              dropout_p=c["dropout_p"], is_causal=c["is_causal"], mult=c["mult"])
    if op == "cross_entropy":
        return U.cross_entropy(t["input"], t["target"], ignore_index=c["ignore_index"], reduction=c["reduction"],
                               mult=c["mult"])
    if op == "mse_loss":
        return U.mse_loss(t["input"], t["target"], reduction=c["reduction"])
    raise KeyError(op)


def call_ref(case: OpCase, t: Dict[str, Any], rng_seed: int = 0, sum_losses: bool = False) -> torch.Tensor:
    """PyTorch reference with the temperature inside; `sum_losses` gives the sum-reduced loss
    (C02's reference for mean-reduced losses)."""
    c, op = case.cfg, case.op
    torch.manual_seed(rng_seed)
    if op == "gelu":
        return F.gelu(t["input"] * c["mult"], approximate=c["approximate"]) / c["mult"]
    if op == "silu":
        return t["input"] * torch.sigmoid(t["input"] * c["mult"])
    if op == "silu_glu":
        return t["input"] * (t["gate"] * torch.sigmoid(t["gate"] * c["mult"]))
    if op == "softmax":
        if c.get("dtype"):
            return F.softmax(t["input"] * c["mult"], dim=c["dim"], dtype=getattr(torch, c["dtype"]))
        return F.softmax(t["input"] * c["mult"], dim=c["dim"])
    if op == "dropout":
        return F.dropout(t["input"], c["p"], c["training"])
    if op == "matmul":
        return torch.matmul(t["left"], t["right"])
    if op in ("linear", "linear_readout"):
        return F.linear(t["input"], t["weight"], t.get("bias"))
    if op == "conv1d":
        return F.conv1d(t["input"], t["weight"], t.get("bias"), c["stride"], c["padding"], c["dilation"], c["groups"])
    if op == "layer_norm":
        return F.layer_norm(t["input"], c["normalized_shape"], t.get("weight"), t.get("bias"), c["eps"])
    if op == "rms_norm":
        return F.rms_norm(t["input"], list(c["normalized_shape"]), t.get("weight"), c["eps"])
    if op == "add":
        if c["mode"] == "number":
            a, b = (c["number"], t["input"]) if c["swap"] else (t["input"], c["number"])
            return torch.add(a, b)
        return torch.add(t["input"], t["other"])
    if op == "embedding":
        w = t["weight"]
        if c["max_norm"] is not None:
            w = w.clone()  # PyTorch renormalises the table in place
        return F.embedding(t["idx"], w, c["padding_idx"], c["max_norm"])
    if op == "scaled_dot_product_attention":
        d_head = case.shapes["value"][-1]
        return F.scaled_dot_product_attention(t["query"], t["key"], t["value"], attn_mask=t.get("mask"),
                                              dropout_p=c["dropout_p"], is_causal=c["is_causal"],
                                              scale=c["mult"] / d_head)
    if op == "cross_entropy":
        return F.cross_entropy(t["input"] * c["mult"], t["target"], ignore_index=c["ignore_index"],
                               reduction="sum" if sum_losses else c["reduction"])
    if op == "mse_loss":
        return F.mse_loss(t["input"], t["target"], reduction="sum" if sum_losses else c["reduction"])
    raise KeyError(op)


# ------------------------------------------------------------------------------ fitting
def fit(out: torch.Tensor, ref: torch.Tensor) -> Tuple[float, float]:
    """Least-squares scalar `a` with out ≈ a·ref and the relative residual max|out − a·ref| / max|out|."""
    o, r = out.detach().double().flatten(), ref.detach().double().flatten()
    rr = float(torch.dot(r, r))
    if rr == 0.0:
        return (float("nan"), float(o.abs().max()) if o.numel() else 0.0)
    a = float(torch.dot(o, r)) / rr
    scale = max(float(o.abs().max()), float((a * r).abs().max()), 1e-300)
    return a, float((o - a * r).abs().max()) / scale


@dataclass
class Measurement:
    fwd: float
    fwd_resid: float
    bwd: Dict[str, float]
    bwd_resid: Dict[str, float]
    out_shape: Tuple[int, ...]
    ref_shape: Tuple[int, ...]
    out_dtype: Any
    ref_dtype: Any
    mutated: List[str]
    out: Any = None
    ref: Any = None
    bwd_abs1: Dict[str, float] = field(default_factory=dict)   # max |grad - 1*ref_grad|
    up_max: float = 0.0
    in_rms: float = 1.0


def warm_up(U: Any, case: OpCase, seed: int) -> None:
    """Run the same configuration in lower precisions first (forward + backward): nothing a call leaves behind
    (caches keyed on scale values, saved tensors) may leak into a later call in another dtype."""
    for dt in (torch.bfloat16, torch.float32):
        try:
            t = _req(make_inputs(case, seed, dt), case)
            y = call_impl(U, case, t, 7)
            if case.diff:
                torch.autograd.grad(y.float().sum(), [t[n] for n in case.diff], allow_unused=True)
        except Exception:
            pass


def measure(U: Any, case: OpCase, data_seed: int, up_seed: int, dtype: torch.dtype = torch.float64,
            sum_losses_for_grad: bool = True, want_grads: bool = True, warm: bool = False) -> Measurement:
    if warm:
        warm_up(U, case, data_seed)
    base = make_inputs(case, data_seed, dtype)
    ti, tr = _req(base, case), _req(base, case)
    snap = {k: (v.detach().clone(), v._version) for k, v in ti.items() if isinstance(v, torch.Tensor)}
    rs = 1000 + data_seed
    out = call_impl(U, case, ti, rs)
    ref = call_ref(case, tr, rs)
    a, res = fit(out, ref)
    bwd: Dict[str, float] = {}
    bres: Dict[str, float] = {}
    babs1: Dict[str, float] = {}
    up_max = 0.0
    if want_grads and case.diff:
        gref = call_ref(case, tr, rs, sum_losses=sum_losses_for_grad) if case.op in ("cross_entropy", "mse_loss") else ref
        gu = torch.Generator().manual_seed(up_seed * 7919 + 104729)   # never the data stream's seed
        up = torch.randn(out.shape, generator=gu, dtype=torch.float64).to(out.dtype)
        gi = torch.autograd.grad(out, [ti[n] for n in case.diff], up, allow_unused=True)
        gr = torch.autograd.grad(gref, [tr[n] for n in case.diff], up.to(gref.dtype), allow_unused=True)
        for n, x, y in zip(case.diff, gi, gr):
            if x is None or y is None:
                bwd[n], bres[n] = float("nan"), 0.0 if (x is None and y is None) else 1.0
                continue
            bwd[n], bres[n] = fit(x, y)
            babs1[n] = float((x.detach().double() - y.detach().double()).abs().max()) if x.numel() else 0.0
        up_max = float(up.abs().max()) if up.numel() else 0.0
    mutated = [k for k, (v, ver) in snap.items()
               if ti[k]._version != ver or not torch.equal(ti[k].detach(), v)]
    first = next(iter(case.shapes))
    xin = base[first].double() if isinstance(base.get(first), torch.Tensor) and base[first].is_floating_point() else None
    in_rms = float(xin.pow(2).mean().sqrt()) if xin is not None and xin.numel() else 1.0
    return Measurement(a, res, bwd, bres, tuple(out.shape), tuple(ref.shape), out.dtype, ref.dtype, mutated,
                       out.detach(), ref.detach(), babs1, up_max, in_rms)


# ------------------------------------------------------------------------------ model requests
def model_request(case: OpCase) -> Optional[Dict[str, Any]]:
    """The driver request computing the model's (fwd, bwd) scales for this configuration."""
    from .common import f2b

    c, op, s = case.cfg, case.op, case.shapes
    numel = lambda sh: math.prod(sh)  # noqa
    if op in ("gelu", "silu"):
        return {"k": "scale", "op": op, "mult": f2b(c["mult"]), "constraint": c["constraint"]}
    if op == "silu_glu":
        return {"k": "scale", "op": op, "mult": f2b(c["mult"])}
    if op == "softmax":
        return {"k": "scale", "op": op, "dim_size": s["input"][c["dim"]], "mult": f2b(c["mult"]),
                "constraint": c["constraint"]}
    if op == "dropout":
        return {"k": "scale", "op": op, "p": f2b(c["p"])}
    if op == "matmul":
        return {"k": "scale", "op": op, "left": s["left"][-2], "inner": s["left"][-1], "right": s["right"][-1],
                "constraint": c["constraint"]}
    if op in ("linear", "linear_readout"):
        return {"k": "scale", "op": op, "fan_out": s["weight"][0], "fan_in": s["weight"][1],
                "numel": numel(s["input"]), "constraint": c["constraint"]}
    if op == "conv1d":
        return {"k": "scale", "op": op, "fan_out": s["weight"][0], "fan_in": s["weight"][1], "kernel": s["weight"][2],
                "seq_len": s["input"][-1], "lead": numel(s["input"][:-2]) if len(s["input"]) > 2 else 1,
                "stride": c["stride"], "padding": c["padding"], "dilation": c["dilation"], "groups": c["groups"],
                "constraint": c["constraint"]}
    if op in ("layer_norm", "rms_norm"):
        return {"k": "scale", "op": "norm", "norm_numel": numel(c["normalized_shape"]), "numel": numel(s["input"])}
    if op == "add":
        if c["mode"] == "number":
            return None
        return {"k": "scale", "op": op, "shapes": [list(s["input"]), list(s["other"])], "constraint": c["constraint"]}
    if op == "embedding":
        return {"k": "scale", "op": op, "vocab": c["vocab"], "batch": numel(c["idx_shape"])}
    if op == "scaled_dot_product_attention":
        return {"k": "scale", "op": "sdpa", "seq_len": s["value"][-2], "d_head": s["value"][-1],
                "dropout_p": f2b(c["dropout_p"]), "mult": f2b(c["mult"]), "is_causal": c["is_causal"]}
    if op == "cross_entropy":
        sh = s["input"]
        return {"k": "scale", "op": op, "batch": 1 if len(sh) == 1 else sh[0], "vocab": c["vocab"],
                "mean": c["reduction"] == "mean"}
    if op == "mse_loss":
        return {"k": "scale", "op": op, "numel": numel(s["input"]), "mean": c["reduction"] == "mean"}
    return None


def model_bwd_names(case: OpCase) -> List[str]:
    """Order of the model's `bwd` list in terms of input names."""
    op = case.op
    return {
        "gelu": ["input"], "silu": ["input"], "silu_glu": ["input", "gate"], "softmax": ["input"],
        "dropout": ["input"], "matmul": ["left", "right"], "linear": ["input", "weight", "bias"],
        "linear_readout": ["input", "weight", "bias"], "conv1d": ["input", "weight", "bias"],
        "layer_norm": ["input", "weight", "bias"], "rms_norm": ["input", "weight", "bias"],
        "add": ["input", "other"], "embedding": ["weight"],
        "scaled_dot_product_attention": ["query", "key", "value"], "cross_entropy": ["input"],
        "mse_loss": ["input", "target"],
    }[op]
