"""Talks to the native Lean driver (`lean/Main.lean`) over the JSON line protocol."""
from __future__ import annotations

import json
import subprocess
from typing import Any, Dict, List

from .common import DRIVER


class DriverError(RuntimeError):
    pass


def ask(requests: List[Dict[str, Any]], timeout: float = 600.0) -> List[Dict[str, Any]]:
    """Send all requests in one batch; return the responses in order."""
    if not requests:
        return []
    data = "\n".join(json.dumps(r, separators=(",", ":")) for r in requests) + "\n"
    p = subprocess.run([str(DRIVER)], input=data.encode(), capture_output=True, timeout=timeout)
    if p.returncode != 0:
        raise DriverError(f"driver exit {p.returncode}: {p.stderr.decode()[:2000]}")
    lines = p.stdout.decode().splitlines()
    if len(lines) != len(requests):
        raise DriverError(f"driver returned {len(lines)} lines for {len(requests)} requests")
    out = [json.loads(l) for l in lines]
    for req, resp in zip(requests, out):
        if "proto" in resp:
            raise DriverError(f"protocol error {resp['proto']} for {req}")
    return out
