/-
  usdriver — line-protocol driver for the executable model.

  One JSON object per line on stdin, one JSON object per line on stdout, same order.
  Floats cross the boundary as their IEEE binary64 bit patterns (decimal integers),
  never as decimal text.  Errors are `{"err": "<kind>"}` with the small enum of
  `USModel.Err`; protocol errors are `{"proto": "<message>"}`.

  This file imports only the Mathlib-free model, so it links as a native executable.
-/
import Lean.Data.Json
import USModel
open Lean USModel

abbrev R := Except String

def jget (j : Json) (k : String) : R Json :=
  match j.getObjVal? k with
  | .ok v => .ok v
  | .error _ => .error s!"missing key {k}"

def jnat (j : Json) (k : String) : R Nat := do
  match (← jget j k).getNat? with
  | .ok n => pure n
  | .error e => .error s!"{k}: {e}"

def jnatD (j : Json) (k : String) (d : Nat) : R Nat :=
  match j.getObjVal? k with
  | .ok v => match v.getNat? with
    | .ok n => pure n
    | .error e => .error s!"{k}: {e}"
  | .error _ => pure d

def jstr (j : Json) (k : String) : R String := do
  match (← jget j k).getStr? with
  | .ok n => pure n
  | .error e => .error s!"{k}: {e}"

def jbool (j : Json) (k : String) : R Bool := do
  match (← jget j k).getBool? with
  | .ok n => pure n
  | .error e => .error s!"{k}: {e}"

/-- optional string: JSON null or absent ↦ none -/
def jostr (j : Json) (k : String) : R (Option String) :=
  match j.getObjVal? k with
  | .ok Json.null => pure none
  | .ok v => match v.getStr? with
    | .ok s => pure (some s)
    | .error e => .error s!"{k}: {e}"
  | .error _ => pure none

def jonat (j : Json) (k : String) : R (Option Nat) :=
  match j.getObjVal? k with
  | .ok Json.null => pure none
  | .ok v => match v.getNat? with
    | .ok s => pure (some s)
    | .error e => .error s!"{k}: {e}"
  | .error _ => pure none

def jarr (j : Json) (k : String) : R (Array Json) := do
  match (← jget j k).getArr? with
  | .ok n => pure n
  | .error e => .error s!"{k}: {e}"

def asNat (v : Json) : R Nat :=
  match v.getNat? with
  | .ok n => pure n
  | .error e => .error e

def jnats (j : Json) (k : String) : R (List Nat) := do
  (← jarr j k).toList.mapM asNat

def jnatss (j : Json) (k : String) : R (List (List Nat)) := do
  (← jarr j k).toList.mapM fun v => do
    match v.getArr? with
    | .ok a => a.toList.mapM asNat
    | .error e => .error e

def ofBits (n : Nat) : Float := Float.ofBits n.toUInt64
def jflt (j : Json) (k : String) : R Float := do pure (ofBits (← jnat j k))
def jfltD (j : Json) (k : String) (d : Float) : R Float :=
  match j.getObjVal? k with
  | .ok v => match v.getNat? with
    | .ok n => pure (ofBits n)
    | .error e => .error s!"{k}: {e}"
  | .error _ => pure d
def jflts (j : Json) (k : String) : R (List Float) := do
  pure ((← jnats j k).map ofBits)

def fbits (x : Float) : Json := Json.num (JsonNumber.fromNat x.toBits.toNat)
def fbitsL (l : List Float) : Json := Json.arr (l.map fbits).toArray
def jn (n : Nat) : Json := Json.num (JsonNumber.fromNat n)
def ji (n : Int) : Json := Json.num (JsonNumber.fromInt n)
def jerr (e : Err) : Json := Json.mkObj [("err", Json.str e.toString)]

def scalesJson : Except Err (OpScales Float) → Json
  | .ok s => Json.mkObj [("fwd", fbits s.fwd), ("bwd", fbitsL s.bwd)]
  | .error e => jerr e

/-- parse "p/q" or "p" into a `Rat` -/
def parseRat (s : String) : R Rat :=
  match s.splitOn "/" with
  | [p] => match p.toInt? with
    | some a => pure (a : Rat)
    | none => .error s!"bad rat {s}"
  | [p, q] => match p.toInt?, q.toNat? with
    | some a, some b => pure (mkRat a b)
    | _, _ => .error s!"bad rat {s}"
  | _ => .error s!"bad rat {s}"

def ratJson (r : Rat) : Json := Json.str s!"{r.num}/{r.den}"

def scaleCmd (j : Json) : R Json := do
  let op ← jstr j "op"
  let c ← jostr j "constraint"
  let one : Float := 1.0
  match op with
  | "gelu" => pure (scalesJson (geluScales (← jfltD j "mult" one) c))
  | "silu" => pure (scalesJson (siluScales (← jfltD j "mult" one) c))
  | "silu_glu" => pure (scalesJson (.ok (siluGluScales (← jfltD j "mult" one))))
  | "softmax" => pure (scalesJson (softmaxScales (← jnat j "dim_size") (← jfltD j "mult" one) c))
  | "dropout" => pure (scalesJson (.ok (dropoutScales (← jflt j "p"))))
  | "matmul" =>
      pure (scalesJson (matmulScales (← jnat j "left") (← jnat j "inner") (← jnat j "right") c))
  | "linear" =>
      pure (scalesJson (linearScales (← jnat j "fan_out") (← jnat j "fan_in") (← jnat j "numel")
        (← jfltD j "sp0" 0.5) (← jfltD j "sp1" 0.5) (← jfltD j "sp2" 0.5) c))
  | "linear_readout" =>
      pure (scalesJson (linearReadoutScales (← jnat j "fan_out") (← jnat j "fan_in")
        (← jnat j "numel") c))
  | "conv1d" =>
      pure (scalesJson (conv1dScales (← jnat j "fan_out") (← jnat j "fan_in") (← jnat j "kernel")
        (← jnat j "seq_len") (← jnat j "lead") (← jnatD j "stride" 1) (← jnatD j "padding" 0)
        (← jnatD j "dilation" 1) (← jnatD j "groups" 1)
        (← jfltD j "sp0" 0.5) (← jfltD j "sp1" 0.5) (← jfltD j "sp2" 0.5) c))
  | "norm" => pure (scalesJson (.ok (normScales (← jnat j "norm_numel") (← jnat j "numel"))))
  | "add" =>
      match ← jnatss j "shapes" with
      | [a, b] => pure (scalesJson (addScales a b c))
      | _ => .error "add: need two shapes"
  | "residual" =>
      let (a, b) := residualWeights (← jflt j "tau")
      pure (Json.mkObj [("residual", fbits a), ("skip", fbits b)])
  | "embedding" => pure (scalesJson (.ok (embeddingScales (← jnat j "vocab") (← jnat j "batch"))))
  | "sdpa" =>
      pure (scalesJson (.ok (sdpaScales (← jnat j "seq_len") (← jnat j "d_head")
        (← jfltD j "dropout_p" 0.0) (← jfltD j "mult" one) (← jbool j "is_causal"))))
  | "cross_entropy" =>
      pure (scalesJson (.ok (crossEntropyScales (← jnat j "batch") (← jnat j "vocab")
        (← jbool j "mean"))))
  | "mse_loss" => pure (scalesJson (.ok (mseScales (← jnat j "numel") (← jbool j "mean"))))
  | _ => .error s!"unknown op {op}"

partial def parseArg (v : Json) : R Arg :=
  match v.getObjVal? "ref" with
  | .ok i => do pure (.ref (← asNat i))
  | .error _ =>
    match v.getObjVal? "lit" with
    | .ok l => match l.getStr? with
      | .ok s => pure (.lit s)
      | .error e => .error e
    | .error _ =>
      match v.getObjVal? "seq" with
      | .ok xs => do
        let arr ← match xs.getArr? with | .ok a => pure a | .error e => .error e
        let items ← arr.toList.mapM parseArg
        let t := match v.getObjVal? "tuple" with | .ok (Json.bool b) => b | _ => false
        pure (.seq t items)
      | .error _ => .error "bad arg"

partial def argJson : Arg → Json
  | .ref i => Json.mkObj [("ref", jn i)]
  | .lit s => Json.mkObj [("lit", Json.str s)]
  | .seq t xs => Json.mkObj [("seq", Json.arr (xs.map argJson).toArray), ("tuple", Json.bool t)]

def parseNode (v : Json) : R GNode := do
  let args ← (← jarr v "args").toList.mapM parseArg
  let kwargs ← (← jarr v "kwargs").toList.mapM fun kv => do
    match kv.getArr? with
    | .ok #[k, a] => do pure ((k.getStr?.toOption.getD ""), ← parseArg a)
    | _ => .error "bad kwarg"
  let of := match v.getObjVal? "outputs_float_tensor" with | .ok (Json.bool b) => b | _ => false
  let mf := match v.getObjVal? "fwd_mean_abs" with
    | .ok x => match x.getNat? with | .ok n => some (ofBits n) | .error _ => none
    | .error _ => none
  let mb := match v.getObjVal? "bwd_mean_abs" with
    | .ok x => match x.getNat? with | .ok n => some (ofBits n) | .error _ => none
    | .error _ => none
  pure { op := ← jstr v "op", target := ← jstr v "target", args := args, kwargs := kwargs,
         outputsFloat := of, fwdMeanAbs := mf, bwdMeanAbs := mb }

def nodeJson (n : GNode) : Json :=
  Json.mkObj [("op", Json.str n.op), ("target", Json.str n.target), ("args", Json.arr (n.args.map argJson).toArray),
    ("kwargs", Json.arr ((n.kwargs.toArray.qsort (fun a b => a.1 < b.1)).toList.map fun (k, a) => Json.arr #[Json.str k, argJson a]).toArray)]

def graphJson (g : Graph) : Json := Json.arr (g.map nodeJson).toArray

def parseFmt (v : Json) : R Fmt := do
  pure (Fmt.mk (← jnat v "E") (← jnat v "M") (← jstr v "rounding") (← jnat v "srbits")).normalise

def graphCmd (j : Json) : R Json := do
  let g ← (← jarr j "nodes").toList.mapM parseNode
  match ← jstr j "pass" with
  | "simulate" =>
      let fwd ← parseFmt (← jget j "fwd"); let bwd ← parseFmt (← jget j "bwd")
      pure (Json.mkObj [("nodes", graphJson (simulateBackend fwd bwd g))])
  | "identity" => pure (Json.mkObj [("nodes", graphJson g), ("wf", Json.bool (Graph.wellFormed g))])
  | "prune_nonfloat" =>
      let r := pruneNonFloatI g
      pure (Json.mkObj [("nodes", graphJson (IGraph.toGraph r)), ("ids", Json.arr (r.map fun x => jn x.id).toArray)])
  | "prune_same" =>
      let r := pruneSameScaleI (← jflt j "rtol") g
      pure (Json.mkObj [("nodes", graphJson (IGraph.toGraph r)), ("ids", Json.arr (r.map fun x => jn x.id).toArray)])
  | "prune_selected" =>
      let ts ← (← jarr j "targets").toList.mapM fun v => match v.getStr? with | .ok s => pure s | .error e => .error e
      let r := pruneSelectedI ts g
      pure (Json.mkObj [("nodes", graphJson (IGraph.toGraph r)), ("ids", Json.arr (r.map fun x => jn x.id).toArray)])
  | "unit_scale" =>
      let user ← match j.getObjVal? "replace" with
        | .ok v => match v.getArr? with
          | .ok a => a.toList.mapM fun kv => match kv.getArr? with
            | .ok #[x, y] => pure ((x.getStr?.toOption.getD ""), (y.getStr?.toOption.getD ""))
            | _ => .error "bad replace"
          | .error e => .error e
        | .error _ => pure []
      let uct ← match j.getObjVal? "constraint_targets" with
        | .ok v => match v.getArr? with
          | .ok a => pure (a.toList.map fun x => x.getStr?.toOption.getD "")
          | .error e => .error e
        | .error _ => pure []
      pure (Json.mkObj [("nodes", graphJson (unitScaleBackend user uct g)),
                        ("topo", Json.bool (rewritten user g).topoB)])
  | "tables" => pure (Json.mkObj [
      ("torch_map", Json.arr (torchMap.map fun (a, b) => Json.arr #[Json.str a, Json.str b]).toArray),
      ("constraint_targets", Json.arr (constraintTargets.map Json.str).toArray)])
  | p => .error s!"unknown pass {p}"

def parseLrVal (v : Json) : R (Option (LrVal Float)) :=
  match v with
  | Json.null => pure none
  | _ =>
    match v.getObjVal? "f" with
    | .ok b => do pure (some (.flt (ofBits (← asNat b))))
    | .error _ =>
      match v.getObjVal? "c" with
      | .ok a => do pure (some (.cell (← asNat a)))
      | .error _ => .error "bad lr value"

def parseParam (v : Json) : R Param := do
  let tag ← jostr v "tag"
  let t ← match tag with
    | none => pure none
    | some s => match MupType.ofString? s with
      | some t => pure (some t)
      | none => .error s!"bad tag {s}"
  pure ⟨← jnat v "id", t, ← jnats v "shape", ← jonat v "depth"⟩

def parseEntry (v : Json) : R (Entry Float) :=
  match v.getObjVal? "bare" with
  | .ok p => do pure (.bare (← parseParam p))
  | .error _ => do
    let g ← jget v "group"
    let ps ← (← jarr g "params").toList.mapM parseParam
    let lr ← parseLrVal ((g.getObjVal? "lr").toOption.getD Json.null)
    let wd ← match g.getObjVal? "wd" with
      | .ok Json.null => pure none
      | .ok b => do pure (some (ofBits (← asNat b)))
      | .error _ => pure none
    let extra ← (← jarr g "extra").toList.mapM fun kv => do
      match kv.getArr? with
      | .ok #[a, b] => pure ((a.getStr?.toOption.getD ""), (b.getStr?.toOption.getD ""))
      | _ => .error "bad extra"
    pure (.group ⟨ps, lr, wd, extra⟩)

def lrValJson : LrVal Float → Json
  | .flt v => Json.mkObj [("f", fbits v)]
  | .cell a => Json.mkObj [("c", jn a)]

def groupsCmd (j : Json) : R Json := do
  let kind ← match ← jstr j "opt" with
    | "adam" => pure OptKind.adam
    | "sgd_out" => pure OptKind.sgdOutputScale
    | o => .error s!"bad opt {o}"
  let lr ← parseLrVal ((j.getObjVal? "lr").toOption.getD Json.null)
  let entries ← (← jarr j "entries").toList.mapM parseEntry
  match scaledParameters kind (← jbool j "indep") (← jbool j "allow") lr (← jflt j "wd")
      (← jflts j "heap") entries with
  | .error e => pure (jerr e)
  | .ok (heap, gs) =>
    pure (Json.mkObj [("heap", fbitsL heap),
      ("groups", Json.arr (gs.map fun g => Json.mkObj [("id", jn g.param.id), ("lr", lrValJson g.lr),
        ("wd", fbits g.wd),
        ("extra", Json.arr (g.extra.map fun (a, b) => Json.arr #[Json.str a, Json.str b]).toArray)]).toArray)])

def asInt (v : Json) : R Int :=
  match v.getInt? with
  | .ok n => pure n
  | .error e => .error e

/-- C18: forward pass and reverse sweep of a DAG program over integer vectors; returns what the
    trackers log (value, gradient or null) per node -/
def dagCmd (j : Json) : R Json := do
  let specs ← (← jarr j "nodes").toList.mapM fun v => do
    match ← jstr v "op" with
    | "input" => pure (DSpec.input (← (← jarr v "v").toList.mapM asInt))
    | "lin" => pure (DSpec.lin (← jnats v "ins") (← (← jarr v "w").toList.mapM asInt))
    | "mul" => match ← jnats v "ins" with
      | [a, b] => pure (DSpec.mul a b)
      | _ => .error "mul needs two inputs"
    | o => .error s!"unknown dag op {o}"
  let seeds ← (← jarr j "seed").toList.mapM fun v => do
    pure ((← jnat v "node"), (← (← jarr v "g").toList.mapM asInt))
  let seed : Nat → Option (List Int) := fun k => (seeds.find? (·.1 == k)).map (·.2)
  let log := dagLog (specs.map DSpec.toNode) seed
  let vj := fun (l : List Int) => Json.arr (l.map ji).toArray
  pure (Json.mkObj [("log", Json.arr (log.map fun (v, g) =>
    Json.mkObj [("v", vj v), ("g", match g with | none => Json.null | some g => vj g)]).toArray)])

def handle (j : Json) : R Json := do
  let k ← jstr j "k"
  match k with
  | "ping" => pure (Json.mkObj [("pong", jn 1)])
  | "dag" => dagCmd j
  | "range" =>
      -- C13: the three range properties of a format, as exact rationals "p/q"
      let E ← jnat j "E"; let M ← jnat j "M"
      let rs := fun (q : Rat) => Json.str s!"{q.num}/{q.den}"
      pure (Json.mkObj [("max", rs (F32.maxAbsValue E M)), ("min_normal", rs (F32.minAbsNormal E)),
                        ("min_subnormal", rs (F32.minAbsSubnormal E M)), ("absmax_bits", jn (F32.absmaxBits E M))])
  | "bind" =>
      -- {"target": "Q.linear", "nargs": 3, "kw": ["bias"]}: positional i is the literal "a<i>", keyword k the literal "k:<k>"
      let t ← jstr j "target"
      let nargs ← jnat j "nargs"
      let kws ← (← jarr j "kw").toList.mapM fun v => match v.getStr? with | .ok s => pure s | .error e => .error e
      match callSigOf t with
      | none => .error s!"no signature for {t}"
      | some sg =>
        let args := (List.range nargs).map fun i => Arg.lit s!"a{i}"
        let kwargs := kws.map fun k => (k, Arg.lit s!"k:{k}")
        match bindCall sg args kwargs with
        | none => pure (Json.mkObj [("ok", Json.bool false)])
        | some b => pure (Json.mkObj [("ok", Json.bool true),
            ("bound", Json.arr (b.map fun p => Json.arr #[Json.str p.1, Json.str p.2.show]).toArray)])
  | "constraint" =>
      let name ← jostr j "name"
      let scales ← jflts j "scales"
      match applyConstraint name scales with
      | .ok l => pure (Json.mkObj [("ok", fbitsL l)])
      | .error e => pure (jerr e)
  | "mean" =>
      let scales ← jflts j "scales"
      pure (Json.mkObj [("gmean", fbits (gmean scales)), ("hmean", fbits (hmean scales)),
                        ("amean", fbits (amean scales))])
  | "scale" => scaleCmd j
  | "loginterp" =>
      pure (Json.mkObj [("v", fbits (logInterp (← jflt j "alpha") (← jflt j "lower") (← jflt j "upper")))])
  | "tau" =>
      pure (Json.mkObj [("tau", fbits (tauRule (← jflt j "r") (← jflt j "rho")
        (← jnat j "index") (← jnat j "layers")))])
  | "tausq" =>
      let r ← parseRat (← jstr j "r")
      let rho ← parseRat (← jstr j "rho")
      pure (Json.mkObj [("tausq", ratJson (tauSq r rho (← jnat j "index") (← jnat j "layers")))])
  | "stack" =>
      -- exact rational bookkeeping for a whole stack of L layers
      let r ← parseRat (← jstr j "r")
      let rho ← parseRat (← jstr j "rho")
      let L ← jnat j "layers"
      let ts := stackTauSqs r rho L
      pure (Json.mkObj [("tausq", Json.arr (ts.map ratJson).toArray),
                        ("emb", ratJson (contribEmb ts)),
                        ("contribs", Json.arr ((contribs ts).map ratJson).toArray)])
  | "stacktaus" =>
      let ts := stackTaus (← jflt j "r") (← jflt j "rho") (← jnat j "layers")
      pure (Json.mkObj [("taus", Json.arr (ts.map fun (a, b) => Json.arr #[fbits a, fbits b]).toArray)])
  | "validate" =>
      let fn ← jstr j "fn"
      let pos ← (← jarr j "pos").toList.mapM fun v => match v.getStr? with
        | .ok s => pure s | .error e => .error e
      let kw ← (← jarr j "kw").toList.mapM fun kv => match kv.getArr? with
        | .ok #[a, b] => pure ((a.getStr?.toOption.getD ""), (b.getStr?.toOption.getD ""))
        | _ => .error "bad kw"
      match sigOf fn with
      | none => pure (Json.mkObj [("sig", Json.null)])
      | some sig =>
        match validate sig pos kw with
        | .ok () => pure (Json.mkObj [("ok", jn 1), ("args", Json.arr (sig.args.map Json.str).toArray),
            ("unsupported", Json.arr (sig.unsupported.map fun (a, b) => Json.arr #[Json.str a, Json.str b]).toArray)])
        | .error e => pure (jerr e)
  | "terms" =>
      let pr := fun (p : Nat × Nat) => Json.arr #[jn p.1, jn p.2]
      let tj := fun (t : Terms) => Json.mkObj [("out", pr t.out), ("grads", Json.arr (t.grads.map pr).toArray)]
      match ← jstr j "op" with
      | "linear" => pure (tj (linearTerms (← jnat j "fan_out") (← jnat j "fan_in") (← jnats j "lead")))
      | "matmul" => pure (tj (matmulTerms (← jnat j "left") (← jnat j "inner") (← jnat j "right")))
      | "conv1d" => pure (tj (conv1dTerms (← jnat j "fan_out") (← jnat j "fan_in") (← jnat j "kernel")
            (← jnat j "out_size") (← jnat j "lead") (← jnat j "stride") (← jnat j "groups")))
      | "add" => match ← jnatss j "shapes" with
          | [a, b] => match broadcastShapes a b with
            | some o => pure (tj (addTerms a b o))
            | none => pure (jerr .runtimeError)
          | _ => .error "add: need two shapes"
      | "norm" => pure (tj (normTerms (← jnat j "norm_numel") (← jnat j "numel")))
      | "embedding" => pure (tj (embeddingTerms (← jnat j "vocab") (← jnat j "batch")))
      | "mse_loss" => pure (tj mseTerms)
      | o => .error s!"terms: unknown op {o}"
  | "quant" =>
      -- {"E","M","off":"nearest"|"sr","srbits","r"|"rs","bits":[..]} -> {"out":[..]}
      let E ← jnat j "E"; let M ← jnat j "M"
      let bits ← jnats j "bits"
      let mode ← jstr j "mode"
      if mode == "nearest" then
        pure (Json.mkObj [("out", Json.arr (bits.map fun b => jn (F32.quantBits E M (F32.offNearest M) b)).toArray)])
      else
        let sb ← jnat j "srbits"
        match j.getObjVal? "rs" with
        | .ok _ =>
          let rs ← jnats j "rs"
          pure (Json.mkObj [("out", Json.arr ((bits.zip rs).map fun (b, r) =>
            jn (F32.quantBits E M (F32.offSR M sb r) b)).toArray)])
        | .error _ =>
          let r ← jnat j "r"
          pure (Json.mkObj [("out", Json.arr (bits.map fun b => jn (F32.quantBits E M (F32.offSR M sb r) b)).toArray)])
  | "quantblock" =>
      -- checksum over all patterns in [lo, hi): sum of out * (2*bits+1) mod 2^64 (NaN inputs skipped)
      let E ← jnat j "E"; let M ← jnat j "M"
      let lo ← jnat j "lo"; let hi ← jnat j "hi"
      let off := F32.offNearest M
      let rec go (b : Nat) (fuel : Nat) (acc : UInt64) : UInt64 :=
        match fuel with
        | 0 => acc
        | fuel + 1 =>
          let mag := b % 2 ^ 31
          let acc' := if mag > 255 * 2 ^ 23 then acc
            else acc + (F32.quantBits E M off b).toUInt64 * (2 * b + 1).toUInt64
          go (b + 1) fuel acc'
      pure (Json.mkObj [("sum", jn (go lo (hi - lo) 0).toNat)])
  | "srcount" =>
      -- {"E","M","srbits","bits":[magnitudes]} -> counts of draws rounding up + closed form on q
      let E ← jnat j "E"; let M ← jnat j "M"; let sb ← jnat j "srbits"
      let bits ← jnats j "bits"
      pure (Json.mkObj [("count", Json.arr (bits.map fun b => jn (F32.countUp E M sb b)).toArray),
        ("q", Json.arr (bits.map fun b => jn (F32.preRound E M b)).toArray),
        ("floor", Json.arr (bits.map fun b => jn (F32.quantMag E M 0 b)).toArray),
        ("up", Json.arr (bits.map fun b => jn (F32.quantMag E M (2 ^ (23 - M) - 1) b)).toArray),
        ("core", Json.arr (bits.map fun b => jn (F32.countUpCore (23 - M) (23 - M - sb) (F32.preRound E M b))).toArray)])
  | "hist" =>
      let tag ← jstr j "tag"
      let t ← match MupType.ofString? tag with
        | some t => pure t | none => .error s!"bad tag {tag}"
      let ops ← (← jarr j "ops").toList.mapM fun v => match v.getStr? with
        | .ok s => match HOp.ofString? s with
          | some o => pure o | none => .error s!"bad op {s}"
        | .error e => .error e
      let dts := fun (d : DType) => match d with | .f16 => "f16" | .f32 => "f32" | .f64 => "f64"
      let st := fun (so : Option PState) => match so with
        | none => Json.null
        | some s => Json.mkObj [("tagged", Json.bool s.tagged), ("hooked", Json.bool s.hooked),
        ("is_param", Json.bool s.isParam), ("dtype", Json.str (dts s.dtype)), ("prec", Json.str (dts s.prec)),
        ("requires_grad", Json.bool s.requiresGrad),
        ("depth", match s.depth with | none => Json.null | some d => jn d)]
      pure (Json.mkObj [("trace", Json.arr ((traceHistory (initState t (← jonat j "depth")) ops).map st).toArray)])
  | "backends" =>
      -- {"actions": ["unit_scale","call","simulate",...]} -> state after each action
      let acts ← (← jarr j "actions").toList.mapM fun v => match v.getStr? with
        | .ok "call" => pure Action.call
        | .ok s => match Transform.ofString? s with
          | some t => pure (Action.t t) | none => .error s!"bad action {s}"
        | .error e => .error e
      let kj := fun (l : List BKind) => Json.arr (l.map fun k => Json.str k.toString).toArray
      let st := fun (s : MState) => Json.mkObj [("backends", kj s.backends), ("rerun", Json.bool s.rerun),
        ("executed", Json.arr (s.executed.map kj).toArray)]
      -- a `unit_scale` the real code rejects (AttributeError) ends the trace with an error entry
      let (_, tr, _) := acts.foldl (fun (acc : MState × List Json × Bool) a =>
        if acc.2.2 then acc else
        let rejected := match a with
          | Action.t Transform.unitScale => unitScaleRejects acc.1
          | _ => false
        if rejected then (acc.1, acc.2.1 ++ [Json.mkObj [("err", Json.str "AttributeError")]], true)
        else let s' := act acc.1 a; (s', acc.2.1 ++ [st s'], false)) (MState.fresh, [], false)
      pure (Json.mkObj [("trace", Json.arr tr.toArray)])
  | "graph" => graphCmd j
  | "modules" =>
      let tagS := fun (t : MupType) => match t with | .weight => "weight" | .bias => "bias" | .norm => "norm" | .output => "output"
      let useS := fun (u : OptionUse) => match u with
        | .toFunctional f p => s!"functional:{f}.{p}" | .toParent => "parent" | .structural => "structural" | .rejected => "rejected"
      pure (Json.arr (moduleSpecs.map fun m => Json.mkObj [("name", Json.str m.name),
        ("options", Json.arr (m.options.map fun (o, u) => Json.arr #[Json.str o, Json.str (useS u)]).toArray),
        ("params", Json.arr (m.params.map fun (n, t) => Json.arr #[Json.str n, Json.str (tagS t)]).toArray)]).toArray)
  | "groups" => groupsCmd j
  | "zerostep" =>
      let lr ← jflt j "lr"; let wd ← jflt j "wd"; let p ← jflt j "p"
      pure (Json.mkObj [("sgd", fbits (sgdZeroStep lr wd p)),
                        ("adamw", fbits (adamwZeroStep lr wd (← jflt j "eps") p))])
  | "lr" =>
      let opt ← jstr j "opt"
      let kind ← match opt with
        | "adam" => pure OptKind.adam
        | "sgd_out" => pure OptKind.sgdOutputScale
        | _ => .error s!"bad opt {opt}"
      let tag ← jstr j "tag"
      match MupType.ofString? tag with
      | none => .error s!"bad tag {tag}"
      | some t =>
        match lrScale (α := Float) kind t (← jnats j "shape") (← jonat j "depth") with
        | .ok s => pure (Json.mkObj [("scale", fbits s)])
        | .error e => pure (jerr e)
  | _ => .error s!"unknown command {k}"

partial def loop (hIn hOut : IO.FS.Stream) : IO Unit := do
  let line ← hIn.getLine
  if line.isEmpty then return ()
  let out :=
    match Json.parse line with
    | .error e => Json.mkObj [("proto", Json.str s!"parse: {e}")]
    | .ok j =>
      match handle j with
      | .ok r => r
      | .error e => Json.mkObj [("proto", Json.str e)]
  hOut.putStrLn out.compress
  loop hIn hOut

def main : IO Unit := do
  let hIn ← IO.getStdin
  let hOut ← IO.getStdout
  loop hIn hOut
  hOut.flush
