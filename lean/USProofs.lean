import USProofs.RealInst
import USProofs.Properties.C07
import USProofs.Properties.C10
import USProofs.Properties.C11
