import USProofs.RealInst
import USProofs.TrueGrad
import USProofs.Properties.C05
import USProofs.Properties.C01
import USProofs.Properties.C02
import USProofs.Properties.C07
import USProofs.Properties.C10
import USProofs.Properties.C11
