import USProofs.RealInst
import USProofs.Properties.C07
