/-
  C18 — DAG-level model of what autograd does around the scale tracker
  (`transforms/_track_scales.py`: `ScaleTrackingInterpreter.run_node` wraps the output of every
  float-producing node in `ScaleTrackingAutogradFunction`).

  A program is the list of its nodes in graph order; node `j` reads the (wrapped) values of earlier
  nodes `ins` and has a vector-Jacobian product returning one cotangent per input.  The forward
  interpreter applies `wrap` (the tracker's forward: log, return a clone) to every node's output.
  The reverse dagSweep is autograd's: one gradient buffer per node (`none` = nothing arrived yet),
  nodes are processed from the last to the first, a node without a gradient propagates nothing,
  a node with one first passes it through `wrapB` (the tracker's backward: log, return a clone) and
  then adds the op's cotangents to the buffers of its inputs — the first arrival initialises a
  buffer, later ones are added in arrival order.  What the tracker of node `j` logs is the buffer
  of `j` at the moment `j` is processed.

  No algebraic law of `+` is used anywhere: the statements hold for floating-point addition.
-/
namespace USModel

structure DNode (V : Type) where
  ins : List Nat
  fwd : List V → V
  vjp : List V → V → List V

section
variable {V : Type}

/-- values read by a node -/
def DNode.args [Inhabited V] (n : DNode V) (env : List V) : List V :=
  n.ins.map fun i => env.getD i default

/-- forward interpretation; `wrap` is applied to every node's output -/
def dagFwd [Inhabited V] (wrap : V → V) : List (DNode V) → List V → List V
  | [], env => env
  | n :: rest, env => dagFwd wrap rest (env ++ [wrap (n.fwd (n.args env))])

/-- gradient accumulation into one buffer -/
def addOpt [Add V] (o : Option V) (c : V) : Option V :=
  match o with
  | none => some c
  | some a => some (a + c)

def accAt [Add V] (adj : Nat → Option V) (j : Nat) (c : V) : Nat → Option V :=
  fun k => if k = j then addOpt (adj k) c else adj k

/-- deliver the cotangents `cs` of one node to the buffers of its inputs, in argument order -/
def accAll [Add V] (adj : Nat → Option V) : List Nat → List V → (Nat → Option V)
  | j :: js, c :: cs => accAll (accAt adj j c) js cs
  | _, _ => adj

/-- the cotangents a node sends to input `i` (one per argument position that reads `i`) -/
def dagContribs (ins : List Nat) (cs : List V) (i : Nat) : List V :=
  match ins, cs with
  | j :: js, c :: cs => if j = i then c :: dagContribs js cs i else dagContribs js cs i
  | _, _ => []

/-- process node `m` of the reverse dagSweep -/
def backStep [Add V] [Inhabited V] (wrapB : V → V) (P : List (DNode V)) (env : List V)
    (adj : Nat → Option V) (m : Nat) : Nat → Option V :=
  match P[m]?, adj m with
  | some n, some g => accAll adj n.ins (n.vjp (n.args env) (wrapB g))
  | _, _ => adj

/-- the reverse dagSweep over nodes `m-1, m-2, …, 0` -/
def dagSweep [Add V] [Inhabited V] (wrapB : V → V) (P : List (DNode V)) (env : List V) :
    Nat → (Nat → Option V) → (Nat → Option V)
  | 0, adj => adj
  | m + 1, adj => dagSweep wrapB P env m (backStep wrapB P env adj m)

/-- what the trackers have logged after a forward and a backward pass: per node, the value that
    flowed through it and the gradient buffer it held when it was processed (`none`: no gradient
    reached it, `set_bwd` was never called) -/
def dagLog [Add V] [Inhabited V] (P : List (DNode V)) (seed : Nat → Option V) : List (V × Option V) :=
  let env := dagFwd id P []
  let adj := dagSweep id P env P.length seed
  (List.range P.length).map fun j => (env.getD j default, adj j)

/-- one term of the adjoint equation: what node `j` adds to the buffer of `i`, given the table
    `T` of gradients the nodes hold when they are processed -/
def pullStep [Add V] [Inhabited V] (wrapB : V → V) (P : List (DNode V)) (env : List V)
    (T : Nat → Option V) (i : Nat) (acc : Option V) (j : Nat) : Option V :=
  match P[j]?, T j with
  | some n, some g => (dagContribs n.ins (n.vjp (n.args env) (wrapB g)) i).foldl addOpt acc
  | _, _ => acc

/-- `m-1, m-2, …, 0` -/
def descList : Nat → List Nat
  | 0 => []
  | m + 1 => m :: descList m

/-- graph order: every node reads earlier nodes only -/
def DagWF (P : List (DNode V)) : Prop :=
  ∀ (m : Nat) (n : DNode V), P[m]? = some n → ∀ i ∈ n.ins, i < m

end

/-! executable instance used by the driver: tensors of a fixed length with integer entries -/

def vAdd (a b : List Int) : List Int := List.zipWith (· + ·) a b
instance : Add (List Int) := ⟨vAdd⟩
def vMul (a b : List Int) : List Int := List.zipWith (· * ·) a b
def vScale (w : Int) (a : List Int) : List Int := a.map (w * ·)

inductive DSpec where
  | input (v : List Int)
  | lin (ins : List Nat) (ws : List Int)   -- Σ w_k · x_k  (at least one input)
  | mul (a b : Nat)                         -- x_a * x_b, elementwise
  deriving Repr

def DSpec.toNode : DSpec → DNode (List Int)
  | .input v => ⟨[], fun _ => v, fun _ _ => []⟩
  | .lin ins ws =>
      ⟨ins,
       fun xs => match List.zipWith vScale ws xs with
         | [] => []
         | t :: ts => ts.foldl vAdd t,
       fun _ g => ws.map fun w => vScale w g⟩
  | .mul a b =>
      ⟨[a, b],
       fun xs => match xs with | [x, y] => vMul x y | _ => [],
       fun xs g => match xs with | [x, y] => [vMul g y, vMul g x] | _ => []⟩

end USModel
