/-
  FX-like graphs (shared by C15, C16, C18, C19).

  A graph is the list of its nodes in graph order; a node is identified by its position and
  refers to earlier nodes through `Arg.ref`.  `args` / `kwargs` nest like FX arguments
  (lists, tuples, slices are `seq`).  Targets are canonical strings (the harness maps the live
  function objects to the same names and compares the name tables on every run).
-/
import USModel.Scalar
namespace USModel

inductive Arg where
  | ref (i : Nat)
  | lit (s : String)
  | seq (isTuple : Bool) (xs : List Arg)
  deriving Repr, Inhabited

mutual
def Arg.beq : Arg → Arg → Bool
  | .ref i, .ref j => i == j
  | .lit a, .lit b => a == b
  | .seq t xs, .seq u ys => t == u && Arg.beqList xs ys
  | _, _ => false
def Arg.beqList : List Arg → List Arg → Bool
  | [], [] => true
  | x :: xs, y :: ys => Arg.beq x y && Arg.beqList xs ys
  | _, _ => false
end
instance : BEq Arg := ⟨Arg.beq⟩

mutual
/-- all node references inside an argument, in order (FX's `all_input_nodes` order) -/
def Arg.refs : Arg → List Nat
  | .ref i => [i]
  | .lit _ => []
  | .seq _ xs => Arg.refsList xs
def Arg.refsList : List Arg → List Nat
  | [] => []
  | x :: xs => x.refs ++ Arg.refsList xs
end

mutual
/-- `torch.fx.node.map_arg`: apply `f` to every reference, at any nesting depth -/
def Arg.mapRefs (f : Nat → Arg) : Arg → Arg
  | .ref i => f i
  | .lit s => .lit s
  | .seq t xs => .seq t (Arg.mapRefsList f xs)
def Arg.mapRefsList (f : Nat → Arg) : List Arg → List Arg
  | [] => []
  | x :: xs => x.mapRefs f :: Arg.mapRefsList f xs
end

mutual
/-- canonical text of an argument -/
def Arg.show : Arg → String
  | .ref i => "%" ++ toString i
  | .lit s => s
  | .seq t xs => (if t then "(" else "[") ++ Arg.showList xs ++ (if t then ")" else "]")
def Arg.showList : List Arg → String
  | [] => ""
  | [x] => x.show
  | x :: xs => x.show ++ ", " ++ Arg.showList xs
end

structure GNode where
  op : String
  target : String
  args : List Arg
  kwargs : List (String × Arg)
  /-- tracking metadata (C18/C19): does the node output a float tensor; mean |x| forward / backward -/
  outputsFloat : Bool := false
  fwdMeanAbs : Option Float := none
  bwdMeanAbs : Option Float := none
  deriving Repr, Inhabited

abbrev Graph := List GNode

/-- input nodes of a node: positional args first, then keyword args (deduplicated, first occurrence) -/
def GNode.inputs (n : GNode) : List Nat :=
  (Arg.refsList n.args ++ Arg.refsList (n.kwargs.map (·.2))).eraseDups

def lookupKw (kw : List (String × Arg)) (k : String) : Option Arg := (kw.find? (·.1 == k)).map (·.2)
def eraseKw (kw : List (String × Arg)) (k : String) : List (String × Arg) := kw.filter (·.1 != k)
/-- `dict(kwargs, k=v)`.  Keyword order is irrelevant to a call; graphs are compared with keywords
    sorted by name, so the binding is simply moved to the end. -/
def setKw (kw : List (String × Arg)) (k : String) (v : Arg) : List (String × Arg) :=
  eraseKw kw k ++ [(k, v)]

/-- well-formedness: every reference points to an earlier node -/
def Graph.wellFormed (g : Graph) : Bool :=
  g.zipIdx.all fun (n, i) => n.inputs.all (· < i)

end USModel
