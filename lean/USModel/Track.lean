/-
  C18 — model of scale tracking (`transforms/_track_scales.py`): the tracker inserted after every
  float-producing node is `ScaleTrackingAutogradFunction`: forward returns a clone of its input
  (and records its statistics), backward returns a clone of the incoming gradient (and records its
  statistics).  On values it is the identity in both directions.
-/
import USModel.Autograd
namespace USModel

/-- the tracker as a two-sided op: identity forward, identity backward -/
def tracker {V : Type} : DOp V V := ⟨fun x => x, fun _ g => g⟩

/-- what the tracker logs at a point `x` with incoming cotangent `g` -/
def trackerLog {V : Type} (x g : V) : V × V := (x, g)

/-- instrumenting a chain of operations: a tracker after every op -/
def instrumentChain {V : Type} : List (DOp V V) → DOp V V
  | [] => DOp.idOp
  | f :: rest => (instrumentChain rest).comp (tracker.comp f)

def plainChain {V : Type} : List (DOp V V) → DOp V V
  | [] => DOp.idOp
  | f :: rest => (plainChain rest).comp f

/-- fan-out: one tensor used by two consumers whose results are added -/
def fanOut {V : Type} [Add V] (g1 g2 : DOp V V) : DOp V V :=
  ⟨fun y => g1.fwd y + g2.fwd y, fun y c => g1.vjp y c + g2.vjp y c⟩

section metrics
variable {α : Type} [Add α] [Sub α] [Mul α] [Div α] [Neg α] [NatCast α] [Transc α] [LT α] [DecidableRel (α := α) (· < ·)]

def absS (x : α) : α := if x < nat 0 then -x else x
def maxS (a b : α) : α := if a < b then b else a
def minS (a b : α) : α := if b < a then b else a

/-- `Metrics.from_tensor` on the flattened tensor -/
structure MetricsData (α : Type) where
  meanAbs : α
  absMean : α
  std : α
  absMax : α
  absMin : α
  numel : Nat

def metricsOf (xs : List α) : MetricsData α :=
  let n : α := nat xs.length
  let sum := xs.foldl (· + ·) (nat 0)
  let mean := sum / n
  let sumAbs := (xs.map absS).foldl (· + ·) (nat 0)
  let var := (xs.map fun x => (x - mean) * (x - mean)).foldl (· + ·) (nat 0) / (nat (xs.length - 1))
  { meanAbs := sumAbs / n, absMean := absS mean, std := Transc.sqrt var,
    absMax := (xs.map absS).foldl maxS (nat 0),
    absMin := match xs.map absS with | [] => nat 0 | a :: rest => rest.foldl minS a,
    numel := xs.length }
end metrics

end USModel
