/-
  Python call binding (`f(*args, **kwargs)` against a `def` signature), as far as the graph
  transforms need it: positional-or-keyword parameters with optional defaults and an optional
  `**kwargs` catch-all.  Used by C15: the quantisation backend splices two extra positional
  arguments into a call and changes its target — the spliced call must bind, and bind every
  original operand to the parameter of the same name.

  The harness compares `bindCall` with `inspect.signature(fn).bind` of the live functions (and, for
  the two builtins without an introspectable signature, with the success / TypeError of a real call).
-/
import USModel.Graph
namespace USModel

structure CallSig where
  /-- parameter names in order, each with its default (as an argument literal) if it has one -/
  params : List (String × Option Arg)
  /-- does the signature end in `**kwargs` -/
  varKw : Bool := false
  /-- number of trailing parameters that are keyword-only (after a bare `*`) -/
  kwOnly : Nat := 0
  deriving Inhabited

def CallSig.names (s : CallSig) : List String := s.params.map (·.1)

/-- value of a parameter that was not given positionally: keyword first, else default -/
def bindRest (kwargs : List (String × Arg)) : List (String × Option Arg) → Option (List (String × Arg))
  | [] => some []
  | (p, d) :: rest =>
    match (match lookupKw kwargs p with | some a => some a | none => d), bindRest kwargs rest with
    | some a, some r => some ((p, a) :: r)
    | _, _ => none

/-- `inspect.Signature.bind` + defaults.  `none` = `TypeError` (too many positionals — keyword-only parameters cannot be given positionally —, a keyword
    that repeats a positional, an unexpected keyword without `**kwargs`, a missing argument).
    The result lists the parameters in signature order, then the extra keywords (for `**kwargs`). -/
def bindCall (s : CallSig) (args : List Arg) (kwargs : List (String × Arg)) : Option (List (String × Arg)) :=
  if args.length > s.params.length - s.kwOnly then none
  else if kwargs.any (fun kv => (s.names.take args.length).contains kv.1) then none
  else if !s.varKw && kwargs.any (fun kv => !s.names.contains kv.1) then none
  else
    match bindRest kwargs (s.params.drop args.length) with
    | none => none
    | some r => some ((s.names.take args.length).zip args ++ r ++ kwargs.filter (fun kv => !s.names.contains kv.1))

def none_ : Option Arg := some (.lit "None")

/-- the signatures involved in format simulation (canonical target names as in `quantMap`) -/
def callSigOf : String → Option CallSig
  | "F.linear" => some ⟨[("input", none), ("weight", none), ("bias", none_)], false, 0⟩
  | "U.linear" => some ⟨[("input", none), ("weight", none), ("bias", none_), ("constraint", some (.lit "'to_output_scale'")),
                         ("scale_power", some (.lit "(0.5, 0.5, 0.5)"))], false, 0⟩
  | "F.sdpa" => some ⟨[("query", none), ("key", none), ("value", none), ("attn_mask", none_), ("dropout_p", some (.lit "0.0")),
                       ("is_causal", some (.lit "False")), ("scale", none_), ("enable_gqa", some (.lit "False"))], false, 2⟩
  | "U.sdpa" => some ⟨[("query", none), ("key", none), ("value", none), ("attn_mask", none_), ("dropout_p", some (.lit "0.0")),
                       ("is_causal", some (.lit "False")), ("mult", some (.lit "1.0"))], false, 0⟩
  | "Q.linear" => some ⟨[("input", none), ("weight", none), ("bias", none), ("fwd_format_tuple", none),
                         ("bwd_format_tuple", none)], false, 0⟩
  | "Q.u_linear" => some ⟨[("input", none), ("weight", none), ("bias", none), ("fwd_format_tuple", none),
                           ("bwd_format_tuple", none), ("constraint", some (.lit "'to_output_scale'"))], false, 0⟩
  | "Q.sdpa" => some ⟨[("query", none), ("key", none), ("value", none), ("fwd_format_tuple", none),
                       ("bwd_format_tuple", none)], true, 0⟩
  | "Q.u_sdpa" => some ⟨[("query", none), ("key", none), ("value", none), ("fwd_format_tuple", none),
                         ("bwd_format_tuple", none)], true, 0⟩
  | _ => none

end USModel
