/-
  Term counts (C03): how many independent unit-variance products are summed into one element of
  the output / each gradient of the *reference* op.  Rational counts (means over positions or
  rows) are `(numerator, denominator)` pairs.
-/
import USModel.Scales
namespace USModel

structure Terms where
  out : Nat × Nat
  grads : List (Nat × Nat)
  deriving Repr

/-- `linear`: output sums `fan_in` products; input gradient `fan_out`; weight and bias gradients one
    per batch position (all leading dims). -/
def linearTerms (fanOut fanIn : Nat) (lead : List Nat) : Terms :=
  ⟨(fanIn, 1), [(fanOut, 1), (prodNat lead, 1), (prodNat lead, 1)]⟩

/-- `matmul` with equal batch dims: `(…, M, K) @ (…, K, N)` -/
def matmulTerms (leftSize inner rightSize : Nat) : Terms :=
  ⟨(inner, 1), [(rightSize, 1), (leftSize, 1)]⟩

/-- `conv1d` (no padding): output sums `(in_channels/groups)·kernel` products; weight and bias
    gradients one per output position and batch element; the input gradient, averaged over one
    stride period of interior positions, `kernel·out_channels/(groups·stride)`. -/
def conv1dTerms (fanOut fanInPerGroup kernel outSize lead stride groups : Nat) : Terms :=
  ⟨(fanInPerGroup * kernel, 1),
   [(kernel * fanOut, stride * groups), (outSize * lead, 1), (outSize * lead, 1)]⟩

/-- `add` of two tensors neither of which is a single element -/
def addTerms (a b out : List Nat) : Terms :=
  ⟨(2, 1), [(prodNat out / prodNat a, 1), (prodNat out / prodNat b, 1)]⟩

/-- `layer_norm` / `rms_norm` gain and bias gradients: one term per normalised row -/
def normTerms (normNumel numel : Nat) : Terms :=
  ⟨(1, 1), [(1, 1), (numel / normNumel, 1), (numel / normNumel, 1)]⟩

/-- `embedding` weight gradient: on average `batch/vocab` looked-up positions per row -/
def embeddingTerms (vocab batch : Nat) : Terms := ⟨(1, 1), [(batch, vocab)]⟩

/-- `mse_loss` gradients `2(x − t)·g`: squared coefficients `4 + 4` -/
def mseTerms : Terms := ⟨(1, 1), [(8, 1), (8, 1)]⟩

end USModel
