/-
  Model of the scale rules of `unit_scaling/functional.py` and
  `unit_scaling/core/functional.py` (`logarithmic_interpolation`,
  `scale_elementwise`).

  Every public function of the library is
      scale_fwd(fwd) ∘ F ∘ (scale_bwd(bwd₁) × … × scale_bwd(bwdₙ))
  for a PyTorch reference `F`.  This file computes `(fwd, [bwd₁ … bwdₙ])` from
  shapes and hyper-parameters, mirroring the Python line by line (including
  `batch_size = numel // fan_in`, the `scalar_input` special case of `add`,
  `seq_len, d_head` read from `value`, `log(seq_len)` only when causal).
-/
import USModel.Constraints
namespace USModel

/-- Forward scale and per-input backward scales of one call. -/
structure OpScales (α : Type) where
  fwd : α
  bwd : List α
  deriving Repr

section
variable {α : Type} [Add α] [Sub α] [Mul α] [Div α] [Neg α] [NatCast α] [Transc α]

@[inline] def nat (n : Nat) : α := (n : α)
@[inline] def half : α := nat 1 / nat 2

/-- Python `x ** 0.5`. -/
def powHalf (x : α) : α := Transc.pow x half
/-- Python `x ** -0.5`. -/
def powNegHalf (x : α) : α := Transc.pow x (-half)

/-- `math.exp(alpha * math.log(upper) + (1 - alpha) * math.log(lower))` -/
def logInterp (alpha lower upper : α) : α :=
  Transc.exp (alpha * Transc.log upper + (nat 1 - alpha) * Transc.log lower)

/-- `1 / (1 + c / mult**2)` — the sigmoid-in-log-mult interpolation weight. -/
def alphaOf (c mult : α) : α := nat 1 / (nat 1 + c / (mult * mult))

/-- `scale_elementwise`: constraint applied to `(output_scale, grad_input_scale)`. -/
def elementwise (constraint : Option String) (out gin : α) : Except Err (OpScales α) := do
  match ← applyConstraint constraint [out, gin] with
  | [o, g] => pure ⟨o, [g]⟩
  | _ => .error .other

/-- `(2 / (1 - 1 / pi)) ** 0.5` -/
def geluUpper : α := powHalf (nat 2 / (nat 1 - nat 1 / Transc.pi))

def geluScales (mult : α) (constraint : Option String) : Except Err (OpScales α) :=
  let a := alphaOf (nat 1 / nat 4) mult
  elementwise constraint (logInterp a (nat 2) geluUpper) (logInterp a (nat 2) (powHalf (nat 2)))

def siluScales (mult : α) (constraint : Option String) : Except Err (OpScales α) :=
  elementwise constraint
    (logInterp (alphaOf (nat 1 / nat 4) mult) (nat 2) geluUpper)
    (logInterp (alphaOf (nat 1) mult) (nat 2) (powHalf (nat 2)))

def siluGluScales (mult : α) : OpScales α :=
  let s := logInterp (alphaOf (nat 1) mult) (nat 2) (powHalf (nat 2))
  ⟨s, [s, s]⟩

def softmaxScales (dimSize : Nat) (mult : α) (constraint : Option String) :
    Except Err (OpScales α) :=
  let a := alphaOf (nat 4) mult
  let n : α := nat dimSize
  elementwise constraint (logInterp a n (powHalf n)) (logInterp a (n / mult) (powHalf (n / mult)))

def dropoutScales (p : α) : OpScales α :=
  let s := powHalf (nat 1 - p)
  ⟨s, [s]⟩

/-- `matmul(left, right)`: `left.shape[-2:] = (leftSize, inner)`, `right.shape[-1] = rightSize`. -/
def matmulScales (leftSize inner rightSize : Nat) (constraint : Option String) :
    Except Err (OpScales α) := do
  match ← applyConstraint constraint
      [powNegHalf (nat inner), powNegHalf (nat rightSize), powNegHalf (nat leftSize)] with
  | [o, l, r] => pure ⟨o, [l, r]⟩
  | _ => .error .other

/-- `linear(input, weight, bias, constraint, scale_power)`.
    `numel = input.numel()`; backward scales are for (input, weight, bias). -/
def linearScales (fanOut fanIn numel : Nat) (sp0 sp1 sp2 : α) (constraint : Option String) :
    Except Err (OpScales α) := do
  let batch := numel / fanIn
  let gw : α := nat 1 / Transc.pow (nat batch) sp2
  match ← applyConstraint constraint
      [nat 1 / Transc.pow (nat fanIn) sp0, nat 1 / Transc.pow (nat fanOut) sp1] with
  | [o, g] => pure ⟨o, [g, gw, gw]⟩
  | _ => .error .other

def linearReadoutScales (fanOut fanIn numel : Nat) (constraint : Option String) :
    Except Err (OpScales α) :=
  linearScales fanOut fanIn numel (nat 1) half half constraint

/-- `out_size = (seq_len + 2*padding - dilation*(kernel-1) - 1) // stride + 1`
    (Python integers: the numerator may be negative; `//` floors). -/
def convOutSize (seqLen kernel stride padding dilation : Nat) : Int :=
  ((seqLen : Int) + 2 * padding - dilation * ((kernel : Int) - 1) - 1) / (stride : Int) + 1
  -- Lean's `/` on `Int` is Euclidean division, which equals Python's floor division
  -- for the positive divisor `stride ≥ 1`.

/-- `conv1d`: `weight.shape = (fanOut, fanIn, kernel)`, `lead = prod(input.shape[:-2])`
    (1 for unbatched input). -/
def conv1dScales (fanOut fanIn kernel seqLen lead stride padding dilation groups : Nat)
    (sp0 sp1 sp2 : α) (constraint : Option String) : Except Err (OpScales α) := do
  let batch := (convOutSize seqLen kernel stride padding dilation).toNat * lead
  let gw : α := nat 1 / Transc.pow (nat batch) sp2
  match ← applyConstraint constraint
      [nat 1 / Transc.pow (nat (fanIn * kernel)) sp0,
       Transc.pow (nat (stride * groups) / nat (fanOut * kernel)) sp1] with
  | [o, g] => pure ⟨o, [g, gw, gw]⟩
  | _ => .error .other

/-- `layer_norm` / `rms_norm`: gain and bias gradient scale
    `(prod(normalized_shape) / input.numel()) ** 0.5`; forward scale 1, input gradient 1. -/
def normScales (normNumel numel : Nat) : OpScales α :=
  let s := powHalf (nat normNumel / nat numel)
  ⟨nat 1, [nat 1, s, s]⟩

/-- Broadcast of two shapes (`torch.broadcast_shapes`), `none` when incompatible. -/
def broadcastShapes (a b : List Nat) : Option (List Nat) :=
  let rec go : List Nat → List Nat → Option (List Nat)
    | [], ys => some ys
    | xs, [] => some xs
    | x :: xs, y :: ys =>
      match go xs ys with
      | none => none
      | some r =>
        if x = y then some (x :: r) else if x = 1 then some (y :: r)
        else if y = 1 then some (x :: r) else none
  (go a.reverse b.reverse).map List.reverse

/-- `add(input, other, constraint)` for two tensors of the given shapes. -/
def addScales (a b : List Nat) (constraint : Option String) : Except Err (OpScales α) := do
  match broadcastShapes a b with
  | none => .error .runtimeError
  | some out =>
    let outN := prodNat out
    let ia := outN / prodNat a
    let ib := outN / prodNat b
    let scalarInput := prodNat a == 1 || prodNat b == 1
    let o : α := if scalarInput then nat 1 else powNegHalf (nat 2)
    match ← applyConstraint constraint [o, powNegHalf (nat ia), powNegHalf (nat ib)] with
    | [o', x, y] => pure ⟨o', [x, y]⟩
    | _ => .error .other

/-- `denom = (1 + tau**2) ** 0.5`; weights `(tau/denom, 1/denom)` for (residual, skip). -/
def residualWeights (tau : α) : α × α :=
  let d := powHalf (nat 1 + tau * tau)
  (tau / d, nat 1 / d)

/-- `embedding`: weight gradient scale `(vocab / batch) ** 0.5`, `batch = prod(input.shape)`. -/
def embeddingScales (vocab batch : Nat) : OpScales α :=
  ⟨nat 1, [powHalf (nat vocab / nat batch)]⟩

/-- `scaled_dot_product_attention`: one scale for the output and all three gradients. -/
def sdpaScale (seqLen dHead : Nat) (dropoutP mult : α) (isCausal : Bool) : α :=
  powHalf (nat 1 - dropoutP) /
    logInterp (nat 1 / (nat 1 + nat 4 * nat dHead / (mult * mult)))
      (powHalf ((if isCausal then Transc.log (nat seqLen) else nat 1) / nat seqLen))
      (nat 1)

def sdpaScales (seqLen dHead : Nat) (dropoutP mult : α) (isCausal : Bool) : OpScales α :=
  let s := sdpaScale seqLen dHead dropoutP mult isCausal
  ⟨s, [s, s, s]⟩

/-- `cross_entropy`: logits gradient scale `V / (V-1) ** 0.5`; forward `1/batch` for mean. -/
def crossEntropyScales (batch vocab : Nat) (mean : Bool) : OpScales α :=
  ⟨if mean then nat 1 / nat batch else nat 1,
   [nat vocab / powHalf (nat (vocab - 1))]⟩

/-- `mse_loss`: both gradients `8 ** -0.5`; forward `1/numel` for mean. -/
def mseScales (numel : Nat) (mean : Bool) : OpScales α :=
  let g := powNegHalf (nat 8)
  ⟨if mean then nat 1 / nat numel else nat 1, [g, g]⟩

end
end USModel
