/-
  Model of `unit_scaling.docs._validate`: the wrapper that rejects arguments the library does
  not implement.  Values are canonical strings (the harness uses `repr`).
-/
import USModel.Scalar
namespace USModel

structure Sig where
  /-- parameter names of the wrapped function, in order (`argspec.args`) -/
  args : List String
  /-- unsupported parameter names with their default values -/
  unsupported : List (String × String)
  deriving Repr

/-- `full_kwargs = {**dict(zip(argspec.args, args)), **kwargs}` as an association list -/
def boundArgs (sig : Sig) (pos : List String) (kw : List (String × String)) : List (String × String) :=
  sig.args.zip pos ++ kw

/-- `ValueError` iff some unsupported name is bound to a value different from its default. -/
def validate (sig : Sig) (pos : List String) (kw : List (String × String)) : Except Err Unit :=
  if (boundArgs sig pos kw).any (fun (n, v) =>
      match sig.unsupported.lookup n with
      | some d => v != d
      | none => false)
  then .error .valueError else .ok ()

/-- The signatures of the functions that declare unsupported arguments. -/
def sigOf : String → Option Sig
  | "silu" => some ⟨["input", "mult", "constraint", "inplace"], [("inplace", "False")]⟩
  | "dropout" => some ⟨["input", "p", "training", "inplace"], [("inplace", "False")]⟩
  | "add" => some ⟨["input", "other", "constraint", "alpha", "out"], [("alpha", "1")]⟩
  | "embedding" => some ⟨["input", "weight", "padding_idx", "max_norm", "norm_type",
      "scale_grad_by_freq", "sparse"], [("scale_grad_by_freq", "False"), ("sparse", "False")]⟩
  | "cross_entropy" => some ⟨["input", "target", "weight", "size_average", "ignore_index", "reduce",
      "reduction", "label_smoothing", "mult"],
      [("weight", "None"), ("size_average", "None"), ("reduce", "None"), ("label_smoothing", "0.0")]⟩
  | "mse_loss" => some ⟨["input", "target", "size_average", "reduce", "reduction"],
      [("size_average", "None"), ("reduce", "None")]⟩
  | _ => none

end USModel
