/-
  Scalar layer of the model.

  Model definitions are written once, polymorphic in the number system:
  the ordinary arithmetic classes (`Add`, `Mul`, …, `NatCast`) plus the small
  class `Transc` below for the transcendental functions the library uses
  (`math.exp`, `math.log`, `**`, `math.pi`).

  * at `Float` (IEEE binary64, the same libm CPython uses) the definitions are
    what the driver *runs*;
  * at `ℝ` (instance in `USProofs/RealInst.lean`) they are what the theorems
    are *about*;
  * where only field operations are used they are also run at core `Rat`.

  This file must stay Mathlib-free: it is linked into the native driver.
-/
namespace USModel

/-- The transcendental operations used by `unit_scaling`. -/
class Transc (α : Type) where
  sqrt : α → α
  exp : α → α
  log : α → α
  /-- Python's `x ** y` on floats. -/
  pow : α → α → α
  pi : α

instance : NatCast Float := ⟨Float.ofNat⟩

instance : Transc Float where
  sqrt := Float.sqrt
  exp := Float.exp
  log := Float.log
  pow := Float.pow
  pi := 3.141592653589793

/-- Errors are mapped to the small enum the harness also uses. -/
inductive Err where
  | valueError | typeError | assertionError | runtimeError | indexError | other
  deriving DecidableEq, Repr, Inhabited

def Err.toString : Err → String
  | .valueError => "ValueError"
  | .typeError => "TypeError"
  | .assertionError => "AssertionError"
  | .runtimeError => "RuntimeError"
  | .indexError => "IndexError"
  | .other => "other"

instance : ToString Err := ⟨Err.toString⟩

/-- Product of a list of naturals (`math.prod` / `torch.Size.numel`). -/
def prodNat (l : List Nat) : Nat := l.foldl (· * ·) 1

end USModel
