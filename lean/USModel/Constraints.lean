/-
  Model of `unit_scaling/constraints.py`.

  `sumL`/`prodL` are Python's `sum` (start 0) and `math.prod` (start 1), folding
  from the left, so at `Float` they round exactly as CPython does.
-/
import USModel.Scalar
namespace USModel

section
variable {α : Type} [Add α] [Sub α] [Mul α] [Div α] [NatCast α] [Transc α]

def sumL (l : List α) : α := l.foldl (· + ·) ((0 : Nat) : α)
def prodL (l : List α) : α := l.foldl (· * ·) ((1 : Nat) : α)

/-- `pow(prod(scales), 1 / len(scales))` -/
def gmean (l : List α) : α :=
  Transc.pow (prodL l) (((1 : Nat) : α) / ((l.length : Nat) : α))

/-- `1 / (sum(1 / s for s in scales) / len(scales))` -/
def hmean (l : List α) : α :=
  ((1 : Nat) : α) / (sumL (l.map fun s => ((1 : Nat) : α) / s) / ((l.length : Nat) : α))

/-- `sum(scales) / len(scales)` -/
def amean (l : List α) : α := sumL l / ((l.length : Nat) : α)

/-- The constraint functions of the module: exactly the names in its `__all__`
    other than `apply_constraint` itself.  Each is a partial function of the
    scale tuple: calling it with the wrong number of arguments is Python's
    `TypeError`; the means divide by `len`, so an empty tuple is a
    `ZeroDivisionError` (mapped to `other`). -/
def constraintFn (name : String) (l : List α) : Except Err α :=
  match name with
  | "gmean" => if l.isEmpty then .error .other else .ok (gmean l)
  | "hmean" => if l.isEmpty then .error .other else .ok (hmean l)
  | "amean" => if l.isEmpty then .error .other else .ok (amean l)
  | "to_output_scale" =>
      match l with
      | o :: _ => .ok o
      | [] => .error .typeError
  | "to_grad_input_scale" =>
      match l with
      | [_, g] => .ok g
      | _ => .error .typeError
  | "to_left_grad_scale" =>
      match l with
      | [_, lg, _] => .ok lg
      | _ => .error .typeError
  | "to_right_grad_scale" =>
      match l with
      | [_, _, rg] => .ok rg
      | _ => .error .typeError
  | _ => .error .valueError

/-- The public names accepted by `apply_constraint`. -/
def constraintNames : List String :=
  ["amean", "gmean", "hmean", "to_grad_input_scale", "to_left_grad_scale",
   "to_output_scale", "to_right_grad_scale"]

/-- `apply_constraint(constraint_name, *scales)`: `None` and `""` return the scales
    unchanged; a known rule returns `len(scales)` copies of its value; any other
    name raises `ValueError`. -/
def applyConstraint (name : Option String) (l : List α) : Except Err (List α) :=
  match name with
  | none => .ok l
  | some "" => .ok l
  | some n => do
      let s ← constraintFn n l
      pure (l.map fun _ => s)

end
end USModel
