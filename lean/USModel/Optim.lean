/-
  Model of `unit_scaling/optim.py`: fan-in, learning-rate scale rules, and
  `scaled_parameters` on a small heap model for tensor learning rates.
-/
import USModel.Scales
namespace USModel

inductive MupType where
  | weight | bias | norm | output
  deriving DecidableEq, Repr, Inhabited

def MupType.ofString? : String → Option MupType
  | "weight" => some .weight | "bias" => some .bias
  | "norm" => some .norm | "output" => some .output | _ => none

/-- `_get_fan_in`: 1-D `shape[0]`, 2-D `shape[1]`, 3-D `shape[1]*shape[2]`, else `ValueError`. -/
def fanIn : List Nat → Except Err Nat
  | [a] => .ok a
  | [_, b] => .ok b
  | [_, b, c] => .ok (b * c)
  | _ => .error .valueError

inductive OptKind where
  | adam            -- Adam, AdamW, and SGD with `readout_constraint=None`
  | sgdOutputScale  -- SGD with `readout_constraint="to_output_scale"`
  deriving DecidableEq, Repr

section
variable {α : Type} [Add α] [Sub α] [Mul α] [Div α] [Neg α] [NatCast α] [Transc α]

/-- `lr_scale_for_depth` -/
def lrScaleDepth (depth : Option Nat) : α :=
  match depth with
  | none => nat 1
  | some d => powNegHalf (nat d)

/-- `lr_scale_func_adam` -/
def lrScaleAdam (t : MupType) (shape : List Nat) (depth : Option Nat) : Except Err α := do
  let s : α := lrScaleDepth depth
  match t with
  | .bias | .norm | .output => pure s
  | .weight => do
      let f ← fanIn shape
      pure (s * powNegHalf (nat f))

/-- `lr_scale_func_sgd("to_output_scale")` -/
def lrScaleSgdOut (t : MupType) (shape : List Nat) (depth : Option Nat) : Except Err α := do
  let s : α := lrScaleDepth depth
  match t with
  | .bias | .norm =>
      match shape with
      | d :: _ => pure (s * nat d)
      | [] => .error .indexError
  | .weight => do
      let f ← fanIn shape
      pure (s * powHalf (nat f))
  | .output => pure s

def lrScale (k : OptKind) (t : MupType) (shape : List Nat) (depth : Option Nat) : Except Err α :=
  match k with
  | .adam => lrScaleAdam t shape depth
  | .sgdOutputScale => lrScaleSgdOut t shape depth

end
end USModel
