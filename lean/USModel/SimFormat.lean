/-
  C15 — model of the quantisation backend (`transforms/_simulate_format.py`) and of the
  straight-through quantisers `FPFormat.quantise_fwd` / `quantise_bwd`.
-/
import USModel.Graph
import USModel.Autograd
namespace USModel

/-- `_replacement_map` as canonical names -/
def quantMap : List (String × String) :=
  [("F.linear", "Q.linear"), ("U.linear", "Q.u_linear"), ("F.sdpa", "Q.sdpa"), ("U.sdpa", "Q.u_sdpa")]

structure Fmt where
  exponentBits : Nat
  mantissaBits : Nat
  rounding : String      -- "stochastic" | "nearest"
  srbits : Nat
  deriving Repr, DecidableEq

/-- `FPFormat.__post_init__`: stochastic rounding with `srbits = 0` means all `23 − M` bits -/
def Fmt.normalise (f : Fmt) : Fmt :=
  if f.srbits = 0 ∧ f.rounding = "stochastic" then { f with srbits := 23 - f.mantissaBits } else f

/-- `format_to_tuple` as an FX literal -/
def Fmt.toArg (f : Fmt) : Arg :=
  .seq true [.lit (toString f.exponentBits), .lit (toString f.mantissaBits),
             .lit ("'" ++ f.rounding ++ "'"), .lit (toString f.srbits)]

/-- `tuple_to_format(format_to_tuple(f))` : `FPFormat(*t)` runs `__post_init__` again -/
def Fmt.roundTrip (f : Fmt) : Fmt := (Fmt.mk f.exponentBits f.mantissaBits f.rounding f.srbits).normalise

/-- `_replace_with_quantised` -/
def replaceWithQuantised (fwd bwd : Fmt) (n : GNode) : GNode :=
  if n.op == "call_function" then
    match quantMap.lookup n.target with
    | some q =>
      let (args, kwargs) :=
        if n.args.length == 2 then (n.args ++ [(lookupKw n.kwargs "bias").getD (.lit "None")], eraseKw n.kwargs "bias")
        else (n.args, n.kwargs)
      { n with target := q, args := args.take 3 ++ [fwd.toArg, bwd.toArg] ++ args.drop 3, kwargs := kwargs }
    | none => n
  else n

/-- `_quantisation_backend(fwd, bwd)`: every node is visited once; replacement keeps the position -/
def simulateBackend (fwd bwd : Fmt) (g : Graph) : Graph := g.map (replaceWithQuantised fwd bwd)

/-- `simulate_fp8` -/
def fp8Fwd : Fmt := (Fmt.mk 4 3 "stochastic" 0).normalise
def fp8Bwd : Fmt := (Fmt.mk 5 2 "stochastic" 0).normalise

section
variable {X Y A B C : Type}
/-- `quantise_fwd`: quantised value, gradient passed through unchanged -/
def QF (q : X → X) : DOp X X := ⟨q, fun _ g => g⟩
/-- `quantise_bwd`: value unchanged, gradient quantised -/
def QB (q : X → X) : DOp X X := ⟨fun x => x, fun _ g => q g⟩

/-- `_quantised_linear` / `_quantised_u_linear`: input and weight forward-quantised, bias not,
    output gradient backward-quantised -/
def quantisedLinear (qa : A → A) (qb : B → B) (qy : Y → Y) (F : DOp (A × B × C) Y) : DOp (A × B × C) Y :=
  (QB qy).comp (F.comp ⟨fun x => (qa x.1, qb x.2.1, x.2.2), fun _ g => g⟩)

/-- attention: query, key, value forward-quantised (mask and flags are not operands) -/
def quantisedSdpa (q1 : A → A) (q2 : B → B) (q3 : C → C) (qy : Y → Y) (F : DOp (A × B × C) Y) : DOp (A × B × C) Y :=
  (QB qy).comp (F.comp ⟨fun x => (q1 x.1, q2 x.2.1, q3 x.2.2), fun _ g => g⟩)
end

end USModel
