/-
  Model of `transformer_residual_scaling_rule` (`unit_scaling/core/functional.py`)
  and of the wiring in `TransformerStack` (`unit_scaling/_modules.py`).
-/
import USModel.Scales
namespace USModel

section
variable {α : Type} [Add α] [Sub α] [Mul α] [Div α] [Neg α] [NatCast α] [Transc α]

/-- `_tau(index, layers)` of `transformer_residual_scaling_rule(r, ρ)`. -/
def tauRule (r rho : α) (index layers : Nat) : α :=
  let alphaMlp := r * powHalf (nat 2 / (nat 1 + rho * rho))
  let alphaAttn := rho * alphaMlp
  let nAttn := (index + 1) / 2
  let nMlp := index / 2
  (if index % 2 = 0 then alphaAttn else alphaMlp) /
    powHalf (nat layers / nat 2 + nat nAttn * (alphaAttn * alphaAttn)
              + nat nMlp * (alphaMlp * alphaMlp))
end

section
variable {α : Type} [Add α] [Mul α] [Div α] [NatCast α]

/-- Squared MLP / attention weights of the rule: `α_mlp² = r²·2/(1+ρ²)`, `α_attn² = ρ²·α_mlp²`. -/
def alphaMlpSq (r rho : α) : α := r * r * ((2 : Nat) / ((1 : Nat) + rho * rho))
def alphaAttnSq (r rho : α) : α := rho * rho * alphaMlpSq r rho

/-- `tau²` with field operations only (runs at `Rat`, proved equal to `tauRule²` over `ℝ`). -/
def tauSq (r rho : α) (index layers : Nat) : α :=
  (if index % 2 = 0 then alphaAttnSq r rho else alphaMlpSq r rho) /
    (((layers : Nat) : α) / ((2 : Nat) : α) + (((index + 1) / 2 : Nat) : α) * alphaAttnSq r rho
      + ((index / 2 : Nat) : α) * alphaMlpSq r rho)

/-- Residual bookkeeping: after branches with squared weights `t₀ … tₙ₋₁` (applied in
    order), the squared contribution of the embedding is `∏ 1/(1+tⱼ)`. -/
def contribEmb (ts : List α) : α :=
  ts.foldl (fun acc t => acc * (((1 : Nat) : α) / ((1 : Nat) + t))) ((1 : Nat) : α)

/-- Squared contributions of the branches, in order:
    `cᵢ = tᵢ/(1+tᵢ) · ∏_{j>i} 1/(1+tⱼ)`. -/
def contribs : List α → List α
  | [] => []
  | t :: rest => (t / ((1 : Nat) + t) * contribEmb rest) :: contribs rest

/-- `tau²` of every branch of a stack of `L` layers: `TransformerStack` passes
    `(2i, 2L)` and `(2i+1, 2L)` for layer `i`. -/
def stackTauSqs (r rho : α) (L : Nat) : List α :=
  (List.range (2 * L)).map fun i => tauSq r rho i (2 * L)

end

section
variable {α : Type} [Add α] [Sub α] [Mul α] [Div α] [Neg α] [NatCast α] [Transc α]
/-- `(mhsa_tau, mlp_tau)` per layer of `TransformerStack(layers = L)`. -/
def stackTaus (r rho : α) (L : Nat) : List (α × α) :=
  (List.range L).map fun i => (tauRule r rho (2 * i) (2 * L), tauRule r rho (2 * i + 1) (2 * L))
end

end USModel
