/-
  Model of `scaled_parameters` (`unit_scaling/optim.py`) over lists, with a small heap for
  tensor learning rates: a tensor lr is an address into `List α`; `clone()` allocates a new
  cell at the end, `*=` writes the product into it.  Float learning rates are values.

  Also: the zero-gradient step of SGD and AdamW (C11's weight-decay clause).
-/
import USModel.Optim
namespace USModel

structure Param where
  id : Nat
  tag : Option MupType        -- `none`: a regular, untagged `nn.Parameter`
  shape : List Nat
  depth : Option Nat
  deriving Repr, DecidableEq

inductive LrVal (α : Type) where
  | flt (v : α)               -- Python float
  | cell (addr : Nat)         -- tensor: address of its storage
  deriving Repr

structure PGroup (α : Type) where
  params : List Param
  lr : Option (LrVal α)       -- the group's own `lr`, if it has one
  wd : Option α               -- the group's own `weight_decay`, if it has one
  extra : List (String × String)   -- every other key, carried verbatim
  deriving Repr

/-- an entry of `params`: a bare tensor or a group dict -/
inductive Entry (α : Type) where
  | bare (p : Param)
  | group (g : PGroup α)
  deriving Repr

structure OutGroup (α : Type) where
  param : Param
  lr : LrVal α
  wd : α
  extra : List (String × String)
  deriving Repr

section
variable {α : Type} [Add α] [Sub α] [Mul α] [Div α] [Neg α] [NatCast α] [Transc α]

def lrValue (heap : List α) : LrVal α → Option α
  | .flt v => some v
  | .cell a => heap[a]?

/-- one parameter of a group: returns the new heap and the produced group -/
def stepParam (k : OptKind) (indep allow : Bool) (glr : LrVal α) (gwd : α)
    (extra : List (String × String)) (heap : List α) (p : Param) :
    Except Err (List α × OutGroup α) :=
  match p.tag with
  | some t => do
      let s : α ← lrScale k t p.shape p.depth
      match glr with
      | .flt v =>
          let lr' := v * s
          pure (heap, ⟨p, .flt lr', if indep then gwd / lr' else gwd, extra⟩)
      | .cell a =>
          match heap[a]? with
          | none => .error .other
          | some v =>
              let lr' := v * s                      -- clone(); *= scale
              pure (heap ++ [lr'], ⟨p, .cell heap.length, if indep then gwd / lr' else gwd, extra⟩)
  | none =>
      if allow then
        match lrValue heap glr with
        | none => .error .other
        | some v => pure (heap, ⟨p, glr, if indep then gwd / v else gwd, extra⟩)
      else .error .valueError

def stepParams (k : OptKind) (indep allow : Bool) (glr : LrVal α) (gwd : α)
    (extra : List (String × String)) :
    List α → List Param → Except Err (List α × List (OutGroup α))
  | heap, [] => pure (heap, [])
  | heap, p :: ps => do
      let (h1, g) ← stepParam k indep allow glr gwd extra heap p
      let (h2, gs) ← stepParams k indep allow glr gwd extra h1 ps
      pure (h2, g :: gs)

/-- one entry: `group.setdefault("lr", lr)`, `setdefault("weight_decay", wd)`, missing lr is
    a `ValueError`. -/
def stepEntry (k : OptKind) (indep allow : Bool) (lr : Option (LrVal α)) (wd : α)
    (heap : List α) (e : Entry α) : Except Err (List α × List (OutGroup α)) :=
  let g : PGroup α := match e with
    | .bare p => ⟨[p], none, none, []⟩
    | .group g => g
  match g.lr.orElse (fun _ => lr) with
  | none => .error .valueError
  | some glr => stepParams k indep allow glr (g.wd.getD wd) g.extra heap g.params

/-- `scaled_parameters(params, lr_scale_func, lr, weight_decay, independent_weight_decay,
    allow_non_unit_scaling_params)` -/
def scaledParameters (k : OptKind) (indep allow : Bool) (lr : Option (LrVal α)) (wd : α) :
    List α → List (Entry α) → Except Err (List α × List (OutGroup α))
  | heap, [] => pure (heap, [])
  | heap, e :: es => do
      let (h1, gs) ← stepEntry k indep allow lr wd heap e
      let (h2, gs') ← scaledParameters k indep allow lr wd h1 es
      pure (h2, gs ++ gs')

/-- all parameters of the input, in order -/
def entryParams : Entry α → List Param
  | .bare p => [p]
  | .group g => g.params

/-- `torch.optim.SGD` step with zero gradient (no momentum): `p ← p − lr·(0 + wd·p)` -/
def sgdZeroStep (lr wd p : α) : α := p - lr * (nat 0 + wd * p)

/-- `torch.optim.AdamW` step with zero gradient: decoupled decay, then the Adam update whose
    numerator (first moment) is zero. -/
def adamwZeroStep (lr wd eps p : α) : α :=
  p * (nat 1 - lr * wd) - lr * (nat 0 / (Transc.sqrt (nat 0) + eps))

end
end USModel

namespace USModel
section
variable {α : Type} [Add α] [Sub α] [Mul α] [Div α] [Neg α] [NatCast α] [Transc α]

/-- First `torch.optim.Adam`/`AdamW` step (no weight decay): after bias correction the moments
    are `m̂ = g`, `v̂ = g²`, so the parameter moves by `−lr · g / (√(g²) + eps)`. -/
def adamFirstStep (lr eps g : α) : α := -(lr * (g / (Transc.sqrt (g * g) + eps)))

end
end USModel
