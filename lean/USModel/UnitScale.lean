/-
  C16 — model of `unit_scaling_backend` (`transforms/_unit_scale.py`), pass by pass, on graphs
  whose nodes carry stable ids (insertion allocates fresh ids; output is renumbered by position).
-/
import USModel.Graph
namespace USModel

structure INode where
  id : Nat
  n : GNode
  deriving Repr, Inhabited

abbrev IGraph := List INode

def IGraph.ofGraph (g : Graph) : IGraph := g.zipIdx.map fun (n, i) => ⟨i, n⟩

/-- renumber references by position -/
def IGraph.toGraph (g : IGraph) : Graph :=
  let pos := fun (i : Nat) => (g.findIdx? (·.id == i)).getD 0
  g.map fun x => { x.n with args := Arg.mapRefsList (fun i => .ref (pos i)) x.n.args,
                            kwargs := x.n.kwargs.map fun (k, a) => (k, a.mapRefs (fun i => .ref (pos i))) }

def IGraph.freshId (g : IGraph) : Nat := g.foldl (fun m x => max m x.id) 0 + 1
def IGraph.get? (g : IGraph) (i : Nat) : Option INode := g.find? (·.id == i)

def IGraph.insertAfter (g : IGraph) (after : Nat) (x : INode) : IGraph :=
  match g.findIdx? (·.id == after) with
  | some p => g.insertIdx (p + 1) x
  | none => g ++ [x]

/-- `torch_map` as canonical names (compared with the live map on every run) -/
def torchMap : List (String × String) :=
  [("torch.add", "U.add"), ("F.conv1d", "U.conv1d"), ("F.cross_entropy", "U.cross_entropy"),
   ("F.dropout", "U.dropout"), ("F.embedding", "U.embedding"), ("F.gelu", "U.gelu"),
   ("F.layer_norm", "U.layer_norm"), ("F.linear", "U.linear"), ("torch.matmul", "U.matmul"),
   ("F.mse_loss", "U.mse_loss"), ("F.rms_norm", "U.rms_norm"), ("F.sdpa", "U.sdpa"), ("F.silu", "U.silu"),
   ("F.softmax", "U.softmax")]

/-- unit-scaled functions whose signature has a `constraint` parameter -/
def constraintTargets : List String :=
  ["U.gelu", "U.silu", "U.softmax", "U.matmul", "U.linear", "U.linear_readout", "U.conv1d", "U.add"]

def selfAttentionTargets : List String := ["F.sdpa", "U.sdpa", "F.softmax", "U.softmax"]

/-- pass 1: user replacements first, then the built-in map -/
def sweep (user : List (String × String)) (g : IGraph) : IGraph :=
  g.map fun x =>
    if x.n.op == "call_function" then
      match user.lookup x.n.target with
      | some t => { x with n := { x.n with target := t } }
      | none =>
        match torchMap.lookup x.n.target with
        | some t => { x with n := { x.n with target := t } }
        | none => x
    else x

/-- `_add_dependency_meta`: all transitive inputs of every node (graph order = topological order) -/
def allDeps (g : IGraph) : List (Nat × List Nat) :=
  g.foldl (fun acc x =>
    let ins := x.n.inputs
    acc ++ [(x.id, (ins ++ ins.flatMap (fun i => (acc.lookup i).getD [])).eraseDups)]) []

def isAdd (n : GNode) : Bool :=
  n.op == "call_function" && (n.target == "op.add" || n.target == "op.iadd")

/-- `_is_self_attention(skip, residual)`: targets on the branch, walking inputs from the residual
    operand and not continuing through the skip node -/
def branchTargets (g : IGraph) (skip : Nat) : Nat → List Nat → List String → List String
  | 0, _, acc => acc
  | _, [], acc => acc
  | fuel + 1, p :: rest, acc =>
    if p == skip then branchTargets g skip fuel rest acc
    else match g.get? p with
      | some x => branchTargets g skip fuel (rest ++ x.n.inputs) (x.n.target :: acc)
      | none => branchTargets g skip fuel rest acc

def isSelfAttention (g : IGraph) (skip residual : Nat) : Bool :=
  match g.get? residual with
  | none => false
  | some r =>
    let ts := branchTargets g skip (g.length * g.length + 8) r.n.inputs [r.n.target]
    ts.any (selfAttentionTargets.contains ·)

inductive AddKind where
  | residual (residualArgIdx : Nat) (selfAttn : Bool)
  | plain
  deriving Repr

/-- pass 2: classify every add of the swept graph -/
def classifyAdd (g : IGraph) (deps : List (Nat × List Nat)) (x : INode) : Option AddKind :=
  if isAdd x.n then
    match x.n.args with
    | [.ref l, .ref r] =>
      let ld := (deps.lookup l).getD []
      let rd := (deps.lookup r).getD []
      if rd.contains l || ld.contains r then
        let idx := if rd.contains l then 1 else 0
        let (skip, res) := if rd.contains l then (l, r) else (r, l)
        some (.residual idx (isSelfAttention g skip res))
      else some .plain
    | _ => some .plain
  else none

def replaceRefsIn (old new : Nat) (n : GNode) : GNode :=
  let f := fun (i : Nat) => if i == old then Arg.ref new else Arg.ref i
  { n with args := Arg.mapRefsList f n.args, kwargs := n.kwargs.map fun (k, a) => (k, a.mapRefs f) }

/-- `_unit_scale_residual` for one residual add -/
def rewriteResidual (g : IGraph) (addId idx : Nat) (selfAttn : Bool) : IGraph :=
  match g.get? addId with
  | none => g
  | some a =>
    match a.n.args[idx]?, a.n.args[1 - idx]? with
    | some residual, some (.ref skip) =>
      let tau := Arg.lit (if selfAttn then "0.01" else "0.5")
      let id0 := g.freshId
      let split : INode := ⟨id0, { op := "call_function", target := "U.residual_split", args := [.ref skip, tau], kwargs := [] }⟩
      let start : INode := ⟨id0 + 1, { op := "call_function", target := "op.getitem", args := [.ref id0, .lit "0"], kwargs := [] }⟩
      let nskip : INode := ⟨id0 + 2, { op := "call_function", target := "op.getitem", args := [.ref id0, .lit "1"], kwargs := [] }⟩
      -- other users of the skip tensor are re-routed to the residual output of the split
      let g1 : IGraph := g.map fun x =>
        if x.id != addId && x.n.inputs.contains skip then { x with n := replaceRefsIn skip (id0 + 1) x.n } else x
      let g2 : IGraph := IGraph.insertAfter (IGraph.insertAfter g1 skip split) id0 start
      let g3 : IGraph := IGraph.insertAfter g2 id0 nskip
      g3.map fun x =>
        if x.id == addId then
          { x with n := { x.n with target := "U.residual_add", args := [residual, .ref (id0 + 2), tau] } }
        else x
    | _, _ => g

/-- passes 1–3: sweep, classification of the adds, plain adds unconstrained, residual adds rewritten -/
def rewritten (user : List (String × String)) (g0 : Graph) : IGraph :=
  let g : IGraph := sweep user (IGraph.ofGraph g0)
  let deps := allDeps g
  let kinds := g.filterMap fun x => (classifyAdd g deps x).map fun k => (x.id, k)
  -- plain adds become unconstrained unit-scaled adds
  let g : IGraph := g.map fun x =>
    match kinds.lookup x.id with
    | some .plain => { x with n := { x.n with target := "U.add", kwargs := setKw x.n.kwargs "constraint" (.lit "None") } }
    | _ => x
  -- residual adds, in graph order
  kinds.foldl (fun (g : IGraph) (p : Nat × AddKind) =>
    match p.2 with
    | .residual idx sa => rewriteResidual g p.1 idx sa
    | .plain => g) g

/-- ids of the residual adds and of everything they are computed from -/
def residualMarked (g : IGraph) : List Nat :=
  let deps := allDeps g
  (g.filter (·.n.target == "U.residual_add")).flatMap fun x => x.id :: (deps.lookup x.id).getD []

/-- last pass: nodes with a later residual add keep their constraint; all others are unconstrained -/
def unconstrainPass (userConstraintTargets : List String) (g : IGraph) : IGraph :=
  let marked := residualMarked g
  g.map fun x =>
    if !marked.contains x.id && x.n.op == "call_function" &&
        (constraintTargets.contains x.n.target || userConstraintTargets.contains x.n.target) then
      { x with n := { x.n with kwargs := setKw x.n.kwargs "constraint" (.lit "None") } }
    else x

/-- executable check of topological order: ids are distinct and every input is the id of an earlier node -/
def IGraph.topoB (g : IGraph) : Bool :=
  (g.foldl (fun (st : List Nat × Bool) x =>
    (x.id :: st.1, st.2 && !st.1.contains x.id && x.n.inputs.all (st.1.contains ·))) ([], true)).2

/-- the whole backend -/
def unitScaleBackend (user : List (String × String)) (userConstraintTargets : List String) (g0 : Graph) : Graph :=
  IGraph.toGraph (unconstrainPass userConstraintTargets (rewritten user g0))

end USModel
