/-
  C09 — abstract state machine of one u-μP parameter under copies, pickling, conversions and
  transforms (`unit_scaling/parameter.py`).

  The library tags a plain `nn.Parameter` with instance attributes `mup_type`,
  `mup_scaling_depth` and two *instance-level* hooks `__deepcopy__` / `__reduce_ex__`:
    * `copy.deepcopy` on a hooked parameter calls `_parameter_deepcopy`, which copies the tags and
      installs both hooks on the copy; on an un-hooked parameter PyTorch's own
      `Parameter.__deepcopy__` runs, which drops all instance attributes;
    * pickling a hooked parameter goes through `_parameter_reduce_ex` (hooks filtered from the
      state, re-installed by `_rebuild_parameter_with_state` on load); pickling an un-hooked one uses
      PyTorch's reducer, which keeps `__dict__` (tags) but installs no hooks;
    * `module.to(dtype)`, `half()`, `load_state_dict`, `requires_grad_` update the parameter object
      in place;
    * every library transform deep-copies the module first.
-/
import USModel.Optim
namespace USModel

inductive DType where
  | f16 | f32 | f64
  deriving DecidableEq, Repr, Inhabited

def DType.rank : DType → Nat
  | .f16 => 0 | .f32 => 1 | .f64 => 2

/-- coarser of two precisions -/
def DType.coarser (a b : DType) : DType := if a.rank ≤ b.rank then a else b

structure PState where
  tagged : Bool
  hooked : Bool
  isParam : Bool
  mupType : MupType
  depth : Option Nat
  dtype : DType
  /-- coarsest precision the values have been rounded through -/
  prec : DType
  requiresGrad : Bool
  /-- the module currently holding the parameter was returned by a library transform -/
  holderTransformed : Bool
  deriving DecidableEq, Repr

inductive HOp where
  | deepcopyParam | deepcopyModule | pickleParam | pickleModule | saveLoadParam | saveLoadModule
  | toFloat64 | half | loadStateDict | toggleRequiresGrad | applyTransform
  deriving DecidableEq, Repr

def HOp.ofString? : String → Option HOp
  | "deepcopyParam" => some .deepcopyParam | "deepcopyModule" => some .deepcopyModule
  | "pickleParam" => some .pickleParam | "pickleModule" => some .pickleModule
  | "saveLoadParam" => some .saveLoadParam | "saveLoadModule" => some .saveLoadModule
  | "toFloat64" => some .toFloat64 | "half" => some .half | "loadStateDict" => some .loadStateDict
  | "toggleRequiresGrad" => some .toggleRequiresGrad | "applyTransform" => some .applyTransform
  | _ => none

/-- `copy.deepcopy` of the parameter (directly or as part of a module) -/
def deepcopyStep (s : PState) : PState :=
  if s.hooked then { s with hooked := true }          -- `_parameter_deepcopy`: tags copied, hooks installed
  else { s with tagged := false, hooked := false }    -- `Parameter.__deepcopy__`: instance attributes dropped

/-- pickle / `torch.save`+`load` round trip -/
def pickleStep (s : PState) : PState :=
  if s.hooked then { s with hooked := true }          -- `_parameter_reduce_ex` / `_rebuild_parameter_with_state`
  else s                                              -- PyTorch's reducer keeps `__dict__`, installs nothing

/-- One operation.  Parameter-level operations produce a bare parameter (the harness puts it into
    a fresh, untransformed module); module-level copies keep the holder's kind.
    Pickling / `torch.save` of a module returned by a library transform raises (its patched
    `forward` and backend closures are local functions): finding F-C09b. -/
def step (s : PState) : HOp → Except Err PState
  | .deepcopyParam => .ok { deepcopyStep s with holderTransformed := false }
  | .deepcopyModule => .ok (deepcopyStep s)
  | .applyTransform => .ok { deepcopyStep s with holderTransformed := true }
  | .pickleParam | .saveLoadParam => .ok { pickleStep s with holderTransformed := false }
  | .pickleModule | .saveLoadModule =>
      if s.holderTransformed then .error .other else .ok (pickleStep s)
  | .toFloat64 => .ok { s with dtype := .f64 }
  | .half => .ok { s with dtype := .f16, prec := .f16 }
  | .loadStateDict => .ok s
  | .toggleRequiresGrad => .ok { s with requiresGrad := !s.requiresGrad }

/-- `uu.Parameter(data, mup_type, mup_scaling_depth)` on float32 data -/
def initState (t : MupType) (d : Option Nat) : PState :=
  ⟨true, true, true, t, d, .f32, .f32, true, false⟩

def runHistory (s : PState) : List HOp → Except Err PState
  | [] => .ok s
  | o :: os => do
      let s' ← step s o
      runHistory s' os

/-- states after each step, until the first failing operation (`none` marks it) -/
def traceHistory (s : PState) : List HOp → List (Option PState)
  | [] => []
  | o :: os =>
    match step s o with
    | .ok s' => some s' :: traceHistory s' os
    | .error _ => [none]

/-- `has_parameter_data` ∧ hooks ∧ still an `nn.Parameter` -/
def PState.ok (s : PState) : Bool := s.tagged && s.hooked && s.isParam

end USModel
