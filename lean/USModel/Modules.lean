/-
  C08 — table model of `unit_scaling/_modules.py`: for every public module the constructor's
  options, what `forward` does with each of them (passes it to the unit-scaled function, hands it
  to the `torch.nn` parent, or rejects non-default values at construction), the parameters it
  creates with their u-μP tags, and the tagging loop of the depth containers.
  The harness compares the option lists with the live constructor signatures and the parameter
  tables with `named_parameters()` on every run.
-/
import USModel.Optim
namespace USModel

inductive OptionUse where
  | toFunctional (fn param : String)   -- forwarded to this parameter of the unit-scaled function
  | toParent                            -- consumed by the torch.nn parent constructor (shapes, devices)
  | structural                          -- determines which parameters / sub-modules exist
  | rejected                            -- non-default values raise at construction
  deriving Repr, DecidableEq

structure ModSpec where
  name : String
  options : List (String × OptionUse)
  params : List (String × MupType)
  deriving Repr

def moduleSpecs : List ModSpec := [
  ⟨"GELU", [("mult", .toFunctional "gelu" "mult"), ("constraint", .toFunctional "gelu" "constraint"),
            ("approximate", .toFunctional "gelu" "approximate")], []⟩,
  ⟨"SiLU", [("mult", .toFunctional "silu" "mult"), ("constraint", .toFunctional "silu" "constraint"),
            ("inplace", .rejected)], []⟩,
  ⟨"Softmax", [("dim", .toFunctional "softmax" "dim"), ("mult", .toFunctional "softmax" "mult"),
               ("constraint", .toFunctional "softmax" "constraint")], []⟩,
  ⟨"Dropout", [("p", .toFunctional "dropout" "p"), ("inplace", .rejected)], []⟩,
  ⟨"Linear", [("in_features", .toParent), ("out_features", .toParent), ("bias", .structural), ("device", .toParent),
              ("dtype", .toParent), ("constraint", .toFunctional "linear" "constraint"), ("weight_mup_type", .structural)],
             [("weight", .weight), ("bias", .bias)]⟩,
  ⟨"LinearReadout", [("in_features", .toParent), ("out_features", .toParent), ("bias", .structural), ("device", .toParent),
              ("dtype", .toParent), ("constraint", .toFunctional "linear_readout" "constraint"), ("weight_mup_type", .structural)],
             [("weight", .output), ("bias", .bias)]⟩,
  ⟨"Conv1d", [("in_channels", .toParent), ("out_channels", .toParent), ("kernel_size", .toParent),
              ("stride", .toFunctional "conv1d" "stride"), ("padding", .toFunctional "conv1d" "padding"),
              ("dilation", .toFunctional "conv1d" "dilation"), ("groups", .toFunctional "conv1d" "groups"),
              ("bias", .structural), ("padding_mode", .toFunctional "pad" "mode"), ("device", .toParent), ("dtype", .toParent),
              ("constraint", .toFunctional "conv1d" "constraint"), ("weight_mup_type", .structural)],
             [("weight", .weight), ("bias", .bias)]⟩,
  ⟨"LayerNorm", [("normalized_shape", .toFunctional "layer_norm" "normalized_shape"), ("eps", .toFunctional "layer_norm" "eps"),
                 ("elementwise_affine", .structural), ("bias", .structural), ("device", .toParent), ("dtype", .toParent)],
             [("weight", .norm), ("bias", .bias)]⟩,
  ⟨"RMSNorm", [("normalized_shape", .toFunctional "rms_norm" "normalized_shape"), ("eps", .toFunctional "rms_norm" "eps"),
               ("elementwise_affine", .structural)], [("weight", .norm)]⟩,
  ⟨"Embedding", [("num_embeddings", .toParent), ("embedding_dim", .toParent),
                 ("padding_idx", .toFunctional "embedding" "padding_idx"), ("max_norm", .toFunctional "embedding" "max_norm"),
                 ("norm_type", .toFunctional "embedding" "norm_type"), ("scale_grad_by_freq", .rejected), ("sparse", .rejected),
                 ("_weight", .structural), ("_freeze", .structural), ("device", .toParent), ("dtype", .toParent)],
             [("weight", .weight)]⟩,
  ⟨"CrossEntropyLoss", [("mult", .toFunctional "cross_entropy" "mult"), ("weight", .rejected), ("size_average", .rejected),
                        ("ignore_index", .toFunctional "cross_entropy" "ignore_index"), ("reduce", .rejected),
                        ("reduction", .toFunctional "cross_entropy" "reduction"), ("label_smoothing", .rejected)], []⟩]

/-- an option is *dealt with*: used by the forward computation, structural, or rejected -/
def OptionUse.dealtWith : OptionUse → Bool
  | .toFunctional _ _ => true | .toParent => true | .structural => true | .rejected => true

/-- the tagging loop of `DepthModuleList` / `DepthSequential`: every parameter must be tagged;
    each gets `mup_scaling_depth = len(container)` -/
def depthTag : List (String × Option MupType) → Nat → Except Err (List (String × MupType × Nat))
  | [], _ => .ok []
  | (_, none) :: _, _ => .error .valueError
  | (n, some ty) :: rest, len =>
    match depthTag rest len with
    | .ok r => .ok ((n, ty, len) :: r)
    | .error e => .error e

/-- is the option forwarded to the `constraint` parameter of a unit-scaled function? -/
def OptionUse.forwardsConstraint : OptionUse → Bool
  | .toFunctional _ p => p == "constraint"
  | _ => false

end USModel
