/-
  The part of autograd the library relies on.

  A two-sided operation `DOp X Y` is a forward map and a vector-Jacobian product
  (`vjp x g` = cotangent delivered to the input at point `x` for output cotangent `g`).
  `scaleFwd` / `scaleBwd` are `unit_scaling.scale._ScaledGrad` with
  `(fwd_scale, bwd_scale) = (c, 1)` resp. `(1, c)`:

      forward : fwd_scale * X          backward : bwd_scale * grad_Y

  PyTorch's reference operation is an arbitrary `F : DOp X Y` (a parameter of every theorem).
  Mathlib-free: only core's `SMul` is used.
-/
import USModel.Scales
namespace USModel

structure DOp (X Y : Type) where
  fwd : X → Y
  vjp : X → Y → X

namespace DOp
variable {X Y Z : Type}

/-- sequential composition with the reverse-mode chain rule -/
def comp (g : DOp Y Z) (f : DOp X Y) : DOp X Z where
  fwd := fun x => g.fwd (f.fwd x)
  vjp := fun x gz => f.vjp x (g.vjp (f.fwd x) gz)

def idOp : DOp X X := ⟨id, fun _ g => g⟩
end DOp

section
variable {α V A B C Y : Type}

/-- `scale_fwd(x, c)`: multiplies the value, passes the gradient through. -/
def scaleFwd [SMul α V] (c : α) : DOp V V := ⟨fun x => c • x, fun _ g => g⟩
/-- `scale_bwd(x, c)`: passes the value through, multiplies the gradient. -/
def scaleBwd [SMul α V] (c : α) : DOp V V := ⟨fun x => x, fun _ g => c • g⟩

/-- A unit-scaled function of one tensor input:
    `scale_fwd(F(scale_bwd(x, b)), f)`. -/
def scaled1 [SMul α A] [SMul α Y] (f b : α) (F : DOp A Y) : DOp A Y :=
  (scaleFwd f).comp (F.comp (scaleBwd b))

/-- two tensor inputs, each with its own backward scale -/
def scaleBwd2 [SMul α A] [SMul α B] (a b : α) : DOp (A × B) (A × B) :=
  ⟨fun x => x, fun _ g => (a • g.1, b • g.2)⟩
def scaled2 [SMul α A] [SMul α B] [SMul α Y] (f a b : α) (F : DOp (A × B) Y) : DOp (A × B) Y :=
  (scaleFwd f).comp (F.comp (scaleBwd2 a b))

/-- three tensor inputs (e.g. input, weight, bias) -/
def scaleBwd3 [SMul α A] [SMul α B] [SMul α C] (a b c : α) : DOp (A × B × C) (A × B × C) :=
  ⟨fun x => x, fun _ g => (a • g.1, b • g.2.1, c • g.2.2)⟩
def scaled3 [SMul α A] [SMul α B] [SMul α C] [SMul α Y] (f a b c : α) (F : DOp (A × B × C) Y) :
    DOp (A × B × C) Y :=
  (scaleFwd f).comp (F.comp (scaleBwd3 a b c))

/-! Residual connections (`residual_split`, `residual_add`, `residual_apply`). -/

/-- `residual_split(x, tau)`: both outputs equal `x`; gradients are weighted on the way back and
    summed. -/
def residualSplit [SMul α V] [Add V] (wr ws : α) : DOp V (V × V) :=
  ⟨fun x => (x, x), fun _ g => wr • g.1 + ws • g.2⟩

/-- `residual_add(residual, skip, tau)`: weights applied in the forward pass only. -/
def residualAdd [SMul α V] [Add V] (wr ws : α) : DOp (V × V) V :=
  ⟨fun x => wr • x.1 + ws • x.2, fun _ g => (g, g)⟩

/-- a branch `f` applied to the first component only -/
def onFirst (f : DOp V V) : DOp (V × V) (V × V) :=
  ⟨fun x => (f.fwd x.1, x.2), fun x g => (f.vjp x.1 g.1, g.2)⟩

/-- `residual_apply(f, x, tau)` = split ; f on the residual ; add -/
def residualApply [SMul α V] [Add V] (wr ws : α) (f : DOp V V) : DOp V V :=
  (residualAdd wr ws).comp ((onFirst f).comp (residualSplit wr ws))

/-- a sequential stack of residual layers, each with its own weights -/
def residualStack [SMul α V] [Add V] : List (α × α × DOp V V) → DOp V V
  | [] => DOp.idOp
  | (wr, ws, f) :: rest => (residualStack rest).comp (residualApply wr ws f)

end
end USModel

namespace USModel
section
variable {α V Y : Type}

/-- `cross_entropy`: `scale_fwd(F_sum(scale_fwd(scale_bwd(x, b), mult)), f)` where `F_sum` is
    PyTorch's sum-reduced loss; `f = 1/batch` for `reduction="mean"`, 1 for `"sum"`. -/
def crossEntropyOp [SMul α V] [SMul α Y] (f mult b : α) (Fsum : DOp V Y) : DOp V Y :=
  (scaleFwd f).comp (Fsum.comp ((scaleFwd mult).comp (scaleBwd b)))

/-- `mse_loss`: `scale_fwd(F_sum(scale_bwd(x, b), scale_bwd(t, b)), f)` -/
def mseOp [SMul α V] [SMul α Y] (f b : α) (Fsum : DOp (V × V) Y) : DOp (V × V) Y :=
  (scaleFwd f).comp (Fsum.comp (scaleBwd2 b b))

end
end USModel

namespace USModel
section
variable {α V : Type}

/-- What plain `torch.fx.symbolic_trace` records for `_ScaledGrad.apply(X, fwd, bwd)`: the single
    multiplication `fwd * X` of its `forward`; autograd then differentiates that multiplication, so
    the traced op's backward multiplies by the *forward* scale. -/
def fxTracedScale [SMul α V] (fwd : α) : DOp V V := ⟨fun x => fwd • x, fun _ g => fwd • g⟩

/-- eager (and TorchDynamo, which keeps the autograd.Function): forward scale on the value,
    the saved backward scale — rounded to the input dtype by `round` — on the gradient -/
def eagerScale [SMul α V] (round : α → α) (fwd bwd : α) : DOp V V := ⟨fun x => fwd • x, fun _ g => round bwd • g⟩

end
end USModel
