/-
  C19 — model of the graph-pruning helpers of `transforms/_track_scales.py`:
  `_prune`, `prune_non_float_tensors`, `prune_same_scale_tensors`, `prune_selected_nodes`.
-/
import USModel.UnitScale
namespace USModel

/-- `_prune(graph, node, replacement_arg)`: in every user, every occurrence of the node (positional,
    keyword, nested in lists/tuples: `map_arg`) is replaced by the replacement (a node, or `None`);
    then the node is erased. -/
def pruneNode (g : IGraph) (id : Nat) (replacement : Option Nat) : IGraph :=
  let f := fun (i : Nat) => if i == id then (match replacement with | some r => Arg.ref r | none => Arg.lit "None") else Arg.ref i
  (g.filter (·.id != id)).map fun x =>
    { x with n := { x.n with args := Arg.mapRefsList f x.n.args,
                             kwargs := x.n.kwargs.map fun (k, a) => (k, a.mapRefs f) } }

/-- `_filter_float_tensors(n.all_input_nodes)` -/
def floatInputs (g : IGraph) (x : INode) : List Nat :=
  x.n.inputs.filter fun i => match g.get? i with | some y => y.n.outputsFloat | none => false

/-- `math.isclose(a, b, rel_tol=rtol)` (abs_tol = 0) -/
def isClose (a b rtol : Float) : Bool :=
  if a == b then true
  else if a.isInf || b.isInf then false
  else
    let d := (b - a).abs
    (d <= (rtol * b).abs || d <= (rtol * a).abs)

/-- `_metrics_same_scale` on the recorded mean |x| (forward, and backward when recorded) -/
def sameScale (n a : GNode) (rtol : Float) : Bool :=
  match n.fwdMeanAbs, a.fwdMeanAbs with
  | some nf, some af =>
    match n.bwdMeanAbs, a.bwdMeanAbs with
    | none, none => isClose nf af rtol
    | some nb, some ab => isClose nf af rtol && isClose nb ab rtol
    | _, _ => false
  | _, _ => false

/-- one sweep in graph order; `decide g x` says whether (and with which replacement) to prune `x`
    given the *current* graph -/
def pruneSweep (decide : IGraph → INode → Option (Option Nat)) (g0 : IGraph) : IGraph :=
  (g0.map (·.id)).foldl (fun g id =>
    match g.get? id with
    | none => g
    | some x =>
      match decide g x with
      | some r => pruneNode g id r
      | none => g) g0

def pruneNonFloatI (g : Graph) : IGraph :=
  pruneSweep (fun g x =>
    if x.n.op == "output" then none
    else if !x.n.outputsFloat then
      match floatInputs g x with
      | [a] => some (some a)
      | _ => some none
    else none) (IGraph.ofGraph g)

def pruneSameScaleI (rtol : Float) (g : Graph) : IGraph :=
  pruneSweep (fun g x =>
    if x.n.op == "output" || !x.n.outputsFloat then none
    else match floatInputs g x with
      | [a] => match g.get? a with
        | some y => if sameScale x.n y.n rtol then some (some a) else none
        | none => none
      | _ => none) (IGraph.ofGraph g)

def pruneSelectedI (targets : List String) (g : Graph) : IGraph :=
  pruneSweep (fun _ x => if targets.contains x.n.target then some none else none) (IGraph.ofGraph g)

def pruneNonFloat (g : Graph) : Graph := IGraph.toGraph (pruneNonFloatI g)
def pruneSameScale (rtol : Float) (g : Graph) : Graph := IGraph.toGraph (pruneSameScaleI rtol g)
def pruneSelected (targets : List String) (g : Graph) : Graph := IGraph.toGraph (pruneSelectedI targets g)

end USModel
