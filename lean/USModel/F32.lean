/-
  Bit-level model of float32 and of `FPFormat.quantise` (`unit_scaling/formats.py`).

  A float32 is a sign bit and a 31-bit magnitude `n` (exponent field `n / 2^23`, mantissa field
  `n % 2^23`).  All definitions are on `Nat`, so the definition that runs in the driver is
  literally the one the theorems quantify over.  NaN patterns are outside the domain.
-/
import USModel.Scalar
namespace USModel.F32

@[inline] def expo (n : Nat) : Nat := n / 2 ^ 23
@[inline] def mant (n : Nat) : Nat := n % 2 ^ 23

/-- round-to-nearest-even of `x / 2^sh` -/
def rneShift (x sh : Nat) : Nat :=
  if sh = 0 then x else
  let q := x / 2 ^ sh
  let r := x % 2 ^ sh
  let half := 2 ^ (sh - 1)
  if r > half then q + 1 else if r < half then q else if q % 2 = 1 then q + 1 else q

/-- bits of `(val n) / 2^d` in float32 (IEEE division by a power of two, round-to-nearest-even
    when the result is subnormal) -/
def divPow2 (n d : Nat) : Nat :=
  let e := expo n
  if e > d then n - d * 2 ^ 23
  else rneShift (if e = 0 then mant n else 2 ^ 23 + mant n) (d + 1 - (if e = 0 then 1 else e))

/-- bits of `(val n) * 2^d` in float32 (exact; infinity on overflow) -/
def mulPow2 : Nat → Nat → Nat
  | n, 0 => n
  | n, d + 1 =>
    if n = 0 then 0
    else if expo n = 0 then mulPow2 (2 * n) d
    else if expo n + (d + 1) ≥ 255 then 255 * 2 ^ 23
    else n + (d + 1) * 2 ^ 23

/-- bit pattern of `max_absolute_value` = `2^(2^(E-1)-1) · (2 − 2^-M)` -/
def absmaxBits (E M : Nat) : Nat := (2 ^ (E - 1) - 1 + 127) * 2 ^ 23 + (2 ^ M - 1) * 2 ^ (23 - M)

/-- the integer rounding core: `(bits + offset) & ~mask` with `mask = 2^k − 1` -/
def roundCore (k off q : Nat) : Nat := ((q + off) / 2 ^ k) * 2 ^ k

/-- `FPFormat.quantise` on magnitudes: clip, divide by `downscale = 2^(127 − 2^(E-1))`, add the
    rounding offset to the bit pattern and clear the low `23 − M` bits, multiply back. -/
def quantMag (E M off n : Nat) : Nat :=
  let B := 2 ^ (E - 1)
  let k := 23 - M
  let c := min n (absmaxBits E M)
  let q := if B ≤ 127 then divPow2 c (127 - B) else mulPow2 c (B - 127)
  let r := roundCore k off q
  if B ≤ 127 then mulPow2 r (127 - B) else divPow2 r (B - 127)

/-- nearest rounding: `offset = mask // 2` -/
def offNearest (M : Nat) : Nat := (2 ^ (23 - M) - 1) / 2

/-- stochastic rounding with random draw `r < 2^srbits`:
    `offset = (r << srbitsbar) + (1 << (srbitsbar-1) if srbitsbar > 0)` -/
def offSR (M srbits r : Nat) : Nat :=
  let s := 23 - M - srbits
  r * 2 ^ s + (if s > 0 then 2 ^ (s - 1) else 0)

/-- full 32-bit pattern: the sign bit is carried through -/
def quantBits (E M off bits : Nat) : Nat :=
  let sign := bits / 2 ^ 31
  sign * 2 ^ 31 + quantMag E M off (bits % 2 ^ 31)

/-- the pattern after clipping and down-scaling, to which the integer core is applied -/
def preRound (E M n : Nat) : Nat :=
  let B := 2 ^ (E - 1)
  let c := min n (absmaxBits E M)
  if B ≤ 127 then divPow2 c (127 - B) else mulPow2 c (B - 127)

/-- does the draw `r` round the magnitude `n` up (away from zero)? — compared with `r = 0`
    of the all-bits scheme, i.e. with truncation -/
def roundsUp (E M srbits r n : Nat) : Bool :=
  quantMag E M (offSR M srbits r) n != quantMag E M 0 n

/-- number of draws `r < 2^srbits` that round `n` up -/
def countUp (E M srbits n : Nat) : Nat :=
  (List.range (2 ^ srbits)).countP (fun r => roundsUp E M srbits r n)

/-- closed form of `countUp` on the pre-rounding pattern `q` (after the down-scaling):
    `⌊(rem + ⌊2^s/2⌋) / 2^s⌋`, `rem = q % 2^k`, `s = 23 − M − srbits`. -/
def countUpFormula (M srbits q : Nat) : Nat :=
  let k := 23 - M
  let s := k - srbits
  (q % 2 ^ k + 2 ^ s / 2) / 2 ^ s

/-- On the pre-rounding pattern `q`: does the draw `r` (with `s = k − srbits` unused low bits)
    move `q` to the upper multiple of `2^k`? -/
def roundsUpCore (k s r q : Nat) : Bool :=
  roundCore k (r * 2 ^ s + (if s > 0 then 2 ^ (s - 1) else 0)) q != roundCore k 0 q

/-- number of draws `r < 2^(k−s)` that round `q` up -/
def countUpCore (k s q : Nat) : Nat :=
  (List.range (2 ^ (k - s))).countP (fun r => roundsUpCore k s r q)

/-- exact value of a float32 magnitude pattern -/
def val (n : Nat) : Rat :=
  if n < 2 ^ 23 then (n : Rat) * (2 : Rat) ^ (-149 : Int)
  else ((2 ^ 23 + n % 2 ^ 23 : Nat) : Rat) * (2 : Rat) ^ ((n / 2 ^ 23 : Nat) - 150 : Int)

/-- value of the format's encoding (exponent field `e`, mantissa field `m`): bias `2^(E-1)`,
    all exponent fields used (no inf/nan encodings), gradual underflow.  Defined independently
    of `quantMag`. -/
def fmtVal (E M e m : Nat) : Rat :=
  let B : Int := 2 ^ (E - 1)
  if e = 0 then (m : Rat) * (2 : Rat) ^ (1 - B - M)
  else ((2 ^ M + m : Nat) : Rat) * (2 : Rat) ^ ((e : Int) - B - M)

/-- transcriptions of `FPFormat.max_absolute_value`, `min_absolute_normal`, `min_absolute_subnormal` (exact rationals;
    the Python expressions are exact in binary64 for every E ≤ 8, M ≤ 23) -/
def maxAbsValue (E M : Nat) : Rat := (2 : Rat) ^ ((2 ^ (E - 1) - 1 : Nat) : Int) * (2 - (2 : Rat) ^ (-(M : Int)))
def minAbsNormal (E : Nat) : Rat := (2 : Rat) ^ ((1 : Int) - (2 ^ (E - 1) : Nat))
def minAbsSubnormal (E M : Nat) : Rat := minAbsNormal E * (2 : Rat) ^ (-(M : Int))

end USModel.F32
