/-
  C17 — model of the transform nesting system (`transforms/utils.py: apply_transform`,
  `transforms/_unit_scale.py: _order_backends, unit_scale`).

  A transformed module carries the list of graph backends to run (in list order) the next time it
  is called, and a flag saying whether the composed backend has to be (re)run.
-/
import USModel.Scalar
namespace USModel

inductive BKind where
  | unit | quant | track | compile
  deriving DecidableEq, Repr

def BKind.ofString? : String → Option BKind
  | "unit" => some .unit | "quant" => some .quant | "track" => some .track | "compile" => some .compile
  | _ => none
def BKind.toString : BKind → String
  | .unit => "unit" | .quant => "quant" | .track => "track" | .compile => "compile"

structure MState where
  backends : List BKind
  rerun : Bool
  /-- backend lists executed so far (one entry per Dynamo compilation) -/
  executed : List (List BKind)
  deriving DecidableEq, Repr

/-- an untransformed module -/
def MState.fresh : MState := ⟨[], false, []⟩

/-- `apply_transform(module, backend)`: deep copy; `backends.append(backend)`;
    `rerun_transform = True`.  (The copy is the returned value; the argument is untouched.) -/
def applyTransform (k : BKind) (s : MState) : MState :=
  { s with backends := s.backends ++ [k], rerun := true }

/-- index of the last element satisfying `p` (`none` if there is none): the loop of
    `_order_backends` overwrites the index at every match -/
def lastIdx (p : BKind → Bool) (l : List BKind) : Option Nat :=
  (l.zipIdx.filter (fun x => p x.1)).getLast?.map (·.2)

/-- `_order_backends`: if the (last) unit-scaling backend comes after the (last) quantisation
    backend, pop it and insert it at the quantisation backend's index. -/
def orderBackends (l : List BKind) : List BKind :=
  match lastIdx (· == .unit) l, lastIdx (· == .quant) l with
  | some u, some q => if u > q then (l.eraseIdx u).insertIdx q .unit else l
  | _, _ => l

/-- `unit_scale(module)` = `apply_transform` with the unit-scaling backend, then `_order_backends` -/
def unitScale (s : MState) : MState :=
  let s' := applyTransform .unit s
  { s' with backends := orderBackends s'.backends }

inductive Transform where
  | unitScale | simulate | trackScales | compile
  deriving DecidableEq, Repr

def Transform.ofString? : String → Option Transform
  | "unit_scale" => some .unitScale | "simulate" => some .simulate
  | "track_scales" => some .trackScales | "compile" => some .compile | _ => none

def applyT (s : MState) : Transform → MState
  | .unitScale => unitScale s
  | .simulate => applyTransform .quant s
  | .trackScales => applyTransform .track s
  | .compile => applyTransform .compile s

/-- `_order_backends` reads `b.__qualname__` of every backend in the list; the scale-tracking backend and the
    `torch.compile` backend are objects without that attribute, so `unit_scale` of a module that already carries one of
    them raises `AttributeError` (such chains lie outside C17's family: both are documented to come last). -/
def unitScaleRejects (s : MState) : Bool := s.backends.any fun k => k == .track || k == .compile

/-- does the real code accept the chain `c` applied to `s` (no `unit_scale` after a `track_scales` / `compile`)? -/
def chainAccepted : MState → List Transform → Bool
  | _, [] => true
  | s, x :: rest => (if x = .unitScale then !unitScaleRejects s else true) && chainAccepted (applyT s x) rest

/-- calling the module: the composed backends run (in list order) once if `rerun`, then the
    optimised call is cached -/
def callM (s : MState) : MState :=
  if s.rerun then { s with rerun := false, executed := s.executed ++ [s.backends] } else s

/-- a user action: apply a transform to the current module, or call it -/
inductive Action where
  | t (x : Transform)
  | call
  deriving DecidableEq, Repr

def act (s : MState) : Action → MState
  | .t x => applyT s x
  | .call => callM s

def runActions (s : MState) (as : List Action) : MState := as.foldl act s

/-- the family of C17: `unit_scale` at most once and one format simulation at most once, in either
    order, optionally ended by `track_scales` or `compile` -/
def family : List (List Transform) :=
  let cores : List (List Transform) :=
    [[], [.unitScale], [.simulate], [.unitScale, .simulate], [.simulate, .unitScale]]
  cores.flatMap fun c => [c, c ++ [.trackScales], c ++ [.compile]]

/-- the documented final order: unit scaling, then quantisation, then the last transform -/
def canonical (c : List Transform) : List BKind :=
  (if c.contains .unitScale then [BKind.unit] else []) ++
  (if c.contains .simulate then [BKind.quant] else []) ++
  (if c.contains .trackScales then [BKind.track] else []) ++
  (if c.contains .compile then [BKind.compile] else [])

end USModel
