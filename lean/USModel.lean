import USModel.Scalar
import USModel.Constraints
import USModel.Scales
import USModel.Autograd
import USModel.Validate
import USModel.Core
import USModel.Optim
import USModel.ScaledParams
