import USModel.Scalar
import USModel.Constraints
import USModel.Scales
import USModel.Core
import USModel.Optim
import USModel.ScaledParams
