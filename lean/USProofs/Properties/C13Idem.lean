/-
  C13 — pattern-level fixed points below the format's normal range, and idempotence of `FPFormat.quantise` on the whole
  magnitude range (E ≤ 7), via injectivity of the value function on magnitude patterns.
-/
import USModel
import USProofs.Properties.C13Mono

open USModel USModel.F32

namespace USProofs.C13

/-- the fixed-point magnitude is strictly monotone in the pattern: `val` is injective on magnitude patterns -/
theorem fixOf_strict {a b : ℕ} (h : a < b) : fixOf a < fixOf b := by
  have hma : mant a < 2 ^ 23 := Nat.mod_lt _ (by positivity)
  have hmb : mant b < 2 ^ 23 := Nat.mod_lt _ (by positivity)
  obtain ⟨hloa, hhia⟩ := expo_bounds a
  obtain ⟨hlob, hhib⟩ := expo_bounds b
  have hda : a = expo a * 2 ^ 23 + mant a := by
    unfold expo mant; rw [Nat.mul_comm]; exact (Nat.div_add_mod a (2 ^ 23)).symm
  have hdb : b = expo b * 2 ^ 23 + mant b := by
    unfold expo mant; rw [Nat.mul_comm]; exact (Nat.div_add_mod b (2 ^ 23)).symm
  have hee : expo a ≤ expo b := by unfold expo; exact Nat.div_le_div_right (le_of_lt h)
  unfold fixOf
  by_cases ha : expo a = 0
  · by_cases hb : expo b = 0
    · simp only [ha, hb, if_true]
      rw [ha] at hda; rw [hb] at hdb
      omega
    · simp only [ha, hb, if_true, if_false]
      have h1 : 1 ≤ 2 ^ (expo b - 1) := Nat.one_le_two_pow
      calc mant a < 2 ^ 23 := hma
        _ ≤ 2 ^ 23 + mant b := Nat.le_add_right _ _
        _ = (2 ^ 23 + mant b) * 1 := (Nat.mul_one _).symm
        _ ≤ (2 ^ 23 + mant b) * 2 ^ (expo b - 1) := Nat.mul_le_mul_left _ h1
  · have hb : ¬ expo b = 0 := by omega
    simp only [ha, hb, if_false]
    rcases Nat.lt_or_eq_of_le hee with hlt | heq
    · -- lower binade: (2^23 + m_a)·2^(ea-1) < 2^24·2^(ea-1) = 2^23·2^ea ≤ 2^23·2^(eb-1)
      have hP : 0 < 2 ^ (expo a - 1) := by positivity
      have h1 : (2 ^ 23 + mant a) * 2 ^ (expo a - 1) < (2 ^ 23 + 2 ^ 23) * 2 ^ (expo a - 1) :=
        Nat.mul_lt_mul_of_pos_right (by omega) hP
      have h2 : (2 ^ 23 + 2 ^ 23) * 2 ^ (expo a - 1) = 2 ^ 23 * 2 ^ expo a := by
        have : 2 ^ expo a = 2 * 2 ^ (expo a - 1) := by
          have : expo a = (expo a - 1) + 1 := by omega
          conv_lhs => rw [this, pow_succ]
          ring
        rw [this]; ring
      have h3 : 2 ^ 23 * 2 ^ expo a ≤ 2 ^ 23 * 2 ^ (expo b - 1) :=
        Nat.mul_le_mul_left _ (Nat.pow_le_pow_right (by norm_num) (by omega))
      have h4 : 2 ^ 23 * 2 ^ (expo b - 1) ≤ (2 ^ 23 + mant b) * 2 ^ (expo b - 1) :=
        Nat.mul_le_mul_right _ (Nat.le_add_right _ _)
      omega
    · have hm : mant a < mant b := by
        rw [heq] at hda
        omega
      rw [heq]
      exact Nat.mul_lt_mul_of_pos_right (by omega) (by positivity)

theorem val_injective {a b : ℕ} (h : val a = val b) : a = b := by
  rw [val_eq_fix a, val_eq_fix b] at h
  have hp : (2 : ℚ) ^ (-149 : ℤ) ≠ 0 := by positivity
  have hf : fixOf a = fixOf b := by exact_mod_cast mul_right_cancel₀ hp h
  rcases Nat.lt_trichotomy a b with hlt | heq | hgt
  · have := fixOf_strict hlt; omega
  · exact heq
  · have := fixOf_strict hgt; omega

theorem val_strict {a b : ℕ} (h : val a < val b) : a < b := by
  by_contra hc
  have := val_mono (Nat.le_of_not_lt hc)
  linarith

section
variable (E M : ℕ) (hE : 1 ≤ E) (hB : 2 ^ (E - 1) ≤ 127) (hM : M ≤ 23)
include hE hB hM

/-- **Representable inputs below the normal range are returned unchanged** (same bit pattern). -/
theorem quantise_sub_fixes (off n m : ℕ) (hoff : off < 2 ^ (23 - M)) (hsub : expo n ≤ 127 - 2 ^ (E - 1))
    (hrep : fixOf n = m * 2 ^ (127 - 2 ^ (E - 1) + (23 - M))) :
    quantMag E M off n = n :=
  val_injective (quantise_sub_fixes_value E M off n m hE hB hM hoff hsub hrep)

/-- **Idempotence on the whole magnitude range** (NaN patterns excluded by the property): below the normal range, in
    it, and in saturation. -/
theorem quantise_idempotent_all (off n : ℕ) (hoff : off < 2 ^ (23 - M)) :
    quantMag E M off (quantMag E M off n) = quantMag E M off n := by
  obtain ⟨hamax, hanorm⟩ := absmax_facts E M hE hB hM
  have hB6 := bias_le_126 E hB
  have hpos : 0 < 2 ^ (E - 1) := by positivity
  by_cases hsat : absmaxBits E M ≤ n
  · rw [quantise_saturates E M hE hB hM off n hoff hsat]
    exact quantise_fixes_representable E M hE hB hM off _ hoff (Nat.le_refl _) hanorm hamax
  have hmax : n ≤ absmaxBits E M := by omega
  by_cases hnorm : 127 - 2 ^ (E - 1) < expo n
  · exact quantise_idempotent E M hE hB hM off n hoff hmax hnorm
  have hsub : expo n ≤ 127 - 2 ^ (E - 1) := by omega
  -- below the normal range: the result is m·2^(1-B-M) with m ≤ 2^M
  obtain ⟨m, hm, hval⟩ := quantise_sub_format_value E M n hE hB hM hsub off hoff
  set R := quantMag E M off n with hR
  set d := 127 - 2 ^ (E - 1) with hd
  -- in fixed point: fixOf R = m · 2^(d + k)
  have hfix : fixOf R = m * 2 ^ (d + (23 - M)) := by
    have h1 := val_eq_fix R
    rw [hval] at h1
    have hp : (0 : ℚ) < (2 : ℚ) ^ (-149 : ℤ) := by positivity
    have h2 : (2 : ℚ) ^ ((1 : ℤ) - (2 ^ (E - 1) : ℕ) - M) = (2 : ℚ) ^ ((d + (23 - M) : ℕ) : ℤ) * (2 : ℚ) ^ (-149 : ℤ) := by
      rw [← zpow_add₀ (by norm_num : (2 : ℚ) ≠ 0)]
      congr 1
      have e1 : ((d + (23 - M) : ℕ) : ℤ) = (d : ℤ) + (23 - (M : ℤ)) := by omega
      have e2 : (d : ℤ) = 127 - ((2 ^ (E - 1) : ℕ) : ℤ) := by omega
      rw [e1, e2]; ring
    rw [h2, ← mul_assoc] at h1
    have h3 := mul_right_cancel₀ (ne_of_gt hp) h1
    have h4 : ((fixOf R : ℕ) : ℚ) = ((m * 2 ^ (d + (23 - M)) : ℕ) : ℚ) := by
      rw [← h3, zpow_natCast]; push_cast; rfl
    exact_mod_cast h4
  rcases Nat.lt_or_eq_of_le hm with hlt | heq
  · -- a genuine subnormal of the format: R lies below the smallest normal pattern (d+1)·2^23
    have hRsub : expo R ≤ d := by
      have hmin : fixOf ((d + 1) * 2 ^ 23) = 2 ^ M * 2 ^ (d + (23 - M)) := by
        have he : expo ((d + 1) * 2 ^ 23) = d + 1 := by unfold expo; simp
        have hmn : mant ((d + 1) * 2 ^ 23) = 0 := by unfold mant; simp
        unfold fixOf
        rw [he, hmn]
        simp only [show ¬ (d + 1 = 0) by omega, if_false, Nat.add_zero, Nat.add_sub_cancel]
        rw [← pow_add, ← pow_add]; congr 1; omega
      have hlt' : fixOf R < fixOf ((d + 1) * 2 ^ 23) := by
        rw [hfix, hmin]
        exact Nat.mul_lt_mul_of_pos_right hlt (by positivity)
      have hRlt : R < (d + 1) * 2 ^ 23 := by
        by_contra hc
        have := fixOf_mono (Nat.le_of_not_lt hc)
        omega
      exact expo_lt_of R d hRlt
    exact quantise_sub_fixes E M hE hB hM off R m hoff hRsub hfix
  · -- rounded up to the smallest normal value: a representable normal pattern
    have hReq : R = (d + 1) * 2 ^ 23 := by
      apply val_injective
      rw [val_eq_fix R, val_eq_fix ((d + 1) * 2 ^ 23), hfix, heq]
      have he : expo ((d + 1) * 2 ^ 23) = d + 1 := by unfold expo; simp
      have hmn : mant ((d + 1) * 2 ^ 23) = 0 := by unfold mant; simp
      have : fixOf ((d + 1) * 2 ^ 23) = 2 ^ M * 2 ^ (d + (23 - M)) := by
        unfold fixOf
        rw [he, hmn]
        simp only [show ¬ (d + 1 = 0) by omega, if_false, Nat.add_zero, Nat.add_sub_cancel]
        rw [← pow_add, ← pow_add]; congr 1; omega
      rw [this]
    rw [hReq]
    have hexp : expo ((d + 1) * 2 ^ 23) = d + 1 := by unfold expo; simp
    apply quantise_fixes_representable E M hE hB hM off _ hoff
    · -- ≤ absmax: exponent field d+1 ≤ expo absmax
      have hA := expo_absmax E M hM
      obtain ⟨hloA, _⟩ := expo_bounds (absmaxBits E M)
      have : (d + 1) * 2 ^ 23 ≤ expo (absmaxBits E M) * 2 ^ 23 := Nat.mul_le_mul_right _ (by omega)
      exact le_trans this hloA
    · rw [hexp]; omega
    · exact two_pow_k_dvd_shift M (d + 1)

end

end USProofs.C13
