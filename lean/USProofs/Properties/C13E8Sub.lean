/-
  C13 — eight exponent bits, float32-subnormal inputs (below 2^-126): the input is doubled exactly, rounded by the
  integer core and halved exactly — the format's grid there is the float32 grid refined by one bit.
-/
import USModel
import USProofs.Properties.C13Mono
import USProofs.Properties.C13E8

open USModel USModel.F32

namespace USProofs.C13

theorem quantMag_E8_sub_eq (M off n : ℕ) (hM : M ≤ 22) (hoff : off < 2 ^ (23 - M)) (hn : n < 2 ^ 23) :
    quantMag 8 M off n = roundCore (23 - M) off (2 * n) / 2 := by
  have hBn : ¬ (2 ^ (8 - 1) ≤ 127) := by norm_num
  have hB1 : 2 ^ (8 - 1) - 127 = 1 := by norm_num
  have hmax : n ≤ absmaxBits 8 M := by
    have hA : 254 * 2 ^ 23 ≤ absmaxBits 8 M := by unfold absmaxBits; norm_num
    have : (2 : ℕ) ^ 23 ≤ 254 * 2 ^ 23 := Nat.le_mul_of_pos_left _ (by norm_num)
    omega
  have he : expo n = 0 := by unfold expo; exact Nat.div_eq_of_lt hn
  have hmul : mulPow2 n 1 = 2 * n := by
    by_cases h0 : n = 0
    · subst h0; simp [mulPow2]
    · simp [mulPow2, h0, he]
  simp only [quantMag, hBn, if_false, Nat.min_eq_left hmax, hB1, hmul]
  set r := roundCore (23 - M) off (2 * n) with hr
  have hk1 : 1 ≤ 23 - M := by omega
  have hdvd : 2 ^ (23 - M) ∣ r := round_core_multiple _ _ _
  have h2 : (2 : ℕ) ^ 1 ∣ r := dvd_trans (pow_dvd_pow 2 hk1) hdvd
  -- r ≤ 2^24, the next multiple
  have hr24 : r ≤ 2 ^ 23 + 2 ^ 23 := by
    have hd : 2 ^ (23 - M) ∣ 2 ^ 23 + 2 ^ 23 := by
      have : (2 : ℕ) ^ 23 + 2 ^ 23 = 2 ^ 24 := by norm_num
      rw [this]; exact pow_dvd_pow 2 (by omega)
    have := round_core_monotone (23 - M) off (2 * n) (2 ^ 23 + 2 ^ 23) (by omega)
    rwa [round_core_fixes _ _ _ hoff hd] at this
  by_cases hbig : expo r > 1
  · -- r = 2^24 exactly
    have hr_eq : r = 2 ^ 23 + 2 ^ 23 := by
      have hlo := (expo_bounds r).1
      have h2' : 2 * 2 ^ 23 ≤ expo r * 2 ^ 23 := Nat.mul_le_mul_right _ hbig
      rw [Nat.two_mul] at h2'
      exact le_antisymm hr24 (le_trans h2' hlo)
    simp only [divPow2, hbig, if_true, Nat.one_mul]
    rw [hr_eq, Nat.add_sub_cancel, ← Nat.two_mul, Nat.mul_div_cancel_left _ (by norm_num : 0 < 2)]
  · simp only [divPow2, hbig, if_false]
    have hm : mant r < 2 ^ 23 := Nat.mod_lt _ (by positivity)
    have hdr : r = expo r * 2 ^ 23 + mant r := by
      unfold expo mant; rw [Nat.mul_comm]; exact (Nat.div_add_mod r (2 ^ 23)).symm
    by_cases h0 : expo r = 0
    · simp only [h0, if_true]
      have : mant r = r := by rw [h0] at hdr; omega
      rw [this, rneShift_exact _ _ h2]; norm_num
    · have h1 : expo r = 1 := by omega
      have hsum : 2 ^ 23 + mant r = r := by rw [h1, Nat.one_mul] at hdr; exact hdr.symm
      rw [if_neg h0, if_neg h0, hsum, h1]
      show rneShift r (1 + 1 - 1) = r / 2
      rw [show 1 + 1 - 1 = 1 by norm_num, rneShift_exact _ _ h2]; norm_num

/-- consequence: on float32-subnormal inputs the result is a multiple of `2^(22-M)` (one bit finer than the normal-range
    grid), one of the two enclosing ones, and inputs on that grid are unchanged -/
theorem quantise_E8_sub_laws (M off n : ℕ) (hM : M ≤ 22) (hoff : off < 2 ^ (23 - M)) (hn : n < 2 ^ 23) :
    2 ^ (22 - M) ∣ quantMag 8 M off n ∧ (2 ^ (22 - M) ∣ n → quantMag 8 M off n = n) := by
  rw [quantMag_E8_sub_eq M off n hM hoff hn]
  have hs : 2 ^ (23 - M) = 2 * 2 ^ (22 - M) := by
    have : 23 - M = (22 - M) + 1 := by omega
    rw [this, pow_succ]; ring
  constructor
  · obtain ⟨c, hc⟩ := round_core_multiple (23 - M) off (2 * n)
    rw [hc, hs, Nat.mul_assoc, Nat.mul_div_cancel_left _ (by norm_num : 0 < 2)]
    exact Dvd.intro _ rfl
  · intro hd
    obtain ⟨c, hc⟩ := hd
    have : 2 ^ (23 - M) ∣ 2 * n := by rw [hs, hc]; exact ⟨c, by ring⟩
    rw [round_core_fixes _ _ _ hoff this]
    omega

end USProofs.C13
