/-
  C10 — optimizer learning rates follow the u-μP rule for every type, shape, depth.

  Model: `USModel/Optim.lean` (`fanIn`, `lrScaleDepth`, `lrScaleAdam`, `lrScaleSgdOut`) and
  `USModel/ScaledParams.lean` (`stepParam`, `stepEntry`).  Statements over ℝ, for all shapes
  (every list of naturals), all tags, depth `none` or any natural.
-/
import USProofs.RealInst
import Mathlib.Tactic.Ring

open USModel

namespace USProofs.C10

/-- the u-μP depth factor: 1 when no depth is recorded, `1/√depth` otherwise -/
noncomputable def depthFactor : Option ℕ → ℝ
  | none => 1
  | some d => 1 / Real.sqrt d

theorem lrScaleDepth_eq (d : Option ℕ) : (lrScaleDepth d : ℝ) = depthFactor d := by
  cases d with
  | none => simp [lrScaleDepth, depthFactor]
  | some d => simp [lrScaleDepth, depthFactor, powNegHalf_real (Nat.cast_nonneg d)]

/-! ### fan-in -/
theorem fanIn_rank1 (a : ℕ) : fanIn [a] = .ok a := rfl
theorem fanIn_rank2 (a b : ℕ) : fanIn [a, b] = .ok b := rfl
theorem fanIn_rank3 (a b c : ℕ) : fanIn [a, b, c] = .ok (b * c) := rfl
theorem fanIn_rank0 : fanIn [] = .error .valueError := rfl
theorem fanIn_rank_ge4 (s : List ℕ) (h : 4 ≤ s.length) : fanIn s = .error .valueError := by
  match s, h with
  | _ :: _ :: _ :: _ :: _, _ => rfl

/-! ### Adam / AdamW / SGD with an unconstrained readout -/
theorem lr_adam_weight (shape : List ℕ) (f : ℕ) (h : fanIn shape = .ok f) (d : Option ℕ) :
    lrScaleAdam (α := ℝ) .weight shape d = .ok (depthFactor d * (1 / Real.sqrt f)) := by
  simp [lrScaleAdam, h, lrScaleDepth_eq, powNegHalf_real (Nat.cast_nonneg f)]

theorem lr_adam_other (t : MupType) (ht : t ≠ .weight) (shape : List ℕ) (d : Option ℕ) :
    lrScaleAdam (α := ℝ) t shape d = .ok (depthFactor d) := by
  cases t <;> simp_all [lrScaleAdam, lrScaleDepth_eq]

/-- SGD with `readout_constraint=None` uses the Adam rule (it *is* `lr_scale_func_adam`). -/
theorem lr_sgd_none_is_adam (t : MupType) (shape : List ℕ) (d : Option ℕ) :
    lrScale (α := ℝ) .adam t shape d = lrScaleAdam t shape d := rfl

/-! ### SGD with an output-scaled readout -/
theorem lr_sgd_out_weight (shape : List ℕ) (f : ℕ) (h : fanIn shape = .ok f) (d : Option ℕ) :
    lrScaleSgdOut (α := ℝ) .weight shape d = .ok (depthFactor d * Real.sqrt f) := by
  simp [lrScaleSgdOut, h, lrScaleDepth_eq, powHalf_real]

theorem lr_sgd_out_vector (t : MupType) (ht : t = .bias ∨ t = .norm) (n : ℕ) (rest : List ℕ)
    (d : Option ℕ) :
    lrScaleSgdOut (α := ℝ) t (n :: rest) d = .ok (depthFactor d * n) := by
  rcases ht with rfl | rfl <;> simp [lrScaleSgdOut, lrScaleDepth_eq]

theorem lr_sgd_out_output (shape : List ℕ) (d : Option ℕ) :
    lrScaleSgdOut (α := ℝ) .output shape d = .ok (depthFactor d) := by
  simp [lrScaleSgdOut, lrScaleDepth_eq]

/-! ### errors -/
theorem weight_rank_ge4_error (k : OptKind) (shape : List ℕ) (h : 4 ≤ shape.length)
    (d : Option ℕ) : lrScale (α := ℝ) k .weight shape d = .error .valueError := by
  cases k <;> simp [lrScale, lrScaleAdam, lrScaleSgdOut, fanIn_rank_ge4 shape h]

theorem missing_lr_error (k : OptKind) (indep allow : Bool) (wd : ℝ) (heap : List ℝ)
    (e : Entry ℝ) (h : (match e with | .bare _ => none | .group g => g.lr) = none) :
    stepEntry k indep allow none wd heap e = .error .valueError := by
  cases e with
  | bare p => simp [stepEntry]
  | group g => simp only at h; simp [stepEntry, h]

theorem untagged_rejected (k : OptKind) (indep : Bool) (glr : LrVal ℝ) (gwd : ℝ)
    (extra : List (String × String)) (heap : List ℝ) (p : Param) (h : p.tag = none) :
    stepParam k indep false glr gwd extra heap p = .error .valueError := by
  simp [stepParam, h]

theorem untagged_allowed_unscaled (k : OptKind) (indep : Bool) (glr : LrVal ℝ) (gwd : ℝ)
    (extra : List (String × String)) (heap : List ℝ) (p : Param) (h : p.tag = none)
    (v : ℝ) (hv : lrValue heap glr = some v) :
    ∃ wd', stepParam k indep true glr gwd extra heap p = .ok (heap, ⟨p, glr, wd', extra⟩) := by
  simp [stepParam, h, hv]

/-! ### the learning rate placed in the group -/
theorem tagged_float_lr (k : OptKind) (indep allow : Bool) (v gwd : ℝ)
    (extra : List (String × String)) (heap : List ℝ) (p : Param) (t : MupType)
    (ht : p.tag = some t) (s : ℝ) (hs : lrScale k t p.shape p.depth = .ok s) :
    ∃ wd', stepParam k indep allow (.flt v) gwd extra heap p
      = .ok (heap, ⟨p, .flt (v * s), wd', extra⟩) := by
  simp [stepParam, ht, hs]

theorem tagged_tensor_lr (k : OptKind) (indep allow : Bool) (a : ℕ) (gwd : ℝ)
    (extra : List (String × String)) (heap : List ℝ) (p : Param) (t : MupType)
    (ht : p.tag = some t) (s : ℝ) (hs : lrScale k t p.shape p.depth = .ok s)
    (v : ℝ) (hv : heap[a]? = some v) :
    ∃ wd', stepParam k indep allow (.cell a) gwd extra heap p
      = .ok (heap ++ [v * s], ⟨p, .cell heap.length, wd', extra⟩) := by
  simp [stepParam, ht, hs, hv]

/-- the group's own lr overrides the global one -/
theorem group_lr_overrides (k : OptKind) (indep allow : Bool) (lr : Option (LrVal ℝ)) (wd : ℝ)
    (heap : List ℝ) (g : PGroup ℝ) (x : LrVal ℝ) (h : g.lr = some x) :
    stepEntry k indep allow lr wd heap (.group g)
      = stepParams k indep allow x (g.wd.getD wd) g.extra heap g.params := by
  simp [stepEntry, h, Option.orElse]

/-- without its own lr the group takes the global one -/
theorem global_lr_used (k : OptKind) (indep allow : Bool) (x : LrVal ℝ) (wd : ℝ)
    (heap : List ℝ) (g : PGroup ℝ) (h : g.lr = none) :
    stepEntry k indep allow (some x) wd heap (.group g)
      = stepParams k indep allow x (g.wd.getD wd) g.extra heap g.params := by
  simp [stepEntry, h, Option.orElse]

/-! ### Non-vacuity -/
example : fanIn [64, 3, 5] = .ok 15 := rfl
example : lrScaleAdam (α := ℝ) .weight [64, 3, 5] (some 7)
    = .ok (depthFactor (some 7) * (1 / Real.sqrt (15 : ℕ))) := lr_adam_weight _ _ rfl _

end USProofs.C10
