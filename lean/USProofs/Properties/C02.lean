/-
  C02 — gradients are PyTorch's gradients times per-input data-independent scalars.
-/
import USProofs.RealInst
import USProofs.Properties.C01

open USModel

namespace USProofs.C02

section
variable {A B C Y : Type} [SMul ℝ A] [SMul ℝ B] [SMul ℝ C] [SMul ℝ Y]

/-- The two scaling primitives: for **every** real factor (zero and negatives included)
    `scale_fwd` multiplies the value only, `scale_bwd` the gradient only. -/
theorem scaleFwd_spec (c : ℝ) (x g : A) :
    (scaleFwd c : DOp A A).fwd x = c • x ∧ (scaleFwd c : DOp A A).vjp x g = g := ⟨rfl, rfl⟩
theorem scaleBwd_spec (c : ℝ) (x g : A) :
    (scaleBwd c : DOp A A).fwd x = x ∧ (scaleBwd c : DOp A A).vjp x g = c • g := ⟨rfl, rfl⟩

/-- The gradient delivered to each input is PyTorch's gradient (for the same upstream `g`, at
    the same point) times that input's backward scale — no linearity of `F.vjp` is assumed, so
    this holds for every reference op, every `x`, every upstream gradient. -/
theorem scaled1_vjp (f b : ℝ) (F : DOp A Y) (x : A) (g : Y) :
    (scaled1 f b F).vjp x g = b • F.vjp x g := rfl
theorem scaled2_vjp (f a b : ℝ) (F : DOp (A × B) Y) (x : A × B) (g : Y) :
    (scaled2 f a b F).vjp x g = (a • (F.vjp x g).1, b • (F.vjp x g).2) := rfl
theorem scaled3_vjp (f a b c : ℝ) (F : DOp (A × B × C) Y) (x : A × B × C) (g : Y) :
    (scaled3 f a b c F).vjp x g
      = (a • (F.vjp x g).1, b • (F.vjp x g).2.1, c • (F.vjp x g).2.2) := rfl

/-- The forward scale never reaches the gradient. -/
theorem fwd_scale_not_in_grad (f f' b : ℝ) (F : DOp A Y) (x : A) (g : Y) :
    (scaled1 f b F).vjp x g = (scaled1 f' b F).vjp x g := rfl

/-- Mean-reduced losses: the gradient is that of the **sum**-reduced PyTorch loss (at the
    temperature-scaled logits) times the backward scale; the `1/batch` of the forward value is
    not applied to it, nor is the forward-only temperature. -/
theorem cross_entropy_vjp (f mult b : ℝ) (Fsum : DOp A Y) (x : A) (g : Y) :
    (crossEntropyOp f mult b Fsum).vjp x g = b • Fsum.vjp (mult • x) g := rfl
theorem mse_vjp (f b : ℝ) (Fsum : DOp (A × A) Y) (x : A × A) (g : Y) :
    (mseOp f b Fsum).vjp x g = (b • (Fsum.vjp x g).1, b • (Fsum.vjp x g).2) := rfl
end

/-! ### the backward scalars are positive: see `C01.*_pos` (they cover `bwd`), plus: -/
theorem norm_grad_pos (n m : ℕ) (hn : 0 < n) (hm : 0 < m) :
    ∀ b ∈ (normScales (α := ℝ) n m).bwd, 0 < b := by
  intro b hb
  simp only [normScales, nat_real, Nat.cast_one, List.mem_cons, List.not_mem_nil, or_false] at hb
  have : (0 : ℝ) < (n : ℝ) / m := by positivity
  rcases hb with rfl | rfl | rfl
  · exact one_pos
  · exact C01.powHalf_pos this
  · exact C01.powHalf_pos this

theorem embedding_grad_pos (v b : ℕ) (hv : 0 < v) (hb : 0 < b) :
    ∀ s ∈ (embeddingScales (α := ℝ) v b).bwd, 0 < s := by
  intro s hs
  simp only [embeddingScales, nat_real, List.mem_cons, List.not_mem_nil, or_false] at hs
  subst hs
  exact C01.powHalf_pos (by positivity)

theorem cross_entropy_grad_pos (b v : ℕ) (hv : 2 ≤ v) (mean : Bool) :
    ∀ s ∈ (crossEntropyScales (α := ℝ) b v mean).bwd, 0 < s := by
  intro s hs
  simp only [crossEntropyScales, nat_real, List.mem_cons, List.not_mem_nil, or_false] at hs
  subst hs
  have h1 : (0 : ℝ) < ((v - 1 : ℕ) : ℝ) := by
    have : 0 < v - 1 := by omega
    exact_mod_cast this
  have h2 : (0 : ℝ) < (v : ℝ) := by
    have : 0 < v := by omega
    exact_mod_cast this
  exact div_pos h2 (C01.powHalf_pos h1)

theorem mse_grad_pos (n : ℕ) (mean : Bool) : ∀ s ∈ (mseScales (α := ℝ) n mean).bwd, 0 < s := by
  intro s hs
  simp only [mseScales, nat_real, List.mem_cons, List.not_mem_nil, or_false] at hs
  rcases hs with rfl | rfl <;> exact C01.powNegHalf_pos (by norm_num)

end USProofs.C02
