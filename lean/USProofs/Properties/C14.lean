/-
  C14 — stochastic rounding picks a neighbour with exactly proportional probability.

  Same integer core as C13 with `offset = r·2^s + ⌊2^s/2⌋`, `s = 23 − M − srbits`, `r` the random
  draw (one per element).  Probabilities are *counted*: `sr_count` gives the exact number of
  draws `r < 2^srbits` that round a pattern up.
-/
import USProofs.Properties.C13

open USModel USModel.F32

namespace USProofs.C14

open USProofs.C13

/-- `2^(s-1)` for `s > 0`, `0` for `s = 0`, is `2^s / 2` -/
theorem bias_eq (s : ℕ) : (if s > 0 then 2 ^ (s - 1) else 0) = 2 ^ s / 2 := by
  rcases Nat.eq_zero_or_pos s with rfl | hs
  · simp
  · have : s = (s - 1) + 1 := by omega
    simp only [hs, if_true]
    conv_rhs => rw [this, pow_succ]
    simp

/-- every stochastic offset is below `2^k` -/
theorem offSR_lt (M srbits r : ℕ) (hb : srbits ≤ 23 - M) (hr : r < 2 ^ srbits) :
    offSR M srbits r < 2 ^ (23 - M) := by
  simp only [offSR]
  rw [bias_eq]
  have hk : 23 - M = srbits + (23 - M - srbits) := by omega
  have hS := pow_pos' (23 - M - srbits)
  have hP : 2 ^ (23 - M) = 2 ^ srbits * 2 ^ (23 - M - srbits) := by rw [← pow_add, ← hk]
  rw [hP]
  calc r * 2 ^ (23 - M - srbits) + 2 ^ (23 - M - srbits) / 2
      < r * 2 ^ (23 - M - srbits) + 2 ^ (23 - M - srbits) := by
        have : 2 ^ (23 - M - srbits) / 2 < 2 ^ (23 - M - srbits) := Nat.div_lt_self hS (by norm_num)
        omega
    _ = (r + 1) * 2 ^ (23 - M - srbits) := by ring
    _ ≤ 2 ^ srbits * 2 ^ (23 - M - srbits) := Nat.mul_le_mul_right _ hr

/-- Stochastic rounding always returns one of the two enclosing multiples (neighbours). -/
theorem sr_neighbour (M srbits r q : ℕ) (hb : srbits ≤ 23 - M) (hr : r < 2 ^ srbits) :
    roundCore (23 - M) (offSR M srbits r) q = (q / 2 ^ (23 - M)) * 2 ^ (23 - M) ∨
    roundCore (23 - M) (offSR M srbits r) q = (q / 2 ^ (23 - M) + 1) * 2 ^ (23 - M) :=
  round_core_neighbour _ _ _ (offSR_lt M srbits r hb hr)

/-- …and never moves a representable input. -/
theorem sr_fixes_representable (M srbits r q : ℕ) (hb : srbits ≤ 23 - M) (hr : r < 2 ^ srbits)
    (hq : 2 ^ (23 - M) ∣ q) : roundCore (23 - M) (offSR M srbits r) q = q :=
  round_core_fixes _ _ _ (offSR_lt M srbits r hb hr) hq

/-- a draw rounds up iff the discarded bits plus the offset reach `2^k` -/
theorem rounds_up_iff (k off q : ℕ) (hoff : off < 2 ^ k) :
    roundCore k off q ≠ roundCore k 0 q ↔ 2 ^ k ≤ q % 2 ^ k + off := by
  have hP := pow_pos' k
  have hb : q % 2 ^ k < 2 ^ k := Nat.mod_lt _ hP
  have e1 : roundCore k off q = (q / 2 ^ k + (q % 2 ^ k + off) / 2 ^ k) * 2 ^ k := core_eq k off q
  have e0 : roundCore k 0 q = (q / 2 ^ k) * 2 ^ k := by
    rw [core_eq]; simp [Nat.div_eq_of_lt hb]
  rw [e1, e0]
  constructor
  · intro h
    by_contra hc
    apply h
    have : (q % 2 ^ k + off) / 2 ^ k = 0 := Nat.div_eq_of_lt (by omega)
    rw [this]; simp
  · intro h hEq
    have h1 : 1 ≤ (q % 2 ^ k + off) / 2 ^ k := (Nat.one_le_div_iff hP).mpr h
    have := Nat.eq_of_mul_eq_mul_right hP hEq
    omega

theorem count_range_ge (n m : ℕ) : (List.range n).countP (fun r => decide (m ≤ r)) = n - m := by
  induction n with
  | zero => simp
  | succ n ih =>
    rw [List.range_succ, List.countP_append, ih]
    by_cases h : m ≤ n
    · simp [h]; omega
    · simp [h]; omega

/-- **Exact count.** Of the `2^(k−s)` equally likely draws, exactly
    `⌊(rem + ⌊2^s/2⌋) / 2^s⌋` round `q` up, where `rem = q mod 2^k` are the discarded bits. -/
theorem sr_count (k s q : ℕ) (hs : s ≤ k) :
    countUpCore k s q = (q % 2 ^ k + 2 ^ s / 2) / 2 ^ s := by
  have hS := pow_pos' s
  have hP := pow_pos' k
  have hPk : 2 ^ k = 2 ^ (k - s) * 2 ^ s := by rw [← pow_add]; congr 1; omega
  have hb : q % 2 ^ k < 2 ^ k := Nat.mod_lt _ hP
  set t := (q % 2 ^ k + 2 ^ s / 2) / 2 ^ s with ht
  have hcrit : ∀ r, r < 2 ^ (k - s) →
      (roundsUpCore k s r q = true ↔ 2 ^ (k - s) - t ≤ r) := by
    intro r hr
    have hoff : r * 2 ^ s + (if s > 0 then 2 ^ (s - 1) else 0) < 2 ^ k := by
      rw [bias_eq, hPk]
      calc r * 2 ^ s + 2 ^ s / 2 < r * 2 ^ s + 2 ^ s := by
            have : 2 ^ s / 2 < 2 ^ s := Nat.div_lt_self hS (by norm_num)
            omega
        _ = (r + 1) * 2 ^ s := by ring
        _ ≤ 2 ^ (k - s) * 2 ^ s := Nat.mul_le_mul_right _ hr
    unfold roundsUpCore
    rw [bne_iff_ne, rounds_up_iff k _ q hoff, bias_eq]
    have e : q % 2 ^ k + (r * 2 ^ s + 2 ^ s / 2) = (q % 2 ^ k + 2 ^ s / 2) + r * 2 ^ s := by ring
    have step : 2 ^ k ≤ (q % 2 ^ k + 2 ^ s / 2) + r * 2 ^ s ↔
        2 ^ (k - s) ≤ ((q % 2 ^ k + 2 ^ s / 2) + r * 2 ^ s) / 2 ^ s := by
      rw [Nat.le_div_iff_mul_le hS, ← hPk]
    rw [e, step, Nat.add_mul_div_right _ _ hS]
    omega
  unfold countUpCore
  have : (List.range (2 ^ (k - s))).countP (fun r => roundsUpCore k s r q)
      = (List.range (2 ^ (k - s))).countP (fun r => decide (2 ^ (k - s) - t ≤ r)) := by
    apply List.countP_congr
    intro r hr
    have hr' : r < 2 ^ (k - s) := List.mem_range.mp hr
    simp only [decide_eq_true_eq]
    exact hcrit r hr'
  rw [this, count_range_ge]
  have htle : t < 2 ^ (k - s) + 1 := by
    rw [ht, Nat.div_lt_iff_lt_mul hS]
    have h1 : 2 ^ s / 2 < 2 ^ s := Nat.div_lt_self hS (by norm_num)
    have h2 : (2 ^ (k - s) + 1) * 2 ^ s = 2 ^ k + 2 ^ s := by rw [hPk]; ring
    omega
  clear_value t
  omega

/-- **All discarded bits used (`s = 0`): the probability is exactly the fractional position** —
    `rem` of `2^k` draws round up, and inside a binade the bit pattern is linear in the value. -/
theorem sr_prob_exact (k q : ℕ) : countUpCore k 0 q = q % 2 ^ k := by
  rw [sr_count k 0 q (Nat.zero_le _)]
  simp

/-- **Fewer random bits:** the counted probability `count / 2^(k−s)` differs from the fractional
    position `rem / 2^k` by at most half a unit of `2^-(k−s)`:
    `count·2^s ≤ rem + 2^s/2 < (count+1)·2^s`. -/
theorem sr_prob_half_ulp (k s q : ℕ) (hs : s ≤ k) :
    countUpCore k s q * 2 ^ s ≤ q % 2 ^ k + 2 ^ s / 2 ∧
    q % 2 ^ k + 2 ^ s / 2 < (countUpCore k s q + 1) * 2 ^ s := by
  rw [sr_count k s q hs]
  have hS := pow_pos' s
  constructor
  · exact Nat.div_mul_le_self _ _
  · have hm := Nat.mod_lt (q % 2 ^ k + 2 ^ s / 2) hS
    calc q % 2 ^ k + 2 ^ s / 2
        = 2 ^ s * ((q % 2 ^ k + 2 ^ s / 2) / 2 ^ s) + (q % 2 ^ k + 2 ^ s / 2) % 2 ^ s :=
          (Nat.div_add_mod _ _).symm
      _ < 2 ^ s * ((q % 2 ^ k + 2 ^ s / 2) / 2 ^ s) + 2 ^ s := by omega
      _ = ((q % 2 ^ k + 2 ^ s / 2) / 2 ^ s + 1) * 2 ^ s := by ring

/-- the model's stochastic offset is the core's offset -/
theorem offSR_eq (M srbits r : ℕ) :
    offSR M srbits r = r * 2 ^ (23 - M - srbits) + (if 23 - M - srbits > 0 then 2 ^ (23 - M - srbits - 1) else 0) := rfl

/-! ### Non-vacuity -/
example : countUpCore 3 1 13 = 3 := by decide   -- rem = 5 of 8, two random bits: (5+1)/2 = 3 of 4 draws
example : countUpCore 3 0 13 = 5 := by decide   -- all bits: exactly 5 of 8 draws

end USProofs.C14
