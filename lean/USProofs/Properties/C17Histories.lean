import USModel
import USProofs.Properties.C17
open USModel
namespace USProofs.C17

theorem applyT_backends_congr (s s' : MState) (x : Transform) (h : s.backends = s'.backends) :
    (applyT s x).backends = (applyT s' x).backends := by
  cases x <;> simp [applyT, unitScale, applyTransform, h]

theorem callM_backends (s : MState) : (callM s).backends = s.backends := by
  unfold callM; split <;> rfl

/-- **Histories**: for every sequence of user actions of any length — transforms interleaved with any
    number of calls of the intermediate modules — the backend list of the final module is the one
    obtained from the transforms alone. -/
theorem calls_never_matter (s : MState) (as : List Action) :
    (runActions s as).backends = (runActions s (as.filter (fun a => a != Action.call))).backends := by
  unfold runActions
  suffices h : ∀ (s s' : MState), s.backends = s'.backends →
      (as.foldl act s).backends = ((as.filter (fun a => a != Action.call)).foldl act s').backends from h s s rfl
  induction as with
  | nil => intro s s' h; simpa using h
  | cons a rest ih =>
    intro s s' h
    cases a with
    | call =>
      simp only [List.foldl_cons, List.filter_cons, bne_self_eq_false, Bool.false_eq_true, if_false]
      exact ih _ _ (by rw [act, callM_backends]; exact h)
    | t x =>
      have hne : (Action.t x != Action.call) = true := by cases x <;> decide
      simp only [List.foldl_cons, List.filter_cons, hne, if_true]
      exact ih _ _ (by simp only [act]; exact applyT_backends_congr s s' x h)

/-- after any history, one more call leaves nothing to re-run, and a second call changes nothing -/
theorem call_settles (s : MState) (as : List Action) :
    (callM (runActions s as)).rerun = false ∧ callM (callM (runActions s as)) = callM (runActions s as) := by
  refine ⟨?_, repeat_stable _⟩
  unfold callM; split <;> simp_all

end USProofs.C17
