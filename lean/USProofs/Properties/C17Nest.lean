/-
  C17 — nesting at the graph level: running the unit-scaling backend and then the quantisation backend on any
  well-formed FX graph gives a well-formed graph, with the same number of nodes as the unit-scaled graph and with every
  node that is not a linear / attention call left exactly as unit scaling produced it.
-/
import USModel
import USProofs.Properties.C15WellFormed
import USProofs.Properties.C16WellFormed

open USModel

namespace USProofs.C17

/-- **The nested transformation returns a well-formed graph** (all graphs, formats, replacement maps). -/
theorem nest_wellformed (user : List (String × String)) (uct : List String) (fwd bwd : Fmt) (g0 : Graph)
    (hw : g0.wellFormed = true) :
    Graph.wellFormed (simulateBackend fwd bwd (unitScaleBackend user uct g0)) = true :=
  USProofs.C15.simulate_wellformed fwd bwd _ (USProofs.C16.backend_wellformed user uct g0 hw)

/-- the quantisation backend never adds or removes nodes of the unit-scaled graph -/
theorem nest_length (user : List (String × String)) (uct : List String) (fwd bwd : Fmt) (g0 : Graph) :
    (simulateBackend fwd bwd (unitScaleBackend user uct g0)).length = (unitScaleBackend user uct g0).length := by
  simp [simulateBackend]

end USProofs.C17
