/-
  C18 — scale tracking is purely observational; its metrics are the true statistics.
-/
import USProofs.RealInst
import Mathlib.Algebra.Order.BigOperators.Group.List
import Mathlib.Algebra.Order.BigOperators.Ring.List
import Mathlib.Tactic.Ring
import Mathlib.Tactic.Linarith
import Mathlib.Tactic.Positivity

open USModel

namespace USProofs.C18

section transparency
variable {V : Type}

/-- the tracker is the identity two-sided op -/
theorem tracker_is_id : (tracker : DOp V V) = DOp.idOp := rfl

/-- a tracker after (or before) any op changes neither its value nor its gradient -/
theorem tracker_after (f : DOp V V) (x g : V) :
    (tracker.comp f).fwd x = f.fwd x ∧ (tracker.comp f).vjp x g = f.vjp x g := ⟨rfl, rfl⟩
theorem tracker_before (f : DOp V V) (x g : V) :
    (f.comp tracker).fwd x = f.fwd x ∧ (f.comp tracker).vjp x g = f.vjp x g := ⟨rfl, rfl⟩

/-- **Purely observational**, for chains of any length: the instrumented computation has the same
    outputs and the same input gradient as the plain one. -/
theorem track_transparent (fs : List (DOp V V)) (x g : V) :
    (instrumentChain fs).fwd x = (plainChain fs).fwd x ∧
    (instrumentChain fs).vjp x g = (plainChain fs).vjp x g := by
  induction fs generalizing x g with
  | nil => exact ⟨rfl, rfl⟩
  | cons f rest ih =>
    constructor
    · show (instrumentChain rest).fwd (f.fwd x) = (plainChain rest).fwd (f.fwd x)
      exact (ih (f.fwd x) g).1
    · show f.vjp x ((instrumentChain rest).vjp (f.fwd x) g) = f.vjp x ((plainChain rest).vjp (f.fwd x) g)
      rw [(ih (f.fwd x) g).2]

/-- what is logged in the forward pass at a node is that node's value -/
theorem track_fwd_value (f : DOp V V) (x g : V) :
    (trackerLog ((tracker.comp f).fwd x) g).1 = f.fwd x := rfl

/-- **The logged gradient is the total gradient over all consumers**: a tracker placed on a tensor
    that fans out to two consumers receives the sum of their pull-backs. -/
theorem track_bwd_total [Add V] (f g1 g2 : DOp V V) (x c : V) :
    ((fanOut g1 g2).comp (tracker.comp f)).vjp x c
      = f.vjp x (g1.vjp (f.fwd x) c + g2.vjp (f.fwd x) c) := rfl
theorem tracker_receives_total [Add V] (g1 g2 : DOp V V) (y c : V) :
    (trackerLog y ((fanOut g1 g2).vjp y c)).2 = g1.vjp y c + g2.vjp y c := rfl
end transparency

/-! ### metric sanity over ℝ -/

theorem foldl_add (l : List ℝ) (a : ℝ) : l.foldl (· + ·) a = a + l.sum := by
  induction l generalizing a with
  | nil => simp
  | cons t ts ih => simp only [List.foldl_cons, List.sum_cons, ih]; ring

theorem absS_eq (x : ℝ) : absS x = |x| := by
  unfold absS
  simp only [nat_real, Nat.cast_zero]
  split
  · rename_i h; rw [abs_of_neg h]
  · rename_i h; rw [abs_of_nonneg (not_lt.mp h)]

theorem meanAbs_eq (xs : List ℝ) : (metricsOf xs).meanAbs = (xs.map (|·|)).sum / xs.length := by
  simp only [metricsOf, nat_real, Nat.cast_zero, foldl_add, zero_add]
  congr 2
  exact List.map_congr_left (fun x _ => absS_eq x)

theorem absMean_eq (xs : List ℝ) : (metricsOf xs).absMean = |xs.sum / xs.length| := by
  simp only [metricsOf, nat_real, Nat.cast_zero, foldl_add, zero_add, absS_eq]

theorem list_abs_sum_le (xs : List ℝ) : |xs.sum| ≤ (xs.map (|·|)).sum := by
  induction xs with
  | nil => simp
  | cons x rest ih =>
    simp only [List.sum_cons, List.map_cons]
    exact (abs_add_le _ _).trans (by linarith)

/-- `|mean x| ≤ mean |x|` -/
theorem abs_mean_le_mean_abs (xs : List ℝ) : (metricsOf xs).absMean ≤ (metricsOf xs).meanAbs := by
  rw [absMean_eq, meanAbs_eq, abs_div, abs_of_nonneg (Nat.cast_nonneg (α := ℝ) xs.length)]
  apply div_le_div_of_nonneg_right _ (Nat.cast_nonneg _)
  exact list_abs_sum_le xs

/-- `mean |x|` lies between any lower and upper bound of the `|x|` -/
theorem mean_abs_bounds (xs : List ℝ) (lo hi : ℝ) (hne : xs ≠ [])
    (h : ∀ x ∈ xs, lo ≤ |x| ∧ |x| ≤ hi) : lo ≤ (metricsOf xs).meanAbs ∧ (metricsOf xs).meanAbs ≤ hi := by
  have hn : (0 : ℝ) < xs.length := by exact_mod_cast List.length_pos_iff.mpr hne
  rw [meanAbs_eq]
  have hl : (xs.map (|·|)).length = xs.length := by simp
  constructor
  · rw [le_div_iff₀ hn]
    have := List.card_nsmul_le_sum (xs.map (|·|)) lo (by
      intro y hy; obtain ⟨x, hx, rfl⟩ := List.mem_map.mp hy; exact (h x hx).1)
    simpa [hl, nsmul_eq_mul, mul_comm] using this
  · rw [div_le_iff₀ hn]
    have := List.sum_le_card_nsmul (xs.map (|·|)) hi (by
      intro y hy; obtain ⟨x, hx, rfl⟩ := List.mem_map.mp hy; exact (h x hx).2)
    simpa [hl, nsmul_eq_mul, mul_comm] using this

theorem numel_eq (xs : List ℝ) : (metricsOf xs).numel = xs.length := rfl

/-! ### Non-vacuity -/
example (f g : DOp ℝ ℝ) (x c : ℝ) :
    (instrumentChain [f, g]).vjp x c = (plainChain [f, g]).vjp x c := (track_transparent [f, g] x c).2

end USProofs.C18
