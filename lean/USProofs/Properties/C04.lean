/-
  C04 — nonlinear ops stay near unit scale across their hyper-parameter range  (PARTIAL).

  What the library contributes is the scale *function*: a logarithmic interpolation between two
  limits with weight `1/(1 + c/mult²)`, `V/√(V−1)` for cross-entropy, `√(norm/numel)` for norms.
  Proved here: the structure of those functions (bounds, monotonicity, end-points) and exact unit
  scale at the analytic limits.  The numerical bands over continuous hyper-parameter ranges need
  verified enclosures of Gaussian moments of erf-type functions, which Mathlib does not provide;
  they are evaluated numerically by the harness (Gauss–Hermite / fixed-seed Monte-Carlo) and
  `band_partial` records the band with the moment function as an explicit hypothesis.
-/
import USProofs.RealInst
import USProofs.Properties.C03
import Mathlib.Analysis.SpecialFunctions.Pow.Real
import Mathlib.Tactic.Positivity
import Mathlib.Tactic.Linarith
import Mathlib.Tactic.FieldSimp

open USModel

namespace USProofs.C04

/-- the interpolation weight lies strictly between 0 and 1 -/
theorem alpha_mem (c m : ℝ) (hc : 0 < c) (hm : m ≠ 0) : 0 < alphaOf c m ∧ alphaOf c m < 1 := by
  have hm2 : 0 < m * m := mul_self_pos.mpr hm
  have hq : 0 < c / (m * m) := div_pos hc hm2
  simp only [alphaOf, nat_real, Nat.cast_one]
  constructor
  · positivity
  · rw [div_lt_one (by positivity)]; linarith

/-- …and increases with `mult > 0`: small `mult` selects the lower limit, large the upper one -/
theorem alpha_mono (c m m' : ℝ) (hc : 0 < c) (hm : 0 < m) (hmm : m < m') : alphaOf c m < alphaOf c m' := by
  have h1 : 0 < m * m := by positivity
  have h2 : m * m < m' * m' := by nlinarith
  have hq : c / (m' * m') < c / (m * m) := div_lt_div_of_pos_left hc h1 h2
  simp only [alphaOf, nat_real, Nat.cast_one]
  apply one_div_lt_one_div_of_lt
  · have : 0 < c / (m' * m') := div_pos hc (by nlinarith)
    linarith
  · linarith

/-- `logarithmic_interpolation(α, lo, hi) = hi^α · lo^(1−α)` -/
theorem logInterp_eq (a lo hi : ℝ) (hlo : 0 < lo) (hhi : 0 < hi) :
    logInterp a lo hi = hi ^ a * lo ^ (1 - a) := by
  simp only [logInterp, transc_exp, transc_log, nat_real, Nat.cast_one]
  rw [Real.exp_add, Real.rpow_def_of_pos hhi, Real.rpow_def_of_pos hlo]
  congr 1 <;> ring_nf

theorem logInterp_zero (lo hi : ℝ) (hlo : 0 < lo) : logInterp 0 lo hi = lo := by
  simp [logInterp, Real.exp_log hlo]
theorem logInterp_one (lo hi : ℝ) (hhi : 0 < hi) : logInterp 1 lo hi = hi := by
  simp [logInterp, Real.exp_log hhi]

/-- the scale lies between its two limits -/
theorem logInterp_between (a lo hi : ℝ) (ha0 : 0 ≤ a) (ha1 : a ≤ 1) (hlo : 0 < lo) (hhi : 0 < hi) :
    min lo hi ≤ logInterp a lo hi ∧ logInterp a lo hi ≤ max lo hi := by
  have key : ∀ x, 0 < x → Real.log x = Real.log x := fun _ _ => rfl
  simp only [logInterp, transc_exp, transc_log, nat_real, Nat.cast_one]
  have hmin : Real.log (min lo hi) ≤ a * Real.log hi + (1 - a) * Real.log lo := by
    have h1 : Real.log (min lo hi) ≤ Real.log hi := Real.log_le_log (lt_min hlo hhi) (min_le_right _ _)
    have h2 : Real.log (min lo hi) ≤ Real.log lo := Real.log_le_log (lt_min hlo hhi) (min_le_left _ _)
    nlinarith
  have hmax : a * Real.log hi + (1 - a) * Real.log lo ≤ Real.log (max lo hi) := by
    have h1 : Real.log hi ≤ Real.log (max lo hi) := Real.log_le_log hhi (le_max_right _ _)
    have h2 : Real.log lo ≤ Real.log (max lo hi) := Real.log_le_log hlo (le_max_left _ _)
    nlinarith
  constructor
  · calc min lo hi = Real.exp (Real.log (min lo hi)) := (Real.exp_log (lt_min hlo hhi)).symm
      _ ≤ _ := Real.exp_le_exp.mpr hmin
  · calc _ ≤ Real.exp (Real.log (max lo hi)) := Real.exp_le_exp.mpr hmax
      _ = max lo hi := Real.exp_log (lt_max_of_lt_left hlo)

/-- …and moves monotonically from the lower to the upper limit as the weight grows -/
theorem logInterp_mono (a a' lo hi : ℝ) (h : a ≤ a') (hlo : 0 < lo) (hhi : 0 < hi) (hle : lo ≤ hi) :
    logInterp a lo hi ≤ logInterp a' lo hi := by
  simp only [logInterp, transc_exp, transc_log, nat_real, Nat.cast_one]
  apply Real.exp_le_exp.mpr
  have : Real.log lo ≤ Real.log hi := Real.log_le_log hlo hle
  nlinarith

/-! ### exact unit scale at the analytic limits -/

/-- cross-entropy, uniform logits: the logit gradient `softmax − onehot` has one entry `(1−V)/V` and
    `V−1` entries `1/V` per row, mean square `(V−1)/V²`; times the scale squared is exactly 1. -/
theorem ce_uniform_exact (b V : ℕ) (hV : 2 ≤ V) (mean : Bool) (s : ℝ)
    (hs : (crossEntropyScales (α := ℝ) b V mean).bwd = [s]) :
    s ^ 2 * (((V : ℝ) - 1) / (V : ℝ) ^ 2) = 1 := by
  simp only [crossEntropyScales, nat_real, List.cons.injEq, and_true] at hs
  subst hs
  have h1 : (0 : ℝ) < ((V - 1 : ℕ) : ℝ) := by
    have : 0 < V - 1 := by omega
    exact_mod_cast this
  have hV' : (0 : ℝ) < (V : ℝ) := by
    have : 0 < V := by omega
    exact_mod_cast this
  have hcast : ((V - 1 : ℕ) : ℝ) = (V : ℝ) - 1 := by
    rw [Nat.cast_sub (by omega)]; simp
  rw [div_pow, C03.powHalf_sq h1.le, hcast]
  have : (V : ℝ) - 1 ≠ 0 := by rw [← hcast]; exact h1.ne'
  field_simp

/-- softmax, flat limit (`mult → 0`): every output is `1/n`; the lower limit of the scale is `n` -/
theorem softmax_flat_exact (n : ℕ) (hn : 0 < n) : ((n : ℝ) * (1 / (n : ℝ))) ^ 2 = 1 := by
  have : (n : ℝ) ≠ 0 := by exact_mod_cast hn.ne'
  field_simp

/-- softmax, one-hot limit (`mult → ∞`): one output 1, the rest 0: mean square `1/n`; upper limit `√n` -/
theorem softmax_onehot_exact (n : ℕ) (hn : 0 < n) : (powHalf (n : ℝ)) ^ 2 * (1 / (n : ℝ)) = 1 := by
  have : (0 : ℝ) < n := by exact_mod_cast hn
  rw [C03.powHalf_sq this.le]
  field_simp

/-- attention, flat non-causal limit: the output is the mean of `seq` unit-variance rows (variance
    `1/seq`); the scale's lower limit `√(1/seq)` is divided out. -/
theorem sdpa_flat_noncausal_exact (n : ℕ) (hn : 0 < n) :
    (1 / powHalf ((1 : ℝ) / (n : ℝ))) ^ 2 * (1 / (n : ℝ)) = 1 := by
  have h : (0 : ℝ) < n := by exact_mod_cast hn
  rw [div_pow, C03.powHalf_sq (by positivity)]
  field_simp

/-- norms: gain / bias gradient scale — see `C03.norm_unit_scale`. -/
theorem norm_grad_scale (normNumel rows : ℕ) (hn : 0 < normNumel) (hr : 0 < rows) :
    C03.UnitScaled (normScales (α := ℝ) normNumel (rows * normNumel)) (normTerms normNumel (rows * normNumel)) :=
  C03.norm_unit_scale normNumel rows hn hr

/-- **Band, partial.** If `σ(m)` is the true output standard deviation of the unscaled op at
    temperature `m` (a Gaussian moment — hypothesis) and the model scale times `σ` stays within
    `ε` of 1 on the range, then so does the scaled op.  The hypothesis is what the harness evaluates
    numerically; it is not proved. -/
theorem band_partial (σ scale : ℝ → ℝ) (ε : ℝ) (lo hi : ℝ)
    (h : ∀ m, lo ≤ m → m ≤ hi → |scale m * σ m - 1| ≤ ε) :
    ∀ m, lo ≤ m → m ≤ hi → 1 - ε ≤ scale m * σ m ∧ scale m * σ m ≤ 1 + ε := by
  intro m h1 h2
  have := abs_le.mp (h m h1 h2)
  constructor <;> linarith [this.1, this.2]

end USProofs.C04
