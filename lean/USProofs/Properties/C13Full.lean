/-
  C13 — end-to-end algebraic laws of `FPFormat.quantise` on magnitude patterns (E ≤ 7): representable inputs are
  fixed points, the result is representable and in range, idempotence, monotonicity and saturation — for the
  definition the driver executes (`quantMag`), any rounding offset below the grid spacing (nearest rounding and every
  stochastic draw).
-/
import USModel
import USProofs.Properties.C13Capstone

open USModel USModel.F32

namespace USProofs.C13

theorem two_pow_k_dvd_shift (M d : ℕ) : 2 ^ (23 - M) ∣ d * 2 ^ 23 :=
  Dvd.dvd.mul_left (pow_dvd_pow 2 (by omega)) d

section laws
variable (E M : ℕ) (hE : 1 ≤ E) (hB : 2 ^ (E - 1) ≤ 127) (hM : M ≤ 23)
include hE hB hM

/-- the largest value of the format is a multiple of the grid spacing and lies in the normal range -/
theorem absmax_facts :
    2 ^ (23 - M) ∣ absmaxBits E M ∧ 127 - 2 ^ (E - 1) < expo (absmaxBits E M) := by
  constructor
  · unfold absmaxBits
    exact dvd_add (two_pow_k_dvd_shift M _) (Dvd.intro_left _ rfl)
  · rw [expo_absmax E M hM]
    have : 0 < 2 ^ (E - 1) := by positivity
    omega

/-- **Representable inputs are left unchanged** (in-range normal patterns whose discarded bits are zero). -/
theorem quantise_fixes_representable (off n : ℕ) (hoff : off < 2 ^ (23 - M))
    (hmax : n ≤ absmaxBits E M) (hnorm : 127 - 2 ^ (E - 1) < expo n) (hrep : 2 ^ (23 - M) ∣ n) :
    quantMag E M off n = n := by
  rw [quantMag_normal_eq E M off n hB hmax hnorm]
  obtain ⟨he1, hq1, _, _, _, hexp, _⟩ :=
    capstone_setup_off E M n hE hB hM hmax hnorm off hoff _ _ _ _ rfl rfl rfl rfl
  set d := 127 - 2 ^ (E - 1) with hd
  obtain ⟨hlo, _⟩ := expo_bounds n
  have hdn : d * 2 ^ 23 ≤ n := le_trans (Nat.mul_le_mul_right _ (by omega)) hlo
  have hq : 2 ^ (23 - M) ∣ n - d * 2 ^ 23 := Nat.dvd_sub hrep (two_pow_k_dvd_shift M d)
  rw [round_core_fixes _ _ _ hoff hq]
  have hexpq : expo (n - d * 2 ^ 23) = expo n - d := expo_sub n d
  have hpos : 0 < 2 ^ (E - 1) := by positivity
  rw [mulPow2_normal d _ (by rw [hexpq]; omega) (by rw [hexpq]; omega)]
  exact Nat.sub_add_cancel hdn

/-- **The result is representable, in range and normal**: its discarded bits are zero, it does not exceed the
    format's maximum, and it stays at or above the smallest normal value. -/
theorem quantise_result_representable (off n : ℕ) (hoff : off < 2 ^ (23 - M))
    (hmax : n ≤ absmaxBits E M) (hnorm : 127 - 2 ^ (E - 1) < expo n) :
    2 ^ (23 - M) ∣ quantMag E M off n ∧ quantMag E M off n ≤ absmaxBits E M ∧
      127 - 2 ^ (E - 1) < expo (quantMag E M off n) := by
  obtain ⟨hamax, hanorm⟩ := absmax_facts E M hE hB hM
  rw [quantMag_normal_eq E M off n hB hmax hnorm]
  obtain ⟨he1, hq1, hq2, hr1, hr2, hexp, hdvd⟩ :=
    capstone_setup_off E M n hE hB hM hmax hnorm off hoff _ _ _ _ rfl rfl rfl rfl
  set d := 127 - 2 ^ (E - 1) with hd
  set q := n - d * 2 ^ 23 with hq
  set e' := expo n - d with he'
  set r := roundCore (23 - M) off q with hr
  have hpos : 0 < 2 ^ (E - 1) := by positivity
  have hexpr1 : 1 ≤ expo r := le_trans he1 (expo_ge_of r e' hr1)
  have hexpr_le : expo r ≤ e' + 1 := by
    rcases Nat.lt_or_ge r ((e' + 1) * 2 ^ 23) with h | h
    · exact le_trans (expo_lt_of r e' h) (by omega)
    · have : r = (e' + 1) * 2 ^ 23 := le_antisymm hr2 h
      rw [this]; unfold expo; simp
  rw [mulPow2_normal d r hexpr1 (by omega)]
  refine ⟨dvd_add hdvd (two_pow_k_dvd_shift M d), ?_, ?_⟩
  · -- r ≤ the down-scaled maximum, which is itself a grid point
    obtain ⟨hloA, _⟩ := expo_bounds (absmaxBits E M)
    have hdA : d * 2 ^ 23 ≤ absmaxBits E M := le_trans (Nat.mul_le_mul_right _ (by omega)) hloA
    have hqA : 2 ^ (23 - M) ∣ absmaxBits E M - d * 2 ^ 23 := Nat.dvd_sub hamax (two_pow_k_dvd_shift M d)
    have hmono : r ≤ roundCore (23 - M) off (absmaxBits E M - d * 2 ^ 23) :=
      round_core_monotone _ _ _ _ (Nat.sub_le_sub_right hmax _)
    rw [round_core_fixes _ _ _ hoff hqA] at hmono
    omega
  · rw [expo_add]; omega

/-- **Idempotence**, end to end. -/
theorem quantise_idempotent (off n : ℕ) (hoff : off < 2 ^ (23 - M))
    (hmax : n ≤ absmaxBits E M) (hnorm : 127 - 2 ^ (E - 1) < expo n) :
    quantMag E M off (quantMag E M off n) = quantMag E M off n := by
  obtain ⟨h1, h2, h3⟩ := quantise_result_representable E M hE hB hM off n hoff hmax hnorm
  exact quantise_fixes_representable E M hE hB hM off _ hoff h2 h3 h1

/-- **Monotone non-decreasing**, end to end (same offset on both inputs). -/
theorem quantise_monotone (off n n' : ℕ) (hoff : off < 2 ^ (23 - M)) (hle : n ≤ n')
    (hmax' : n' ≤ absmaxBits E M) (hnorm : 127 - 2 ^ (E - 1) < expo n) :
    quantMag E M off n ≤ quantMag E M off n' := by
  have hmax : n ≤ absmaxBits E M := le_trans hle hmax'
  have hnorm' : 127 - 2 ^ (E - 1) < expo n' := lt_of_lt_of_le hnorm (by unfold expo; exact Nat.div_le_div_right hle)
  rw [quantMag_normal_eq E M off n hB hmax hnorm, quantMag_normal_eq E M off n' hB hmax' hnorm']
  obtain ⟨he1, _, _, hr1, hr2, hexp, _⟩ :=
    capstone_setup_off E M n hE hB hM hmax hnorm off hoff _ _ _ _ rfl rfl rfl rfl
  obtain ⟨he1', _, _, hr1', hr2', hexp', _⟩ :=
    capstone_setup_off E M n' hE hB hM hmax' hnorm' off hoff _ _ _ _ rfl rfl rfl rfl
  set d := 127 - 2 ^ (E - 1) with hd
  have hpos : 0 < 2 ^ (E - 1) := by positivity
  have hb : ∀ (r e' : ℕ), 1 ≤ e' → e' * 2 ^ 23 ≤ r → r ≤ (e' + 1) * 2 ^ 23 → e' + d ≤ 2 ^ (E - 1) - 1 + 127 →
      1 ≤ expo r ∧ expo r + d < 255 := by
    intro r e' h1 h2 h3 h4
    have hge : e' ≤ expo r := expo_ge_of r e' h2
    have hle' : expo r ≤ e' + 1 := by
      rcases Nat.lt_or_ge r ((e' + 1) * 2 ^ 23) with h | h
      · exact le_trans (expo_lt_of r e' h) (by omega)
      · have : r = (e' + 1) * 2 ^ 23 := le_antisymm h3 h
        rw [this]; unfold expo; simp
    omega
  obtain ⟨ha, hb1⟩ := hb _ _ he1 hr1 hr2 (by omega)
  obtain ⟨ha', hb1'⟩ := hb _ _ he1' hr1' hr2' (by omega)
  rw [mulPow2_normal d _ ha hb1, mulPow2_normal d _ ha' hb1']
  exact Nat.add_le_add_right (round_core_monotone _ _ _ _ (Nat.sub_le_sub_right hle _)) _

/-- **Saturation**: every magnitude at or beyond the format's maximum (infinity included) gives the maximum. -/
theorem quantise_saturates (off n : ℕ) (hoff : off < 2 ^ (23 - M)) (hn : absmaxBits E M ≤ n) :
    quantMag E M off n = absmaxBits E M := by
  obtain ⟨hamax, hanorm⟩ := absmax_facts E M hE hB hM
  have hmin : quantMag E M off n = quantMag E M off (absmaxBits E M) := by
    simp only [quantMag, Nat.min_eq_right hn, Nat.min_self]
  rw [hmin]
  exact quantise_fixes_representable E M hE hB hM off _ hoff (Nat.le_refl _) hanorm hamax

end laws

/-- non-vacuity: E4M3, the pattern of 1.0625 (0x3F880000) is in range, normal and not representable; 1.0 is -/
example : (0x3F880000 : ℕ) ≤ absmaxBits 4 3 ∧ 127 - 2 ^ (4 - 1) < expo 0x3F880000 ∧ ¬ 2 ^ (23 - 3) ∣ (0x3F880000 : ℕ) ∧
    2 ^ (23 - 3) ∣ (0x3F800000 : ℕ) := by
  refine ⟨by decide, by decide, by decide, by decide⟩

end USProofs.C13
