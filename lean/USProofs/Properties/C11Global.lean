/-
  C11 (continued) — the no-aliasing clause for the *whole* call, and n-step weight decay for AdamW.

  `C11.scaled_lr_fresh` shows that within one source group the learning-rate cells of the groups
  produced for tagged parameters are pairwise distinct and new.  Here the same is shown across all
  entries of a `scaled_parameters` call: two scaled parameters of *different* input groups never
  share a learning-rate tensor either, and none of them is a tensor of the caller.
-/
import USProofs.Properties.C11

open USModel

namespace USProofs.C11Global
open USProofs.C11

variable {k : OptKind} {indep allow : Bool}

theorem scaledCells_append (a b : List (OutGroup ℝ)) :
    scaledCells (a ++ b) = scaledCells a ++ scaledCells b := by
  simp [scaledCells, List.filterMap_append]

/-- bounds and strict ordering of the scaled lr cells of a whole call -/
theorem call_fresh {lr : Option (LrVal ℝ)} {wd : ℝ} (es : List (Entry ℝ))
    {heap h' : List ℝ} {gs : List (OutGroup ℝ)}
    (h : scaledParameters k indep allow lr wd heap es = .ok (h', gs)) :
    (∀ a ∈ scaledCells gs, heap.length ≤ a ∧ a < h'.length) ∧
    (scaledCells gs).Pairwise (· < ·) := by
  induction es generalizing heap gs with
  | nil =>
    simp only [scaledParameters, except_pure, Except.ok.injEq, Prod.mk.injEq] at h
    obtain ⟨rfl, rfl⟩ := h
    simp [scaledCells]
  | cons e es ih =>
    unfold scaledParameters at h
    cases h1 : stepEntry k indep allow lr wd heap e with
    | error e => simp [h1] at h
    | ok r1 =>
      obtain ⟨h1', g1⟩ := r1
      simp only [h1, except_bind_ok] at h
      cases h2 : scaledParameters k indep allow lr wd h1' es with
      | error e => simp [h2] at h
      | ok r2 =>
        obtain ⟨h2', g2⟩ := r2
        simp only [h2, except_bind_ok, except_pure, Except.ok.injEq, Prod.mk.injEq] at h
        obtain ⟨rfl, rfl⟩ := h
        obtain ⟨hb2, hpw2⟩ := ih h2
        obtain ⟨glr, gwd, extra, h1s, _⟩ := stepEntry_spec h1
        obtain ⟨hb1, hpw1⟩ := stepParams_fresh _ h1s
        obtain ⟨_, ext2, hext2⟩ := params_preserved es h2
        obtain ⟨_, _, ext1, hext1⟩ := stepParams_spec _ h1s
        have hl1 : heap.length ≤ h1'.length := by rw [hext1]; simp
        have hl2 : h1'.length ≤ h2'.length := by rw [hext2]; simp
        rw [scaledCells_append]
        constructor
        · intro a ha
          rcases List.mem_append.mp ha with ha | ha
          · have := hb1 a ha; omega
          · have := hb2 a ha; omega
        · rw [List.pairwise_append]
          refine ⟨hpw1, hpw2, ?_⟩
          intro a ha b hb
          have := hb1 a ha
          have := hb2 b hb
          omega

/-- **No aliasing anywhere in the result**: over the whole call, the lr cells of the groups
    produced for tagged parameters are pairwise distinct, none existed before the call, and each
    lies inside the result heap. -/
theorem scaled_lr_fresh_call {lr : Option (LrVal ℝ)} {wd : ℝ} (es : List (Entry ℝ))
    {heap h' : List ℝ} {gs : List (OutGroup ℝ)}
    (h : scaledParameters k indep allow lr wd heap es = .ok (h', gs)) :
    (scaledCells gs).Nodup ∧ ∀ a ∈ scaledCells gs, heap.length ≤ a ∧ a < h'.length := by
  obtain ⟨hb, hpw⟩ := call_fresh es h
  exact ⟨hpw.imp (fun hlt => Nat.ne_of_lt hlt), hb⟩

/-- a caller's lr tensor (any cell below the input heap's length) is never the lr of a scaled
    group of the result -/
theorem caller_cell_not_scaled {lr : Option (LrVal ℝ)} {wd : ℝ} (es : List (Entry ℝ))
    {heap h' : List ℝ} {gs : List (OutGroup ℝ)}
    (h : scaledParameters k indep allow lr wd heap es = .ok (h', gs))
    (a : ℕ) (ha : a < heap.length) : a ∉ scaledCells gs := by
  intro hm
  have := ((scaled_lr_fresh_call es h).2 a hm).1
  omega

/-- `n` zero-gradient AdamW steps: `(1 − wd)^n`, whatever the lr and `eps`. -/
theorem adamw_zero_steps (lr wd' eps w p : ℝ) (h : lr * wd' = w) (n : ℕ) :
    (adamwZeroStep lr wd' eps)^[n] p = (1 - w) ^ n * p := by
  induction n generalizing p with
  | zero => simp
  | succ n ih =>
    rw [Function.iterate_succ_apply, ih, adamw_zero_step lr wd' eps w p h]
    ring

/-- two learning rates with the same product `lr·wd'` decay identically for every number of
    steps: the decay is learning-rate independent -/
theorem decay_lr_independent (lr₁ lr₂ wd₁ wd₂ eps₁ eps₂ p : ℝ) (h : lr₁ * wd₁ = lr₂ * wd₂)
    (n : ℕ) :
    (adamwZeroStep lr₁ wd₁ eps₁)^[n] p = (adamwZeroStep lr₂ wd₂ eps₂)^[n] p ∧
    (sgdZeroStep lr₁ wd₁)^[n] p = (sgdZeroStep lr₂ wd₂)^[n] p := by
  constructor
  · rw [adamw_zero_steps lr₁ wd₁ eps₁ _ p rfl, adamw_zero_steps lr₂ wd₂ eps₂ _ p h.symm]
  · rw [sgd_zero_steps lr₁ wd₁ _ p rfl, sgd_zero_steps lr₂ wd₂ _ p h.symm]

/-! ### Non-vacuity: two groups sharing one lr tensor get two distinct fresh cells -/
example :
    ∃ h' gs, scaledParameters (α := ℝ) .adam true false none 0.1 [0.5]
      [.group ⟨[⟨0, some .bias, [3], none⟩], some (.cell 0), none, []⟩,
       .group ⟨[⟨1, some .output, [3, 4], none⟩], some (.cell 0), none, []⟩] = .ok (h', gs)
      ∧ scaledCells gs = [1, 2] := by
  simp [scaledParameters, stepEntry, stepParams, stepParam, lrScale, lrScaleAdam, Option.orElse,
    scaledCells]

end USProofs.C11Global
