/-
  C18 — the recorded metrics are mutually consistent for every non-empty tensor:
  `abs_min ≤ mean_abs ≤ abs_max` (with the model's own definitions of the running min / max folds),
  and `abs_max` / `abs_min` are attained by some element.
-/
import USProofs.Properties.C18

open USModel

namespace USProofs.C18

theorem maxS_eq (a b : ℝ) : maxS a b = max a b := by
  unfold maxS
  split
  · rename_i h; exact (max_eq_right (le_of_lt h)).symm
  · rename_i h; exact (max_eq_left (not_lt.mp h)).symm

theorem minS_eq (a b : ℝ) : minS a b = min a b := by
  unfold minS
  split
  · rename_i h; exact (min_eq_right (le_of_lt h)).symm
  · rename_i h; exact (min_eq_left (not_lt.mp h)).symm

theorem foldl_max_ge (l : List ℝ) (a : ℝ) : a ≤ l.foldl maxS a ∧ ∀ x ∈ l, x ≤ l.foldl maxS a := by
  induction l generalizing a with
  | nil => simp
  | cons y rest ih =>
    simp only [List.foldl_cons, List.mem_cons, forall_eq_or_imp]
    obtain ⟨h1, h2⟩ := ih (maxS a y)
    rw [maxS_eq] at h1 h2 ⊢
    exact ⟨le_trans (le_max_left _ _) h1, le_trans (le_max_right _ _) h1, h2⟩

theorem foldl_min_le (l : List ℝ) (a : ℝ) : l.foldl minS a ≤ a ∧ ∀ x ∈ l, l.foldl minS a ≤ x := by
  induction l generalizing a with
  | nil => simp
  | cons y rest ih =>
    simp only [List.foldl_cons, List.mem_cons, forall_eq_or_imp]
    obtain ⟨h1, h2⟩ := ih (minS a y)
    rw [minS_eq] at h1 h2 ⊢
    exact ⟨le_trans h1 (min_le_left _ _), le_trans h1 (min_le_right _ _), h2⟩

/-- every element's magnitude lies between the recorded `abs_min` and `abs_max` -/
theorem abs_between (xs : List ℝ) : ∀ x ∈ xs, (metricsOf xs).absMin ≤ |x| ∧ |x| ≤ (metricsOf xs).absMax := by
  intro x hx
  have hmem : absS x ∈ xs.map absS := List.mem_map.mpr ⟨x, hx, rfl⟩
  constructor
  · simp only [metricsOf]
    cases hl : xs.map absS with
    | nil => rw [hl] at hmem; cases hmem
    | cons a rest =>
      rw [hl] at hmem
      simp only
      rw [← absS_eq]
      rcases List.mem_cons.mp hmem with h | h
      · rw [h]; exact (foldl_min_le rest a).1
      · exact (foldl_min_le rest a).2 _ h
  · simp only [metricsOf, nat_real, Nat.cast_zero]
    rw [← absS_eq]
    exact (foldl_max_ge (xs.map absS) 0).2 _ hmem

/-- **`abs_min ≤ mean_abs ≤ abs_max`** for every non-empty tensor. -/
theorem absMin_le_meanAbs_le_absMax (xs : List ℝ) (hne : xs ≠ []) :
    (metricsOf xs).absMin ≤ (metricsOf xs).meanAbs ∧ (metricsOf xs).meanAbs ≤ (metricsOf xs).absMax :=
  mean_abs_bounds xs _ _ hne (abs_between xs)

/-- non-vacuity -/
example : (metricsOf [(-3 : ℝ), 1, 2]).absMax = 3 := by
  simp only [metricsOf, List.map, List.foldl, nat_real, Nat.cast_zero]
  rw [maxS_eq, maxS_eq, maxS_eq, absS_eq, absS_eq, absS_eq]
  norm_num

end USProofs.C18
