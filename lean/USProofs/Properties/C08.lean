/-
  C08 — modules equal their functional form, honour every option, start unit-scaled  (PARTIAL).
  The theorems are over a table (`USModel/Modules.lean`) that transcribes the module code; the
  weight of the claim is the correspondence, exhaustive over options and sampled over values.
-/
import USModel

open USModel

namespace USProofs.C08

/-- **Every constructor option of every tabled module is either honoured or rejected**: it reaches a
    parameter of the unit-scaled function (or the explicit padding), is consumed by the torch.nn parent
    constructor / decides which parameters exist, or non-default values are rejected at construction. -/
theorem every_option_dealt_with : ∀ m ∈ moduleSpecs, ∀ o ∈ m.options, o.2.dealtWith = true := by decide

/-- `constraint`, where a module has one, reaches the `constraint` parameter of its own unit-scaled
    function (the repaired defect F-C08a was `Conv1d` missing here). -/
theorem constraint_forwarded : ∀ m ∈ moduleSpecs, ∀ o ∈ m.options, o.1 = "constraint" →
    o.2.forwardsConstraint = true := by decide

/-- **Tags**: every parameter carries a tag the learning-rate rules accept; `LinearReadout.weight ↦
    output`, norm gains ↦ `norm`, every bias ↦ `bias`, other weights ↦ `weight`. -/
theorem tags_spec : ∀ m ∈ moduleSpecs, ∀ p ∈ m.params,
    (p.1 = "bias" → p.2 = .bias) ∧
    (p.1 = "weight" → (m.name = "LinearReadout" → p.2 = .output) ∧
                      ((m.name = "LayerNorm" ∨ m.name = "RMSNorm") → p.2 = .norm) ∧
                      ((m.name ≠ "LinearReadout" ∧ m.name ≠ "LayerNorm" ∧ m.name ≠ "RMSNorm") → p.2 = .weight)) := by
  decide

/-- every tag is in the domain of both learning-rate rules (they never hit the `assert False`) -/
theorem tags_total (k : OptKind) (t : MupType) (n : Nat) (shape : List Nat) (d : Option Nat) :
    ∃ r, lrScale (α := Float) k t (n :: shape) d = r := ⟨_, rfl⟩

/-! ### depth containers -/

/-- after construction every parameter inside a depth container has `depth = len` -/
theorem depth_tags (params : List (String × Option MupType)) (len : Nat) (out : List (String × MupType × Nat))
    (h : depthTag params len = .ok out) : ∀ p ∈ out, p.2.2 = len := by
  induction params generalizing out with
  | nil => simp [depthTag] at h; subst h; simp
  | cons p ps ih =>
    obtain ⟨n, t⟩ := p
    cases t with
    | none => simp [depthTag] at h
    | some ty =>
      simp only [depthTag] at h
      cases hr : depthTag ps len with
      | error e => simp [hr] at h
      | ok rest =>
        simp only [hr, Except.ok.injEq] at h
        subst h
        intro q hq
        rcases List.mem_cons.mp hq with rfl | hq
        · rfl
        · exact ih rest hr q hq

/-- names and tags are carried over unchanged, in order -/
theorem depth_keeps_tags (params : List (String × Option MupType)) (len : Nat) (out : List (String × MupType × Nat))
    (h : depthTag params len = .ok out) : out.map (fun p => (p.1, some p.2.1)) = params := by
  induction params generalizing out with
  | nil => simp [depthTag] at h; subst h; simp
  | cons p ps ih =>
    obtain ⟨n, t⟩ := p
    cases t with
    | none => simp [depthTag] at h
    | some ty =>
      simp only [depthTag] at h
      cases hr : depthTag ps len with
      | error e => simp [hr] at h
      | ok rest =>
        simp only [hr, Except.ok.injEq] at h
        subst h
        simp [ih rest hr]

/-- …and construction fails iff some parameter is untagged -/
theorem depth_refuses_untagged (params : List (String × Option MupType)) (len : Nat)
    (h : ∃ p ∈ params, p.2 = none) : depthTag params len = .error .valueError := by
  induction params with
  | nil => obtain ⟨p, hp, _⟩ := h; cases hp
  | cons q qs ih =>
    obtain ⟨n, t⟩ := q
    cases t with
    | none => simp [depthTag]
    | some ty =>
      obtain ⟨p, hp, hnone⟩ := h
      rcases List.mem_cons.mp hp with rfl | hp
      · cases hnone
      · simp [depthTag, ih ⟨p, hp, hnone⟩]

theorem depth_accepts_tagged (params : List (String × Option MupType)) (len : Nat)
    (h : ∀ p ∈ params, p.2 ≠ none) : ∃ out, depthTag params len = .ok out := by
  induction params with
  | nil => exact ⟨[], rfl⟩
  | cons q qs ih =>
    obtain ⟨n, t⟩ := q
    cases t with
    | none => exact absurd rfl (h (n, none) (by simp))
    | some ty =>
      obtain ⟨r, hr⟩ := ih (fun p hp => h p (by simp [hp]))
      exact ⟨(n, ty, len) :: r, by simp [depthTag, hr]⟩

/-! ### Non-vacuity -/
example : depthTag [("0.weight", some .weight), ("1.bias", some .bias)] 3
    = .ok [("0.weight", .weight, 3), ("1.bias", .bias, 3)] := rfl
example : moduleSpecs.length = 11 := by decide

end USProofs.C08
