/-
  C03 — exact unit scale of (bi)linear ops at initialisation.

  For each op and role, `scale² × terms = 1` for **all** shapes, where `terms`
  (`USModel/Terms.lean`) is the number of independent unit-variance products summed into an
  element of that tensor by the reference op (validated against PyTorch on all-ones tensors by
  the harness).  `second_moment` turns this into "expected mean square = 1" under the
  independence hypothesis `E(tᵢ tⱼ) = δᵢⱼ`.
-/
import USProofs.RealInst
import USProofs.Properties.C05
import Mathlib.Algebra.Algebra.Basic
import Mathlib.Algebra.BigOperators.Ring.Finset
import Mathlib.Tactic.Ring
import Mathlib.Tactic.FieldSimp
import Mathlib.Tactic.Positivity

open USModel

namespace USProofs.C03

/-- value of a rational term count -/
noncomputable def tval (p : ℕ × ℕ) : ℝ := (p.1 : ℝ) / (p.2 : ℝ)

/-- every scale is the reciprocal square root of its term count -/
def UnitScaled (s : OpScales ℝ) (t : Terms) : Prop :=
  s.fwd ^ 2 * tval t.out = 1 ∧ List.Forall₂ (fun b c => b ^ 2 * tval c = 1) s.bwd t.grads

theorem tval_one (n : ℕ) : tval (n, 1) = n := by simp [tval]

theorem unitScaled_intro1 {f a : ℝ} {tf ta : ℕ × ℕ} (h0 : f ^ 2 * tval tf = 1)
    (h1 : a ^ 2 * tval ta = 1) : UnitScaled ⟨f, [a]⟩ ⟨tf, [ta]⟩ :=
  ⟨h0, .cons h1 .nil⟩
theorem unitScaled_intro2 {f a b : ℝ} {tf ta tb : ℕ × ℕ} (h0 : f ^ 2 * tval tf = 1)
    (h1 : a ^ 2 * tval ta = 1) (h2 : b ^ 2 * tval tb = 1) : UnitScaled ⟨f, [a, b]⟩ ⟨tf, [ta, tb]⟩ :=
  ⟨h0, .cons h1 (.cons h2 .nil)⟩
theorem unitScaled_intro3 {f a b c : ℝ} {tf ta tb tc : ℕ × ℕ} (h0 : f ^ 2 * tval tf = 1)
    (h1 : a ^ 2 * tval ta = 1) (h2 : b ^ 2 * tval tb = 1) (h3 : c ^ 2 * tval tc = 1) :
    UnitScaled ⟨f, [a, b, c]⟩ ⟨tf, [ta, tb, tc]⟩ :=
  ⟨h0, .cons h1 (.cons h2 (.cons h3 .nil))⟩

theorem rpow_half_sq {x : ℝ} (hx : 0 ≤ x) : (x ^ ((1 : ℝ) / 2)) ^ 2 = x := by
  rw [← Real.sqrt_eq_rpow, Real.sq_sqrt hx]

theorem inv_rpow_half_sq_mul {x : ℝ} (hx : 0 < x) : (1 / x ^ ((1 : ℝ) / 2)) ^ 2 * x = 1 := by
  rw [div_pow, rpow_half_sq hx.le]
  field_simp

theorem powNegHalf_sq_mul {x : ℝ} (hx : 0 < x) : (powNegHalf x) ^ 2 * x = 1 := by
  rw [powNegHalf_real hx.le, div_pow, Real.sq_sqrt hx.le]
  field_simp

theorem powHalf_sq {x : ℝ} (hx : 0 ≤ x) : (powHalf x) ^ 2 = x := by
  rw [powHalf_real, Real.sq_sqrt hx]

/-! ### linear -/
theorem linear_unit_scale (fo fi : ℕ) (lead : List ℕ) (hfo : 0 < fo) (hfi : 0 < fi)
    (hl : 0 < prodNat lead) :
    ∃ s, linearScales (α := ℝ) fo fi (prodNat lead * fi) half half half none = .ok s ∧
      UnitScaled s (linearTerms fo fi lead) := by
  refine ⟨_, C05.linear_unconstrained fo fi _ _ _ _, ?_⟩
  have e : prodNat lead * fi / fi = prodNat lead := Nat.mul_div_cancel _ hfi
  have h1 : (0 : ℝ) < fi := by exact_mod_cast hfi
  have h2 : (0 : ℝ) < fo := by exact_mod_cast hfo
  have h3 : (0 : ℝ) < (prodNat lead : ℝ) := by exact_mod_cast hl
  rw [e, half_real]
  exact unitScaled_intro3 (by rw [tval_one]; exact inv_rpow_half_sq_mul h1)
    (by rw [tval_one]; exact inv_rpow_half_sq_mul h2) (by rw [tval_one]; exact inv_rpow_half_sq_mul h3)
    (by rw [tval_one]; exact inv_rpow_half_sq_mul h3)

/-- `linear_readout` deliberately uses `1/fan_in` for its output. -/
theorem readout_fan_in (fo fi numel : ℕ) :
    ∃ g w b, linearReadoutScales (α := ℝ) fo fi numel none = .ok ⟨1 / (fi : ℝ), [g, w, b]⟩ := by
  refine ⟨1 / (fo : ℝ) ^ (half : ℝ), 1 / ((numel / fi : ℕ) : ℝ) ^ (half : ℝ),
    1 / ((numel / fi : ℕ) : ℝ) ^ (half : ℝ), ?_⟩
  rw [linearReadoutScales, C05.linear_unconstrained]
  simp [Real.rpow_one]

/-! ### matmul (equal batch dims) -/
theorem matmul_unit_scale (ls inner rs : ℕ) (h1 : 0 < ls) (h2 : 0 < inner) (h3 : 0 < rs) :
    ∃ s, matmulScales (α := ℝ) ls inner rs none = .ok s ∧ UnitScaled s (matmulTerms ls inner rs) := by
  refine ⟨⟨powNegHalf (inner : ℝ), [powNegHalf (rs : ℝ), powNegHalf (ls : ℝ)]⟩, by
    simp [matmulScales, C05.apply_none], ?_⟩
  have g1 : (0 : ℝ) < (ls : ℝ) := by exact_mod_cast h1
  have g2 : (0 : ℝ) < (inner : ℝ) := by exact_mod_cast h2
  have g3 : (0 : ℝ) < (rs : ℝ) := by exact_mod_cast h3
  exact unitScaled_intro2 (by rw [tval_one]; exact powNegHalf_sq_mul g2)
    (by rw [tval_one]; exact powNegHalf_sq_mul g3) (by rw [tval_one]; exact powNegHalf_sq_mul g1)

/-! ### conv1d -/
theorem conv1d_unit_scale (fo fi k seq lead stride pad dil groups : ℕ) (hfo : 0 < fo) (hfi : 0 < fi)
    (hk : 0 < k) (hs : 0 < stride) (hg : 0 < groups)
    (hb : 0 < (convOutSize seq k stride pad dil).toNat * lead) :
    ∃ s, conv1dScales (α := ℝ) fo fi k seq lead stride pad dil groups half half half none = .ok s ∧
      UnitScaled s (conv1dTerms fo fi k (convOutSize seq k stride pad dil).toNat lead stride groups) := by
  refine ⟨_, by simp only [conv1dScales, C05.apply_none, except_bind_ok]; rfl, ?_⟩
  have h1 : (0 : ℝ) < ((fi * k : ℕ) : ℝ) := by exact_mod_cast Nat.mul_pos hfi hk
  have h2 : (0 : ℝ) < ((fo * k : ℕ) : ℝ) := by exact_mod_cast Nat.mul_pos hfo hk
  have h3 : (0 : ℝ) < ((stride * groups : ℕ) : ℝ) := by exact_mod_cast Nat.mul_pos hs hg
  have h4 : (0 : ℝ) < (((convOutSize seq k stride pad dil).toNat * lead : ℕ) : ℝ) := by exact_mod_cast hb
  simp only [nat_real, transc_pow, half_real, Nat.cast_one]
  refine unitScaled_intro3 (by rw [tval_one]; exact inv_rpow_half_sq_mul h1) ?_
    (by rw [tval_one]; exact inv_rpow_half_sq_mul h4) (by rw [tval_one]; exact inv_rpow_half_sq_mul h4)
  rw [rpow_half_sq (by positivity)]
  have e : ((k * fo : ℕ) : ℝ) = ((fo * k : ℕ) : ℝ) := by rw [Nat.mul_comm]
  simp only [tval]
  rw [e]
  field_simp

/-! ### add / residual add -/
theorem add_unit_scale (a b out : List ℕ) (hb : broadcastShapes a b = some out)
    (ha1 : prodNat a ≠ 1) (hb1 : prodNat b ≠ 1)
    (hca : 0 < prodNat out / prodNat a) (hcb : 0 < prodNat out / prodNat b) :
    ∃ s, addScales (α := ℝ) a b none = .ok s ∧ UnitScaled s (addTerms a b out) := by
  have hsc : (prodNat a == 1 || prodNat b == 1) = false := by simp [ha1, hb1]
  refine ⟨_, by simp only [addScales, hb, C05.apply_none, except_bind_ok, hsc]; rfl, ?_⟩
  have g1 : (0 : ℝ) < ((prodNat out / prodNat a : ℕ) : ℝ) := by exact_mod_cast hca
  have g2 : (0 : ℝ) < ((prodNat out / prodNat b : ℕ) : ℝ) := by exact_mod_cast hcb
  simp only [nat_real, Bool.false_eq_true, if_false]
  exact unitScaled_intro2 (by rw [tval_one]; exact powNegHalf_sq_mul (by norm_num))
    (by rw [tval_one]; exact powNegHalf_sq_mul g1) (by rw [tval_one]; exact powNegHalf_sq_mul g2)

/-- residual add: the two mixing weights have squares summing to 1 (two unit-variance terms). -/
theorem residual_unit_scale (tau : ℝ) :
    (residualWeights tau).1 ^ 2 * 1 + (residualWeights tau).2 ^ 2 * 1 = 1 := by
  have hd : (0 : ℝ) < 1 + tau * tau := by nlinarith [mul_self_nonneg tau]
  simp only [residualWeights, nat_real, Nat.cast_one, mul_one, div_pow, powHalf_sq hd.le]
  field_simp
  ring

/-! ### embedding, dropout, mse, norms -/
theorem embedding_unit_scale (vocab batch : ℕ) (hv : 0 < vocab) (hb : 0 < batch) :
    UnitScaled (embeddingScales (α := ℝ) vocab batch) (embeddingTerms vocab batch) := by
  have h1 : (0 : ℝ) < vocab := by exact_mod_cast hv
  have h2 : (0 : ℝ) < batch := by exact_mod_cast hb
  refine unitScaled_intro1 (by simp [tval]) ?_
  simp only [nat_real, tval]
  rw [powHalf_sq (by positivity)]
  field_simp

/-- dropout (training): a kept element is `x/(1−p)` with probability `1−p`, second moment
    `1/(1−p)`; scale² = `1−p`. -/
theorem dropout_unit_scale (p : ℝ) (hp : p < 1) :
    (dropoutScales p).fwd ^ 2 * (1 / (1 - p)) = 1 ∧ (dropoutScales p).bwd = [(dropoutScales p).fwd] := by
  have h : (0 : ℝ) < 1 - p := by linarith
  refine ⟨?_, rfl⟩
  simp only [dropoutScales, nat_real, Nat.cast_one]
  rw [powHalf_sq h.le]
  field_simp

/-- eval mode: `√(1−p)·x` is the expectation of the training output `√(1−p)·mask·x/(1−p)`. -/
theorem dropout_eval_is_mean (p x : ℝ) (hp : p < 1) :
    (1 - p) * (x / (1 - p)) + p * 0 = x := by
  have h : (1 - p) ≠ 0 := by linarith
  field_simp
  ring

theorem mse_unit_scale (n : ℕ) : UnitScaled (mseScales (α := ℝ) n false) mseTerms := by
  have h8 : (0 : ℝ) < ((8 : ℕ) : ℝ) := by norm_num
  simp only [mseScales, nat_real, Bool.false_eq_true, if_false]
  exact unitScaled_intro2 (by simp [tval]) (by rw [tval_one]; exact powNegHalf_sq_mul h8)
    (by rw [tval_one]; exact powNegHalf_sq_mul h8)

/-- layer_norm / rms_norm: one term per normalised row for gain and bias gradients. -/
theorem norm_unit_scale (normNumel rows : ℕ) (hn : 0 < normNumel) (hr : 0 < rows) :
    UnitScaled (normScales (α := ℝ) normNumel (rows * normNumel)) (normTerms normNumel (rows * normNumel)) := by
  have e : rows * normNumel / normNumel = rows := Nat.mul_div_cancel _ hn
  have h1 : (0 : ℝ) < normNumel := by exact_mod_cast hn
  have h2 : (0 : ℝ) < rows := by exact_mod_cast hr
  have hs : (powHalf ((normNumel : ℝ) / ((rows * normNumel : ℕ) : ℝ))) ^ 2 * tval (rows, 1) = 1 := by
    rw [powHalf_sq (by positivity), tval_one]
    push_cast
    field_simp
  simp only [normScales, normTerms, nat_real, e]
  exact unitScaled_intro3 (by simp [tval]) (by simp [tval]) hs hs

/-! ### from term counts to second moments -/

/-- **Second-moment lemma.** `E` any linear functional on a commutative ℝ-algebra ("expectation"),
    `t` terms with `E(tᵢ tⱼ) = δᵢⱼ` (independent, zero mean, unit variance): the second moment of
    `c · Σ_{i∈s} tᵢ` is `c² · |s|`.  With `c² · |s| = 1` this is "expected mean square = 1". -/
theorem second_moment {R ι : Type} [CommRing R] [Algebra ℝ R] [DecidableEq ι] (E : R →ₗ[ℝ] ℝ)
    (s : Finset ι) (t : ι → R)
    (h : ∀ i ∈ s, ∀ j ∈ s, E (t i * t j) = if i = j then 1 else 0) (c : ℝ) :
    E ((c • ∑ i ∈ s, t i) * (c • ∑ i ∈ s, t i)) = c ^ 2 * s.card := by
  rw [smul_mul_smul_comm, map_smul, Finset.sum_mul_sum, map_sum]
  have : ∑ i ∈ s, E (∑ j ∈ s, t i * t j) = s.card := by
    have h1 : ∀ i ∈ s, E (∑ j ∈ s, t i * t j) = 1 := by
      intro i hi
      rw [map_sum]
      rw [Finset.sum_congr rfl (fun j hj => h i hi j hj)]
      simp [hi]
    rw [Finset.sum_congr rfl h1]
    simp
  rw [this, smul_eq_mul]
  ring

/-- unit scale ⇒ unit second moment -/
theorem unit_second_moment {R ι : Type} [CommRing R] [Algebra ℝ R] [DecidableEq ι] (E : R →ₗ[ℝ] ℝ)
    (s : Finset ι) (t : ι → R)
    (h : ∀ i ∈ s, ∀ j ∈ s, E (t i * t j) = if i = j then 1 else 0) (c : ℝ)
    (hc : c ^ 2 * s.card = 1) :
    E ((c • ∑ i ∈ s, t i) * (c • ∑ i ∈ s, t i)) = 1 := by
  rw [second_moment E s t h c, hc]

/-! ### Non-vacuity -/
example : ∃ s, linearScales (α := ℝ) 7 3 (prodNat [5, 2] * 3) half half half none = .ok s ∧
    UnitScaled s (linearTerms 7 3 [5, 2]) := linear_unit_scale 7 3 [5, 2] (by decide) (by decide) (by decide)

end USProofs.C03
