/-
  C20 — a whole unit-scaled function under plain fx tracing: `scale_fwd(F(scale_bwd(x, b)), f)` is recorded as
  `f * F(1 * x)`; autograd of that graph gives the forward values of the eager function but sends the forward factor
  `f` backwards into `F` and loses the backward-only factor `b` entirely.
-/
import USModel

open USModel

namespace USProofs.C20

variable {A Y : Type} [SMul Float A] [SMul Float Y]

/-- what plain `torch.fx.symbolic_trace` records for a unit-scaled function of one tensor -/
def fxScaled1 (f : Float) (F : DOp A Y) : DOp A Y :=
  (fxTracedScale f).comp (F.comp (fxTracedScale 1.0))

/-- forward values agree with eager (multiplication by 1.0 is the identity on tensors) -/
theorem fx_composite_forward (f b : Float) (F : DOp A Y) (x : A) (h1 : ∀ v : A, (1.0 : Float) • v = v) :
    (fxScaled1 f F).fwd x = (scaled1 f b F).fwd x := by
  show f • F.fwd ((1.0 : Float) • x) = f • F.fwd x
  rw [h1]

/-- backward: the fx graph differentiates `f * F(x)` — the cotangent entering `F` is multiplied by the forward scale,
    and the input cotangent is not multiplied by `b` at all; eager multiplies the input cotangent by `b` and leaves the
    cotangent entering `F` alone -/
theorem fx_composite_backward (f b : Float) (F : DOp A Y) (x : A) (g : Y) (h1 : ∀ v : A, (1.0 : Float) • v = v) :
    (fxScaled1 f F).vjp x g = F.vjp x (f • g) ∧ (scaled1 f b F).vjp x g = b • F.vjp x g := by
  constructor
  · show (1.0 : Float) • F.vjp ((1.0 : Float) • x) (f • g) = F.vjp x (f • g)
    rw [h1, h1]
  · rfl

end USProofs.C20
