/-
  C13 — capstone: `FPFormat.quantise` with nearest rounding, end to end on *values*, for every format
  with bias `2^(E-1) ≤ 127` (E ≤ 7), every mantissa width and every input in the format's normal range.

  For a magnitude pattern `n` with `n ≤ absmaxBits E M` whose down-scaled image is a normal float32
  (`expo n > d`, `d = 127 − 2^(E-1)`; these are exactly the inputs at or above the format's smallest normal
  number):
    * `quantMag_normal_eq`   — the four stages collapse to  roundCore on `n − d·2^23`, shifted back;
    * `quantise_value_error` — `|val(result) − val(n)| ≤ ½ · spacing` of the format at the input's binade;
    * `quantise_format_value`— the result's value is a value of the format (`fmtVal E M e' m'`);
    * `round_nearest_of_grid` — no multiple of the grid spacing, in any binade, is closer to the (down-scaled)
      input than the rounded pattern.
-/
import USModel
import USProofs.Properties.C13Value

open USModel USModel.F32

namespace USProofs.C13

theorem expo_lt_of (n e : ℕ) (h : n < (e + 1) * 2 ^ 23) : expo n ≤ e := by
  unfold expo
  have : n / 2 ^ 23 < e + 1 := Nat.div_lt_of_lt_mul (by rw [Nat.mul_comm]; exact h)
  omega

theorem expo_ge_of (n e : ℕ) (h : e * 2 ^ 23 ≤ n) : e ≤ expo n := by
  unfold expo
  exact (Nat.le_div_iff_mul_le (by positivity)).mpr h

theorem expo_bounds (n : ℕ) : expo n * 2 ^ 23 ≤ n ∧ n < (expo n + 1) * 2 ^ 23 := by
  unfold expo
  constructor
  · exact Nat.div_mul_le_self _ _
  · have := Nat.lt_mul_div_succ n (show 0 < 2 ^ 23 by positivity)
    rwa [Nat.mul_comm] at this

theorem expo_sub (n d : ℕ) : expo (n - d * 2 ^ 23) = expo n - d := by
  unfold expo; rw [Nat.mul_comm d]; exact Nat.sub_mul_div n (2 ^ 23) d

theorem mant_sub (n d : ℕ) (h : d * 2 ^ 23 ≤ n) : mant (n - d * 2 ^ 23) = mant n := by
  unfold mant; rw [Nat.mul_comm d]; exact Nat.sub_mul_mod (by rw [Nat.mul_comm]; exact h)

theorem expo_add (r d : ℕ) : expo (r + d * 2 ^ 23) = expo r + d := by
  unfold expo; exact Nat.add_mul_div_right r d (by positivity)

theorem mant_add (r d : ℕ) : mant (r + d * 2 ^ 23) = mant r := by
  unfold mant; exact Nat.add_mul_mod_self_right r d (2 ^ 23)

/-- value of a pattern in terms of its exponent and mantissa fields (normal patterns) -/
theorem val_of_fields (n : ℕ) (h : 1 ≤ expo n) :
    val n = ((2 ^ 23 + mant n : ℕ) : ℚ) * (2 : ℚ) ^ ((expo n : ℤ) - 150) := by
  have hn : ¬ n < 2 ^ 23 := by
    intro hc
    have : expo n = 0 := by unfold expo; exact Nat.div_eq_of_lt hc
    omega
  simp only [val, hn, if_false, expo, mant]

/-- down-scaling a normal pattern by `2^d` (staying normal) divides its value by `2^d` -/
theorem val_sub_exponent (n d : ℕ) (h : d < expo n) :
    val (n - d * 2 ^ 23) = val n * (2 : ℚ) ^ (-(d : ℤ)) := by
  obtain ⟨hlo, _⟩ := expo_bounds n
  have hdn : d * 2 ^ 23 ≤ n := le_trans (Nat.mul_le_mul_right _ (by omega)) hlo
  have he := expo_sub n d
  have hm := mant_sub n d hdn
  rw [val_of_fields _ (by rw [he]; omega), val_of_fields n (by omega), he, hm, mul_assoc, ← zpow_add₀ (by norm_num : (2 : ℚ) ≠ 0)]
  congr 2
  have : ((expo n - d : ℕ) : ℤ) = (expo n : ℤ) - d := by omega
  rw [this]; ring

/-- up-scaling a normal pattern by `2^d` (no overflow) multiplies its value by `2^d` -/
theorem val_mulPow2 (r d : ℕ) (h1 : 1 ≤ expo r) (h2 : expo r + d < 255) :
    val (mulPow2 r d) = val r * (2 : ℚ) ^ (d : ℤ) := by
  rw [mulPow2_normal d r h1 h2]
  have he := expo_add r d
  have hm := mant_add r d
  rw [val_of_fields _ (by rw [he]; omega), val_of_fields r h1, he, hm, mul_assoc, ← zpow_add₀ (by norm_num : (2 : ℚ) ≠ 0)]
  congr 2
  push_cast; ring

/-- **Closed form** of nearest-rounding quantisation on in-range normal inputs. -/
theorem quantMag_normal_eq (E M off n : ℕ) (hB : 2 ^ (E - 1) ≤ 127)
    (hmax : n ≤ absmaxBits E M) (hnorm : 127 - 2 ^ (E - 1) < expo n) :
    quantMag E M off n = mulPow2 (roundCore (23 - M) off (n - (127 - 2 ^ (E - 1)) * 2 ^ 23)) (127 - 2 ^ (E - 1)) := by
  simp only [quantMag, hB, if_true, Nat.min_eq_left hmax, divPow2]
  rw [if_pos hnorm]

theorem expo_absmax (E M : ℕ) (hM : M ≤ 23) : expo (absmaxBits E M) = 2 ^ (E - 1) - 1 + 127 := by
  have hlt : (2 ^ M - 1) * 2 ^ (23 - M) < 2 ^ 23 := by
    have hs : 2 ^ M * 2 ^ (23 - M) = 2 ^ 23 := by rw [← pow_add]; congr 1; omega
    have hP : 0 < 2 ^ M := by positivity
    have hK : 0 < 2 ^ (23 - M) := by positivity
    calc (2 ^ M - 1) * 2 ^ (23 - M) < 2 ^ M * 2 ^ (23 - M) := Nat.mul_lt_mul_of_pos_right (by omega) hK
      _ = 2 ^ 23 := hs
  unfold absmaxBits expo
  rw [Nat.add_comm, Nat.add_mul_div_right _ _ (by positivity), Nat.div_eq_of_lt hlt, Nat.zero_add]

theorem offNearest_lt (M : ℕ) : offNearest M < 2 ^ (23 - M) := by
  unfold offNearest
  have := pow_pos' (23 - M)
  omega

theorem bne_add_right (A B D : ℕ) : ((A + D) != (B + D)) = (A != B) := by
  rw [Bool.eq_iff_iff, bne_iff_ne, bne_iff_ne]
  exact ⟨fun h e => h (by rw [e]), fun h e => h (Nat.add_right_cancel e)⟩

section capstone
variable (E M n : ℕ) (hE : 1 ≤ E) (hB : 2 ^ (E - 1) ≤ 127) (hM : M ≤ 23)
  (hmax : n ≤ absmaxBits E M) (hnorm : 127 - 2 ^ (E - 1) < expo n)

include hE hB hM hmax hnorm

/-- facts shared by the capstone theorems: the down-scaled pattern `q`, its binade `e'`, and the rounded
    pattern `r`, which stays in `[e'·2^23, (e'+1)·2^23]` -/
theorem capstone_setup_off (off : ℕ) (hoff : off < 2 ^ (23 - M)) (d q e' r : ℕ) (hd : d = 127 - 2 ^ (E - 1))
    (hq : q = n - d * 2 ^ 23) (he' : e' = expo n - d) (hr : r = roundCore (23 - M) off q) :
    1 ≤ e' ∧ e' * 2 ^ 23 ≤ q ∧ q < (e' + 1) * 2 ^ 23 ∧ e' * 2 ^ 23 ≤ r ∧ r ≤ (e' + 1) * 2 ^ 23 ∧
      expo n ≤ 2 ^ (E - 1) - 1 + 127 ∧ 2 ^ (23 - M) ∣ r := by
  have hnorm' : d < expo n := hd ▸ hnorm
  obtain ⟨hlo, hhi⟩ := expo_bounds n
  have hexp : expo n ≤ 2 ^ (E - 1) - 1 + 127 := by
    rw [← expo_absmax E M hM]
    unfold expo; exact Nat.div_le_div_right hmax
  have he1 : 1 ≤ e' := by omega
  have hq1 : e' * 2 ^ 23 ≤ q := by
    rw [he', hq, Nat.sub_mul]; exact Nat.sub_le_sub_right hlo _
  have hq2 : q < (e' + 1) * 2 ^ 23 := by
    have h1 : e' + 1 = expo n + 1 - d := by omega
    have hdn : d * 2 ^ 23 ≤ expo n * 2 ^ 23 := Nat.mul_le_mul_right _ (by omega)
    rw [h1, hq, Nat.sub_mul]
    exact Nat.sub_lt_sub_right (le_trans hdn hlo) hhi
  have hk : 23 - M ≤ 23 := by omega
  obtain ⟨hlo', hhi'⟩ := enclosing_in_binade (23 - M) e' q hk hq1 hq2
  refine ⟨he1, hq1, hq2, ?_, ?_, hexp, hr ▸ round_core_multiple _ _ _⟩
  · rcases round_core_neighbour (23 - M) _ q hoff with h | h
    · rw [hr, h]; exact hlo'
    · rw [hr, h]
      exact le_trans hlo' (Nat.mul_le_mul_right _ (by omega))
  · rcases round_core_neighbour (23 - M) _ q hoff with h | h
    · rw [hr, h]
      exact le_trans (Nat.div_mul_le_self _ _) (le_of_lt hq2)
    · rw [hr, h]; exact hhi'

theorem capstone_setup (d q e' r : ℕ) (hd : d = 127 - 2 ^ (E - 1)) (hq : q = n - d * 2 ^ 23) (he' : e' = expo n - d)
    (hr : r = roundCore (23 - M) (offNearest M) q) :
    1 ≤ e' ∧ e' * 2 ^ 23 ≤ q ∧ q < (e' + 1) * 2 ^ 23 ∧ e' * 2 ^ 23 ≤ r ∧ r ≤ (e' + 1) * 2 ^ 23 ∧
      expo n ≤ 2 ^ (E - 1) - 1 + 127 ∧ 2 ^ (23 - M) ∣ r :=
  capstone_setup_off E M n hE hB hM hmax hnorm (offNearest M) (offNearest_lt M) d q e' r hd hq he' hr

/-- **Error bound on values**: the quantised value is within half a format spacing of the input, the
    spacing of the format at the input's binade being `2^(23−M) · 2^(expo n − 150)`. -/
theorem quantise_value_error :
    |val (quantMag E M (offNearest M) n) - val n|
      ≤ ((2 ^ (23 - M) / 2 : ℕ) : ℚ) * (2 : ℚ) ^ ((expo n : ℤ) - 150) := by
  rw [quantMag_normal_eq E M _ n hB hmax hnorm]
  obtain ⟨he1, hq1, hq2, hr1, hr2, hexp, _⟩ := capstone_setup E M n hE hB hM hmax hnorm _ _ _ _ rfl rfl rfl rfl
  set d := 127 - 2 ^ (E - 1) with hd
  set q := n - d * 2 ^ 23 with hq
  set e' := expo n - d with he'
  set r := roundCore (23 - M) (offNearest M) q with hr
  have hexpr1 : 1 ≤ expo r := le_trans he1 (expo_ge_of r e' hr1)
  have hexpr2 : expo r + d < 255 := by
    have : expo r ≤ e' + 1 := by
      rcases Nat.lt_or_ge r ((e' + 1) * 2 ^ 23) with h | h
      · exact le_trans (expo_lt_of r e' h) (by omega)
      · have : r = (e' + 1) * 2 ^ 23 := le_antisymm hr2 h
        rw [this]; unfold expo; simp
    have hpos : 0 < 2 ^ (E - 1) := by positivity
    omega
  rw [val_mulPow2 r d hexpr1 hexpr2]
  have hvq : val q = val n * (2 : ℚ) ^ (-(d : ℤ)) := val_sub_exponent n d hnorm
  have hvn : val n = val q * (2 : ℚ) ^ (d : ℤ) := by
    rw [hvq, mul_assoc, ← zpow_add₀ (by norm_num : (2 : ℚ) ≠ 0)]; simp
  have hk : 23 - M ≤ 23 := by omega
  have hM' : 23 - (23 - M) = M := by omega
  have hbound := round_nearest_value (23 - M) e' q hk he1 hq1 hq2
  rw [hM'] at hbound
  rw [hvn, ← sub_mul, abs_mul, abs_of_pos (by positivity : (0 : ℚ) < (2 : ℚ) ^ (d : ℤ))]
  calc |val r - val q| * (2 : ℚ) ^ (d : ℤ)
      ≤ (((2 ^ (23 - M) / 2 : ℕ) : ℚ) * (2 : ℚ) ^ ((e' : ℤ) - 150)) * (2 : ℚ) ^ (d : ℤ) :=
        mul_le_mul_of_nonneg_right hbound (by positivity)
    _ = ((2 ^ (23 - M) / 2 : ℕ) : ℚ) * (2 : ℚ) ^ ((expo n : ℤ) - 150) := by
        rw [mul_assoc, ← zpow_add₀ (by norm_num : (2 : ℚ) ≠ 0)]
        congr 2
        have : ((e' : ℕ) : ℤ) = (expo n : ℤ) - d := by omega
        rw [this]; ring

/-- **The result is a value of the format** (possibly the first value of the next binade, when the
    mantissa rounds up to 2): there are format fields `e'' ≥ 1`, `m' < 2^M` with that exact value. -/
theorem quantise_format_value :
    ∃ e'' m', 1 ≤ e'' ∧ m' < 2 ^ M ∧ val (quantMag E M (offNearest M) n) = fmtVal E M e'' m' := by
  rw [quantMag_normal_eq E M _ n hB hmax hnorm]
  obtain ⟨he1, hq1, hq2, hr1, hr2, hexp, hdvd⟩ := capstone_setup E M n hE hB hM hmax hnorm _ _ _ _ rfl rfl rfl rfl
  set d := 127 - 2 ^ (E - 1) with hd
  set q := n - d * 2 ^ 23 with hq
  set e' := expo n - d with he'
  set r := roundCore (23 - M) (offNearest M) q with hr
  clear_value r e' q d
  have hpos : 0 < 2 ^ (E - 1) := by positivity
  have hsplit : 2 ^ 23 = 2 ^ M * 2 ^ (23 - M) := by rw [← pow_add]; congr 1; omega
  rcases Nat.lt_or_ge r ((e' + 1) * 2 ^ 23) with hlt | hge
  · -- same binade: r = e'·2^23 + m'·2^(23−M)
    obtain ⟨c, hc⟩ := hdvd
    have hce : e' * 2 ^ M ≤ c := by
      have : e' * 2 ^ M * 2 ^ (23 - M) ≤ 2 ^ (23 - M) * c := by rw [← hc, mul_assoc, ← hsplit]; exact hr1
      have h2 : 0 < 2 ^ (23 - M) := by positivity
      nlinarith
    refine ⟨e', c - e' * 2 ^ M, he1, ?_, ?_⟩
    · have : 2 ^ (23 - M) * c < (e' + 1) * 2 ^ M * 2 ^ (23 - M) := by rw [← hc, mul_assoc, ← hsplit]; exact hlt
      have h2 : 0 < 2 ^ (23 - M) := by positivity
      have : c < (e' + 1) * 2 ^ M := by nlinarith
      have h3 : (e' + 1) * 2 ^ M = e' * 2 ^ M + 2 ^ M := by ring
      omega
    · have hreq : r = e' * 2 ^ 23 + (c - e' * 2 ^ M) * 2 ^ (23 - M) := by
        have hle : e' * 2 ^ M * 2 ^ (23 - M) ≤ c * 2 ^ (23 - M) := Nat.mul_le_mul_right _ hce
        calc r = c * 2 ^ (23 - M) := by rw [hc, Nat.mul_comm]
          _ = e' * 2 ^ M * 2 ^ (23 - M) + (c * 2 ^ (23 - M) - e' * 2 ^ M * 2 ^ (23 - M)) := (Nat.add_sub_of_le hle).symm
          _ = e' * 2 ^ 23 + (c - e' * 2 ^ M) * 2 ^ (23 - M) := by
              rw [Nat.sub_mul c, hsplit, ← Nat.mul_assoc]
      rw [hreq, hd]
      exact quant_value_is_format_value E M e' (c - e' * 2 ^ M) hE hB hM he1
        (by
          have : 2 ^ (23 - M) * c < (e' + 1) * 2 ^ M * 2 ^ (23 - M) := by rw [← hc, mul_assoc, ← hsplit]; exact hlt
          have h2 : 0 < 2 ^ (23 - M) := by positivity
          have : c < (e' + 1) * 2 ^ M := by nlinarith
          have h3 : (e' + 1) * 2 ^ M = e' * 2 ^ M + 2 ^ M := by ring
          omega)
        (by omega)
  · -- carry into the next binade: r = (e'+1)·2^23
    have hreq : r = (e' + 1) * 2 ^ 23 + 0 * 2 ^ (23 - M) := by
      rw [Nat.zero_mul, Nat.add_zero]; exact le_antisymm hr2 hge
    refine ⟨e' + 1, 0, by omega, by positivity, ?_⟩
    rw [hreq, hd]
    exact quant_value_is_format_value E M (e' + 1) 0 hE hB hM (by omega) (by positivity) (by omega)

/-- up-scaling back is injective on the candidates: two rounded patterns give the same result iff they are equal -/
theorem quantMag_ne_iff (off1 off2 : ℕ) (h1 : off1 < 2 ^ (23 - M)) (h2 : off2 < 2 ^ (23 - M)) :
    (quantMag E M off1 n != quantMag E M off2 n) =
      (roundCore (23 - M) off1 (n - (127 - 2 ^ (E - 1)) * 2 ^ 23) != roundCore (23 - M) off2 (n - (127 - 2 ^ (E - 1)) * 2 ^ 23)) := by
  rw [quantMag_normal_eq E M off1 n hB hmax hnorm, quantMag_normal_eq E M off2 n hB hmax hnorm]
  obtain ⟨he1, _, _, ha1, ha2, hexp, _⟩ := capstone_setup_off E M n hE hB hM hmax hnorm off1 h1 _ _ _ _ rfl rfl rfl rfl
  obtain ⟨_, _, _, hb1, hb2, _, _⟩ := capstone_setup_off E M n hE hB hM hmax hnorm off2 h2 _ _ _ _ rfl rfl rfl rfl
  have hpos : 0 < 2 ^ (E - 1) := by positivity
  have key : ∀ r, (expo n - (127 - 2 ^ (E - 1))) * 2 ^ 23 ≤ r → r ≤ (expo n - (127 - 2 ^ (E - 1)) + 1) * 2 ^ 23 →
      mulPow2 r (127 - 2 ^ (E - 1)) = r + (127 - 2 ^ (E - 1)) * 2 ^ 23 := by
    intro r hr1 hr2
    apply mulPow2_normal
    · exact le_trans he1 (expo_ge_of r _ hr1)
    · have : expo r ≤ expo n - (127 - 2 ^ (E - 1)) + 1 := by
        rcases Nat.lt_or_ge r ((expo n - (127 - 2 ^ (E - 1)) + 1) * 2 ^ 23) with h | h
        · exact le_trans (expo_lt_of r _ h) (by omega)
        · have : r = (expo n - (127 - 2 ^ (E - 1)) + 1) * 2 ^ 23 := le_antisymm hr2 h
          rw [this]; unfold expo; simp
      omega
  rw [key _ ha1 ha2, key _ hb1 hb2]
  exact bne_add_right _ _ _

/-- **C14, end to end**: for an in-range normal input the number of random draws for which
    `FPFormat.quantise` rounds away from zero is the count of the integer core on the down-shifted
    pattern — to which `sr_count`, `sr_prob_exact`, `sr_prob_half_ulp` and `sr_prob_exact_value` apply. -/
theorem countUp_eq_core (srbits : ℕ) (hs : srbits ≤ 23 - M) :
    countUp E M srbits n = countUpCore (23 - M) (23 - M - srbits) (n - (127 - 2 ^ (E - 1)) * 2 ^ 23) := by
  unfold countUp countUpCore
  have hk : 23 - M - (23 - M - srbits) = srbits := by omega
  rw [hk]
  apply List.countP_congr
  intro r hr
  have hr' : r < 2 ^ srbits := List.mem_range.mp hr
  have h0 : (0 : ℕ) < 2 ^ (23 - M) := by positivity
  have hoff := USProofs.C14.offSR_lt M srbits r hs hr'
  unfold roundsUp roundsUpCore
  rw [quantMag_ne_iff E M n hE hB hM hmax hnorm (offSR M srbits r) 0 hoff h0, USProofs.C14.offSR_eq]

end capstone


/-! ### nearest among *all* grid patterns -/

/-- the value of a float32 magnitude pattern is monotone in the pattern -/
theorem val_mono {a b : ℕ} (h : a ≤ b) : val a ≤ val b := by
  have h2 : (0 : ℚ) < 2 := by norm_num
  by_cases hb : b < 2 ^ 23
  · have ha : a < 2 ^ 23 := lt_of_le_of_lt h hb
    simp only [val, ha, hb, if_true]
    exact mul_le_mul_of_nonneg_right (by exact_mod_cast h) (by positivity)
  · have hb1 : 1 ≤ expo b := by
      unfold expo; exact (Nat.le_div_iff_mul_le (by positivity)).mpr (by omega)
    by_cases ha : a < 2 ^ 23
    · -- subnormal below normal: val a < 2^-126 ≤ val b
      rw [val_of_fields b hb1]
      simp only [val, ha, if_true]
      calc (a : ℚ) * (2 : ℚ) ^ (-149 : ℤ) ≤ (2 ^ 23 : ℕ) * (2 : ℚ) ^ (-149 : ℤ) :=
            mul_le_mul_of_nonneg_right (by exact_mod_cast le_of_lt ha) (by positivity)
        _ = (2 ^ 23 : ℕ) * (2 : ℚ) ^ ((1 : ℤ) - 150) := by norm_num
        _ ≤ ((2 ^ 23 + mant b : ℕ) : ℚ) * (2 : ℚ) ^ ((expo b : ℤ) - 150) := by
            apply mul_le_mul (by exact_mod_cast Nat.le_add_right _ _) _ (by positivity) (by positivity)
            exact zpow_le_zpow_right₀ (by norm_num) (by omega)
    · have ha1 : 1 ≤ expo a := by
        unfold expo; exact (Nat.le_div_iff_mul_le (by positivity)).mpr (by omega)
      rw [val_of_fields a ha1, val_of_fields b hb1]
      have hexp : expo a ≤ expo b := by unfold expo; exact Nat.div_le_div_right h
      rcases Nat.lt_or_ge (expo a) (expo b) with hlt | hge
      · -- lower binade: (2^23 + m_a) < 2^24 = 2·2^23
        have hm : mant a < 2 ^ 23 := Nat.mod_lt _ (by positivity)
        calc ((2 ^ 23 + mant a : ℕ) : ℚ) * (2 : ℚ) ^ ((expo a : ℤ) - 150)
            ≤ ((2 ^ 23 : ℕ) : ℚ) * 2 * (2 : ℚ) ^ ((expo a : ℤ) - 150) := by
              apply mul_le_mul_of_nonneg_right _ (by positivity)
              have : 2 ^ 23 + mant a ≤ 2 ^ 23 * 2 := by omega
              exact_mod_cast this
          _ = ((2 ^ 23 : ℕ) : ℚ) * (2 : ℚ) ^ ((expo a : ℤ) - 150 + 1) := by
              rw [zpow_add₀ (by norm_num : (2 : ℚ) ≠ 0), zpow_one]; ring
          _ ≤ ((2 ^ 23 + mant b : ℕ) : ℚ) * (2 : ℚ) ^ ((expo b : ℤ) - 150) := by
              apply mul_le_mul (by exact_mod_cast Nat.le_add_right _ _) _ (by positivity) (by positivity)
              exact zpow_le_zpow_right₀ (by norm_num) (by omega)
      · have he : expo a = expo b := le_antisymm hexp hge
        rw [he]
        apply mul_le_mul_of_nonneg_right _ (by positivity)
        have hm : mant a ≤ mant b := by
          have ea := Nat.div_add_mod a (2 ^ 23)
          have eb := Nat.div_add_mod b (2 ^ 23)
          unfold expo at he; unfold mant
          rw [he] at ea
          omega
        exact_mod_cast Nat.add_le_add_left hm _

/-- **Nearest of the whole grid** (on the down-scaled patterns, where the format's values are exactly the
    multiples of `2^k`, `k = 23 − M`): for a normal pattern `q` of binade `e`, no multiple `c` of `2^k`
    — in any binade — has a value closer to `val q` than the nearest-rounded result. -/
theorem round_nearest_of_grid (k e q c : ℕ) (hk : k ≤ 23) (he : 1 ≤ e)
    (hlo : e * 2 ^ 23 ≤ q) (hhi : q < (e + 1) * 2 ^ 23) (hc : 2 ^ k ∣ c) :
    |val (roundCore k (offNearest (23 - k)) q) - val q| ≤ |val c - val q| := by
  have hP := pow_pos' k
  have hM : 23 - (23 - k) = k := by omega
  have hoff : offNearest (23 - k) < 2 ^ k := by
    simp only [offNearest, hM]; omega
  obtain ⟨hlo', hhi'⟩ := enclosing_in_binade k e q hk hlo hhi
  obtain ⟨hn1, hn2⟩ := round_core_nearest k q hk
  set r := roundCore k (offNearest (23 - k)) q with hr
  set lower := q / 2 ^ k * 2 ^ k with hlower
  have hlq : lower ≤ q := Nat.div_mul_le_self _ _
  have hqu : q < lower + 2 ^ k := by
    have := Nat.lt_mul_div_succ q hP
    rw [Nat.mul_comm, Nat.add_mul, Nat.one_mul] at this
    exact this
  have hup : (q / 2 ^ k + 1) * 2 ^ k = lower + 2 ^ k := by rw [Nat.add_mul, Nat.one_mul]
  rw [hup] at hhi'
  -- write everything as e·2^23 + offset
  have h23 : (e + 1) * 2 ^ 23 = e * 2 ^ 23 + 2 ^ 23 := by ring
  obtain ⟨a, rfl⟩ : ∃ a, q = e * 2 ^ 23 + a := ⟨q - e * 2 ^ 23, by omega⟩
  obtain ⟨l, hl⟩ : ∃ l, lower = e * 2 ^ 23 + l := ⟨lower - e * 2 ^ 23, by omega⟩
  have ha : a ≤ 2 ^ 23 := by omega
  have hl' : l ≤ 2 ^ 23 := by omega
  have hu' : l + 2 ^ k ≤ 2 ^ 23 := by omega
  have u_pos : (0 : ℚ) < (2 : ℚ) ^ ((e : ℤ) - 150) := by positivity
  -- value distances to the two enclosing grid points
  have dlow : val (e * 2 ^ 23 + a) - val lower = ((a : ℚ) - l) * (2 : ℚ) ^ ((e : ℤ) - 150) := by
    rw [hl]; exact val_sub_in_binade e l a he hl' ha
  have dup : val (lower + 2 ^ k) - val (e * 2 ^ 23 + a) = (((l + 2 ^ k : ℕ) : ℚ) - a) * (2 : ℚ) ^ ((e : ℤ) - 150) := by
    rw [hl, Nat.add_assoc]; exact val_sub_in_binade e a (l + 2 ^ k) he ha hu'
  have hla : l ≤ a := by omega
  have hau : a < l + 2 ^ k := by omega
  -- r is lower or upper, and the nearer one
  have hr_cases := round_core_neighbour k (offNearest (23 - k)) (e * 2 ^ 23 + a) hoff
  have hbound : |val r - val (e * 2 ^ 23 + a)| ≤ min (val (e * 2 ^ 23 + a) - val lower) (val (lower + 2 ^ k) - val (e * 2 ^ 23 + a)) := by
    rw [dlow, dup]
    rcases hr_cases with h | h
    · -- r = lower: a − l ≤ 2^k/2 ≤ l + 2^k − a
      have hrl : r = lower := h
      rw [hrl, abs_sub_comm, dlow, abs_of_nonneg (mul_nonneg (sub_nonneg.mpr (by exact_mod_cast hla)) u_pos.le)]
      apply le_min le_rfl
      apply mul_le_mul_of_nonneg_right _ u_pos.le
      have h1 : a ≤ l + 2 ^ k / 2 := by
        have := hn2; rw [hrl, hl] at this; omega
      have h2 : 2 * (2 ^ k / 2) ≤ 2 ^ k := Nat.mul_div_le _ _
      have : (a : ℚ) - l ≤ ((l + 2 ^ k : ℕ) : ℚ) - a := by
        have : 2 * a ≤ 2 * l + 2 ^ k := by omega
        have : (2 : ℚ) * a ≤ 2 * l + ((2 ^ k : ℕ) : ℚ) := by exact_mod_cast this
        push_cast at this ⊢; linarith
      exact this
    · have hru : r = lower + 2 ^ k := by rw [← hup]; exact h
      rw [hru, dup, abs_of_nonneg (mul_nonneg (by
        have : (a : ℚ) ≤ ((l + 2 ^ k : ℕ) : ℚ) := by exact_mod_cast le_of_lt hau
        linarith) u_pos.le)]
      apply le_min _ le_rfl
      apply mul_le_mul_of_nonneg_right _ u_pos.le
      have h1 : l + 2 ^ k ≤ a + 2 ^ k / 2 := by
        have := hn1; rw [hru, hl] at this; omega
      have h2 : 2 * (2 ^ k / 2) ≤ 2 ^ k := Nat.mul_div_le _ _
      have : 2 * l + 2 ^ k ≤ 2 * a := by omega
      have : (2 : ℚ) * l + ((2 ^ k : ℕ) : ℚ) ≤ 2 * a := by exact_mod_cast this
      push_cast at this ⊢; linarith
  -- any other grid point is at or beyond one of the two
  obtain ⟨m, rfl⟩ := hc
  have hmono_l := val_mono hlq
  have hmono_u := val_mono (le_of_lt hqu)
  rcases Nat.lt_or_ge m ((e * 2 ^ 23 + a) / 2 ^ k + 1) with hm | hm
  · -- c ≤ lower
    have hcl : 2 ^ k * m ≤ lower := by
      rw [hlower, Nat.mul_comm]; exact Nat.mul_le_mul_right _ (by omega)
    have h1 := val_mono hcl
    clear_value r lower
    generalize val (2 ^ k * m) = vc at *
    generalize val (e * 2 ^ 23 + a) = vq at *
    generalize val lower = vl at *
    generalize val (lower + 2 ^ k) = vu at *
    generalize val r = vr at *
    have hb1 : |vr - vq| ≤ vq - vl := le_trans hbound (min_le_left _ _)
    rw [abs_sub_comm vc, abs_of_nonneg (show 0 ≤ vq - vc by linarith)]
    linarith
  · have hcu : lower + 2 ^ k ≤ 2 ^ k * m := by
      rw [← hup, Nat.mul_comm (2 ^ k) m]; exact Nat.mul_le_mul_right _ hm
    have h1 := val_mono hcu
    clear_value r lower
    generalize val (2 ^ k * m) = vc at *
    generalize val (e * 2 ^ 23 + a) = vq at *
    generalize val lower = vl at *
    generalize val (lower + 2 ^ k) = vu at *
    generalize val r = vr at *
    have hb1 : |vr - vq| ≤ vu - vq := le_trans hbound (min_le_right _ _)
    rw [abs_of_nonneg (show 0 ≤ vc - vq by linarith)]
    linarith

/-! ### non-vacuity: E4M3, the input 1.1 (0x3F8CCCCD) is in range and normal after down-scaling -/
example : (0x3F8CCCCD : ℕ) ≤ absmaxBits 4 3 ∧ 127 - 2 ^ (4 - 1) < expo 0x3F8CCCCD := by decide
/-- … and is quantised to 1.125 = 0x3F900000 -/
example : quantMag 4 3 (offNearest 3) 0x3F8CCCCD = 0x3F900000 := by decide

end USProofs.C13
