/-
  C12 — width-independent updates: one Adam step moves every output by exactly lr.

  The theorem *connects* three models: the forward scale of the layer (`linearScales`,
  `conv1dScales`), the tag → learning-rate rule (`lrScaleAdam`) and the first Adam step
  (`adamFirstStep`).  Changing any one of them alone breaks the identity
  `fwdScale · lrScale · fan_in = depthFactor`.
-/
import USProofs.RealInst
import USProofs.Properties.C10
import USProofs.Properties.C05
import Mathlib.Algebra.BigOperators.Fin
import Mathlib.Tactic.FieldSimp
import Mathlib.Tactic.Ring

open USModel

namespace USProofs.C12

/-- With `eps = 0` the first Adam step is `−lr · sign(g)`. -/
theorem adam_first_step_sign (lr g : ℝ) (hg : g ≠ 0) :
    adamFirstStep lr 0 g = -(lr * (g / |g|)) := by
  simp [adamFirstStep, Real.sqrt_mul_self_eq_abs]

theorem pm_one_mul_div_abs {x : ℝ} (hx : x = 1 ∨ x = -1) : x * (x / |x|) = 1 := by
  rcases hx with rfl | rfl <;> norm_num

/-- **Core identity.** A layer computing `out = sf · Σᵢ xᵢ wᵢ` on a ±1 input, whose weight
    gradient is `sw · g · xᵢ` (any `sw > 0`), after one Adam step with learning rate `lr` (eps 0):
    the output moves by `−sf · lr · n · sign(g)`. -/
theorem output_move (n : ℕ) (x : Fin n → ℝ) (hx : ∀ i, x i = 1 ∨ x i = -1) (g : ℝ) (hg : g ≠ 0)
    (sf sw lr : ℝ) (hsw : 0 < sw) :
    sf * ∑ i, x i * adamFirstStep lr 0 (sw * (g * x i)) = -(sf * lr * n) * (g / |g|) := by
  have hx0 : ∀ i, x i ≠ 0 := fun i => by rcases hx i with h | h <;> rw [h] <;> norm_num
  have hterm : ∀ i, x i * adamFirstStep lr 0 (sw * (g * x i)) = -(lr * (g / |g|)) := by
    intro i
    have hne : sw * (g * x i) ≠ 0 := mul_ne_zero hsw.ne' (mul_ne_zero hg (hx0 i))
    rw [adam_first_step_sign _ _ hne, abs_mul, abs_mul, abs_of_pos hsw]
    have h1 := pm_one_mul_div_abs (hx i)
    have habs : |x i| ≠ 0 := abs_ne_zero.mpr (hx0 i)
    have hgabs : |g| ≠ 0 := abs_ne_zero.mpr hg
    have : x i * (sw * (g * x i) / (sw * (abs g * abs (x i)))) = (g / abs g) * (x i * (x i / abs (x i))) := by
      field_simp
    rw [mul_neg, mul_left_comm, this, h1, mul_one]
  rw [Finset.sum_congr rfl (fun i _ => hterm i)]
  simp only [Finset.sum_const, Finset.card_univ, Fintype.card_fin, nsmul_eq_mul]
  ring

/-- `|g/|g|| = 1`: the move has absolute value `sf · lr · n`. -/
theorem abs_sign (g : ℝ) (hg : g ≠ 0) : abs (g / abs g) = 1 := by
  rw [abs_div, abs_abs, div_self (abs_ne_zero.mpr hg)]

/-! ### the three models combined -/

theorem aux (r n η D : ℝ) (hr : r ≠ 0) (h : r * r = n) : (1 / r) * (η * (D * (1 / r))) * n = η * D := by
  rw [← h]
  field_simp

/-- Linear (constraint `None` or the default `to_output_scale`), weight tagged `weight`:
    `fwdScale · (η · lrScale) · fan_in = η · depthFactor`. -/
theorem linear_width_free (fo fi numel : ℕ) (hfi : 0 < fi) (c : Option String)
    (hc : c = none ∨ c = some "to_output_scale") (d : Option ℕ) (η : ℝ)
    (s : OpScales ℝ) (hs : linearScales fo fi numel half half half c = .ok s)
    (l : ℝ) (hl : lrScaleAdam (α := ℝ) .weight [fo, fi] d = .ok l) :
    s.fwd * (η * l) * fi = η * C10.depthFactor d := by
  have hfi' : (0 : ℝ) < fi := by exact_mod_cast hfi
  rw [C10.lr_adam_weight [fo, fi] fi rfl d] at hl
  cases hl
  have hf : s.fwd = 1 / (fi : ℝ) ^ ((1 : ℝ) / 2) := by
    rcases hc with rfl | rfl
    · rw [C05.linear_unconstrained] at hs; cases hs; simp
    · rw [C05.linear_constrained "to_output_scale" (by decide) fo fi numel _ _ _ _ rfl] at hs
      cases hs; simp
  rw [hf, ← Real.sqrt_eq_rpow]
  exact aux _ _ _ _ (Real.sqrt_pos.mpr hfi').ne' (Real.mul_self_sqrt hfi'.le)

/-- LinearReadout (constraint `None`, the default), weight tagged `output`. -/
theorem readout_width_free (fo fi numel : ℕ) (hfi : 0 < fi) (d : Option ℕ) (η : ℝ)
    (s : OpScales ℝ) (hs : linearReadoutScales fo fi numel none = .ok s)
    (l : ℝ) (hl : lrScaleAdam (α := ℝ) .output [fo, fi] d = .ok l) :
    s.fwd * (η * l) * fi = η * C10.depthFactor d := by
  have hfi' : (fi : ℝ) ≠ 0 := by exact_mod_cast hfi.ne'
  rw [C10.lr_adam_other .output (by decide) _ d] at hl
  cases hl
  rw [linearReadoutScales, C05.linear_unconstrained] at hs
  cases hs
  simp only [nat_real, Nat.cast_one, Real.rpow_one]
  field_simp

/-- Conv1d at a single output position (constraint `None` or default): the dot product has
    `fan_in · kernel` terms and the 3-D weight's optimizer fan-in is the same number. -/
theorem conv1d_width_free (fo fi k seq lead stride pad dil groups : ℕ) (hfi : 0 < fi) (hk : 0 < k)
    (d : Option ℕ) (η : ℝ) (s : OpScales ℝ)
    (hs : conv1dScales fo fi k seq lead stride pad dil groups half half half none = .ok s)
    (l : ℝ) (hl : lrScaleAdam (α := ℝ) .weight [fo, fi, k] d = .ok l) :
    s.fwd * (η * l) * ((fi * k : ℕ) : ℝ) = η * C10.depthFactor d := by
  have hn : (0 : ℝ) < ((fi * k : ℕ) : ℝ) := by exact_mod_cast Nat.mul_pos hfi hk
  rw [C10.lr_adam_weight [fo, fi, k] (fi * k) rfl d] at hl
  cases hl
  simp only [conv1dScales, C05.apply_none, except_bind_ok, except_pure, Except.ok.injEq] at hs
  cases hs
  simp only [nat_real, Nat.cast_one, transc_pow, half_real]
  rw [← Real.sqrt_eq_rpow]
  exact aux _ _ _ _ (Real.sqrt_pos.mpr hn).ne' (Real.mul_self_sqrt hn.le)

/-- **C12.** Every output coordinate of a unit-scaled Linear layer moves by exactly
    `η/√depth` (sign `−sign g`) after the first Adam step, for every fan-in and fan-out. -/
theorem adam_step_width_free (fo fi numel : ℕ) (hfi : 0 < fi) (c : Option String)
    (hc : c = none ∨ c = some "to_output_scale") (d : Option ℕ) (η : ℝ)
    (s : OpScales ℝ) (hs : linearScales fo fi numel half half half c = .ok s)
    (l : ℝ) (hl : lrScaleAdam (α := ℝ) .weight [fo, fi] d = .ok l)
    (x : Fin fi → ℝ) (hx : ∀ i, x i = 1 ∨ x i = -1) (g : ℝ) (hg : g ≠ 0) (sw : ℝ) (hsw : 0 < sw) :
    s.fwd * ∑ i, x i * adamFirstStep (η * l) 0 (sw * (g * x i))
      = -(η * C10.depthFactor d) * (g / |g|) := by
  rw [output_move fi x hx g hg s.fwd sw (η * l) hsw, linear_width_free fo fi numel hfi c hc d η s hs l hl]

/-! ### Non-vacuity -/
example : (∀ i : Fin 3, (![1, -1, 1] : Fin 3 → ℝ) i = 1 ∨ (![1, -1, 1] : Fin 3 → ℝ) i = -1) := by
  intro i; fin_cases i <;> simp

end USProofs.C12
