/-
  C16 — the dependency analysis of `unit_scaling_backend` (`_add_dependency_meta`, model `allDeps`)
  computes exactly the *transitive-input relation* of the graph, for every topologically ordered
  graph of any size.  This gives the clause "every addition in which one operand is computed from
  the other is a residual connection" its meaning: `residual_detect` (C16.lean) speaks about the
  table `allDeps`; `residual_iff_computed_from` below speaks about reachability in the graph.
-/
import USModel
import USProofs.Properties.C16
import Mathlib.Data.List.Induction

open USModel

namespace USProofs.C16

/-- `Reach g a b`: the node with id `a` is a transitive input of the node with id `b`
    (`b` is *computed from* `a`). -/
inductive Reach (g : IGraph) : Nat → Nat → Prop
  | direct {x : INode} {a : Nat} : x ∈ g → a ∈ x.n.inputs → Reach g a x.id
  | trans {x : INode} {a c : Nat} : x ∈ g → c ∈ x.n.inputs → Reach g a c → Reach g a x.id

theorem Reach.mono {g g' : IGraph} (h : ∀ x, x ∈ g → x ∈ g') {a b : Nat} (r : Reach g a b) : Reach g' a b := by
  induction r with
  | direct hx ha => exact .direct (h _ hx) ha
  | trans hx hc _ ih => exact .trans (h _ hx) hc ih

/-- topological order with distinct ids: every input of a node is the id of an earlier node, and no
    earlier node has the same id -/
def Topo : IGraph → Prop
  | [] => True
  | g => ∀ p x s, g = p ++ x :: s → (∀ a ∈ x.n.inputs, ∃ y ∈ p, y.id = a) ∧ (∀ y ∈ p, y.id ≠ x.id)

theorem topo_iff (g : IGraph) :
    Topo g ↔ ∀ p x s, g = p ++ x :: s → (∀ a ∈ x.n.inputs, ∃ y ∈ p, y.id = a) ∧ (∀ y ∈ p, y.id ≠ x.id) := by
  cases g with
  | nil => simp [Topo]
  | cons a t => simp [Topo]

theorem Topo.prefix {p : IGraph} {x : INode} (h : Topo (p ++ [x])) : Topo p := by
  rw [topo_iff] at h ⊢
  intro p' y s e
  exact h p' y (s ++ [x]) (by simp [e])

theorem Topo.last {p : IGraph} {x : INode} (h : Topo (p ++ [x])) :
    (∀ a ∈ x.n.inputs, ∃ y ∈ p, y.id = a) ∧ (∀ y ∈ p, y.id ≠ x.id) := by
  rw [topo_iff] at h
  exact h p x [] rfl

/-- inputs of a node of a topologically ordered graph are ids of nodes of the graph -/
theorem Topo.inputs_mem {g : IGraph} (h : Topo g) {z : INode} (hz : z ∈ g) {c : Nat} (hc : c ∈ z.n.inputs) :
    ∃ y ∈ g, y.id = c := by
  rw [topo_iff] at h
  obtain ⟨p, s, e⟩ := List.append_of_mem hz
  obtain ⟨y, hy, hyc⟩ := (h p z s e).1 c hc
  exact ⟨y, by simp [e, hy], hyc⟩

def depsStep (acc : List (Nat × List Nat)) (x : INode) : List (Nat × List Nat) :=
  acc ++ [(x.id, (x.n.inputs ++ x.n.inputs.flatMap (fun i => (acc.lookup i).getD [])).eraseDups)]

theorem allDeps_eq (g : IGraph) : allDeps g = g.foldl depsStep [] := rfl

theorem allDeps_snoc (p : IGraph) (x : INode) : allDeps (p ++ [x]) = depsStep (allDeps p) x := by
  simp [allDeps_eq, List.foldl_append]

theorem lookup_none_of_not_key {l : List (Nat × List Nat)} {k : Nat} (h : k ∉ l.map Prod.fst) : l.lookup k = none := by
  induction l with
  | nil => rfl
  | cons hd tl ih =>
    obtain ⟨k', v⟩ := hd
    simp only [List.map_cons, List.mem_cons, not_or] at h
    have hne : (k == k') = false := by simpa using h.1
    rw [List.lookup_cons, hne]; exact ih h.2

theorem lookup_some_of_key {l : List (Nat × List Nat)} {k : Nat} (h : k ∈ l.map Prod.fst) : ∃ v, l.lookup k = some v := by
  induction l with
  | nil => simp at h
  | cons hd tl ih =>
    obtain ⟨k', v⟩ := hd
    by_cases e : k = k'
    · subst e; exact ⟨v, by simp⟩
    · have hne : (k == k') = false := by simpa using e
      have : k ∈ tl.map Prod.fst := by
        simp only [List.map_cons, List.mem_cons] at h
        rcases h with h | h
        · exact absurd h e
        · exact h
      obtain ⟨w, hw⟩ := ih this
      exact ⟨w, by simp [List.lookup_cons, hne, hw]⟩

/-- in a topologically ordered graph, reachability into an old node does not change when a node is
    appended -/
theorem reach_prefix {p : IGraph} {x : INode} (ht : Topo (p ++ [x])) {a b : Nat}
    (hb : ∃ y ∈ p, y.id = b) (r : Reach (p ++ [x]) a b) : Reach p a b := by
  induction r with
  | @direct z a hz ha =>
    have hzp : z ∈ p := by
      rcases List.mem_append.mp hz with h | h
      · exact h
      · obtain ⟨y, hy, hyz⟩ := hb
        have : z = x := by simpa using h
        subst this
        exact absurd hyz (ht.last.2 y hy)
    exact .direct hzp ha
  | @trans z a c hz hc _ ih =>
    have hzp : z ∈ p := by
      rcases List.mem_append.mp hz with h | h
      · exact h
      · obtain ⟨y, hy, hyz⟩ := hb
        have : z = x := by simpa using h
        subst this
        exact absurd hyz (ht.last.2 y hy)
    exact .trans hzp hc (ih (ht.prefix.inputs_mem hzp hc))

/-- **`allDeps` is the transitive-input relation** — for every topologically ordered graph, of any
    size: `a` is listed among the dependencies of `b` iff `b` is computed from `a`. -/
theorem deps_spec (g : IGraph) (ht : Topo g) :
    (allDeps g).map Prod.fst = g.map (·.id) ∧
    ∀ a b, a ∈ ((allDeps g).lookup b).getD [] ↔ Reach g a b := by
  induction g using List.reverseRecOn with
  | nil =>
    refine ⟨rfl, fun a b => ?_⟩
    constructor
    · intro h; simp [allDeps] at h
    · intro r; cases r <;> simp_all
  | append_singleton p x ih =>
    obtain ⟨ihk, ihr⟩ := ih ht.prefix
    obtain ⟨hin, hid⟩ := ht.last
    have hxk : x.id ∉ (allDeps p).map Prod.fst := by
      rw [ihk]; intro h
      obtain ⟨y, hy, e⟩ := List.mem_map.mp h
      exact hid y hy e
    refine ⟨by simp [allDeps_snoc, depsStep, ihk], fun a b => ?_⟩
    rw [allDeps_snoc, depsStep, List.lookup_append]
    by_cases hb : b ∈ (allDeps p).map Prod.fst
    · -- an old node: its entry is unchanged
      obtain ⟨v, hv⟩ := lookup_some_of_key hb
      have hbp : ∃ y ∈ p, y.id = b := by
        rw [ihk] at hb
        obtain ⟨y, hy, e⟩ := List.mem_map.mp hb
        exact ⟨y, hy, e⟩
      rw [hv, Option.some_or, ← hv, ihr]
      exact ⟨fun r => r.mono (fun _ h => List.mem_append_left _ h), reach_prefix ht hbp⟩
    · rw [lookup_none_of_not_key hb, Option.none_or]
      by_cases hbx : b = x.id
      · subst hbx
        simp only [List.lookup_cons, beq_self_eq_true, Option.getD_some, List.mem_eraseDups, List.mem_append,
          List.mem_flatMap]
        constructor
        · rintro (h | ⟨i, hi, h⟩)
          · exact .direct (by simp) h
          · have := (ihr a i).mp h
            exact .trans (by simp) hi (this.mono (fun _ h => List.mem_append_left _ h))
        · intro r
          -- inversion: the node with id `x.id` is `x`
          have key : ∀ b', Reach (p ++ [x]) a b' → b' = x.id →
              a ∈ x.n.inputs ∨ ∃ i ∈ x.n.inputs, a ∈ ((allDeps p).lookup i).getD [] := by
            intro b' r'
            cases r' with
            | @direct z _ hz ha =>
              intro e
              rcases List.mem_append.mp hz with h | h
              · exact absurd e (hid z h)
              · have : z = x := by simpa using h
                subst this; exact Or.inl ha
            | @trans z _ c hz hc rc =>
              intro e
              rcases List.mem_append.mp hz with h | h
              · exact absurd e (hid z h)
              · have : z = x := by simpa using h
                subst this
                exact Or.inr ⟨c, hc, (ihr a c).mpr (reach_prefix ht (hin c hc) rc)⟩
          exact key _ r rfl
      · -- not a node at all
        have hne : (b == x.id) = false := by simpa using hbx
        simp only [List.lookup_cons, hne, List.lookup_nil, Option.getD_none, List.not_mem_nil, false_iff]
        intro r
        have : ∃ y ∈ p ++ [x], y.id = b := by
          cases r with
          | direct hz _ => exact ⟨_, hz, rfl⟩
          | trans hz _ _ => exact ⟨_, hz, rfl⟩
        obtain ⟨y, hy, e⟩ := this
        rcases List.mem_append.mp hy with h | h
        · exact hb (by rw [ihk]; exact List.mem_map.mpr ⟨y, h, e⟩)
        · have : y = x := by simpa using h
          subst this; exact hbx e.symm

/-! ### graphs coming from FX: ids are positions, references point backwards -/

theorem ofGraph_append (g : Graph) (n : GNode) :
    IGraph.ofGraph (g ++ [n]) = IGraph.ofGraph g ++ [⟨g.length, n⟩] := by
  simp [IGraph.ofGraph, List.zipIdx_append]

theorem ofGraph_ids (g : Graph) : ∀ y ∈ IGraph.ofGraph g, y.id < g.length := by
  intro y hy
  simp only [IGraph.ofGraph, List.mem_map] at hy
  obtain ⟨⟨n, i⟩, hm, rfl⟩ := hy
  have := List.mem_zipIdx hm
  simpa using this.2.1

theorem ofGraph_has_id (g : Graph) {i : Nat} (hi : i < g.length) : ∃ y ∈ IGraph.ofGraph g, y.id = i := by
  refine ⟨⟨i, g[i]⟩, ?_, rfl⟩
  simp only [IGraph.ofGraph, List.mem_map]
  exact ⟨(g[i], i), by simpa using List.mem_zipIdx_iff_getElem?.mpr (by simp [hi]), rfl⟩

theorem wellFormed_append {g : Graph} {n : GNode} (h : Graph.wellFormed (g ++ [n]) = true) :
    Graph.wellFormed g = true ∧ ∀ a ∈ n.inputs, a < g.length := by
  simp only [Graph.wellFormed, List.zipIdx_append, List.all_append, Bool.and_eq_true] at h
  refine ⟨h.1, ?_⟩
  have := h.2
  simpa [List.zipIdx] using this

/-- a well-formed FX graph (every reference points to an earlier node) is topologically ordered -/
theorem topo_ofGraph (g : Graph) (h : g.wellFormed = true) : Topo (IGraph.ofGraph g) := by
  induction g using List.reverseRecOn with
  | nil => simp [IGraph.ofGraph, Topo]
  | append_singleton g n ih =>
    obtain ⟨hg, hn⟩ := wellFormed_append h
    have ihg := ih hg
    rw [ofGraph_append, topo_iff]
    intro p x s e
    rcases s.eq_nil_or_concat with hs | ⟨s', z, hs⟩
    · subst hs
      have e' := List.append_inj' e (by simp)
      obtain ⟨e1, e2⟩ := e'
      have : x = ⟨g.length, n⟩ := by simpa using e2.symm
      subst this; subst e1
      exact ⟨fun a ha => ofGraph_has_id g (hn a ha), fun y hy => Nat.ne_of_lt (ofGraph_ids g y hy)⟩
    · subst hs
      have e2 : IGraph.ofGraph g ++ [⟨g.length, n⟩] = (p ++ x :: s') ++ [z] := by simpa using e
      have e3 := List.append_inj' e2 (by simp)
      exact (topo_iff _).mp ihg p x s' e3.1

/-- the replacement sweep changes targets only: ids and inputs are those of the original nodes -/
theorem sweep_skeleton (user : List (String × String)) (g : IGraph) :
    (sweep user g).map (fun x => (x.id, x.n.inputs)) = g.map (fun x => (x.id, x.n.inputs)) := by
  simp only [sweep, List.map_map]
  apply List.map_congr_left
  intro x _
  simp only [Function.comp]
  split
  · split
    · rfl
    · split <;> rfl
  · rfl

theorem topo_of_skeleton {g g' : IGraph} (e : g'.map (fun x => (x.id, x.n.inputs)) = g.map (fun x => (x.id, x.n.inputs)))
    (h : Topo g) : Topo g' := by
  induction g using List.reverseRecOn generalizing g' with
  | nil =>
    have : g' = [] := by simpa using e
    subst this; simp [Topo]
  | append_singleton p x ih =>
    rcases g'.eq_nil_or_concat with hg | ⟨p', x', hg⟩
    · subst hg; simp at e
    · rw [List.concat_eq_append] at hg
      subst hg
      simp only [List.map_append, List.map_cons, List.map_nil] at e
      obtain ⟨e1, e2⟩ := List.append_inj' e (by simp)
      have hx : x'.id = x.id ∧ x'.n.inputs = x.n.inputs := by simpa using e2
      have ihp := ih e1 h.prefix
      obtain ⟨hin, hid⟩ := h.last
      have ids : ∀ i, (∃ y ∈ p, y.id = i) ↔ (∃ y ∈ p', y.id = i) := by
        intro i
        have : p'.map (·.id) = p.map (·.id) := by
          have := congrArg (List.map Prod.fst) e1
          simp only [List.map_map] at this
          exact this
        constructor
        · rintro ⟨y, hy, rfl⟩
          have : y.id ∈ p'.map (·.id) := by rw [this]; exact List.mem_map.mpr ⟨y, hy, rfl⟩
          obtain ⟨y', hy', e'⟩ := List.mem_map.mp this
          exact ⟨y', hy', e'⟩
        · rintro ⟨y, hy, rfl⟩
          have : y.id ∈ p.map (·.id) := by rw [← this]; exact List.mem_map.mpr ⟨y, hy, rfl⟩
          obtain ⟨y', hy', e'⟩ := List.mem_map.mp this
          exact ⟨y', hy', e'⟩
      rw [topo_iff]
      intro q z s eq
      rcases s.eq_nil_or_concat with hs | ⟨s', w, hs⟩
      · subst hs
        obtain ⟨e1', e2'⟩ := List.append_inj' eq (by simp)
        have : z = x' := by simpa using e2'.symm
        subst this; subst e1'
        refine ⟨fun a ha => (ids a).mp (hin a (hx.2 ▸ ha)), fun y hy => ?_⟩
        intro e'
        obtain ⟨y0, hy0, ey0⟩ := (ids y.id).mpr ⟨y, hy, rfl⟩
        exact hid y0 hy0 (by rw [ey0, e', hx.1])
      · subst hs
        have eq2 : p' ++ [x'] = (q ++ z :: s') ++ [w] := by simpa using eq
        have e3 := List.append_inj' eq2 (by simp)
        exact (topo_iff _).mp ihp q z s' e3.1

/-- **An addition is rewritten as a residual connection iff one operand is computed from the other**,
    in the graph-theoretic sense, for every well-formed FX graph and every user replacement map. -/
theorem residual_iff_computed_from (g0 : Graph) (hw : g0.wellFormed = true) (user : List (String × String))
    (x : INode) (l r : Nat) (hadd : isAdd x.n = true) (hargs : x.n.args = [.ref l, .ref r]) :
    let g := sweep user (IGraph.ofGraph g0)
    (∃ idx sa, classifyAdd g (allDeps g) x = some (.residual idx sa)) ↔ (Reach g l r ∨ Reach g r l) := by
  intro g
  have ht : Topo g := topo_of_skeleton (sweep_skeleton user _) (topo_ofGraph g0 hw)
  have hs := (deps_spec g ht).2
  rw [residual_detect g x l r hadd hargs]
  simp only [List.contains_iff_mem, hs]

/-- non-vacuity: in the documented example `x + softmax(linear(x))` the add's second operand is
    computed from its first -/
example : Reach (sweep [] (IGraph.ofGraph demo)) 0 2 := by
  have h2 : (⟨2, { op := "call_function", target := "U.softmax", args := [.ref 1], kwargs := [("dim", .lit "-1")] }⟩ : INode)
      ∈ sweep [] (IGraph.ofGraph demo) := List.mem_iff_getElem?.mpr ⟨2, by rfl⟩
  have h1 : (⟨1, { op := "call_function", target := "U.linear", args := [.ref 0, .lit "w"], kwargs := [] }⟩ : INode)
      ∈ sweep [] (IGraph.ofGraph demo) := List.mem_iff_getElem?.mpr ⟨1, by rfl⟩
  exact Reach.trans h2 (by decide) (Reach.direct h1 (by decide))

example : Graph.wellFormed demo = true := by decide

/-! ### the last pass: "operations with no later residual addition are unconstrained" -/

/-- `x` has a later residual addition: it is a residual add itself or some residual add is computed from it -/
def HasLaterResidual (g : IGraph) (i : Nat) : Prop :=
  ∃ r ∈ g, r.n.target = "U.residual_add" ∧ (r.id = i ∨ Reach g i r.id)

/-- the marked set of the last pass is exactly the set of nodes with a later residual addition -/
theorem marked_spec (g : IGraph) (ht : Topo g) (i : Nat) :
    (residualMarked g).contains i = true ↔ HasLaterResidual g i := by
  have hs := (deps_spec g ht).2
  simp only [residualMarked, List.contains_iff_mem, List.mem_flatMap, List.mem_filter, List.mem_cons,
    HasLaterResidual, beq_iff_eq]
  constructor
  · rintro ⟨r, ⟨hr, ht'⟩, h | h⟩
    · exact ⟨r, hr, ht', Or.inl h.symm⟩
    · exact ⟨r, hr, ht', Or.inr ((hs i r.id).mp h)⟩
  · rintro ⟨r, hr, ht', h | h⟩
    · exact ⟨r, ⟨hr, ht'⟩, Or.inl h.symm⟩
    · exact ⟨r, ⟨hr, ht'⟩, Or.inr ((hs i r.id).mpr h)⟩

theorem unconstrain_length (uct : List String) (g : IGraph) : (unconstrainPass uct g).length = g.length := by
  simp [unconstrainPass]

/-- **Operations with a later residual addition keep their arguments untouched** … -/
theorem constrained_kept (uct : List String) (g : IGraph) (ht : Topo g) (k : Nat) (x : INode)
    (hx : g[k]? = some x) (h : HasLaterResidual g x.id) : (unconstrainPass uct g)[k]? = some x := by
  have hm : x.id ∈ residualMarked g := by simpa using (marked_spec g ht x.id).mpr h
  simp [unconstrainPass, hx, hm]

/-- … **and every operation with a `constraint` parameter and no later residual addition is
    unconstrained** (`constraint=None`, bound exactly once — `setKw_count`), nothing else changed. -/
theorem unconstrained_set (uct : List String) (g : IGraph) (ht : Topo g) (k : Nat) (x : INode)
    (hx : g[k]? = some x) (h : ¬ HasLaterResidual g x.id) (hop : x.n.op = "call_function")
    (hc : x.n.target ∈ constraintTargets ∨ x.n.target ∈ uct) :
    (unconstrainPass uct g)[k]? =
      some { x with n := { x.n with kwargs := setKw x.n.kwargs "constraint" (.lit "None") } } := by
  have hm : x.id ∉ residualMarked g := by
    intro hb
    exact h ((marked_spec g ht x.id).mp (by simpa using hb))
  simp only [unconstrainPass, List.getElem?_map, hx, Option.map_some]
  have hcond : (!(residualMarked g).contains x.id && x.n.op == "call_function" &&
      (constraintTargets.contains x.n.target || uct.contains x.n.target)) = true := by
    simp only [Bool.and_eq_true, Bool.not_eq_true', Bool.or_eq_true, List.contains_iff_mem, beq_iff_eq]
    exact ⟨⟨by simpa using hm, hop⟩, hc⟩
  rw [if_pos hcond]

/-- all other operations are untouched by the last pass -/
theorem unconstrain_other (uct : List String) (g : IGraph) (k : Nat) (x : INode) (hx : g[k]? = some x)
    (h : x.n.op ≠ "call_function" ∨ (x.n.target ∉ constraintTargets ∧ x.n.target ∉ uct)) :
    (unconstrainPass uct g)[k]? = some x := by
  rcases h with h | ⟨h1, h2⟩
  · simp [unconstrainPass, hx, h]
  · simp only [unconstrainPass, List.getElem?_map, hx, Option.map_some]
    rw [if_neg]
    simp only [Bool.and_eq_true, Bool.or_eq_true, List.contains_iff_mem, not_and, not_or]
    exact fun _ => ⟨h1, h2⟩

/-! ### the run-time check `topoB` is sound: the driver reports it for every rewritten graph, so the
    premise `Topo` of the theorems above is checked on each graph the correspondence sees -/

theorem topoB_fold (g : IGraph) :
    (g.foldl (fun (st : List Nat × Bool) x =>
      (x.id :: st.1, st.2 && !st.1.contains x.id && x.n.inputs.all (st.1.contains ·))) ([], true)).1
      = (g.map (·.id)).reverse := by
  induction g using List.reverseRecOn with
  | nil => rfl
  | append_singleton p x ih =>
    rw [List.foldl_append]
    simp only [List.foldl_cons, List.foldl_nil, ih]
    simp

theorem topoB_snoc (p : IGraph) (x : INode) :
    IGraph.topoB (p ++ [x]) = (IGraph.topoB p && !(p.map (·.id)).contains x.id &&
      x.n.inputs.all ((p.map (·.id)).contains ·)) := by
  simp only [IGraph.topoB, List.foldl_append, List.foldl_cons, List.foldl_nil, topoB_fold]
  simp

theorem topoB_sound (g : IGraph) (h : g.topoB = true) : Topo g := by
  induction g using List.reverseRecOn with
  | nil => simp [Topo]
  | append_singleton p x ih =>
    rw [topoB_snoc] at h
    simp only [Bool.and_eq_true, Bool.not_eq_true', List.all_eq_true] at h
    obtain ⟨⟨hp, hid⟩, hin⟩ := h
    have ihp := ih hp
    rw [topo_iff]
    intro q z s e
    rcases s.eq_nil_or_concat with hs | ⟨s', w, hs⟩
    · subst hs
      obtain ⟨e1, e2⟩ := List.append_inj' e (by simp)
      have : z = x := by simpa using e2.symm
      subst this; subst e1
      refine ⟨fun a ha => ?_, fun y hy e' => ?_⟩
      · have := hin a ha
        simp only [List.contains_iff_mem, List.mem_map] at this
        exact this
      · have : (List.map (fun x => x.id) p).contains z.id = true := by
          simp only [List.contains_iff_mem, List.mem_map]
          exact ⟨y, hy, e'⟩
        rw [this] at hid; cases hid
    · subst hs
      have e2 : p ++ [x] = (q ++ z :: s') ++ [w] := by simpa using e
      have e3 := List.append_inj' e2 (by simp)
      exact (topo_iff _).mp ihp q z s' e3.1

/-- the rewritten documented example is topologically ordered, and its `gelu` (after the residual add)
    has no later residual addition while its `linear` (inside the branch) has one -/
example : (rewritten [] demo).topoB = true := by decide
example : (residualMarked (rewritten [] demo)).contains 1 = true := by decide
example : (residualMarked (rewritten [] demo)).contains 4 = false := by decide

end USProofs.C16
