/-
  C15 — format simulation = straight-through quantisation exactly at matmul boundaries.
  Model: `USModel/SimFormat.lean`, `USModel/Graph.lean`.
-/
import USModel

open USModel

namespace USProofs.C15

section quantisers
variable {X Y A B C : Type}

/-- `quantise_fwd` returns the quantised value and passes gradients through unchanged. -/
theorem qf_spec (q : X → X) (x g : X) : (QF q).fwd x = q x ∧ (QF q).vjp x g = g := ⟨rfl, rfl⟩
/-- `quantise_bwd` returns its input unchanged and quantises the gradient. -/
theorem qb_spec (q : X → X) (x g : X) : (QB q).fwd x = x ∧ (QB q).vjp x g = q g := ⟨rfl, rfl⟩

/-- A quantised linear computes the original op on forward-quantised input and weight (bias
    untouched) and hands the original op the backward-quantised output gradient; the gradients it
    returns are the original op's, passed straight through the forward quantisers. -/
theorem quantised_linear_spec (qa : A → A) (qb : B → B) (qy : Y → Y) (F : DOp (A × B × C) Y)
    (x : A × B × C) (g : Y) :
    (quantisedLinear qa qb qy F).fwd x = F.fwd (qa x.1, qb x.2.1, x.2.2) ∧
    (quantisedLinear qa qb qy F).vjp x g = F.vjp (qa x.1, qb x.2.1, x.2.2) (qy g) := ⟨rfl, rfl⟩

theorem quantised_sdpa_spec (q1 : A → A) (q2 : B → B) (q3 : C → C) (qy : Y → Y) (F : DOp (A × B × C) Y)
    (x : A × B × C) (g : Y) :
    (quantisedSdpa q1 q2 q3 qy F).fwd x = F.fwd (q1 x.1, q2 x.2.1, q3 x.2.2) ∧
    (quantisedSdpa q1 q2 q3 qy F).vjp x g = F.vjp (q1 x.1, q2 x.2.1, q3 x.2.2) (qy g) := ⟨rfl, rfl⟩

/-- **Lossless format ⇒ identity**: with quantisers that are the identity the transformed
    operation *is* the original one, forward and backward. -/
theorem lossless_identity (F : DOp (A × B × C) Y) :
    quantisedLinear id id id F = F ∧ quantisedSdpa id id id id F = F := by
  constructor <;> rfl
end quantisers

/-! ### the graph rewrite -/

/-- same number of nodes, in the same order -/
theorem backend_length (fwd bwd : Fmt) (g : Graph) : (simulateBackend fwd bwd g).length = g.length := by
  simp [simulateBackend]

/-- **Nothing else changes**: a node that is not a call of one of the four mapped functions is
    left exactly as it was. -/
theorem backend_other_unchanged (fwd bwd : Fmt) (n : GNode)
    (h : n.op ≠ "call_function" ∨ quantMap.lookup n.target = none) :
    replaceWithQuantised fwd bwd n = n := by
  unfold replaceWithQuantised
  rcases h with h | h
  · simp [h]
  · split
    · rw [h]
    · rfl

theorem backend_nodes (fwd bwd : Fmt) (g : Graph) (i : Nat) (n : GNode) (h : g[i]? = some n) :
    (simulateBackend fwd bwd g)[i]? = some (replaceWithQuantised fwd bwd n) := by
  simp [simulateBackend, h]

/-- a mapped call gets the quantised target and the two format tuples spliced in after the
    third positional argument; a 2-argument linear gets its bias (keyword or `None`) as third -/
theorem backend_replaced (fwd bwd : Fmt) (n : GNode) (q : String) (hop : n.op = "call_function")
    (hq : quantMap.lookup n.target = some q) (h3 : n.args.length ≠ 2) :
    replaceWithQuantised fwd bwd n =
      { n with target := q, args := n.args.take 3 ++ [fwd.toArg, bwd.toArg] ++ n.args.drop 3 } := by
  unfold replaceWithQuantised
  simp [hop, hq, h3]

theorem backend_replaced_two_args (fwd bwd : Fmt) (n : GNode) (q : String) (hop : n.op = "call_function")
    (hq : quantMap.lookup n.target = some q) (a b : Arg) (h2 : n.args = [a, b]) :
    replaceWithQuantised fwd bwd n =
      { n with target := q,
               args := [a, b, (lookupKw n.kwargs "bias").getD (.lit "None"), fwd.toArg, bwd.toArg],
               kwargs := eraseKw n.kwargs "bias" } := by
  unfold replaceWithQuantised
  simp [hop, hq, h2]

/-- **Well-formed splice** (the repaired defect F-C15b): after the rewrite of a 2-argument linear no
    keyword named `bias` remains, so the bias is bound exactly once. -/
theorem splice_no_duplicate_bias (fwd bwd : Fmt) (n : GNode) (q : String) (hop : n.op = "call_function")
    (hq : quantMap.lookup n.target = some q) (a b : Arg) (h2 : n.args = [a, b]) :
    lookupKw (replaceWithQuantised fwd bwd n).kwargs "bias" = none := by
  rw [backend_replaced_two_args fwd bwd n q hop hq a b h2]
  simp [lookupKw, eraseKw, List.find?_eq_none]

/-- the formats the caller supplied travel through the graph unchanged: value set, rounding mode
    and random-bit count (the repaired defect F-C15a) -/
theorem format_roundtrip (f : Fmt) (hn : f = f.normalise) : f.roundTrip = f := by
  unfold Fmt.roundTrip
  cases f
  simpa using hn.symm

theorem normalise_idem (f : Fmt) : f.normalise.normalise = f.normalise := by
  unfold Fmt.normalise
  split
  · rename_i h
    simp only
    split
    · rename_i h2
      obtain ⟨h2a, _⟩ := h2
      simp_all
    · rfl
  · rename_i h
    simp [h]

/-- `simulate_fp8` is the E4M3-forward / E5M2-backward instance with all-bits stochastic rounding -/
theorem fp8_formats : fp8Fwd = ⟨4, 3, "stochastic", 20⟩ ∧ fp8Bwd = ⟨5, 2, "stochastic", 21⟩ := by
  constructor <;> decide

/-! ### Non-vacuity -/
example : (replaceWithQuantised fp8Fwd fp8Bwd
    { op := "call_function", target := "F.linear", args := [.ref 0, .ref 1], kwargs := [("bias", .ref 2)] }).args.length = 5 := by
  decide

end USProofs.C15
