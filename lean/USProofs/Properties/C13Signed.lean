/-
  C13 — the full 32-bit pattern: sign and magnitude together (E ≤ 7).  Odd symmetry, and monotonicity with respect to the
  real order of signed values.
-/
import USModel
import USProofs.Properties.C13Idem

open USModel USModel.F32

namespace USProofs.C13

/-- signed value of a 32-bit pattern (`bits < 2^32`): sign bit, then the magnitude's value -/
def sval (bits : ℕ) : ℚ := if bits / 2 ^ 31 = 0 then val (bits % 2 ^ 31) else - val (bits % 2 ^ 31)

theorem val_nonneg (n : ℕ) : 0 ≤ val n := by
  rw [val_eq_fix n]; positivity

section
variable (E M : ℕ) (hE : 1 ≤ E) (hB : 2 ^ (E - 1) ≤ 127) (hM : M ≤ 23)
include hE hB hM

/-- the magnitude of the result always fits in 31 bits (it never exceeds the format's maximum) -/
theorem quantMag_le_absmax (off n : ℕ) (hoff : off < 2 ^ (23 - M)) : quantMag E M off n ≤ absmaxBits E M := by
  have h1 := quantise_monotone_all E M off n (max n (absmaxBits E M)) hE hB hM hoff (le_max_left _ _)
  rw [quantise_saturates E M hE hB hM off _ hoff (le_max_right _ _)] at h1
  exact h1

theorem absmax_lt (hM' : M ≤ 23) : absmaxBits E M < 2 ^ 31 := by
  have hA := expo_absmax E M hM'
  obtain ⟨_, hhi⟩ := expo_bounds (absmaxBits E M)
  have hpos : 0 < 2 ^ (E - 1) := by positivity
  have : (expo (absmaxBits E M) + 1) * 2 ^ 23 ≤ 255 * 2 ^ 23 := Nat.mul_le_mul_right _ (by omega)
  have e : (255 : ℕ) * 2 ^ 23 < 2 ^ 31 := by norm_num
  omega

/-- the result's sign is the input's sign and its magnitude is the quantised magnitude -/
theorem quantBits_fields (off bits : ℕ) (hoff : off < 2 ^ (23 - M)) :
    quantBits E M off bits / 2 ^ 31 = bits / 2 ^ 31 ∧
    quantBits E M off bits % 2 ^ 31 = quantMag E M off (bits % 2 ^ 31) := by
  have hlt : quantMag E M off (bits % 2 ^ 31) < 2 ^ 31 :=
    lt_of_le_of_lt (quantMag_le_absmax E M hE hB hM off _ hoff) (absmax_lt E M hE hB hM hM)
  refine ⟨quantBits_sign E M off bits hlt, ?_⟩
  unfold quantBits
  simp only
  rw [Nat.mul_comm, Nat.mul_add_mod, Nat.mod_eq_of_lt hlt]

/-- **Odd symmetry**: flipping the sign bit of the input flips the sign bit of the output and nothing else (same rounding
    offset on the magnitude — nearest rounding always, a stochastic draw when it is the same draw). -/
theorem quantBits_odd (off mag : ℕ) (hoff : off < 2 ^ (23 - M)) (hmag : mag < 2 ^ 31) :
    quantBits E M off (2 ^ 31 + mag) = 2 ^ 31 + quantBits E M off mag := by
  unfold quantBits
  simp only
  have h1 : (2 ^ 31 + mag) / 2 ^ 31 = 1 := by
    rw [Nat.add_comm, Nat.add_div_right _ (by norm_num : 0 < 2 ^ 31), Nat.div_eq_of_lt hmag]
  have h2 : (2 ^ 31 + mag) % 2 ^ 31 = mag := by
    rw [Nat.add_comm, Nat.add_mod_right, Nat.mod_eq_of_lt hmag]
  have h3 : mag / 2 ^ 31 = 0 := Nat.div_eq_of_lt hmag
  have h4 : mag % 2 ^ 31 = mag := Nat.mod_eq_of_lt hmag
  rw [h1, h2, h3, h4]; simp

/-- **Monotone non-decreasing in the real order of signed values.** -/
theorem quantise_monotone_signed (off a b : ℕ) (hoff : off < 2 ^ (23 - M)) (ha : a < 2 ^ 32) (hb : b < 2 ^ 32)
    (hab : sval a ≤ sval b) :
    sval (quantBits E M off a) ≤ sval (quantBits E M off b) := by
  obtain ⟨sa, ma⟩ := quantBits_fields E M hE hB hM off a hoff
  obtain ⟨sb, mb⟩ := quantBits_fields E M hE hB hM off b hoff
  have hsa : a / 2 ^ 31 = 0 ∨ a / 2 ^ 31 = 1 := by
    have : a / 2 ^ 31 < 2 := Nat.div_lt_of_lt_mul (by norm_num at ha ⊢; omega)
    omega
  have hsb : b / 2 ^ 31 = 0 ∨ b / 2 ^ 31 = 1 := by
    have : b / 2 ^ 31 < 2 := Nat.div_lt_of_lt_mul (by norm_num at hb ⊢; omega)
    omega
  unfold sval at hab ⊢
  rw [sa, sb, ma, mb]
  have mono := fun x y (h : x ≤ y) => val_mono (quantise_monotone_all E M off x y hE hB hM hoff h)
  have nn := val_nonneg
  rcases hsa with h0 | h1 <;> rcases hsb with g0 | g1
  · -- both non-negative
    simp only [h0, g0, if_true] at hab ⊢
    by_contra hc
    have hlt : b % 2 ^ 31 < a % 2 ^ 31 := by
      by_contra hc'
      exact hc (mono _ _ (Nat.le_of_not_lt hc'))
    have := val_mono (le_of_lt hlt)
    have heq : val (a % 2 ^ 31) = val (b % 2 ^ 31) := le_antisymm hab this
    have := val_injective heq
    omega
  · -- a ≥ 0 > -|b|: only possible when both values are 0
    simp only [h0, g1, if_true, if_false, show ¬ ((1 : ℕ) = 0) by norm_num] at hab ⊢
    have hza : val (a % 2 ^ 31) = 0 := le_antisymm (by linarith [nn (b % 2 ^ 31)]) (nn _)
    have hzb : val (b % 2 ^ 31) = 0 := le_antisymm (by linarith [nn (a % 2 ^ 31)]) (nn _)
    have ea : a % 2 ^ 31 = 0 := val_injective (by rw [hza]; simp [val])
    have eb : b % 2 ^ 31 = 0 := val_injective (by rw [hzb]; simp [val])
    rw [ea, eb]
    have h0q : quantMag E M off 0 = 0 := by
      have := quantise_sub_fixes E M hE hB hM off 0 0 hoff (by unfold expo; simp) (by simp [fixOf, expo, mant])
      exact this
    rw [h0q]; simp [val]
  · -- a < 0 ≤ b
    simp only [h1, g0, if_true, if_false, show ¬ ((1 : ℕ) = 0) by norm_num] at hab ⊢
    linarith [nn (quantMag E M off (a % 2 ^ 31)), nn (quantMag E M off (b % 2 ^ 31))]
  · -- both negative: magnitudes in the opposite order
    simp only [h1, g1, if_false, show ¬ ((1 : ℕ) = 0) by norm_num] at hab ⊢
    have hv : val (b % 2 ^ 31) ≤ val (a % 2 ^ 31) := by linarith
    have hle : b % 2 ^ 31 ≤ a % 2 ^ 31 := by
      by_contra hc
      have hlt : a % 2 ^ 31 < b % 2 ^ 31 := Nat.lt_of_not_le hc
      have := val_mono (le_of_lt hlt)
      have heq : val (a % 2 ^ 31) = val (b % 2 ^ 31) := le_antisymm this hv
      have := val_injective heq
      omega
    have := mono _ _ hle
    linarith

end

end USProofs.C13
