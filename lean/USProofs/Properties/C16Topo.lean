/-
  C16 — the graph handed to the last pass is topologically ordered, for every well-formed input graph:
  `rewritten_topo`.  This discharges the premise of `marked_spec` / `constrained_kept` /
  `unconstrained_set` (C16Deps.lean) and shows that the node insertions of `_unit_scale_residual`
  (split after the skip tensor, the two `getitem`s after the split, consumers re-routed) never produce
  a use-before-definition or a duplicate node — the part of "runs without error on any module" that
  is about the rewritten graph itself.
-/
import USModel
import USProofs.Properties.C16Deps
import USProofs.Properties.C19Reach
import Mathlib.Data.List.Nodup

open USModel

namespace USProofs.C16

def ids (g : IGraph) : List Nat := g.map (·.id)

/-- `a` occurs strictly before an occurrence of `b` -/
def BeforeL (l : List Nat) (a b : Nat) : Prop := ∃ p s, l = p ++ b :: s ∧ a ∈ p

/-- topological order, stated on the id list -/
def TopoL (g : IGraph) : Prop :=
  (ids g).Nodup ∧ ∀ x ∈ g, ∀ a ∈ x.n.inputs, BeforeL (ids g) a x.id

theorem BeforeL.sublist {l l' : List Nat} (h : l.Sublist l') {a b : Nat} (hb : BeforeL l a b) : BeforeL l' a b := by
  obtain ⟨p, s, rfl, ha⟩ := hb
  obtain ⟨r1, r2, rfl, h1, h2⟩ := List.append_sublist_iff.mp h
  have hbm : b ∈ r2 := h2.subset (by simp)
  obtain ⟨q, t, rfl⟩ := List.append_of_mem hbm
  exact ⟨r1 ++ q, t, by simp, List.mem_append_left _ (h1.subset ha)⟩

theorem BeforeL.mem_left {l : List Nat} {a b : Nat} (h : BeforeL l a b) : a ∈ l := by
  obtain ⟨p, s, rfl, ha⟩ := h; simp [ha]

theorem nodup_split_unique {l p s p' s' : List Nat} {b : Nat} (hn : l.Nodup) (e : l = p ++ b :: s) (e' : l = p' ++ b :: s') :
    p = p' := by
  subst e
  induction p generalizing p' with
  | nil =>
    cases p' with
    | nil => rfl
    | cons c p'' =>
      simp only [List.nil_append, List.cons_append, List.cons.injEq] at e'
      obtain ⟨rfl, e2⟩ := e'
      have : b ∉ s := (List.nodup_cons.mp hn).1
      exact absurd (by rw [e2]; simp) this
  | cons c p ih =>
    cases p' with
    | nil =>
      simp only [List.nil_append, List.cons_append, List.cons.injEq] at e'
      obtain ⟨rfl, e2⟩ := e'
      have : c ∉ p ++ c :: s := (List.nodup_cons.mp hn).1
      exact absurd (by simp) this
    | cons c' p'' =>
      simp only [List.cons_append, List.cons.injEq] at e'
      obtain ⟨rfl, e2⟩ := e'
      rw [ih (List.nodup_cons.mp hn).2 e2]

theorem ids_append (p s : IGraph) : ids (p ++ s) = ids p ++ ids s := by simp [ids]

/-- the two formulations of topological order agree (the decomposition form is the one `deps_spec` uses) -/
theorem topo_of_topo' {g : IGraph} (h : TopoL g) : Topo g := by
  rw [topo_iff]
  intro p x s e
  obtain ⟨hn, hin⟩ := h
  have hx : x ∈ g := by simp [e]
  have hidl : ids g = ids p ++ x.id :: ids s := by simp [e, ids]
  constructor
  · intro a ha
    obtain ⟨p', s', e', hap⟩ := hin x hx a ha
    have : ids p = p' := nodup_split_unique hn hidl e'
    rw [← this] at hap
    simpa [ids] using hap
  · intro y hy e'
    rw [hidl] at hn
    have := (List.nodup_append.mp hn).2.2 y.id (by simp [ids]; exact ⟨y, hy, rfl⟩) x.id (by simp)
    exact this e'

theorem topoL_of_topo {g : IGraph} (h : Topo g) : TopoL g := by
  induction g using List.reverseRecOn with
  | nil => exact ⟨by simp [ids], by simp⟩
  | append_singleton p x ih =>
    obtain ⟨hn, hin⟩ := ih h.prefix
    obtain ⟨hxin, hxid⟩ := h.last
    refine ⟨?_, ?_⟩
    · rw [ids_append]
      simp only [ids, List.map_cons, List.map_nil]
      rw [List.nodup_append]
      refine ⟨hn, by simp, ?_⟩
      intro a ha b hb
      simp only [List.mem_singleton] at hb
      subst hb
      obtain ⟨y, hy, rfl⟩ := List.mem_map.mp ha
      exact hxid y hy
    · intro y hy a ha
      rcases List.mem_append.mp hy with hy | hy
      · exact (hin y hy a ha).sublist (by rw [ids_append]; exact List.sublist_append_left _ _)
      · have : y = x := by simpa using hy
        subst this
        obtain ⟨z, hz, rfl⟩ := hxin a ha
        refine ⟨ids p, [], by simp [ids], ?_⟩
        exact List.mem_map.mpr ⟨z, hz, rfl⟩

/-! ### maps that keep ids and do not add inputs -/

theorem topoL_map {g : IGraph} (f : INode → INode) (hid : ∀ x, (f x).id = x.id)
    (hin : ∀ x ∈ g, ∀ a ∈ (f x).n.inputs, a ∈ x.n.inputs) (h : TopoL g) : TopoL (g.map f) := by
  have hids : ids (g.map f) = ids g := by
    simp only [ids, List.map_map]; exact List.map_congr_left (fun x _ => hid x)
  refine ⟨hids ▸ h.1, ?_⟩
  intro y hy a ha
  obtain ⟨x, hx, rfl⟩ := List.mem_map.mp hy
  rw [hids, hid]
  exact h.2 x hx a (hin x hx a ha)

/-! ### insertion of a fresh node right after an existing one -/

theorem insertIdx_append_succ {α : Type} (p s : List α) (y z : α) :
    (p ++ y :: s).insertIdx (p.length + 1) z = p ++ y :: z :: s := by
  induction p with
  | nil => simp [List.insertIdx_succ_cons, List.insertIdx_zero]
  | cons c p ih => simp only [List.cons_append, List.length_cons, List.insertIdx_succ_cons, ih]

theorem insertAfter_eq {g : IGraph} {after : Nat} (z : INode) (p s : IGraph) (y : INode) (hy : y.id = after)
    (e : g = p ++ y :: s) (hp : ∀ w ∈ p, w.id ≠ after) : IGraph.insertAfter g after z = p ++ y :: z :: s := by
  have hidx : g.findIdx? (·.id == after) = some p.length := by
    rw [e, List.findIdx?_append]
    have : p.findIdx? (·.id == after) = none := by
      rw [List.findIdx?_eq_none_iff]; intro w hw; simpa using hp w hw
    simp [this, hy, List.findIdx?_cons]
  unfold IGraph.insertAfter
  rw [hidx, e]
  exact insertIdx_append_succ p s y z

theorem exists_first {g : IGraph} {after : Nat} (h : after ∈ ids g) :
    ∃ p y s, g = p ++ y :: s ∧ y.id = after ∧ ∀ w ∈ p, w.id ≠ after := by
  induction g with
  | nil => simp [ids] at h
  | cons x rest ih =>
    by_cases hx : x.id = after
    · exact ⟨[], x, rest, rfl, hx, by simp⟩
    · have : after ∈ ids rest := by
        simp only [ids, List.map_cons, List.mem_cons] at h
        rcases h with h | h
        · exact absurd h.symm hx
        · exact h
      obtain ⟨p, y, s, e, hy, hp⟩ := ih this
      refine ⟨x :: p, y, s, by simp [e], hy, ?_⟩
      intro w hw
      rcases List.mem_cons.mp hw with rfl | hw
      · exact hx
      · exact hp w hw

/-- inserting a node with a fresh id and inputs `[after]` right after node `after` keeps the graph
    topologically ordered, and everything that came after `after` now comes after the new node -/
theorem topoL_insertAfter {g : IGraph} (h : TopoL g) (after : Nat) (z : INode) (hmem : after ∈ ids g)
    (hfresh : z.id ∉ ids g) (hzin : ∀ a ∈ z.n.inputs, a = after) :
    TopoL (IGraph.insertAfter g after z) ∧ (ids g).Sublist (ids (IGraph.insertAfter g after z)) ∧
    (∀ b, BeforeL (ids g) after b → BeforeL (ids (IGraph.insertAfter g after z)) z.id b) ∧
    (∀ w, w ∈ IGraph.insertAfter g after z ↔ w ∈ g ∨ w = z) ∧
    BeforeL (ids (IGraph.insertAfter g after z)) after z.id := by
  obtain ⟨p, y, s, e, hy, hp⟩ := exists_first hmem
  have hg' := insertAfter_eq z p s y hy e hp
  have hids : ids g = ids p ++ after :: ids s := by simp [e, ids, hy]
  have hids' : ids (IGraph.insertAfter g after z) = ids p ++ after :: z.id :: ids s := by simp [hg', ids, hy]
  have hsub : (ids g).Sublist (ids (IGraph.insertAfter g after z)) := by
    rw [hids, hids']
    exact List.Sublist.append_left (List.Sublist.cons_cons _ (List.sublist_cons_self _ _)) _
  have hbefore : BeforeL (ids (IGraph.insertAfter g after z)) after z.id :=
    ⟨ids p ++ [after], ids s, by simp [hids'], by simp⟩
  have hmemw : ∀ w, w ∈ IGraph.insertAfter g after z ↔ w ∈ g ∨ w = z := by
    intro w; rw [hg', e]; simp only [List.mem_append, List.mem_cons]; tauto
  refine ⟨⟨?_, ?_⟩, hsub, ?_, hmemw, hbefore⟩
  · -- nodup
    rw [hids']
    have hn := h.1
    rw [hids] at hn hfresh
    have hz1 : z.id ∉ ids p := fun hc => hfresh (by simp [hc])
    have hz2 : z.id ≠ after := fun hc => hfresh (by simp [hc])
    have hz3 : z.id ∉ ids s := fun hc => hfresh (by simp [hc])
    rw [List.nodup_append] at hn ⊢
    obtain ⟨n1, n2, n3⟩ := hn
    rw [List.nodup_cons] at n2
    refine ⟨n1, ?_, ?_⟩
    · rw [List.nodup_cons, List.nodup_cons]
      refine ⟨?_, hz3, n2.2⟩
      simp only [List.mem_cons, not_or]
      exact ⟨fun hc => hz2 hc.symm, n2.1⟩
    · intro a ha b hb
      simp only [List.mem_cons] at hb
      rcases hb with rfl | rfl | hb
      · exact n3 a ha _ (by simp)
      · intro hc; exact hz1 (hc ▸ ha)
      · exact n3 a ha b (by simp [hb])
  · intro w hw a ha
    rcases (hmemw w).mp hw with hw | rfl
    · exact (h.2 w hw a ha).sublist hsub
    · rw [hzin a ha]; exact hbefore
  · -- everything after `after` is after the new node
    intro b hb
    obtain ⟨p', s', e', hap⟩ := hb
    -- the occurrence of `after` is unique: it lies in p', so p' = ids p ++ after :: q
    obtain ⟨q1, q2, rfl⟩ := List.append_of_mem hap
    have e'' : ids g = q1 ++ after :: (q2 ++ b :: s') := by rw [e']; simp
    have hq : ids p = q1 := nodup_split_unique h.1 hids e''
    subst hq
    have hs : ids s = q2 ++ b :: s' := by
      have := hids.symm.trans e''
      simpa using this
    refine ⟨ids p ++ after :: z.id :: q2, s', by rw [hids', hs]; simp, by simp⟩

end USProofs.C16

namespace USProofs.C16
open USProofs.C19 (rewired prune_inputs)

/-! ### `_unit_scale_residual` keeps the graph topologically ordered -/

theorem topoL_map_gen {g : IGraph} (F : INode → INode) (hid : ∀ x, (F x).id = x.id) (h : TopoL g)
    (hin : ∀ x ∈ g, ∀ a ∈ (F x).n.inputs, BeforeL (ids g) a x.id) : TopoL (g.map F) := by
  have hids : ids (g.map F) = ids g := by
    simp only [ids, List.map_map]; exact List.map_congr_left (fun x _ => hid x)
  refine ⟨hids ▸ h.1, ?_⟩
  intro y hy a ha
  obtain ⟨x, hx, rfl⟩ := List.mem_map.mp hy
  rw [hids, hid]
  exact hin x hx a ha

theorem insertAfter_map {g : IGraph} (f f' : INode → INode) (after : Nat) (z : INode)
    (hid : ∀ x, (f x).id = x.id) (hz : f' z = z) (hf : ∀ x ∈ g, f' x = f x) (hmem : after ∈ ids g) :
    IGraph.insertAfter (g.map f) after z = (IGraph.insertAfter g after z).map f' := by
  obtain ⟨p, y, s, e, hy, hp⟩ := exists_first hmem
  rw [insertAfter_eq z p s y hy e hp]
  have e' : g.map f = p.map f ++ f y :: s.map f := by simp [e]
  rw [insertAfter_eq z (p.map f) (s.map f) (f y) (by rw [hid]; exact hy) e'
    (by intro w hw; obtain ⟨w0, hw0, rfl⟩ := List.mem_map.mp hw; rw [hid]; exact hp w0 hw0)]
  have hpm : p.map f' = p.map f := List.map_congr_left (fun x hx => hf x (by simp [e, hx]))
  have hsm : s.map f' = s.map f := List.map_congr_left (fun x hx => hf x (by simp [e, hx]))
  simp [hpm, hsm, hz, hf y (by simp [e])]

theorem lt_freshId (g : IGraph) : ∀ x ∈ g, x.id < g.freshId := by
  have key : ∀ (l : IGraph) (m : Nat), (∀ x ∈ l, x.id ≤ l.foldl (fun m x => max m x.id) m) ∧ m ≤ l.foldl (fun m x => max m x.id) m := by
    intro l
    induction l with
    | nil => intro m; simp
    | cons c rest ih =>
      intro m
      simp only [List.foldl_cons, List.mem_cons, forall_eq_or_imp]
      obtain ⟨h1, h2⟩ := ih (max m c.id)
      exact ⟨⟨Nat.le_trans (Nat.le_max_right _ _) h2, h1⟩, Nat.le_trans (Nat.le_max_left _ _) h2⟩
  intro x hx
  unfold IGraph.freshId
  exact Nat.lt_succ_of_le ((key g 0).1 x hx)

theorem fresh_not_mem (g : IGraph) (k : Nat) : g.freshId + k ∉ ids g := by
  intro h
  obtain ⟨x, hx, e⟩ := List.mem_map.mp h
  have := lt_freshId g x hx
  omega

theorem refs_sub_of_mem {a : Arg} {args : List Arg} (h : a ∈ args) : ∀ c ∈ a.refs, c ∈ Arg.refsList args := by
  induction args with
  | nil => simp at h
  | cons b rest ih =>
    intro c hc
    simp only [Arg.refsList, List.mem_append]
    rcases List.mem_cons.mp h with rfl | h
    · exact Or.inl hc
    · exact Or.inr (ih h c hc)

theorem mem_inputs_of_args {n : GNode} {c : Nat} (h : c ∈ Arg.refsList n.args) : c ∈ n.inputs := by
  simp only [GNode.inputs, List.mem_eraseDups, List.mem_append]; exact Or.inl h

theorem mem_inputs_iff (n : GNode) (c : Nat) :
    c ∈ n.inputs ↔ c ∈ Arg.refsList n.args ∨ c ∈ Arg.refsList (n.kwargs.map (·.2)) := by
  simp only [GNode.inputs, List.mem_eraseDups, List.mem_append]

theorem eq_of_id_eq {g : IGraph} (hn : (ids g).Nodup) {x y : INode} (hx : x ∈ g) (hy : y ∈ g) (e : x.id = y.id) : x = y :=
  List.inj_on_of_nodup_map hn hx hy e

theorem replaceRefsIn_eq (old new : Nat) (x : INode) :
    ({ x with n := replaceRefsIn old new x.n } : INode) = rewired old (some new) x := rfl

/-- **`rewriteResidual` preserves topological order**, whatever add, operand index and flag it is given. -/
theorem topoL_rewriteResidual (g : IGraph) (addId idx : Nat) (sa : Bool) (h : TopoL g) :
    TopoL (rewriteResidual g addId idx sa) := by
  unfold rewriteResidual
  cases hget : g.get? addId with
  | none => exact h
  | some a =>
    simp only
    cases hres : a.n.args[idx]? with
    | none => exact h
    | some residual =>
      cases hsk : a.n.args[1 - idx]? with
      | none => exact h
      | some sk =>
        cases sk with
        | lit _ => exact h
        | seq _ _ => exact h
        | ref skip =>
          simp only
          -- facts about the add node and the skip operand
          have ha : a ∈ g := List.mem_of_find?_eq_some hget
          have haid : a.id = addId := by
            have := List.find?_some hget; simpa using this
          have hskip_arg : Arg.ref skip ∈ a.n.args := List.mem_of_getElem? hsk
          have hres_arg : residual ∈ a.n.args := List.mem_of_getElem? hres
          have hskip_in : skip ∈ a.n.inputs := mem_inputs_of_args (refs_sub_of_mem hskip_arg skip (by simp [Arg.refs]))
          have hskip_before : BeforeL (ids g) skip addId := haid ▸ h.2 a ha skip hskip_in
          have hskip_mem : skip ∈ ids g := hskip_before.mem_left
          -- the three inserted nodes
          generalize hid0 : g.freshId = id0
          have hf0 : id0 ∉ ids g := by have := fresh_not_mem g 0; simpa [hid0] using this
          have hf1 : id0 + 1 ∉ ids g := by have := fresh_not_mem g 1; simpa [hid0] using this
          have hf2 : id0 + 2 ∉ ids g := by have := fresh_not_mem g 2; simpa [hid0] using this
          have hlt : ∀ x ∈ g, x.id < id0 := by intro x hx; rw [← hid0]; exact lt_freshId g x hx
          set tau : Arg := Arg.lit (if sa then "0.01" else "0.5") with htau
          set split : INode := ⟨id0, { op := "call_function", target := "U.residual_split", args := [.ref skip, tau], kwargs := [] }⟩ with hsplit
          set start : INode := ⟨id0 + 1, { op := "call_function", target := "op.getitem", args := [.ref id0, .lit "0"], kwargs := [] }⟩ with hstart
          set nskip : INode := ⟨id0 + 2, { op := "call_function", target := "op.getitem", args := [.ref id0, .lit "1"], kwargs := [] }⟩ with hnskip
          -- insert the three nodes into the *original* graph
          have hsplit_in : ∀ c ∈ split.n.inputs, c = skip := by
            intro c hc
            rcases (mem_inputs_iff _ _).mp hc with hc | hc
            · simpa [hsplit, Arg.refsList, Arg.refs, htau] using hc
            · simp [hsplit, Arg.refsList] at hc
          have hstart_in : ∀ c ∈ start.n.inputs, c = id0 := by
            intro c hc
            rcases (mem_inputs_iff _ _).mp hc with hc | hc
            · simpa [hstart, Arg.refsList, Arg.refs] using hc
            · simp [hstart, Arg.refsList] at hc
          have hnskip_in : ∀ c ∈ nskip.n.inputs, c = id0 := by
            intro c hc
            rcases (mem_inputs_iff _ _).mp hc with hc | hc
            · simpa [hnskip, Arg.refsList, Arg.refs] using hc
            · simp [hnskip, Arg.refsList] at hc
          obtain ⟨t1, s1, b1, m1, bs1⟩ := topoL_insertAfter h skip split hskip_mem hf0 hsplit_in
          set h1 := IGraph.insertAfter g skip split with hh1
          have hid0_mem1 : id0 ∈ ids h1 := by
            have : split ∈ h1 := (m1 split).mpr (Or.inr rfl)
            exact List.mem_map.mpr ⟨split, this, rfl⟩
          have hids1 : ∀ c, c ∈ ids h1 → c ∈ ids g ∨ c = id0 := by
            intro c hc
            obtain ⟨w, hw, rfl⟩ := List.mem_map.mp hc
            rcases (m1 w).mp hw with hw | rfl
            · exact Or.inl (List.mem_map.mpr ⟨w, hw, rfl⟩)
            · exact Or.inr rfl
          have hf1' : start.id ∉ ids h1 := by
            intro hc; rcases hids1 _ hc with hc | hc
            · exact hf1 hc
            · simp [hstart] at hc
          obtain ⟨t2, s2, b2, m2, bs2⟩ := topoL_insertAfter t1 id0 start hid0_mem1 hf1' hstart_in
          set h2 := IGraph.insertAfter h1 id0 start with hh2
          have hid0_mem2 : id0 ∈ ids h2 := s2.subset hid0_mem1
          have hids2 : ∀ c, c ∈ ids h2 → c ∈ ids g ∨ c = id0 ∨ c = id0 + 1 := by
            intro c hc
            obtain ⟨w, hw, rfl⟩ := List.mem_map.mp hc
            rcases (m2 w).mp hw with hw | rfl
            · rcases hids1 _ (List.mem_map.mpr ⟨w, hw, rfl⟩) with h' | h'
              · exact Or.inl h'
              · exact Or.inr (Or.inl h')
            · exact Or.inr (Or.inr rfl)
          have hf2' : nskip.id ∉ ids h2 := by
            intro hc; rcases hids2 _ hc with hc | hc | hc
            · exact hf2 hc
            · simp [hnskip] at hc
            · simp [hnskip] at hc
          obtain ⟨t3, s3, b3, m3, bs3⟩ := topoL_insertAfter t2 id0 nskip hid0_mem2 hf2' hnskip_in
          set h3 := IGraph.insertAfter h2 id0 nskip with hh3
          have hsub : (ids g).Sublist (ids h3) := (s1.trans s2).trans s3
          -- the rewritten graph is a map of h3
          let f1 : INode → INode := fun x =>
            if x.id != addId && x.n.inputs.contains skip then { x with n := replaceRefsIn skip (id0 + 1) x.n } else x
          let f' : INode → INode := fun x => if id0 ≤ x.id then x else f1 x
          have hf1id : ∀ x, (f1 x).id = x.id := by intro x; simp only [f1]; split <;> rfl
          have hf'id : ∀ x, (f' x).id = x.id := by intro x; simp only [f']; split; rfl; exact hf1id x
          have hf'g : ∀ x ∈ g, f' x = f1 x := by
            intro x hx; simp only [f']; rw [if_neg]; exact Nat.not_le.mpr (hlt x hx)
          have hf'1 : ∀ x ∈ h1, f' x = (f' x) := fun _ _ => rfl
          have e1 : IGraph.insertAfter (g.map f1) skip split = h1.map f' :=
            insertAfter_map f1 f' skip split hf1id (by simp [f', hsplit]) hf'g hskip_mem
          have e2 : IGraph.insertAfter (h1.map f') id0 start = h2.map f' :=
            insertAfter_map f' f' id0 start hf'id (by simp [f', hstart]) (fun _ _ => rfl) hid0_mem1
          have e3 : IGraph.insertAfter (h2.map f') id0 nskip = h3.map f' :=
            insertAfter_map f' f' id0 nskip hf'id (by simp [f', hnskip]) (fun _ _ => rfl) hid0_mem2
          have eg : IGraph.insertAfter (IGraph.insertAfter (IGraph.insertAfter (g.map f1) skip split) id0 start) id0 nskip
              = h3.map f' := by rw [e1, e2, e3]
          show TopoL ((IGraph.insertAfter (IGraph.insertAfter (IGraph.insertAfter (g.map f1) skip split) id0 start) id0 nskip).map _)
          rw [eg, List.map_map]
          apply topoL_map_gen _ _ t3
          · -- inputs of every node of the final graph come earlier
            intro x hx c hc
            have hx' : x ∈ g ∨ x = split ∨ x = start ∨ x = nskip := by
              rcases (m3 x).mp hx with hx | hx
              · rcases (m2 x).mp hx with hx | hx
                · rcases (m1 x).mp hx with hx | hx
                  · exact Or.inl hx
                  · exact Or.inr (Or.inl hx)
                · exact Or.inr (Or.inr (Or.inl hx))
              · exact Or.inr (Or.inr (Or.inr hx))
            have haddlt : addId < id0 := haid ▸ hlt a ha
            -- ids of the inserted nodes differ from addId, and the inserted nodes are left alone
            have hnew : ∀ y : INode, id0 ≤ y.id → y ∈ h3 →
                ∀ c ∈ (((fun x : INode => if x.id == addId then
                    ({ x with n := { x.n with target := "U.residual_add", args := [residual, .ref (id0 + 2), tau] } } : INode) else x) ∘ f') y).n.inputs,
                  BeforeL (ids h3) c y.id := by
              intro y hy hy3 c hc
              have hne : (y.id == addId) = false := by
                rw [beq_eq_false_iff_ne]; omega
              simp only [Function.comp, f', if_pos hy, hne] at hc
              exact t3.2 y hy3 c hc
            rcases hx' with hxg | rfl | rfl | rfl
            · have hxlt := hlt x hxg
              have hf'x : f' x = f1 x := hf'g x hxg
              by_cases hadd : x.id = addId
              · -- the add itself
                have hxa : x = a := eq_of_id_eq h.1 hxg ha (hadd.trans haid.symm)
                subst hxa
                have hf1x : f1 x = x := by simp [f1, hadd]
                simp only [Function.comp, hf'x, hf1x, hadd, beq_self_eq_true, if_true] at hc
                rcases (mem_inputs_iff _ _).mp hc with hc | hc
                · simp only [Arg.refsList, List.mem_append, Arg.refs, List.mem_singleton, List.append_nil] at hc
                  rcases hc with hc | hc | hc
                  · exact (h.2 x hxg c (mem_inputs_of_args (refs_sub_of_mem hres_arg c hc))).sublist hsub
                  · -- the new skip operand
                    subst hc
                    have q1 : BeforeL (ids h1) id0 addId := b1 addId hskip_before
                    have q2 : BeforeL (ids h2) id0 addId := q1.sublist s2
                    have q3 := b3 addId q2
                    rw [← hadd] at q3
                    simpa [hnskip] using q3
                  · simp [htau, Arg.refs] at hc
                · exact (h.2 x hxg c ((mem_inputs_iff _ _).mpr (Or.inr hc))).sublist hsub
              · have hne : (x.id == addId) = false := by rw [beq_eq_false_iff_ne]; exact hadd
                simp only [Function.comp, hf'x, hne] at hc
                by_cases hcs : x.n.inputs.contains skip = true
                · have hb : (x.id != addId) = true := by rw [bne_iff_ne]; exact hadd
                  have hf1x : f1 x = rewired skip (some (id0 + 1)) x := by
                    simp only [f1, hb, hcs, Bool.and_self, if_true]; rfl
                  rw [hf1x] at hc
                  have hid' : ((rewired skip (some (id0 + 1)) x).id == addId) = false := hne
                  simp only [hid', Bool.false_eq_true, if_false] at hc
                  rcases (prune_inputs skip (id0 + 1) x c).mp hc with ⟨hc1, _⟩ | ⟨hc1, hc2⟩
                  · exact (h.2 x hxg c hc1).sublist hsub
                  · subst hc1
                    have q0 : BeforeL (ids g) skip x.id := h.2 x hxg skip hc2
                    have q1 : BeforeL (ids h1) id0 x.id := b1 x.id q0
                    have q2 := b2 x.id q1
                    have q3 := q2.sublist s3
                    simpa [hstart] using q3
                · have hcond : (x.id != addId && x.n.inputs.contains skip) = false := by
                    cases hh : x.n.inputs.contains skip
                    · simp
                    · exact absurd hh hcs
                  have hf1x : f1 x = x := by
                    simp only [f1, hcond, Bool.false_eq_true, if_false]
                  rw [hf1x] at hc
                  simp only [hne, Bool.false_eq_true, if_false] at hc
                  exact (h.2 x hxg c hc).sublist hsub
            · exact hnew split (by simp [hsplit]) hx c hc
            · exact hnew start (by simp [hstart]) hx c hc
            · exact hnew nskip (by simp [hnskip]) hx c hc
          · intro x
            simp only [Function.comp]
            split
            · exact hf'id x
            · exact hf'id x

end USProofs.C16

namespace USProofs.C16

/-! ### the whole rewriting stage -/

theorem refsList_map_snd_mem {kw : List (String × Arg)} {c : Nat} :
    c ∈ Arg.refsList (kw.map (·.2)) ↔ ∃ kv ∈ kw, c ∈ kv.2.refs := by
  induction kw with
  | nil => simp [Arg.refsList]
  | cons kv rest ih =>
    simp only [List.map_cons, Arg.refsList, List.mem_append, ih, List.mem_cons, exists_eq_or_imp]

theorem setKw_lit_inputs (n : GNode) (t k s : String) (c : Nat)
    (hc : c ∈ ({ n with target := t, kwargs := setKw n.kwargs k (.lit s) } : GNode).inputs) : c ∈ n.inputs := by
  rcases (mem_inputs_iff _ _).mp hc with hc | hc
  · exact (mem_inputs_iff _ _).mpr (Or.inl hc)
  · refine (mem_inputs_iff _ _).mpr (Or.inr ?_)
    obtain ⟨kv, hkv, hcr⟩ := refsList_map_snd_mem.mp hc
    simp only [setKw, eraseKw, List.mem_append, List.mem_filter, List.mem_singleton] at hkv
    rcases hkv with ⟨hkv, _⟩ | rfl
    · exact refsList_map_snd_mem.mpr ⟨kv, hkv, hcr⟩
    · simp [Arg.refs] at hcr

theorem topoL_foldl_rewrite (kinds : List (Nat × AddKind)) (g : IGraph) (h : TopoL g) :
    TopoL (kinds.foldl (fun (g : IGraph) (p : Nat × AddKind) =>
      match p.2 with
      | .residual idx sa => rewriteResidual g p.1 idx sa
      | .plain => g) g) := by
  induction kinds generalizing g with
  | nil => exact h
  | cons p rest ih =>
    simp only [List.foldl_cons]
    apply ih
    cases p.2 with
    | residual idx sa => exact topoL_rewriteResidual g p.1 idx sa h
    | plain => exact h

/-- **The graph handed to the last pass is topologically ordered with distinct ids**, for every
    well-formed FX graph and every user replacement map. -/
theorem rewritten_topo (user : List (String × String)) (g0 : Graph) (hw : g0.wellFormed = true) :
    Topo (rewritten user g0) := by
  apply topo_of_topo'
  unfold rewritten
  simp only
  apply topoL_foldl_rewrite
  apply topoL_map
  · intro x; split <;> rfl
  · intro x _ a ha
    split at ha
    · exact setKw_lit_inputs x.n "U.add" "constraint" "None" a ha
    · exact ha
  · exact topoL_of_topo (topo_of_skeleton (sweep_skeleton user _) (topo_ofGraph g0 hw))

/-- the model's run-time check can never fail on a well-formed graph (it is kept as a cross-check
    of the driver against this theorem) -/
theorem rewritten_nodup (user : List (String × String)) (g0 : Graph) (hw : g0.wellFormed = true) :
    (ids (rewritten user g0)).Nodup := (topoL_of_topo (rewritten_topo user g0 hw)).1

/-! ### the last-pass theorems without premise -/

/-- **Operations with no later residual addition are unconstrained; all others keep their
    arguments** — for every well-formed graph (any size, any nesting of residual blocks). -/
theorem last_pass_spec (user : List (String × String)) (uct : List String) (g0 : Graph) (hw : g0.wellFormed = true)
    (k : Nat) (x : INode) (hx : (rewritten user g0)[k]? = some x) :
    (HasLaterResidual (rewritten user g0) x.id → (unconstrainPass uct (rewritten user g0))[k]? = some x) ∧
    (¬ HasLaterResidual (rewritten user g0) x.id → x.n.op = "call_function" →
      (x.n.target ∈ constraintTargets ∨ x.n.target ∈ uct) →
      (unconstrainPass uct (rewritten user g0))[k]? =
        some { x with n := { x.n with kwargs := setKw x.n.kwargs "constraint" (.lit "None") } }) :=
  ⟨constrained_kept uct _ (rewritten_topo user g0 hw) k x hx,
   unconstrained_set uct _ (rewritten_topo user g0 hw) k x hx⟩

/-- the dependency table of the rewritten graph is its transitive-input relation -/
theorem rewritten_deps_spec (user : List (String × String)) (g0 : Graph) (hw : g0.wellFormed = true) (a b : Nat) :
    a ∈ ((allDeps (rewritten user g0)).lookup b).getD [] ↔ Reach (rewritten user g0) a b :=
  (deps_spec _ (rewritten_topo user g0 hw)).2 a b

end USProofs.C16
