/-
  C13 — the format's subnormal range (inputs below the smallest normal value of the format), E ≤ 7.

  Here the down-scaling division is itself rounded (to float32's subnormal grid, round-to-nearest-even) before the
  integer core rounds to the format's grid: the property's "no farther than the nearer neighbour plus 2^(M-23) of the
  local spacing (float32 arithmetic)".  Proved on values, end to end, for the definition the driver executes.
-/
import USModel
import USProofs.Properties.C13Capstone

open USModel USModel.F32

namespace USProofs.C13

/-- round-to-nearest-even shift: the result times `2^sh` is within half of `2^sh` of the argument -/
theorem rneShift_near (x sh : ℕ) (hsh : 1 ≤ sh) :
    rneShift x sh * 2 ^ sh ≤ x + 2 ^ (sh - 1) ∧ x ≤ rneShift x sh * 2 ^ sh + 2 ^ (sh - 1) := by
  have hne : ¬ sh = 0 := by omega
  have h2 : 2 ^ sh = 2 * 2 ^ (sh - 1) := by
    have : sh = (sh - 1) + 1 := by omega
    conv_lhs => rw [this, pow_succ]
    ring
  have hP : 0 < 2 ^ (sh - 1) := by positivity
  have hdm := Nat.div_add_mod x (2 ^ sh)
  have hlt : x % 2 ^ sh < 2 ^ sh := Nat.mod_lt _ (by positivity)
  simp only [rneShift, hne, if_false]
  generalize hq : x / 2 ^ sh = q at *
  generalize hr : x % 2 ^ sh = r at *
  generalize hH : 2 ^ (sh - 1) = H at *
  generalize hS : 2 ^ sh = S at *
  have e1 : (q + 1) * S = S * q + S := by ring
  have e2 : q * S = S * q := Nat.mul_comm _ _
  split_ifs <;> constructor <;> omega

theorem rneShift_le (x sh : ℕ) : rneShift x sh ≤ x / 2 ^ sh + 1 := by
  unfold rneShift
  by_cases h : sh = 0
  · simp [h]
  · simp only [h, if_false]
    split_ifs <;> omega

/-- patterns up to the first normal one have value `pattern · 2^-149` -/
theorem val_small (q : ℕ) (hq : q ≤ 2 ^ 23) : val q = (q : ℚ) * (2 : ℚ) ^ (-149 : ℤ) := by
  rcases Nat.lt_or_eq_of_le hq with h | h
  · simp only [val, h, if_true]
  · subst h
    have : ¬ ((2 : ℕ) ^ 23 < 2 ^ 23) := lt_irrefl _
    simp only [val, this, if_false, Nat.mod_self, Nat.div_self (show 0 < 2 ^ 23 by positivity), Nat.add_zero]
    have : (((1 : ℕ) : ℤ) - 150) = (-149 : ℤ) - 1 + 1 := by norm_num
    norm_num

/-- doubling a float32-subnormal pattern doubles its value (it may become normal) -/
theorem val_double (r : ℕ) (hr : r < 2 ^ 23) : val (2 * r) = 2 * val r := by
  rcases Nat.lt_or_ge (2 * r) (2 ^ 23) with h | h
  · rw [val_small _ (le_of_lt h), val_small _ (le_of_lt hr)]; push_cast; ring
  · have he : (2 * r) / 2 ^ 23 = 1 := by
      apply Nat.div_eq_of_lt_le <;> omega
    have hm : (2 * r) % 2 ^ 23 = 2 * r - 2 ^ 23 := by
      rw [Nat.mod_eq_sub_mod h, Nat.mod_eq_of_lt (by omega)]
    have hn : ¬ (2 * r < 2 ^ 23) := by omega
    rw [val_small _ (le_of_lt hr)]
    simp only [val, hn, if_false, he, hm]
    have : 2 ^ 23 + (2 * r - 2 ^ 23) = 2 * r := by omega
    rw [this]
    have hz : (2 : ℚ) ^ (((1 : ℕ) : ℤ) - 150) = (2 : ℚ) ^ (-149 : ℤ) := by norm_num
    rw [hz]; push_cast; ring

/-- up-scaling by `2^d` multiplies the value by `2^d`, for every pattern (float32-subnormal or normal), as long as
    the result does not overflow -/
theorem val_mulPow2_any : ∀ (d r : ℕ), expo r + d < 255 → val (mulPow2 r d) = val r * (2 : ℚ) ^ (d : ℤ) := by
  intro d
  induction d with
  | zero => intro r _; simp [mulPow2]
  | succ d ih =>
    intro r h
    by_cases h0 : r = 0
    · subst h0; simp [mulPow2, val]
    by_cases he : expo r = 0
    · have hr : r < 2 ^ 23 := by
        unfold expo at he
        exact (Nat.div_eq_zero_iff.mp he).resolve_left (by positivity)
      have hstep : mulPow2 r (d + 1) = mulPow2 (2 * r) d := by
        simp [mulPow2, h0, he]
      have hexp2 : expo (2 * r) ≤ 1 := by
        apply expo_lt_of; omega
      rw [hstep, ih (2 * r) (by omega), val_double r hr]
      have : (2 : ℚ) ^ (((d + 1 : ℕ)) : ℤ) = 2 * (2 : ℚ) ^ (d : ℤ) := by
        push_cast; rw [zpow_add₀ (by norm_num : (2 : ℚ) ≠ 0), zpow_one]; ring
      rw [this]; ring
    · exact val_mulPow2 r (d + 1) (by omega) h

theorem bias_le_126 (E : ℕ) (hB : 2 ^ (E - 1) ≤ 127) : 2 ^ (E - 1) ≤ 126 := by
  rcases Nat.eq_zero_or_pos (E - 1) with h | h
  · rw [h]; norm_num
  · have : 2 ∣ 2 ^ (E - 1) := dvd_pow_self 2 (by omega)
    omega

section subnormal
variable (E M n : ℕ) (hE : 1 ≤ E) (hB : 2 ^ (E - 1) ≤ 127) (hM : M ≤ 23)
  (hsub : expo n ≤ 127 - 2 ^ (E - 1))
include hE hB hM hsub

/-- the significand and the shift `divPow2` uses below the format's normal range -/
def sigOf (n : ℕ) : ℕ := if expo n = 0 then mant n else 2 ^ 23 + mant n
def shOf (E n : ℕ) : ℕ := (127 - 2 ^ (E - 1)) + 1 - (if expo n = 0 then 1 else expo n)

omit hE hB hM hsub in
theorem val_sig (n : ℕ) : val n = (sigOf n : ℚ) * (2 : ℚ) ^ (((if expo n = 0 then 1 else expo n : ℕ) : ℤ) - 150) := by
  unfold sigOf
  by_cases he : expo n = 0
  · have hn : n < 2 ^ 23 := by
      unfold expo at he
      exact (Nat.div_eq_zero_iff.mp he).resolve_left (by positivity)
    have hm : mant n = n := by unfold mant; exact Nat.mod_eq_of_lt hn
    simp only [he, if_true, hm]
    rw [val_small n (le_of_lt hn)]
    norm_num
  · simp only [he, if_false]
    exact val_of_fields n (by omega)

/-- closed form below the normal range: round the significand to float32's subnormal grid, then to the format's
    grid, then scale back -/
theorem quantMag_sub_eq (off : ℕ) :
    quantMag E M off n =
      mulPow2 (roundCore (23 - M) off (rneShift (sigOf n) (shOf E n))) (127 - 2 ^ (E - 1)) := by
  have hpos : 0 < 2 ^ (E - 1) := by positivity
  have hmax : n ≤ absmaxBits E M := by
    obtain ⟨_, hhi⟩ := expo_bounds n
    have : (expo n + 1) * 2 ^ 23 ≤ (2 ^ (E - 1) - 1 + 127) * 2 ^ 23 := Nat.mul_le_mul_right _ (by omega)
    unfold absmaxBits; omega
  have hng : ¬ (expo n > 127 - 2 ^ (E - 1)) := by omega
  simp only [quantMag, hB, if_true, Nat.min_eq_left hmax, divPow2, hng, if_false, sigOf, shOf]

/-- facts about the two roundings: the float32-subnormal pattern `q`, the rounded pattern `r ≤ 2^23` -/
theorem sub_setup (off : ℕ) (hoff : off < 2 ^ (23 - M)) :
    1 ≤ shOf E n ∧ rneShift (sigOf n) (shOf E n) ≤ 2 ^ 23 ∧
      roundCore (23 - M) off (rneShift (sigOf n) (shOf E n)) ≤ 2 ^ 23 := by
  have hpos : 0 < 2 ^ (E - 1) := by positivity
  have hB6 := bias_le_126 E hB
  have hsh : 1 ≤ shOf E n := by unfold shOf; split_ifs <;> omega
  have hsig : sigOf n < 2 ^ 24 := by
    have : mant n < 2 ^ 23 := Nat.mod_lt _ (by positivity)
    unfold sigOf; split_ifs <;> omega
  have hq : rneShift (sigOf n) (shOf E n) ≤ 2 ^ 23 := by
    have h1 := rneShift_le (sigOf n) (shOf E n)
    have h2 : sigOf n / 2 ^ shOf E n ≤ sigOf n / 2 ^ 1 := Nat.div_le_div_left (Nat.pow_le_pow_right (by norm_num) hsh) (by norm_num)
    have h3 : sigOf n / 2 ^ 1 < 2 ^ 23 := by omega
    omega
  refine ⟨hsh, hq, ?_⟩
  have hd : 2 ^ (23 - M) ∣ 2 ^ 23 := pow_dvd_pow 2 (by omega)
  have := round_core_monotone (23 - M) off _ _ hq
  rwa [round_core_fixes _ _ _ hoff hd] at this

/-- **The result is a value of the format** — a subnormal `m·2^(1-B-M)` with `m ≤ 2^M` (`m = 2^M` is the smallest
    normal value). -/
theorem quantise_sub_format_value (off : ℕ) (hoff : off < 2 ^ (23 - M)) :
    ∃ m : ℕ, m ≤ 2 ^ M ∧ val (quantMag E M off n) = (m : ℚ) * (2 : ℚ) ^ ((1 : ℤ) - (2 ^ (E - 1) : ℕ) - M) := by
  obtain ⟨hsh, hq, hr⟩ := sub_setup E M n hE hB hM hsub off hoff
  rw [quantMag_sub_eq E M n hE hB hM hsub off]
  set r := roundCore (23 - M) off (rneShift (sigOf n) (shOf E n)) with hrdef
  obtain ⟨c, hc⟩ := round_core_multiple (23 - M) off (rneShift (sigOf n) (shOf E n))
  rw [← hrdef] at hc
  have hpos : 0 < 2 ^ (E - 1) := by positivity
  have hexp : expo r ≤ 1 := by
    rcases Nat.lt_or_eq_of_le hr with h | h
    · exact le_trans (expo_lt_of r 0 (by omega)) (by omega)
    · rw [h]; unfold expo; simp
  refine ⟨c, ?_, ?_⟩
  · have hs : 2 ^ 23 = 2 ^ (23 - M) * 2 ^ M := by rw [← pow_add]; congr 1; omega
    have h2 : 0 < 2 ^ (23 - M) := by positivity
    have : 2 ^ (23 - M) * c ≤ 2 ^ (23 - M) * 2 ^ M := by rw [← hc, ← hs]; exact hr
    exact Nat.le_of_mul_le_mul_left this h2
  · have h1 : ((23 - M : ℕ) : ℤ) = 23 - (M : ℤ) := by omega
    have h2 : ((127 - 2 ^ (E - 1) : ℕ) : ℤ) = 127 - ((2 ^ (E - 1) : ℕ) : ℤ) := by omega
    have key : (2 : ℚ) ^ ((1 : ℤ) - (2 ^ (E - 1) : ℕ) - M) =
        (2 : ℚ) ^ ((23 - M : ℕ) : ℤ) * ((2 : ℚ) ^ (-149 : ℤ) * (2 : ℚ) ^ ((127 - 2 ^ (E - 1) : ℕ) : ℤ)) := by
      rw [← zpow_add₀ (by norm_num : (2 : ℚ) ≠ 0), ← zpow_add₀ (by norm_num : (2 : ℚ) ≠ 0)]
      congr 1
      rw [h1, h2]; ring
    have hrq : (r : ℚ) = (2 : ℚ) ^ ((23 - M : ℕ) : ℤ) * (c : ℚ) := by
      rw [hc]; push_cast; rw [zpow_natCast]
    rw [val_mulPow2_any _ r (by omega), val_small r hr, hrq, key]
    ring

/-- **Error bound on values** below the normal range: half the format's (constant) subnormal spacing
    `2^(1-B-M)`, plus half a float32-subnormal ulp of the down-scaled input — i.e. `2^(M-23)/2` of that spacing. -/
theorem quantise_sub_value_error :
    |val (quantMag E M (offNearest M) n) - val n|
      ≤ (((2 ^ (23 - M) / 2 : ℕ) : ℚ) + 1 / 2) * (2 : ℚ) ^ ((-149 : ℤ) + ((127 - 2 ^ (E - 1) : ℕ) : ℤ)) := by
  obtain ⟨hsh, hq, hr⟩ := sub_setup E M n hE hB hM hsub (offNearest M) (offNearest_lt M)
  rw [quantMag_sub_eq E M n hE hB hM hsub (offNearest M)]
  set d := 127 - 2 ^ (E - 1) with hd
  set q := rneShift (sigOf n) (shOf E n) with hqdef
  set r := roundCore (23 - M) (offNearest M) q with hrdef
  have hpos : 0 < 2 ^ (E - 1) := by positivity
  have hexp : expo r ≤ 1 := by
    rcases Nat.lt_or_eq_of_le hr with h | h
    · exact le_trans (expo_lt_of r 0 (by omega)) (by omega)
    · rw [h]; unfold expo; simp
  rw [val_mulPow2_any _ r (by omega), val_small r hr]
  -- the input in units of 2^(-149+d): sig / 2^sh
  have hvn : val n = ((sigOf n : ℚ) / (2 : ℚ) ^ (shOf E n : ℤ)) * ((2 : ℚ) ^ (-149 : ℤ) * (2 : ℚ) ^ (d : ℤ)) := by
    rw [val_sig n, div_eq_mul_inv, ← zpow_neg, mul_assoc, ← zpow_add₀ (by norm_num : (2 : ℚ) ≠ 0),
      ← zpow_add₀ (by norm_num : (2 : ℚ) ≠ 0)]
    congr 2
    unfold shOf
    split_ifs with h0
    · have : ((d + 1 - 1 : ℕ) : ℤ) = (d : ℤ) := by omega
      rw [this]; push_cast; ring
    · have : ((d + 1 - expo n : ℕ) : ℤ) = (d : ℤ) + 1 - expo n := by omega
      rw [this]; ring
  have hk : 23 - M ≤ 23 := by omega
  have hM' : 23 - (23 - M) = M := by omega
  have hcore := round_core_nearest (23 - M) q
  simp only [hM'] at hcore
  obtain ⟨hc1, hc2⟩ := hcore hk
  obtain ⟨hn1, hn2⟩ := rneShift_near (sigOf n) (shOf E n) hsh
  -- |r − q| ≤ 2^k/2   and   |q − sig/2^sh| ≤ 1/2
  have hS : (0 : ℚ) < (2 : ℚ) ^ (shOf E n : ℤ) := by positivity
  have h2S : (2 : ℚ) ^ (shOf E n : ℤ) = 2 * (2 : ℚ) ^ ((shOf E n - 1 : ℕ) : ℤ) := by
    have : (shOf E n : ℤ) = ((shOf E n - 1 : ℕ) : ℤ) + 1 := by omega
    rw [this, zpow_add₀ (by norm_num : (2 : ℚ) ≠ 0), zpow_one]; ring
  have hqs : |(q : ℚ) - (sigOf n : ℚ) / (2 : ℚ) ^ (shOf E n : ℤ)| ≤ 1 / 2 := by
    have e1 : ((q * 2 ^ shOf E n : ℕ) : ℚ) ≤ ((sigOf n + 2 ^ (shOf E n - 1) : ℕ) : ℚ) := by exact_mod_cast hn1
    have e2 : ((sigOf n : ℕ) : ℚ) ≤ ((q * 2 ^ shOf E n + 2 ^ (shOf E n - 1) : ℕ) : ℚ) := by exact_mod_cast hn2
    push_cast at e1 e2
    rw [← zpow_natCast (2 : ℚ) (shOf E n), ← zpow_natCast (2 : ℚ) (shOf E n - 1)] at e1 e2
    have hsS : (sigOf n : ℚ) / (2 : ℚ) ^ (shOf E n : ℤ) * (2 : ℚ) ^ (shOf E n : ℤ) = (sigOf n : ℚ) :=
      div_mul_cancel₀ _ (ne_of_gt hS)
    generalize (sigOf n : ℚ) / (2 : ℚ) ^ (shOf E n : ℤ) = s at hsS ⊢
    generalize (2 : ℚ) ^ (shOf E n : ℤ) = S at *
    generalize (2 : ℚ) ^ ((shOf E n - 1 : ℕ) : ℤ) = H at *
    rw [abs_le]
    constructor
    · by_contra hcon
      rw [not_le] at hcon
      have := mul_lt_mul_of_pos_right hcon hS
      rw [sub_mul, hsS] at this
      linarith
    · by_contra hcon
      rw [not_le] at hcon
      have := mul_lt_mul_of_pos_right hcon hS
      rw [sub_mul, hsS] at this
      linarith
  have hrq : |(r : ℚ) - (q : ℚ)| ≤ ((2 ^ (23 - M) / 2 : ℕ) : ℚ) := by
    rw [abs_le]
    have e1 : ((r : ℕ) : ℚ) ≤ ((q + 2 ^ (23 - M) / 2 : ℕ) : ℚ) := by exact_mod_cast hc1
    have e2 : ((q : ℕ) : ℚ) ≤ ((r + 2 ^ (23 - M) / 2 : ℕ) : ℚ) := by exact_mod_cast hc2
    push_cast at e1 e2 ⊢
    constructor <;> linarith
  have hU : (0 : ℚ) < (2 : ℚ) ^ (-149 : ℤ) * (2 : ℚ) ^ (d : ℤ) := by positivity
  rw [hvn, mul_assoc, ← sub_mul, abs_mul, abs_of_pos hU, zpow_add₀ (by norm_num : (2 : ℚ) ≠ 0)]
  apply mul_le_mul_of_nonneg_right _ (le_of_lt hU)
  calc |(r : ℚ) - (sigOf n : ℚ) / (2 : ℚ) ^ (shOf E n : ℤ)|
      = |((r : ℚ) - q) + ((q : ℚ) - (sigOf n : ℚ) / (2 : ℚ) ^ (shOf E n : ℤ))| := by ring_nf
    _ ≤ |(r : ℚ) - q| + |(q : ℚ) - (sigOf n : ℚ) / (2 : ℚ) ^ (shOf E n : ℤ)| := abs_add_le _ _
    _ ≤ ((2 ^ (23 - M) / 2 : ℕ) : ℚ) + 1 / 2 := add_le_add hrq hqs

end subnormal

/-- non-vacuity: E4M3 (d = 119): the pattern of 2^-8 (0x3B800000, below the smallest normal 2^-7) -/
example : expo 0x3B800000 ≤ 127 - 2 ^ (4 - 1) := by decide

end USProofs.C13
