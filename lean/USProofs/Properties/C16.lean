/-
  C16 — `unit_scale()` equals the hand conversion prescribed by the User Guide.
  Model: `USModel/UnitScale.lean` (the backend pass by pass).  The theorems below pin the
  decision logic of each pass; that the composed passes equal the real backend on graphs is
  checked exactly by the correspondence, and that the result computes the same function as the
  User-Guide recipe by the Dynamo-path oracle (`backend_eq_recipe_partial`: see DESIGN.md).
-/
import USModel

open USModel

namespace USProofs.C16

/-! ### pass 1: replacement sweep -/

theorem sweep_length (user : List (String × String)) (g : IGraph) : (sweep user g).length = g.length := by
  simp [sweep]

/-- ids and everything but the target are untouched by the sweep -/
theorem sweep_keeps (user : List (String × String)) (g : IGraph) (i : Nat) (x : INode) (h : g[i]? = some x) :
    ∃ y, (sweep user g)[i]? = some y ∧ y.id = x.id ∧ y.n.args = x.n.args ∧ y.n.kwargs = x.n.kwargs ∧ y.n.op = x.n.op := by
  simp only [sweep, List.getElem?_map, h, Option.map_some]
  refine ⟨_, rfl, ?_⟩
  split
  · split
    · simp
    · split <;> simp
  · simp

/-- **User-supplied replacements take precedence over the built-in ones.** -/
theorem user_precedence (user : List (String × String)) (x : INode) (t : String)
    (hop : x.n.op = "call_function") (hu : user.lookup x.n.target = some t) :
    (sweep user [x]) = [{ x with n := { x.n with target := t } }] := by
  simp [sweep, hop, hu]

/-- every call of a function with a unit-scaled counterpart is replaced by it, same arguments -/
theorem builtin_replaced (user : List (String × String)) (x : INode) (t : String)
    (hop : x.n.op = "call_function") (hu : user.lookup x.n.target = none)
    (ht : torchMap.lookup x.n.target = some t) :
    (sweep user [x]) = [{ x with n := { x.n with target := t } }] := by
  simp [sweep, hop, hu, ht]

/-- all other operations are untouched by the sweep -/
theorem other_untouched (user : List (String × String)) (x : INode)
    (h : x.n.op ≠ "call_function" ∨ (user.lookup x.n.target = none ∧ torchMap.lookup x.n.target = none)) :
    sweep user [x] = [x] := by
  unfold sweep
  rcases h with h | ⟨h1, h2⟩
  · simp [h]
  · simp [h1, h2]

/-! ### pass 2: classification of additions -/

/-- **An addition is rewritten as a residual connection iff one operand is computed from the
    other** (is among the other's transitive inputs), however that operand was produced. -/
theorem residual_detect (g : IGraph) (x : INode) (l r : Nat) (hadd : isAdd x.n = true)
    (hargs : x.n.args = [.ref l, .ref r]) :
    (∃ idx sa, classifyAdd g (allDeps g) x = some (.residual idx sa)) ↔
      (((allDeps g).lookup r).getD []).contains l = true ∨ (((allDeps g).lookup l).getD []).contains r = true := by
  simp only [classifyAdd, hadd, hargs, if_true]
  constructor
  · rintro ⟨idx, sa, h⟩
    split at h
    · rename_i hc
      simpa [Bool.or_eq_true] using hc
    · cases h
  · intro h
    have hc : ((((allDeps g).lookup r).getD []).contains l || (((allDeps g).lookup l).getD []).contains r) = true := by
      simpa [Bool.or_eq_true] using h
    simp only [hc, if_true]
    exact ⟨_, _, rfl⟩

/-- every other addition (incl. tensor + scalar) is a plain add -/
theorem other_adds_plain (g : IGraph) (deps : List (Nat × List Nat)) (x : INode) (hadd : isAdd x.n = true)
    (hargs : ∀ l r, x.n.args ≠ [.ref l, .ref r]) : classifyAdd g deps x = some .plain := by
  unfold classifyAdd
  rw [if_pos hadd]
  split
  · rename_i l r h; exact absurd h (hargs l r)
  · rfl

/-- non-additions are not classified -/
theorem non_add_unclassified (g : IGraph) (deps : List (Nat × List Nat)) (x : INode) (h : isAdd x.n = false) :
    classifyAdd g deps x = none := by
  simp [classifyAdd, h]

/-! ### keyword binding is single (executability of the rewritten calls) -/

/-- `dict(node.kwargs, constraint=None)`: afterwards the key is bound, to that value -/
theorem setKw_lookup (kw : List (String × Arg)) (k : String) (v : Arg) :
    lookupKw (setKw kw k v) k = some v := by
  unfold setKw lookupKw eraseKw
  have : (kw.filter (fun p => p.1 != k)).find? (fun x => x.1 == k) = none := by
    rw [List.find?_eq_none]
    intro x hx
    have := (List.mem_filter.mp hx).2
    simpa [bne_iff_ne] using this
  simp [List.find?_append, this]

/-- …and bound exactly once: the rewritten call never passes `constraint` twice (defect F-C16a) -/
theorem setKw_count (kw : List (String × Arg)) (k : String) (v : Arg) :
    ((setKw kw k v).filter (·.1 == k)).length = 1 := by
  unfold setKw eraseKw
  have : (kw.filter (fun p => p.1 != k)).filter (fun p => p.1 == k) = [] := by
    rw [List.filter_eq_nil_iff]
    intro x hx
    have := (List.mem_filter.mp hx).2
    simpa [bne_iff_ne] using this
  simp [List.filter_append, this]

/-! ### tau -/

/-- the classification carries the self-attention flag of the branch, which selects tau -/
theorem residual_flag (g : IGraph) (x : INode) (l r : Nat) (hadd : isAdd x.n = true)
    (hargs : x.n.args = [.ref l, .ref r]) (hl : (((allDeps g).lookup r).getD []).contains l = true) :
    classifyAdd g (allDeps g) x = some (.residual 1 (isSelfAttention g l r)) := by
  have hl' : l ∈ ((allDeps g).lookup r).getD [] := by simpa using hl
  simp [classifyAdd, hadd, hargs, hl']

/-! ### Non-vacuity / anchors: the documented example `x + f(x)` -/
def demo : Graph :=
  [{ op := "placeholder", target := "x", args := [], kwargs := [] },
   { op := "call_function", target := "F.linear", args := [.ref 0, .lit "w"], kwargs := [] },
   { op := "call_function", target := "F.softmax", args := [.ref 1], kwargs := [("dim", .lit "-1")] },
   { op := "call_function", target := "op.add", args := [.ref 0, .ref 2], kwargs := [] },
   { op := "call_function", target := "F.gelu", args := [.ref 3], kwargs := [] },
   { op := "output", target := "output", args := [.ref 4], kwargs := [] }]

/-- the backend turns it into split / U.linear / U.softmax / residual_add(tau = 0.01) / unconstrained gelu -/
example : (unitScaleBackend [] [] demo).map (·.target) =
    ["x", "U.residual_split", "op.getitem", "op.getitem", "U.linear", "U.softmax", "U.residual_add", "U.gelu", "output"] := by
  decide
example : ((unitScaleBackend [] [] demo)[6]?).map (fun n => Arg.showList n.args) = some "%5, %2, 0.01" := by decide
example : ((unitScaleBackend [] [] demo)[7]?).map (fun n => n.kwargs.map fun p => (p.1, p.2.show))
    = some [("constraint", "None")] := by decide
example : ((unitScaleBackend [] [] demo)[4]?).map (fun n => n.kwargs.length) = some 0 := by decide

end USProofs.C16
