/-
  C13 / C14 — the integer rounding core of `FPFormat.quantise`.

  `roundCore k off q = ((q + off) / 2^k) * 2^k` is `(bits + offset) & ~mask` on the float32 bit
  pattern after the power-of-two down-scaling.  Float32 patterns of one sign are ordered like
  their values and, inside the format's range after down-scaling, the multiples of `2^k` are
  exactly the patterns of representable values; so the statements below are the bit-level form of
  "representable / neighbour / nearest (ties toward zero) / idempotent / monotone".
  The lifting through the two power-of-two scalings is exercised exhaustively by the
  correspondence (all 2^32 patterns for the FP8 formats) — see DESIGN.md.
-/
import USModel
import Mathlib.Tactic.Ring
import Mathlib.Tactic.Linarith
import Mathlib.Algebra.Order.Group.Nat
import Mathlib.Data.Nat.Basic

open USModel USModel.F32

namespace USProofs.C13

theorem pow_pos' (k : ℕ) : 0 < 2 ^ k := Nat.pos_of_ne_zero (by positivity)

/-- decomposition used throughout: with `P = 2^k`, `q = P·a + b`, `b < P` -/
theorem core_eq (k off q : ℕ) :
    roundCore k off q = (q / 2 ^ k + (q % 2 ^ k + off) / 2 ^ k) * 2 ^ k := by
  unfold roundCore
  have hP := pow_pos' k
  congr 1
  conv_lhs => rw [← Nat.div_add_mod q (2 ^ k)]
  rw [Nat.add_assoc, Nat.add_comm (2 ^ k * (q / 2 ^ k)), Nat.add_mul_div_left _ _ hP]
  ring

/-- the result is a multiple of `2^k`: all discarded bits are zero, i.e. representable -/
theorem round_core_multiple (k off q : ℕ) : 2 ^ k ∣ roundCore k off q :=
  Dvd.intro_left _ rfl

/-- …equal to one of the two enclosing multiples, whenever `offset < 2^k`
    (true for nearest rounding and for every stochastic draw) -/
theorem round_core_neighbour (k off q : ℕ) (hoff : off < 2 ^ k) :
    roundCore k off q = (q / 2 ^ k) * 2 ^ k ∨ roundCore k off q = (q / 2 ^ k + 1) * 2 ^ k := by
  rw [core_eq]
  have hP := pow_pos' k
  have hb : q % 2 ^ k < 2 ^ k := Nat.mod_lt _ hP
  have h2 : (q % 2 ^ k + off) / 2 ^ k < 2 := by
    apply Nat.div_lt_of_lt_mul
    omega
  rcases Nat.lt_succ_iff.mp h2 |>.lt_or_eq with h | h
  · left
    have : (q % 2 ^ k + off) / 2 ^ k = 0 := Nat.lt_one_iff.mp h
    rw [this]; simp
  · right; rw [h]

/-- a multiple of `2^k` is left unchanged (representable inputs are fixed; idempotence) -/
theorem round_core_fixes (k off q : ℕ) (hoff : off < 2 ^ k) (hq : 2 ^ k ∣ q) :
    roundCore k off q = q := by
  rw [core_eq]
  have hP := pow_pos' k
  have hm : q % 2 ^ k = 0 := Nat.mod_eq_zero_of_dvd hq
  rw [hm, Nat.zero_add, Nat.div_eq_of_lt hoff, Nat.add_zero]
  exact Nat.div_mul_cancel hq

theorem round_core_idempotent (k off q : ℕ) (hoff : off < 2 ^ k) :
    roundCore k off (roundCore k off q) = roundCore k off q :=
  round_core_fixes k off _ hoff (round_core_multiple k off q)

/-- monotone non-decreasing -/
theorem round_core_monotone (k off q q' : ℕ) (h : q ≤ q') : roundCore k off q ≤ roundCore k off q' := by
  unfold roundCore
  exact Nat.mul_le_mul_right _ (Nat.div_le_div_right (by omega))

/-- **nearest, ties toward zero**: with `offset = (2^k − 1)/2` the result is within half a
    spacing of the input, and an exact tie goes to the lower multiple. -/
theorem round_core_nearest (k q : ℕ) :
    let r := roundCore k (offNearest (23 - k)) q
    (k ≤ 23 → r ≤ q + 2 ^ k / 2 ∧ q ≤ r + 2 ^ k / 2) := by
  intro r hk
  have hM : 23 - (23 - k) = k := by omega
  have hoffv : offNearest (23 - k) = (2 ^ k - 1) / 2 := by simp [offNearest, hM]
  have hP := pow_pos' k
  have hoff : offNearest (23 - k) < 2 ^ k := by rw [hoffv]; omega
  have hb : q % 2 ^ k < 2 ^ k := Nat.mod_lt _ hP
  have hq := Nat.div_add_mod q (2 ^ k)
  rcases round_core_neighbour k _ q hoff with h | h
  · -- rounded down: then b + off < P
    have hlow : (q % 2 ^ k + offNearest (23 - k)) / 2 ^ k = 0 := by
      have := core_eq k (offNearest (23 - k)) q
      rw [h] at this
      have h' := Nat.eq_of_mul_eq_mul_right hP this
      omega
    have hlt : q % 2 ^ k + offNearest (23 - k) < 2 ^ k := by
      by_contra hc
      have : 1 ≤ (q % 2 ^ k + offNearest (23 - k)) / 2 ^ k :=
        (Nat.one_le_div_iff hP).mpr (by omega)
      omega
    show roundCore k (offNearest (23 - k)) q ≤ q + 2 ^ k / 2 ∧ q ≤ roundCore k (offNearest (23 - k)) q + 2 ^ k / 2
    rw [h, hoffv] at *
    constructor
    · have : q / 2 ^ k * 2 ^ k ≤ q := Nat.div_mul_le_self _ _
      omega
    · have e : q / 2 ^ k * 2 ^ k = 2 ^ k * (q / 2 ^ k) := Nat.mul_comm _ _
      omega
  · have hup : (q % 2 ^ k + offNearest (23 - k)) / 2 ^ k = 1 := by
      have := core_eq k (offNearest (23 - k)) q
      rw [h] at this
      have h' := Nat.eq_of_mul_eq_mul_right hP this
      omega
    have hge : 2 ^ k ≤ q % 2 ^ k + offNearest (23 - k) := by
      by_contra hc
      have : (q % 2 ^ k + offNearest (23 - k)) / 2 ^ k = 0 := Nat.div_eq_of_lt (by omega)
      omega
    show roundCore k (offNearest (23 - k)) q ≤ q + 2 ^ k / 2 ∧ q ≤ roundCore k (offNearest (23 - k)) q + 2 ^ k / 2
    rw [h, hoffv] at *
    have e : (q / 2 ^ k + 1) * 2 ^ k = 2 ^ k * (q / 2 ^ k) + 2 ^ k := by ring
    constructor <;> omega

/-- an exact tie (discarded bits = exactly half) goes to the lower multiple: toward zero -/
theorem round_core_tie_down (k q : ℕ) (hk : 1 ≤ k) (hk' : k ≤ 23) (htie : q % 2 ^ k = 2 ^ (k - 1)) :
    roundCore k (offNearest (23 - k)) q = (q / 2 ^ k) * 2 ^ k := by
  have hM : 23 - (23 - k) = k := by omega
  have hP := pow_pos' k
  have h2 : 2 ^ k = 2 * 2 ^ (k - 1) := by
    have : k = (k - 1) + 1 := by omega
    conv_lhs => rw [this, pow_succ]
    ring
  rw [core_eq]
  have : (q % 2 ^ k + offNearest (23 - k)) / 2 ^ k = 0 := by
    apply Nat.div_eq_of_lt
    simp only [offNearest, hM]
    have := pow_pos' (k - 1)
    omega
  rw [this]; simp

/-- the integer addition never carries into the sign bit on the property's domain -/
theorem no_sign_carry (k off q : ℕ) (hoff : off < 2 ^ k) (hk : k ≤ 23) (hq : q ≤ 255 * 2 ^ 23) :
    q + off < 2 ^ 31 := by
  have : (2 : ℕ) ^ k ≤ 2 ^ 23 := Nat.pow_le_pow_right (by norm_num) hk
  norm_num at *
  omega

/-! ### the model's `quantMag` is built from this core -/
theorem quantMag_is_core (E M off n : ℕ) (hB : 2 ^ (E - 1) ≤ 127) :
    quantMag E M off n =
      mulPow2 (roundCore (23 - M) off (divPow2 (min n (absmaxBits E M)) (127 - 2 ^ (E - 1)))) (127 - 2 ^ (E - 1)) := by
  simp [quantMag, hB]

/-! ### the final output: its discarded mantissa bits are zero -/

/-- doubling / exponent increments keep divisibility by `2^k` (`k ≤ 23`) -/
theorem mulPow2_dvd (k : ℕ) (hk : k ≤ 23) : ∀ (d n : ℕ), 2 ^ k ∣ n → 2 ^ k ∣ mulPow2 n d := by
  have h23 : 2 ^ k ∣ 2 ^ 23 := Nat.pow_dvd_pow 2 hk
  intro d
  induction d with
  | zero => intro n h; simpa [mulPow2] using h
  | succ d ih =>
    intro n h
    unfold mulPow2
    split
    · exact Nat.dvd_zero _
    · split
      · exact ih (2 * n) (Dvd.dvd.mul_left h 2)
      · split
        · exact Dvd.dvd.mul_left h23 255
        · exact Nat.dvd_add h (Dvd.dvd.mul_left h23 (d + 1))

/-- **Representable mantissa.** For every format with `2^(E-1) ≤ 127` (E ≤ 7 — and E = 8 is the
    same statement about `divPow2 … 1`, exercised by the correspondence), every rounding offset and
    every input pattern, the low `23 − M` mantissa bits of the result of the model's `quantise` are
    zero: the result carries at most `M` mantissa bits. -/
theorem quant_mantissa_bits (E M off n : ℕ) (hB : 2 ^ (E - 1) ≤ 127) :
    2 ^ (23 - M) ∣ quantMag E M off n := by
  rw [quantMag_is_core E M off n hB]
  exact mulPow2_dvd (23 - M) (Nat.sub_le _ _) _ _ (round_core_multiple _ _ _)

/-- up-scaling a normal pattern only increments the exponent field -/
theorem mulPow2_normal : ∀ (d n : ℕ), 1 ≤ expo n → expo n + d < 255 → mulPow2 n d = n + d * 2 ^ 23 := by
  intro d
  cases d with
  | zero => intro n _ _; simp [mulPow2]
  | succ d =>
    intro n h1 h2
    unfold mulPow2
    have hn : n ≠ 0 := by
      intro h; subst h; simp [expo] at h1
    have he : ¬ expo n = 0 := by omega
    have ho : ¬ expo n + (d + 1) ≥ 255 := by omega
    simp [hn, he, ho]

/-- the sign bit is carried through unchanged -/
theorem quantBits_sign (E M off bits : ℕ) (h : quantMag E M off (bits % 2 ^ 31) < 2 ^ 31) :
    quantBits E M off bits / 2 ^ 31 = bits / 2 ^ 31 := by
  unfold quantBits
  simp only
  rw [Nat.mul_comm, Nat.mul_add_div (by norm_num : 0 < 2 ^ 31), Nat.div_eq_of_lt h, Nat.add_zero]

/-! ### Non-vacuity / concrete anchors -/
example : roundCore 20 (offNearest 3) 0x3F8CCCCD = 0x3F900000 := by decide  -- 1.1 → 1.125 in E?M3
example : quantBits 4 3 (offNearest 3) 0x3FA66666 = 0x3FA00000 := by decide  -- 1.3 → 1.25 in E4M3
example : quantBits 4 3 (offNearest 3) 0x7F800000 = 0x43700000 := by decide  -- +inf → 240

end USProofs.C13
