/-
  C13 — eight exponent bits (bias 128 > float32's 127: the code multiplies by 2 before rounding and divides after).
  On every normal float32 input below 2^126 — the property's domain for E = 8 — the four stages collapse to the integer
  rounding core on the input's own pattern: `quantise` is mantissa rounding and nothing else.
-/
import USModel
import USProofs.Properties.C13Capstone

open USModel USModel.F32

namespace USProofs.C13

theorem roundCore_add_multiple (k off q a : ℕ) (ha : 2 ^ k ∣ a) :
    roundCore k off (q + a) = roundCore k off q + a := by
  obtain ⟨t, rfl⟩ := ha
  unfold roundCore
  have hP : 0 < 2 ^ k := by positivity
  have : q + 2 ^ k * t + off = q + off + 2 ^ k * t := by omega
  rw [this, Nat.add_mul_div_left _ _ hP, Nat.add_mul, Nat.mul_comm t]

/-- **E = 8, closed form** on normal inputs below 2^126 (exponent field ≤ 252) -/
theorem quantMag_E8_eq (M off n : ℕ) (hM : M ≤ 23) (hoff : off < 2 ^ (23 - M))
    (h1 : 1 ≤ expo n) (h2 : expo n ≤ 252) :
    quantMag 8 M off n = roundCore (23 - M) off n := by
  have hk : 23 - M ≤ 23 := by omega
  obtain ⟨hlo, hhi⟩ := expo_bounds n
  have hBn : ¬ (2 ^ (8 - 1) ≤ 127) := by norm_num
  have hmax : n ≤ absmaxBits 8 M := by
    have hA : 254 * 2 ^ 23 ≤ absmaxBits 8 M := by unfold absmaxBits; norm_num
    have : (expo n + 1) * 2 ^ 23 ≤ 254 * 2 ^ 23 := Nat.mul_le_mul_right _ (by omega)
    omega
  have hB1 : 2 ^ (8 - 1) - 127 = 1 := by norm_num
  simp only [quantMag, hBn, if_false, Nat.min_eq_left hmax, hB1]
  rw [mulPow2_normal 1 n h1 (by omega), Nat.one_mul,
    roundCore_add_multiple _ _ _ _ (pow_dvd_pow 2 hk)]
  obtain ⟨hlo', _⟩ := enclosing_in_binade (23 - M) (expo n) n hk hlo hhi
  have hr : expo n * 2 ^ 23 ≤ roundCore (23 - M) off n := by
    rcases round_core_neighbour (23 - M) off n hoff with h | h
    · rw [h]; exact hlo'
    · rw [h]; exact le_trans hlo' (Nat.mul_le_mul_right _ (by omega))
  have hexp : expo (roundCore (23 - M) off n + 2 ^ 23) > 1 := by
    have := expo_add (roundCore (23 - M) off n) 1
    rw [Nat.one_mul] at this
    rw [this]
    have := expo_ge_of _ _ hr
    omega
  simp only [divPow2, hexp, if_true, Nat.one_mul, Nat.add_sub_cancel]

/-- consequences for E = 8 on that domain: the result is representable (discarded bits zero), one of the two
    neighbours, fixed on representable inputs, idempotent there, monotone -/
theorem quantise_E8_laws (M off n : ℕ) (hM : M ≤ 23) (hoff : off < 2 ^ (23 - M))
    (h1 : 1 ≤ expo n) (h2 : expo n ≤ 252) :
    2 ^ (23 - M) ∣ quantMag 8 M off n ∧
    (quantMag 8 M off n = n / 2 ^ (23 - M) * 2 ^ (23 - M) ∨ quantMag 8 M off n = (n / 2 ^ (23 - M) + 1) * 2 ^ (23 - M)) ∧
    (2 ^ (23 - M) ∣ n → quantMag 8 M off n = n) := by
  rw [quantMag_E8_eq M off n hM hoff h1 h2]
  exact ⟨round_core_multiple _ _ _, round_core_neighbour _ _ _ hoff, round_core_fixes _ _ _ hoff⟩

theorem quantise_E8_monotone (M off n n' : ℕ) (hM : M ≤ 23) (hoff : off < 2 ^ (23 - M))
    (h1 : 1 ≤ expo n) (hle : n ≤ n') (h2 : expo n' ≤ 252) :
    quantMag 8 M off n ≤ quantMag 8 M off n' := by
  have hee : expo n ≤ expo n' := by unfold expo; exact Nat.div_le_div_right hle
  rw [quantMag_E8_eq M off n hM hoff h1 (by omega), quantMag_E8_eq M off n' hM hoff (by omega) h2]
  exact round_core_monotone _ _ _ _ hle

/-- **E = 8, error bound on values** (nearest rounding): half the spacing `2^(23-M)·2^(expo n − 150)` -/
theorem quantise_E8_value_error (M n : ℕ) (hM : M ≤ 23) (h1 : 1 ≤ expo n) (h2 : expo n ≤ 252) :
    |val (quantMag 8 M (offNearest M) n) - val n|
      ≤ ((2 ^ (23 - M) / 2 : ℕ) : ℚ) * (2 : ℚ) ^ ((expo n : ℤ) - 150) := by
  rw [quantMag_E8_eq M _ n hM (offNearest_lt M) h1 h2]
  obtain ⟨hlo, hhi⟩ := expo_bounds n
  have hk : 23 - M ≤ 23 := by omega
  have hM' : 23 - (23 - M) = M := by omega
  have := round_nearest_value (23 - M) (expo n) n hk h1 hlo hhi
  rwa [hM'] at this

example : 1 ≤ expo 0x3F880000 ∧ expo 0x3F880000 ≤ 252 := by decide

end USProofs.C13
