/-
  C13 — monotonicity of `FPFormat.quantise` over the whole magnitude range (E ≤ 7): every stage — clip, power-of-two
  division (exact above the float32 normal threshold, round-to-nearest-even below), the integer rounding core,
  power-of-two multiplication — is monotone, also across the boundary between the format's subnormal and normal ranges
  and into saturation.
-/
import USModel
import USProofs.Properties.C13Capstone
import USProofs.Properties.C13Full
import USProofs.Properties.C13Sub

open USModel USModel.F32

namespace USProofs.C13

theorem succ_mul_p23 (a : ℕ) : (a + 1) * 2 ^ 23 = a * 2 ^ 23 + 2 ^ 23 := by rw [Nat.add_mul, Nat.one_mul]

theorem rneShift_ge (x sh : ℕ) : x / 2 ^ sh ≤ rneShift x sh := by
  unfold rneShift
  by_cases h : sh = 0
  · simp [h]
  · simp only [h, if_false]
    split_ifs <;> omega

/-- round-to-nearest-even of `x / 2^sh` is monotone in `x` -/
theorem rneShift_mono (sh x x' : ℕ) (h : x ≤ x') : rneShift x sh ≤ rneShift x' sh := by
  by_cases h0 : sh = 0
  · simp [rneShift, h0, h]
  have hS : 0 < 2 ^ sh := by positivity
  have hq : x / 2 ^ sh ≤ x' / 2 ^ sh := Nat.div_le_div_right h
  rcases Nat.lt_or_eq_of_le hq with hlt | heq
  · calc rneShift x sh ≤ x / 2 ^ sh + 1 := rneShift_le x sh
      _ ≤ x' / 2 ^ sh := hlt
      _ ≤ rneShift x' sh := rneShift_ge x' sh
  · have hr : x % 2 ^ sh ≤ x' % 2 ^ sh := by
      have e1 := Nat.div_add_mod x (2 ^ sh)
      have e2 := Nat.div_add_mod x' (2 ^ sh)
      rw [heq] at e1
      omega
    simp only [rneShift, h0, if_false, heq]
    generalize x' / 2 ^ sh = q at *
    generalize x % 2 ^ sh = r at *
    generalize x' % 2 ^ sh = r' at *
    generalize 2 ^ (sh - 1) = H at *
    split_ifs <;> omega

/-- scaling numerator and denominator by the same power of two does not change the rounded quotient -/
theorem rneShift_scale (x sh j : ℕ) (hsh : 1 ≤ sh) : rneShift (x * 2 ^ j) (sh + j) = rneShift x sh := by
  have h1 : ¬ sh = 0 := by omega
  have h2 : ¬ sh + j = 0 := by omega
  have hJ : 0 < 2 ^ j := by positivity
  have hdiv : x * 2 ^ j / 2 ^ (sh + j) = x / 2 ^ sh := by
    rw [pow_add]; exact Nat.mul_div_mul_right _ _ hJ
  have hmod : x * 2 ^ j % 2 ^ (sh + j) = x % 2 ^ sh * 2 ^ j := by
    rw [pow_add]; exact Nat.mul_mod_mul_right _ _ _
  have hhalf : 2 ^ (sh + j - 1) = 2 ^ (sh - 1) * 2 ^ j := by
    rw [← pow_add]; congr 1; omega
  simp only [rneShift, h1, h2, if_false, hdiv, hmod, hhalf]
  have c1 : (x % 2 ^ sh * 2 ^ j > 2 ^ (sh - 1) * 2 ^ j) ↔ (x % 2 ^ sh > 2 ^ (sh - 1)) :=
    ⟨fun h => Nat.lt_of_mul_lt_mul_right h, fun h => Nat.mul_lt_mul_of_pos_right h hJ⟩
  have c2 : (x % 2 ^ sh * 2 ^ j < 2 ^ (sh - 1) * 2 ^ j) ↔ (x % 2 ^ sh < 2 ^ (sh - 1)) :=
    ⟨fun h => Nat.lt_of_mul_lt_mul_right h, fun h => Nat.mul_lt_mul_of_pos_right h hJ⟩
  simp only [c1, c2]

/-- the magnitude in units of `2^-149` (fixed point): strictly the value, without a binade split -/
def fixOf (n : ℕ) : ℕ := if expo n = 0 then mant n else (2 ^ 23 + mant n) * 2 ^ (expo n - 1)

theorem val_eq_fix (n : ℕ) : val n = (fixOf n : ℚ) * (2 : ℚ) ^ (-149 : ℤ) := by
  rw [val_sig n]
  unfold fixOf sigOf
  by_cases he : expo n = 0
  · simp only [he, if_true]; norm_num
  · simp only [he, if_false]
    push_cast
    rw [mul_assoc, ← zpow_natCast (2 : ℚ) (expo n - 1), ← zpow_add₀ (by norm_num : (2 : ℚ) ≠ 0)]
    congr 2
    have : ((expo n - 1 : ℕ) : ℤ) = (expo n : ℤ) - 1 := by omega
    rw [this]; ring

theorem fixOf_mono {a b : ℕ} (h : a ≤ b) : fixOf a ≤ fixOf b := by
  have hv := val_mono h
  rw [val_eq_fix a, val_eq_fix b] at hv
  have hp : (0 : ℚ) < (2 : ℚ) ^ (-149 : ℤ) := by positivity
  exact_mod_cast le_of_mul_le_mul_right hv hp

/-- below the float32 normal threshold, the division is one rounding of the fixed-point magnitude -/
theorem divPow2_low (n d : ℕ) (h : expo n ≤ d) (hd : 1 ≤ d) : divPow2 n d = rneShift (fixOf n) d := by
  have hng : ¬ (expo n > d) := by omega
  simp only [divPow2, hng, if_false, fixOf]
  by_cases he : expo n = 0
  · simp only [he, if_true]
    congr 1
  · simp only [he, if_false]
    have := rneShift_scale (2 ^ 23 + mant n) (d + 1 - expo n) (expo n - 1) (by omega)
    rw [← this]
    congr 1
    omega

theorem divPow2_low_le (n d : ℕ) (h : expo n ≤ d) (hd : 1 ≤ d) : divPow2 n d ≤ 2 ^ 23 := by
  have hng : ¬ (expo n > d) := by omega
  simp only [divPow2, hng, if_false]
  have hm : mant n < 2 ^ 23 := Nat.mod_lt _ (by positivity)
  by_cases he : expo n = 0
  · simp only [he, if_true]
    have h1 := rneShift_le (mant n) (d + 1 - 1)
    have h2 : mant n / 2 ^ (d + 1 - 1) ≤ mant n := Nat.div_le_self _ _
    omega
  · simp only [he, if_false]
    have h1 := rneShift_le (2 ^ 23 + mant n) (d + 1 - expo n)
    have h2 : (2 ^ 23 + mant n) / 2 ^ (d + 1 - expo n) ≤ (2 ^ 23 + mant n) / 2 ^ 1 :=
      Nat.div_le_div_left (Nat.pow_le_pow_right (by norm_num) (by omega)) (by norm_num)
    omega

/-- power-of-two division is monotone -/
theorem divPow2_mono (d n n' : ℕ) (hd : 1 ≤ d) (h : n ≤ n') : divPow2 n d ≤ divPow2 n' d := by
  have hee : expo n ≤ expo n' := by unfold expo; exact Nat.div_le_div_right h
  by_cases h1 : expo n' ≤ d
  · rw [divPow2_low n d (by omega) hd, divPow2_low n' d h1 hd]
    exact rneShift_mono d _ _ (fixOf_mono h)
  · have hn' : divPow2 n' d = n' - d * 2 ^ 23 := by simp [divPow2, show expo n' > d by omega]
    by_cases h2 : expo n ≤ d
    · have := divPow2_low_le n d h2 hd
      obtain ⟨hlo, _⟩ := expo_bounds n'
      have : (d + 1) * 2 ^ 23 ≤ n' := le_trans (Nat.mul_le_mul_right _ (by omega)) hlo
      rw [hn']
      have e : (d + 1) * 2 ^ 23 = d * 2 ^ 23 + 2 ^ 23 := succ_mul_p23 d
      omega
    · have hn : divPow2 n d = n - d * 2 ^ 23 := by simp [divPow2, show expo n > d by omega]
      rw [hn, hn']; exact Nat.sub_le_sub_right h _

/-- scaling up a pattern below `2^24` by `2^d` stays below exponent field `d + 2` -/

theorem mulPow2_lt : ∀ (d x : ℕ), x < 2 ^ 23 + 2 ^ 23 → d + 1 < 255 → mulPow2 x d < (d + 2) * 2 ^ 23 := by
  intro d
  induction d with
  | zero =>
    intro x hx _
    have e : (0 + 2) * 2 ^ 23 = 2 ^ 23 + 2 ^ 23 := by rw [Nat.zero_add, Nat.two_mul]
    rw [e]; simpa [mulPow2] using hx
  | succ d ih =>
    intro x hx hd
    by_cases h0 : x = 0
    · subst h0; simp [mulPow2]
    have e : (d + 1 + 2) * 2 ^ 23 = (d + 2) * 2 ^ 23 + 2 ^ 23 := succ_mul_p23 (d + 2)
    have e' : (d + 2) * 2 ^ 23 = (d + 1) * 2 ^ 23 + 2 ^ 23 := succ_mul_p23 (d + 1)
    by_cases he : expo x = 0
    · have hx' : x < 2 ^ 23 := by
        unfold expo at he
        exact (Nat.div_eq_zero_iff.mp he).resolve_left (by positivity)
      have hstep : mulPow2 x (d + 1) = mulPow2 (2 * x) d := by simp [mulPow2, h0, he]
      rw [hstep]
      have := ih (2 * x) (by omega) (by omega)
      generalize 2 ^ 23 = P at *
      omega
    · have he1 : expo x = 1 := by
        have : expo x ≤ 1 := expo_lt_of x 1 (by rw [succ_mul_p23, Nat.one_mul]; exact hx)
        omega
      rw [mulPow2_normal (d + 1) x (by omega) (by omega)]
      generalize 2 ^ 23 = P at *
      omega

/-- power-of-two multiplication is monotone (as long as the larger argument does not overflow) -/
theorem mulPow2_mono : ∀ (d r r' : ℕ), r ≤ r' → expo r' + d < 255 → mulPow2 r d ≤ mulPow2 r' d := by
  intro d
  induction d with
  | zero => intro r r' h _; simpa [mulPow2] using h
  | succ d ih =>
    intro r r' h hov
    by_cases h0 : r = 0
    · subst h0; simp [mulPow2]
    have h0' : r' ≠ 0 := by omega
    by_cases he : expo r = 0
    · have hr : r < 2 ^ 23 := by
        unfold expo at he
        exact (Nat.div_eq_zero_iff.mp he).resolve_left (by positivity)
      have hstep : mulPow2 r (d + 1) = mulPow2 (2 * r) d := by simp [mulPow2, h0, he]
      by_cases he' : expo r' = 0
      · have hr' : r' < 2 ^ 23 := by
          unfold expo at he'
          exact (Nat.div_eq_zero_iff.mp he').resolve_left (by positivity)
        have hstep' : mulPow2 r' (d + 1) = mulPow2 (2 * r') d := by simp [mulPow2, h0', he']
        rw [hstep, hstep']
        have : expo (2 * r') ≤ 1 := expo_lt_of _ 1 (by omega)
        exact ih _ _ (by omega) (by omega)
      · rw [hstep, mulPow2_normal (d + 1) r' (by omega) hov]
        have := mulPow2_lt d (2 * r) (by omega) (by omega)
        obtain ⟨hlo, _⟩ := expo_bounds r'
        have : 2 ^ 23 ≤ r' := le_trans (Nat.le_mul_of_pos_left _ (by omega)) hlo
        have e : (d + 2) * 2 ^ 23 = (d + 1) * 2 ^ 23 + 2 ^ 23 := succ_mul_p23 (d + 1)
        omega
    · have hee : expo r ≤ expo r' := by unfold expo; exact Nat.div_le_div_right h
      rw [mulPow2_normal (d + 1) r (by omega) (by omega), mulPow2_normal (d + 1) r' (by omega) hov]
      omega

/-- **Monotone non-decreasing on the whole magnitude range**, E ≤ 7: below the format's normal range, inside it,
    across the boundary and into saturation (any rounding offset below the grid spacing, the same on both sides). -/
theorem quantise_monotone_all (E M off n n' : ℕ) (hE : 1 ≤ E) (hB : 2 ^ (E - 1) ≤ 127) (hM : M ≤ 23)
    (hoff : off < 2 ^ (23 - M)) (h : n ≤ n') :
    quantMag E M off n ≤ quantMag E M off n' := by
  obtain ⟨hamax, hanorm⟩ := absmax_facts E M hE hB hM
  have hB6 := bias_le_126 E hB
  have hpos : 0 < 2 ^ (E - 1) := by positivity
  simp only [quantMag, hB, if_true]
  set d := 127 - 2 ^ (E - 1) with hd
  have hd1 : 1 ≤ d := by omega
  set A := absmaxBits E M with hA
  have hc : min n A ≤ min n' A := min_le_min_right A h
  have hq := divPow2_mono d _ _ hd1 hc
  have hr := round_core_monotone (23 - M) off _ _ hq
  apply mulPow2_mono d _ _ hr
  -- the larger rounded pattern does not exceed the down-scaled maximum, which is a grid point
  have hqA : divPow2 (min n' A) d ≤ divPow2 A d := divPow2_mono d _ _ hd1 (min_le_right _ _)
  have hAeq : divPow2 A d = A - d * 2 ^ 23 := by simp [divPow2, show expo A > d from hanorm]
  obtain ⟨hloA, _⟩ := expo_bounds A
  have hqAd : 2 ^ (23 - M) ∣ A - d * 2 ^ 23 := Nat.dvd_sub hamax (two_pow_k_dvd_shift M d)
  have hrA := round_core_monotone (23 - M) off _ _ hqA
  rw [hAeq, round_core_fixes _ _ _ hoff hqAd] at hrA
  have hexpA : expo (A - d * 2 ^ 23) = expo A - d := expo_sub A d
  have : expo (roundCore (23 - M) off (divPow2 (min n' A) d)) ≤ expo (A - d * 2 ^ 23) := by
    unfold expo; exact Nat.div_le_div_right hrA
  rw [hexpA, expo_absmax E M hM] at this
  omega

end USProofs.C13

namespace USProofs.C13

theorem rneShift_exact (x sh : ℕ) (h : 2 ^ sh ∣ x) : rneShift x sh = x / 2 ^ sh := by
  unfold rneShift
  by_cases h0 : sh = 0
  · simp [h0]
  · have hm : x % 2 ^ sh = 0 := Nat.mod_eq_zero_of_dvd h
    have hp : 0 < 2 ^ (sh - 1) := by positivity
    simp only [h0, if_false, hm]
    split_ifs <;> omega

/-- **Representable inputs below the format's normal range keep their value**: an input whose value is
    `m · 2^(1-B-M)` (in fixed point: `m · 2^(d+k)` units of `2^-149`) is returned with the same value. -/
theorem quantise_sub_fixes_value (E M off n m : ℕ) (hE : 1 ≤ E) (hB : 2 ^ (E - 1) ≤ 127) (hM : M ≤ 23)
    (hoff : off < 2 ^ (23 - M)) (hsub : expo n ≤ 127 - 2 ^ (E - 1))
    (hrep : fixOf n = m * 2 ^ (127 - 2 ^ (E - 1) + (23 - M))) :
    val (quantMag E M off n) = val n := by
  obtain ⟨_, _, hr⟩ := sub_setup E M n hE hB hM hsub off hoff
  have hB6 := bias_le_126 E hB
  have hpos : 0 < 2 ^ (E - 1) := by positivity
  have hq : rneShift (sigOf n) (shOf E n) = m * 2 ^ (23 - M) := by
    have h1 := divPow2_low n (127 - 2 ^ (E - 1)) hsub (by omega)
    have h2 : divPow2 n (127 - 2 ^ (E - 1)) = rneShift (sigOf n) (shOf E n) := by
      have hng : ¬ (expo n > 127 - 2 ^ (E - 1)) := by omega
      simp only [divPow2, hng, if_false, sigOf, shOf]
    rw [← h2, h1, hrep, pow_add, ← Nat.mul_assoc, Nat.mul_right_comm]
    rw [rneShift_exact _ _ (Dvd.intro_left _ rfl)]
    exact Nat.mul_div_cancel _ (by positivity)
  rw [quantMag_sub_eq E M n hE hB hM hsub off]
  rw [hq] at hr ⊢
  have hfix : roundCore (23 - M) off (m * 2 ^ (23 - M)) = m * 2 ^ (23 - M) :=
    round_core_fixes _ _ _ hoff (Dvd.intro_left _ rfl)
  rw [hfix] at hr ⊢
  have hexp : expo (m * 2 ^ (23 - M)) ≤ 1 := by
    rcases Nat.lt_or_eq_of_le hr with h | h
    · exact le_trans (expo_lt_of _ 0 (by omega)) (by omega)
    · rw [h]; unfold expo; simp
  rw [val_mulPow2_any _ _ (by omega), val_small _ hr, val_eq_fix n, hrep]
  push_cast
  rw [← zpow_natCast (2 : ℚ) (23 - M), ← zpow_natCast (2 : ℚ) (127 - 2 ^ (E - 1) + (23 - M))]
  have : ((127 - 2 ^ (E - 1) + (23 - M) : ℕ) : ℤ) = ((23 - M : ℕ) : ℤ) + ((127 - 2 ^ (E - 1) : ℕ) : ℤ) := by
    push_cast; ring
  rw [this, zpow_add₀ (by norm_num : (2 : ℚ) ≠ 0)]
  ring

end USProofs.C13
