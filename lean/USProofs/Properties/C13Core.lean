/-
  C13 — in the format's normal range the whole pipeline IS the integer rounding core applied to the input's own bit
  pattern, for every format (E ≤ 7 here, E = 8 in C13E8): scaling down by 2^d, rounding and scaling back commute with
  the core because 2^d shifts the exponent field by a multiple of the grid spacing.
-/
import USModel
import USProofs.Properties.C13Full
import USProofs.Properties.C13E8

open USModel USModel.F32

namespace USProofs.C13

theorem quantMag_normal_core (E M off n : ℕ) (hE : 1 ≤ E) (hB : 2 ^ (E - 1) ≤ 127) (hM : M ≤ 23)
    (hoff : off < 2 ^ (23 - M)) (hmax : n ≤ absmaxBits E M) (hnorm : 127 - 2 ^ (E - 1) < expo n) :
    quantMag E M off n = roundCore (23 - M) off n := by
  rw [quantMag_normal_eq E M off n hB hmax hnorm]
  obtain ⟨he1, hq1, hq2, hr1, hr2, hexp, _⟩ :=
    capstone_setup_off E M n hE hB hM hmax hnorm off hoff _ _ _ _ rfl rfl rfl rfl
  set d := 127 - 2 ^ (E - 1) with hd
  set r := roundCore (23 - M) off (n - d * 2 ^ 23) with hr
  have hpos : 0 < 2 ^ (E - 1) := by positivity
  have hexpr1 : 1 ≤ expo r := le_trans he1 (expo_ge_of r _ hr1)
  have hexpr_le : expo r ≤ expo n - d + 1 := by
    rcases Nat.lt_or_ge r ((expo n - d + 1) * 2 ^ 23) with h | h
    · exact le_trans (expo_lt_of r _ h) (by omega)
    · have : r = (expo n - d + 1) * 2 ^ 23 := le_antisymm hr2 h
      rw [this]; unfold expo; simp
  rw [mulPow2_normal d r hexpr1 (by omega)]
  obtain ⟨hlo, _⟩ := expo_bounds n
  have hdn : d * 2 ^ 23 ≤ n := le_trans (Nat.mul_le_mul_right _ (by omega)) hlo
  rw [hr, ← roundCore_add_multiple _ _ _ _ (two_pow_k_dvd_shift M d), Nat.sub_add_cancel hdn]

/-- **One of the two representable neighbours**, end to end, for any rounding offset below the grid spacing (nearest
    rounding and every stochastic draw): the multiples of `2^(23-M)` enclosing the input's pattern. -/
theorem quantise_neighbour (E M off n : ℕ) (hE : 1 ≤ E) (hB : 2 ^ (E - 1) ≤ 127) (hM : M ≤ 23)
    (hoff : off < 2 ^ (23 - M)) (hmax : n ≤ absmaxBits E M) (hnorm : 127 - 2 ^ (E - 1) < expo n) :
    quantMag E M off n = n / 2 ^ (23 - M) * 2 ^ (23 - M) ∨
    quantMag E M off n = (n / 2 ^ (23 - M) + 1) * 2 ^ (23 - M) := by
  rw [quantMag_normal_core E M off n hE hB hM hoff hmax hnorm]
  exact round_core_neighbour _ _ _ hoff

/-- nearest rounding, ties toward zero: an input exactly half-way goes to the lower neighbour (end to end) -/
theorem quantise_tie_down (E M n : ℕ) (hE : 1 ≤ E) (hB : 2 ^ (E - 1) ≤ 127) (hM : M ≤ 22)
    (hmax : n ≤ absmaxBits E M) (hnorm : 127 - 2 ^ (E - 1) < expo n)
    (htie : n % 2 ^ (23 - M) = 2 ^ (23 - M - 1)) :
    quantMag E M (offNearest M) n = n / 2 ^ (23 - M) * 2 ^ (23 - M) := by
  rw [quantMag_normal_core E M _ n hE hB (by omega) (offNearest_lt M) hmax hnorm]
  have h := round_core_tie_down (23 - M) n (by omega) (by omega) htie
  have hM' : 23 - (23 - M) = M := by omega
  rwa [hM'] at h

end USProofs.C13
