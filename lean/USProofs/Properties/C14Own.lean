/-
  C14 — end to end on the input's own bit pattern (normal range, E ≤ 7): the number of draws that round away from zero,
  out of 2^srbits, and the exact-probability statement when all discarded bits are used.
-/
import USModel
import USProofs.Properties.C13Core
import USProofs.Properties.C14

open USModel USModel.F32

namespace USProofs.C14
open USProofs.C13

theorem countUp_own (E M n srbits : ℕ) (hE : 1 ≤ E) (hB : 2 ^ (E - 1) ≤ 127) (hM : M ≤ 23)
    (hmax : n ≤ absmaxBits E M) (hnorm : 127 - 2 ^ (E - 1) < expo n) (hs : srbits ≤ 23 - M) :
    countUp E M srbits n = countUpCore (23 - M) (23 - M - srbits) n := by
  unfold countUp countUpCore
  have hk : 23 - M - (23 - M - srbits) = srbits := by omega
  rw [hk]
  apply List.countP_congr
  intro r hr
  have hr' : r < 2 ^ srbits := List.mem_range.mp hr
  have h0 : (0 : ℕ) < 2 ^ (23 - M) := by positivity
  have hoff := offSR_lt M srbits r hs hr'
  unfold roundsUp roundsUpCore
  rw [quantMag_normal_core E M _ n hE hB hM hoff hmax hnorm, quantMag_normal_core E M 0 n hE hB hM h0 hmax hnorm, offSR_eq]

/-- **Exact probability, end to end**: with all `23 - M` discarded bits used as random bits, the number of draws (out of
    `2^(23-M)`) for which `FPFormat.quantise` rounds the magnitude `n` away from zero is exactly the value of the
    discarded bits — the input's fractional position between its two neighbours, in units of `2^-(23-M)`. -/
theorem sr_exact_end_to_end (E M n : ℕ) (hE : 1 ≤ E) (hB : 2 ^ (E - 1) ≤ 127) (hM : M ≤ 23)
    (hmax : n ≤ absmaxBits E M) (hnorm : 127 - 2 ^ (E - 1) < expo n) :
    countUp E M (23 - M) n = n % 2 ^ (23 - M) := by
  rw [countUp_own E M n (23 - M) hE hB hM hmax hnorm (Nat.le_refl _), Nat.sub_self]
  exact sr_prob_exact (23 - M) n

end USProofs.C14
