/-
  C18 — on a DAG of any size, what each tracker logs in the backward pass is the total gradient of
  its node: the table of logged gradients is the unique solution of the adjoint equation
  "gradient of `i` = seed of `i` ⊕ the cotangents every consumer `j` of `i` sends back, computed
  from the gradient of `j`", with the additions made in the order autograd makes them.  No law of
  `+` is used, so the statement covers floating-point tensors bit for bit.
-/
import USModel.Dag

open USModel

namespace USProofs.C18

variable {V : Type}

/-- delivering a node's cotangents adds, to each buffer, exactly the contributions addressed to it,
    in argument order -/
theorem accAll_apply [Add V] (adj : Nat → Option V) (ins : List Nat) (cs : List V) (i : Nat) :
    accAll adj ins cs i = (dagContribs ins cs i).foldl addOpt (adj i) := by
  induction ins generalizing adj cs with
  | nil => simp [accAll, dagContribs]
  | cons j js ih =>
    cases cs with
    | nil => simp [accAll, dagContribs]
    | cons c cs =>
      simp only [accAll, dagContribs]
      rw [ih]
      by_cases h : j = i
      · subst h; simp [accAt]
      · have : ¬ i = j := fun e => h e.symm
        simp [accAt, h, this]

/-- a node sends nothing to a node it does not read -/
theorem dagContribs_not_mem (ins : List Nat) (cs : List V) (i : Nat) (h : i ∉ ins) :
    dagContribs ins cs i = [] := by
  induction ins generalizing cs with
  | nil => simp [dagContribs]
  | cons j js ih =>
    cases cs with
    | nil => simp [dagContribs]
    | cons c cs =>
      have hj : ¬ j = i := fun e => h (by simp [e])
      have hjs : i ∉ js := fun e => h (by simp [e])
      simp [dagContribs, hj, ih cs hjs]

section
variable [Add V] [Inhabited V] (wrapB : V → V) (P : List (DNode V)) (env : List V)

/-- processing node `m` changes a buffer by exactly `pullStep` evaluated at the gradient `m` holds -/
theorem backStep_apply (adj : Nat → Option V) (m i : Nat) (T : Nat → Option V) (hT : T m = adj m) :
    backStep wrapB P env adj m i = pullStep wrapB P env T i (adj i) m := by
  unfold backStep pullStep
  rw [hT]
  cases hP : P[m]? with
  | none => rfl
  | some n =>
    cases hg : adj m with
    | none => rfl
    | some g => exact accAll_apply _ _ _ _

/-- processing node `m` leaves the buffers of `m` and of every later node alone -/
theorem backStep_stable (hwf : DagWF P) (adj : Nat → Option V) (m j : Nat) (hj : m ≤ j) :
    backStep wrapB P env adj m j = adj j := by
  unfold backStep
  cases hP : P[m]? with
  | none => rfl
  | some n =>
    cases hg : adj m with
    | none => rfl
    | some g =>
      show accAll adj n.ins _ j = adj j
      rw [accAll_apply, dagContribs_not_mem]
      · rfl
      · intro hmem
        have := hwf m n hP j hmem
        omega

/-- the dagSweep over nodes `< m` leaves the buffers of nodes `≥ m` alone: the gradient a node holds
    when it is processed is the gradient it holds at the end -/
theorem dagSweep_stable (hwf : DagWF P) (m : Nat) (adj : Nat → Option V) (j : Nat) (hj : m ≤ j) :
    dagSweep wrapB P env m adj j = adj j := by
  induction m generalizing adj with
  | zero => rfl
  | succ m ih =>
    show dagSweep wrapB P env m (backStep wrapB P env adj m) j = adj j
    rw [ih _ (by omega), backStep_stable wrapB P env hwf adj m j (by omega)]

/-- **Adjoint equation** for the dagSweep over nodes `m-1 … 0` from any initial buffers -/
theorem dagSweep_adjoint (hwf : DagWF P) (m : Nat) (adj : Nat → Option V) (i : Nat) :
    dagSweep wrapB P env m adj i =
      (descList m).foldl (pullStep wrapB P env (dagSweep wrapB P env m adj) i) (adj i) := by
  induction m generalizing adj with
  | zero => rfl
  | succ m ih =>
    show dagSweep wrapB P env m (backStep wrapB P env adj m) i =
      (descList (m + 1)).foldl (pullStep wrapB P env (dagSweep wrapB P env m (backStep wrapB P env adj m)) i) (adj i)
    rw [ih (backStep wrapB P env adj m)]
    simp only [descList, List.foldl_cons]
    congr 1
    apply backStep_apply
    rw [dagSweep_stable wrapB P env hwf m _ m (Nat.le_refl _),
        backStep_stable wrapB P env hwf adj m m (Nat.le_refl _)]

/-- a node at or before `i` adds nothing to the buffer of `i` -/
theorem pullStep_early (hwf : DagWF P) (T : Nat → Option V) (i j : Nat) (hj : j ≤ i) (acc : Option V) :
    pullStep wrapB P env T i acc j = acc := by
  unfold pullStep
  cases hP : P[j]? with
  | none => rfl
  | some n =>
    cases hg : T j with
    | none => rfl
    | some g =>
      show (dagContribs n.ins _ i).foldl addOpt acc = acc
      rw [dagContribs_not_mem]
      · rfl
      · intro hmem
        have := hwf j n hP i hmem
        omega

/-- the term of consumer `j` depends on the table only through the gradient of `j` -/
theorem pullStep_congr (T U : Nat → Option V) (i j : Nat) (h : T j = U j) (acc : Option V) :
    pullStep wrapB P env T i acc j = pullStep wrapB P env U i acc j := by
  unfold pullStep; rw [h]

theorem fold_congr (hwf : DagWF P) (T U : Nat → Option V) (i : Nat) (h : ∀ j, i < j → T j = U j)
    (js : List Nat) (acc : Option V) :
    js.foldl (pullStep wrapB P env T i) acc = js.foldl (pullStep wrapB P env U i) acc := by
  induction js generalizing acc with
  | nil => rfl
  | cons j js ih =>
    simp only [List.foldl_cons]
    by_cases hj : j ≤ i
    · rw [pullStep_early wrapB P env hwf T i j hj, pullStep_early wrapB P env hwf U i j hj, ih]
    · rw [pullStep_congr wrapB P env T U i j (h j (by omega)), ih]

/-- a table `T` *solves the adjoint equation* for seeds `seed` on a program of `n` nodes -/
def SolvesAdjoint (n : Nat) (seed T : Nat → Option V) : Prop :=
  ∀ i, T i = (descList n).foldl (pullStep wrapB P env T i) (seed i)

/-- **What the trackers log solves the adjoint equation**: for every node `i`, the logged gradient
    is the seed of `i` plus, for every later node `j` (last first) and every argument position of
    `j` that reads `i`, the cotangent `vjp_j` produces from the gradient logged at `j`. -/
theorem logged_solves_adjoint (hwf : DagWF P) (seed : Nat → Option V) :
    SolvesAdjoint wrapB P env P.length seed (dagSweep wrapB P env P.length seed) :=
  fun i => dagSweep_adjoint wrapB P env hwf P.length seed i

/-- **… and it is the only solution**: any table that satisfies the adjoint equation agrees with
    the logged gradients at every node. -/
theorem adjoint_unique (hwf : DagWF P) (n : Nat) (seed T U : Nat → Option V)
    (hT : SolvesAdjoint wrapB P env n seed T) (hU : SolvesAdjoint wrapB P env n seed U) :
    ∀ i, T i = U i := by
  have key : ∀ k i, n ≤ i + k → T i = U i := by
    intro k
    induction k with
    | zero =>
      intro i hi
      rw [hT i, hU i]
      apply fold_congr wrapB P env hwf
      intro j hj
      -- nodes beyond the program hold their seed
      have : ∀ (W : Nat → Option V), SolvesAdjoint wrapB P env n seed W → W j = seed j := by
        intro W hW
        rw [hW j]
        have hall : ∀ (js : List Nat) (acc : Option V), (∀ x ∈ js, x ≤ j) →
            js.foldl (pullStep wrapB P env W j) acc = acc := by
          intro js
          induction js with
          | nil => intros; rfl
          | cons x xs ih =>
            intro acc hx
            simp only [List.foldl_cons]
            rw [pullStep_early wrapB P env hwf W j x (hx x (by simp))]
            exact ih acc (fun y hy => hx y (by simp [hy]))
        apply hall
        intro x hx
        have : ∀ m x, x ∈ descList m → x < m := by
          intro m
          induction m with
          | zero => intro x hx; simp [descList] at hx
          | succ m ih =>
            intro x hx
            simp only [descList, List.mem_cons] at hx
            rcases hx with rfl | hx
            · omega
            · have := ih x hx; omega
        have := this n x hx
        omega
      rw [this T hT, this U hU]
    | succ k ih =>
      intro i hi
      rw [hT i, hU i]
      apply fold_congr wrapB P env hwf
      intro j hj
      exact ih j (by omega)
  intro i
  exact key n i (by omega)

/-- the tracker's wrappers are identities: the instrumented forward pass and reverse dagSweep are the
    plain ones (values and every gradient buffer, at every node) -/
theorem dag_transparent (wrap wrapB' : V → V) (hw : ∀ x, wrap x = x) (hb : ∀ g, wrapB' g = g)
    (seed : Nat → Option V) :
    dagFwd wrap P [] = dagFwd id P [] ∧
    dagSweep wrapB' P env P.length seed = dagSweep id P env P.length seed := by
  have e1 : wrap = id := funext hw
  have e2 : wrapB' = id := funext hb
  subst e1; subst e2; exact ⟨rfl, rfl⟩

end

/-- non-vacuity and a worked fan-out: `x` (node 0) is read twice by node 1 (`x*x`) and once by
    node 2 (`x*x + x`); with seed 1 at node 2 the tracker of `x` logs `2x + 1`. -/
example :
    dagLog [DSpec.toNode (.input [3, -2]), DSpec.toNode (.mul 0 0), DSpec.toNode (.lin [1, 0] [1, 1])]
      (fun k => if k = 2 then some [1, 1] else none)
    = [([3, -2], some [7, -3]), ([9, 4], some [1, 1]), ([12, 2], some [1, 1])] := by decide

example : DagWF [DSpec.toNode (.input [3, -2]), DSpec.toNode (.mul 0 0), DSpec.toNode (.lin [1, 0] [1, 1])] := by
  intro m n h i hi
  match m, h with
  | 0, h => simp [DSpec.toNode] at h; subst h; simp at hi
  | 1, h => simp [DSpec.toNode] at h; subst h; simp at hi; omega
  | 2, h => simp [DSpec.toNode] at h; subst h; simp at hi; omega
  | k + 3, h => simp at h

end USProofs.C18
