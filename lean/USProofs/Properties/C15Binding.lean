/-
  C15 — the spliced call binds: after `_replace_with_quantised` changed a node's target to the
  quantised function and spliced the two format tuples into its positional arguments, the new call
  binds against the quantised function's signature, every original operand reaches the parameter of
  the same name, the formats reach `fwd_format_tuple` / `bwd_format_tuple`, and every other option
  is forwarded unchanged (defects F-C15b "bias by keyword" and the `bias`-less `F.linear(x, w)` were
  exactly failures of this).  Model: `USModel/CallBinding.lean` + `replaceWithQuantised`.

  Scope (stated as hypotheses): the tensor operands are positional (2 or 3 positionals for linear, 3
  for attention); `U.linear`'s `scale_power` is not given (the quantised wrapper has no such
  parameter — a call carrying it does not bind: `u_linear_scale_power_rejected`).
-/
import USModel
import USModel.CallBinding

open USModel

namespace USProofs.C15

def splicedArgs (fwd bwd : Fmt) (n : GNode) : List Arg := (replaceWithQuantised fwd bwd n).args
def splicedKw (fwd bwd : Fmt) (n : GNode) : List (String × Arg) := (replaceWithQuantised fwd bwd n).kwargs

theorem lookup_erase_ne (kw : List (String × Arg)) (k k' : String) (h : k ≠ k') :
    lookupKw (eraseKw kw k') k = lookupKw kw k := by
  unfold lookupKw eraseKw
  induction kw with
  | nil => rfl
  | cons kv rest ih =>
    obtain ⟨key, v⟩ := kv
    by_cases h1 : key = k'
    · subst h1
      have hk : (key == k) = false := by
        rw [beq_eq_false_iff_ne]; exact fun e => h e.symm
      simp only [List.filter_cons, bne_self_eq_false, Bool.false_eq_true, if_false, List.find?_cons, hk]
      exact ih
    · have hne : (key != k') = true := by rw [bne_iff_ne]; exact h1
      simp only [List.filter_cons, hne, if_true, List.find?_cons]
      split
      · rfl
      · exact ih

theorem erase_all_eq (kw : List (String × Arg)) (k : String) (h : ∀ kv ∈ kw, kv.1 = k) : eraseKw kw k = [] := by
  unfold eraseKw
  rw [List.filter_eq_nil_iff]
  intro kv hkv
  simp [h kv hkv]

/-! ### general facts about `bindCall` -/

theorem bindCall_ok (s : CallSig) (args : List Arg) (kw r : List (String × Arg))
    (h1 : args.length ≤ s.params.length - s.kwOnly)
    (h2 : ∀ kv ∈ kw, kv.1 ∉ s.names.take args.length)
    (h3 : s.varKw = true ∨ ∀ kv ∈ kw, kv.1 ∈ s.names)
    (h4 : bindRest kw (s.params.drop args.length) = some r) :
    bindCall s args kw =
      some ((s.names.take args.length).zip args ++ r ++ kw.filter (fun kv => !s.names.contains kv.1)) := by
  unfold bindCall
  have c1 : ¬ args.length > s.params.length - s.kwOnly := Nat.not_lt.mpr h1
  have c2 : (kw.any fun kv => (s.names.take args.length).contains kv.1) = false := by
    rw [List.any_eq_false]; intro kv hkv
    simpa using h2 kv hkv
  have c3 : (!s.varKw && kw.any fun kv => !s.names.contains kv.1) = false := by
    rcases h3 with h3 | h3
    · simp [h3]
    · have : (kw.any fun kv => !s.names.contains kv.1) = false := by
        rw [List.any_eq_false]; intro kv hkv
        simpa using h3 kv hkv
      rw [this]; simp
  rw [if_neg c1, c2, c3, h4]
  simp

theorem bindCall_inv (s : CallSig) (args : List Arg) (kw b : List (String × Arg)) (h : bindCall s args kw = some b) :
    args.length ≤ s.params.length - s.kwOnly ∧ (∀ kv ∈ kw, kv.1 ∉ s.names.take args.length) ∧
    (s.varKw = true ∨ ∀ kv ∈ kw, kv.1 ∈ s.names) ∧
    ∃ r, bindRest kw (s.params.drop args.length) = some r ∧
      b = (s.names.take args.length).zip args ++ r ++ kw.filter (fun kv => !s.names.contains kv.1) := by
  unfold bindCall at h
  split at h
  · cases h
  · rename_i c1
    split at h
    · cases h
    · rename_i c2
      split at h
      · cases h
      · rename_i c3
        split at h
        · cases h
        · rename_i r hr
          refine ⟨Nat.not_lt.mp c1, ?_, ?_, r, hr, by simpa using h.symm⟩
          · intro kv hkv hmem
            apply c2
            rw [List.any_eq_true]
            exact ⟨kv, hkv, by simpa using hmem⟩
          · by_cases hv : s.varKw = true
            · exact Or.inl hv
            · right
              intro kv hkv
              refine Classical.byContradiction fun hmem => c3 ?_
              have hany : (kw.any fun kv => !s.names.contains kv.1) = true := by
                rw [List.any_eq_true]
                exact ⟨kv, hkv, by simpa using hmem⟩
              have hv' : s.varKw = false := by simpa using hv
              rw [hany, hv']; rfl

/-! ### `F.linear` -/

def sigFLinear : CallSig := ⟨[("input", none), ("weight", none), ("bias", none_)], false, 0⟩
def sigQLinear : CallSig := ⟨[("input", none), ("weight", none), ("bias", none), ("fwd_format_tuple", none),
                              ("bwd_format_tuple", none)], false, 0⟩
example : callSigOf "F.linear" = some sigFLinear ∧ callSigOf "Q.linear" = some sigQLinear := ⟨rfl, rfl⟩

/-- `F.linear(x, w)` / `F.linear(x, w, bias=b)` (two positionals): the spliced call binds, bias taken from
    the keyword (or `None`), nothing left over. -/
theorem linear2_binds (fwd bwd : Fmt) (n : GNode) (a0 a1 : Arg) (b : List (String × Arg))
    (hop : n.op = "call_function") (ht : n.target = "F.linear") (hargs : n.args = [a0, a1])
    (hb : bindCall sigFLinear n.args n.kwargs = some b) :
    bindCall sigQLinear (splicedArgs fwd bwd n) (splicedKw fwd bwd n) =
      some [("input", a0), ("weight", a1), ("bias", (lookupKw n.kwargs "bias").getD (.lit "None")),
            ("fwd_format_tuple", fwd.toArg), ("bwd_format_tuple", bwd.toArg)] ∧
    b = [("input", a0), ("weight", a1), ("bias", (lookupKw n.kwargs "bias").getD (.lit "None"))] := by
  obtain ⟨_, i2, i3, r, hr, hbeq⟩ := bindCall_inv _ _ _ _ hb
  rw [hargs] at i2 hr hbeq
  have hkeys : ∀ kv ∈ n.kwargs, kv.1 = "bias" := by
    intro kv hkv
    have m1 : kv.1 ∉ ["input", "weight"] := i2 kv hkv
    have m2 : kv.1 ∈ ["input", "weight", "bias"] := by
      rcases i3 with h | h
      · cases h
      · exact h kv hkv
    simp only [List.mem_cons, List.not_mem_nil, or_false, not_or] at m1 m2
    rcases m2 with e | e | e
    · exact absurd e m1.1
    · exact absurd e m1.2
    · exact e
  have herase : eraseKw n.kwargs "bias" = [] := erase_all_eq _ _ hkeys
  have hfil : n.kwargs.filter (fun kv => !sigFLinear.names.contains kv.1) = [] := by
    rw [List.filter_eq_nil_iff]; intro kv hkv
    simp [hkeys kv hkv, sigFLinear, CallSig.names]
  have hr' : r = [("bias", (lookupKw n.kwargs "bias").getD (.lit "None"))] := by
    have : sigFLinear.params.drop [a0, a1].length = [("bias", none_)] := rfl
    rw [this] at hr
    simp only [bindRest, none_] at hr
    cases hl : lookupKw n.kwargs "bias" <;> simp [hl] at hr <;> simp [← hr]
  constructor
  · have hs : splicedArgs fwd bwd n = [a0, a1, (lookupKw n.kwargs "bias").getD (.lit "None"), fwd.toArg, bwd.toArg]
        ∧ splicedKw fwd bwd n = [] := by
      simp [splicedArgs, splicedKw, replaceWithQuantised, hop, ht, quantMap, hargs, herase]
    rw [hs.1, hs.2]
    rw [bindCall_ok sigQLinear _ [] [] (by simp [sigQLinear]) (by simp) (Or.inr (by simp)) (by simp [sigQLinear, bindRest])]
    simp [sigQLinear, CallSig.names]
  · rw [hbeq, hr', hfil]
    simp [sigFLinear, CallSig.names]

/-- `F.linear(x, w, b)` (three positionals): no keyword can remain, the spliced call binds -/
theorem linear3_binds (fwd bwd : Fmt) (n : GNode) (a0 a1 a2 : Arg) (b : List (String × Arg))
    (hop : n.op = "call_function") (ht : n.target = "F.linear") (hargs : n.args = [a0, a1, a2])
    (hb : bindCall sigFLinear n.args n.kwargs = some b) :
    bindCall sigQLinear (splicedArgs fwd bwd n) (splicedKw fwd bwd n) =
      some [("input", a0), ("weight", a1), ("bias", a2), ("fwd_format_tuple", fwd.toArg), ("bwd_format_tuple", bwd.toArg)] := by
  obtain ⟨_, i2, i3, _⟩ := bindCall_inv _ _ _ _ hb
  rw [hargs] at i2
  have hnil : n.kwargs = [] := by
    cases hk : n.kwargs with
    | nil => rfl
    | cons kv rest =>
      exfalso
      have hkv : kv ∈ n.kwargs := by simp [hk]
      have m1 : kv.1 ∉ ["input", "weight", "bias"] := i2 kv hkv
      rcases i3 with h | h
      · cases h
      · exact m1 (h kv hkv)
  have hs : splicedArgs fwd bwd n = [a0, a1, a2, fwd.toArg, bwd.toArg] ∧ splicedKw fwd bwd n = [] := by
    simp [splicedArgs, splicedKw, replaceWithQuantised, hop, ht, quantMap, hargs, hnil]
  rw [hs.1, hs.2]
  rw [bindCall_ok sigQLinear _ [] [] (by simp [sigQLinear]) (by simp) (Or.inr (by simp)) (by simp [sigQLinear, bindRest])]
  simp [sigQLinear, CallSig.names]

/-! ### attention: three positional operands, every option by keyword -/

def sigQSdpa : CallSig := ⟨[("query", none), ("key", none), ("value", none), ("fwd_format_tuple", none),
                        ("bwd_format_tuple", none)], true, 0⟩
example : callSigOf "Q.sdpa" = some sigQSdpa ∧ callSigOf "Q.u_sdpa" = some sigQSdpa := ⟨rfl, rfl⟩

/-- the quantised attention wrapper receives the three operands and the two formats, and **every**
    keyword of the original call (mask, dropout_p, is_causal, mult, …) is forwarded untouched to the
    inner attention call through `**kwargs` -/
theorem sdpa_binds (fwd bwd : Fmt) (n : GNode) (q : String) (a0 a1 a2 : Arg)
    (hop : n.op = "call_function") (ht : quantMap.lookup n.target = some q) (hargs : n.args = [a0, a1, a2])
    (hk : ∀ kv ∈ n.kwargs, kv.1 ∉ ["query", "key", "value", "fwd_format_tuple", "bwd_format_tuple"]) :
    bindCall sigQSdpa (splicedArgs fwd bwd n) (splicedKw fwd bwd n) =
      some ([("query", a0), ("key", a1), ("value", a2), ("fwd_format_tuple", fwd.toArg), ("bwd_format_tuple", bwd.toArg)]
            ++ n.kwargs) := by
  have hs : splicedArgs fwd bwd n = [a0, a1, a2, fwd.toArg, bwd.toArg] ∧ splicedKw fwd bwd n = n.kwargs := by
    simp [splicedArgs, splicedKw, replaceWithQuantised, hop, ht, hargs]
  have hfil : n.kwargs.filter (fun kv => !sigQSdpa.names.contains kv.1) = n.kwargs := by
    rw [List.filter_eq_self]; intro kv hkv
    have := hk kv hkv
    simpa [sigQSdpa, CallSig.names] using this
  rw [hs.1, hs.2]
  rw [bindCall_ok sigQSdpa _ n.kwargs [] (by simp [sigQSdpa]) (by simpa [sigQSdpa, CallSig.names] using hk) (Or.inl rfl)
    (by simp [sigQSdpa, bindRest])]
  rw [hfil]
  simp [sigQSdpa, CallSig.names]

/-! ### `U.linear` (as left in the graph by `unit_scale`: operands positional, `constraint` by keyword) -/

def sigQULinear : CallSig := ⟨[("input", none), ("weight", none), ("bias", none), ("fwd_format_tuple", none),
                           ("bwd_format_tuple", none), ("constraint", some (.lit "'to_output_scale'"))], false, 0⟩
example : callSigOf "Q.u_linear" = some sigQULinear := rfl

/-- three positionals and an optional `constraint=` keyword: the constraint reaches the wrapper's
    `constraint` parameter (the default `'to_output_scale'` — `U.linear`'s own default — otherwise) -/
theorem u_linear3_binds (fwd bwd : Fmt) (n : GNode) (a0 a1 a2 : Arg)
    (hop : n.op = "call_function") (ht : n.target = "U.linear") (hargs : n.args = [a0, a1, a2])
    (hk : ∀ kv ∈ n.kwargs, kv.1 = "constraint") :
    bindCall sigQULinear (splicedArgs fwd bwd n) (splicedKw fwd bwd n) =
      some [("input", a0), ("weight", a1), ("bias", a2), ("fwd_format_tuple", fwd.toArg), ("bwd_format_tuple", bwd.toArg),
            ("constraint", (lookupKw n.kwargs "constraint").getD (.lit "'to_output_scale'"))] := by
  have hs : splicedArgs fwd bwd n = [a0, a1, a2, fwd.toArg, bwd.toArg] ∧ splicedKw fwd bwd n = n.kwargs := by
    simp [splicedArgs, splicedKw, replaceWithQuantised, hop, ht, quantMap, hargs, List.lookup]
  have hfil : n.kwargs.filter (fun kv => !sigQULinear.names.contains kv.1) = [] := by
    rw [List.filter_eq_nil_iff]; intro kv hkv
    simp [hk kv hkv, sigQULinear, CallSig.names]
  have hr : bindRest n.kwargs (sigQULinear.params.drop [a0, a1, a2, fwd.toArg, bwd.toArg].length) =
      some [("constraint", (lookupKw n.kwargs "constraint").getD (.lit "'to_output_scale'"))] := by
    have : sigQULinear.params.drop [a0, a1, a2, fwd.toArg, bwd.toArg].length = [("constraint", some (.lit "'to_output_scale'"))] := rfl
    rw [this]
    cases hl : lookupKw n.kwargs "constraint" <;> simp [bindRest, hl]
  rw [hs.1, hs.2]
  rw [bindCall_ok sigQULinear _ n.kwargs _ (by simp [sigQULinear])
    (by intro kv hkv; simp [hk kv hkv, sigQULinear, CallSig.names])
    (Or.inr (by intro kv hkv; simp [hk kv hkv, sigQULinear, CallSig.names])) hr]
  rw [hfil]
  simp [sigQULinear, CallSig.names]

/-- a `U.linear` call that carries `scale_power` cannot be simulated: the quantised wrapper has no such
    parameter and no `**kwargs`, so the spliced call raises `TypeError` (never silently drops it) -/
theorem u_linear_scale_power_rejected (fwd bwd : Fmt) (n : GNode) (a0 a1 a2 v : Arg)
    (hop : n.op = "call_function") (ht : n.target = "U.linear") (hargs : n.args = [a0, a1, a2])
    (hk : n.kwargs = [("scale_power", v)]) :
    bindCall sigQULinear (splicedArgs fwd bwd n) (splicedKw fwd bwd n) = none := by
  simp [splicedArgs, splicedKw, replaceWithQuantised, hop, ht, quantMap, hargs, hk, bindCall, sigQULinear, CallSig.names, List.lookup]

/-! ### non-vacuity -/
example : (bindCall sigFLinear [.ref 0, .ref 1] [("bias", .ref 2)]).map (·.map fun p => (p.1, p.2.show)) =
    some [("input", "%0"), ("weight", "%1"), ("bias", "%2")] := by decide
example : (bindCall sigFLinear [.ref 0, .ref 1] [("bais", .ref 2)]).isNone = true := by decide
example : (bindCall sigFLinear [.ref 0, .ref 1, .ref 2] [("bias", .ref 2)]).isNone = true := by decide

end USProofs.C15
