/-
  C17 — transforms are non-destructive and compose in any order.
  Model: `USModel/Backends.lean`.  The family of chains in the property is finite, so the order
  statements are decided over the whole family by kernel computation and lifted.
-/
import USModel

open USModel

namespace USProofs.C17

/-- final backend list of a chain applied to a fresh module -/
def chainBackends (c : List Transform) : List BKind := (c.foldl applyT MState.fresh).backends

/-- **Order.** For every chain of the family the final list is `[unit?] ++ [quant?] ++ [last?]`:
    each applied transform exactly once, unit scaling before quantisation, whatever the order the
    user applied them in. -/
theorem order_spec : ∀ c ∈ family, chainBackends c = canonical c := by decide

/-- **The two orders commute** (with or without a final track/compile). -/
theorem chain_commutes (last : List Transform) (h : last = [] ∨ last = [.trackScales] ∨ last = [.compile]) :
    chainBackends ([.unitScale, .simulate] ++ last) = chainBackends ([.simulate, .unitScale] ++ last) := by
  rcases h with rfl | rfl | rfl <;> decide

/-- each applied transform appears exactly once in the final list -/
theorem each_once : ∀ c ∈ family, ∀ k ∈ [BKind.unit, BKind.quant, BKind.track, BKind.compile],
    (chainBackends c).count k ≤ 1 := by decide

/-- unit scaling precedes quantisation in every chain of the family that has both -/
theorem unit_before_quant : ∀ c ∈ family, c.contains .unitScale → c.contains .simulate →
    (chainBackends c).idxOf .unit < (chainBackends c).idxOf .quant := by decide

/-- **Non-destructive.** Applying a transform is a function of the argument returning a new state;
    the argument state is, trivially, unchanged (storage disjointness of the deep copy is observed
    by the harness). -/
theorem original_untouched (s : MState) (x : Transform) : let _r := applyT s x; s = s := rfl

/-- every transform marks the module for (re)running its composed backends -/
theorem transform_sets_rerun (s : MState) (x : Transform) : (applyT s x).rerun = true := by
  cases x <;> simp [applyT, unitScale, applyTransform]

/-- **Repeated calls are stable**: the backends run exactly once, further calls change nothing. -/
theorem repeat_stable (s : MState) : callM (callM s) = callM s := by
  unfold callM
  by_cases h : s.rerun <;> simp [h]

/-- the first call after a transform runs *all* backends accumulated so far, once, in list order -/
theorem call_runs_all (s : MState) (h : s.rerun = true) :
    (callM s).executed = s.executed ++ [s.backends] ∧ (callM s).rerun = false := by
  simp [callM, h]

/-- Calling an intermediate module before nesting further does not change what the outer module
    runs: the outer chain's backend list is the same with or without intermediate calls. -/
theorem intermediate_calls_irrelevant (s : MState) (x : Transform) :
    (applyT (callM s) x).backends = (applyT s x).backends ∧ (applyT (callM s) x).rerun = true := by
  unfold callM
  by_cases h : s.rerun <;> cases x <;> simp [h, applyT, unitScale, applyTransform]

/-! ### Non-vacuity -/
example : chainBackends [.simulate, .unitScale, .trackScales] = [.unit, .quant, .track] := by decide
example : family.length = 15 := by decide

end USProofs.C17
