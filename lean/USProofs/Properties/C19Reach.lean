/-
  C19 — bypassing a removed node preserves producer-to-consumer reachability among the surviving
  nodes, at the level of the whole graph (any size, any nesting of the arguments).

  `Reach g a b` (defined in C16Deps.lean) is "b is computed from a".  When the removed node `id`
  has the single input `r` (a view / reshape / negation / dtype cast — the same-scale and non-float
  cases with one input) then for all surviving `a`, `b`:   Reach g a b ↔ Reach (pruneNode g id (some r)) a b.
  The consumer-level statement (`prune_inputs`) needs no assumption on the removed node: each consumer
  keeps all its other inputs and gets `r` wherever it had `id`.
-/
import USModel
import USProofs.Properties.C19
import USProofs.Properties.C16Deps

open USModel
open USProofs.C16 (Reach)

namespace USProofs.C19

/-- the node `x` after `_prune(graph, id, replacement)` rewired it -/
def rewired (id : Nat) (replacement : Option Nat) (x : INode) : INode :=
  { x with n := { x.n with args := Arg.mapRefsList (subst id replacement) x.n.args,
                           kwargs := x.n.kwargs.map fun (k, a) => (k, a.mapRefs (subst id replacement)) } }

theorem pruneNode_eq (g : IGraph) (id : Nat) (replacement : Option Nat) :
    pruneNode g id replacement = (g.filter (·.id != id)).map (rewired id replacement) := rfl

theorem refsList_kwargs_map (f : Nat → Arg) (kw : List (String × Arg)) :
    Arg.refsList ((kw.map fun (k, a) => (k, a.mapRefs f)).map (·.2)) =
      (Arg.refsList (kw.map (·.2))).flatMap (fun i => (f i).refs) := by
  induction kw with
  | nil => simp [Arg.refsList]
  | cons kv rest ih =>
    obtain ⟨k, a⟩ := kv
    simp only [List.map_cons, Arg.refsList, List.flatMap_append, refs_mapRefs]
    rw [← ih]

/-- inputs of a rewired node: exactly the images of the old inputs under the substitution -/
theorem rewired_inputs (id : Nat) (replacement : Option Nat) (x : INode) (c : Nat) :
    c ∈ (rewired id replacement x).n.inputs ↔ ∃ i ∈ x.n.inputs, c ∈ (subst id replacement i).refs := by
  simp only [rewired, GNode.inputs, List.mem_eraseDups, List.mem_append, refsList_mapRefsList, refsList_kwargs_map,
    List.mem_flatMap]
  constructor
  · rintro (⟨i, hi, hc⟩ | ⟨i, hi, hc⟩)
    · exact ⟨i, Or.inl hi, hc⟩
    · exact ⟨i, Or.inr hi, hc⟩
  · rintro ⟨i, hi | hi, hc⟩
    · exact Or.inl ⟨i, hi, hc⟩
    · exact Or.inr ⟨i, hi, hc⟩

theorem subst_refs_bypass (id r i c : Nat) :
    c ∈ (subst id (some r) i).refs ↔ (i = id ∧ c = r) ∨ (i ≠ id ∧ c = i) := by
  unfold subst
  by_cases h : i = id
  · subst h; simp [Arg.refs]
  · have : (i == id) = false := by simpa using h
    simp [this, Arg.refs, h]

/-- **Consumer-level bypass**: a surviving node keeps every input other than the removed node and has
    the replacement wherever it had the removed node (positional, keyword or nested) — and nothing else. -/
theorem prune_inputs (id r : Nat) (x : INode) (c : Nat) :
    c ∈ (rewired id (some r) x).n.inputs ↔ (c ∈ x.n.inputs ∧ c ≠ id) ∨ (c = r ∧ id ∈ x.n.inputs) := by
  rw [rewired_inputs]
  constructor
  · rintro ⟨i, hi, hc⟩
    rcases (subst_refs_bypass id r i c).mp hc with ⟨e, ec⟩ | ⟨ne, ec⟩
    · subst e; exact Or.inr ⟨ec, hi⟩
    · subst ec; exact Or.inl ⟨hi, ne⟩
  · rintro (⟨hc, hne⟩ | ⟨hc, hid⟩)
    · exact ⟨c, hc, (subst_refs_bypass id r c c).mpr (Or.inr ⟨hne, rfl⟩)⟩
    · exact ⟨id, hid, (subst_refs_bypass id r id c).mpr (Or.inl ⟨rfl, hc⟩)⟩

theorem mem_prune (g : IGraph) (id : Nat) (replacement : Option Nat) (y : INode) :
    y ∈ pruneNode g id replacement ↔ ∃ x ∈ g, x.id ≠ id ∧ y = rewired id replacement x := by
  simp only [pruneNode_eq, List.mem_map, List.mem_filter, bne_iff_ne, ne_eq]
  constructor
  · rintro ⟨x, ⟨hx, hne⟩, rfl⟩; exact ⟨x, hx, hne, rfl⟩
  · rintro ⟨x, hx, hne, rfl⟩; exact ⟨x, ⟨hx, hne⟩, rfl⟩

/-- **Reachability is preserved by a bypass** (removed node with the single input `r`): whatever
    surviving `b` was computed from surviving `a` still is. -/
theorem bypass_preserves_reach (g : IGraph) (id r : Nat) (hr : r ≠ id)
    (hin : ∀ x ∈ g, x.id = id → ∀ c ∈ x.n.inputs, c = r) {a b : Nat} (ha : a ≠ id) (h : Reach g a b) :
    (b ≠ id → Reach (pruneNode g id (some r)) a b) ∧ (b = id → a = r ∨ Reach (pruneNode g id (some r)) a r) := by
  induction h with
  | @direct x a hx hax =>
    constructor
    · intro hb
      have hm : rewired id (some r) x ∈ pruneNode g id (some r) := (mem_prune ..).mpr ⟨x, hx, hb, rfl⟩
      exact Reach.direct (x := rewired id (some r) x) hm ((prune_inputs id r x a).mpr (Or.inl ⟨hax, ha⟩))
    · intro hb
      exact Or.inl (hin x hx hb a hax)
  | @trans x a c hx hcx _ ih =>
    obtain ⟨ih1, ih2⟩ := ih ha
    constructor
    · intro hb
      have hm : rewired id (some r) x ∈ pruneNode g id (some r) := (mem_prune ..).mpr ⟨x, hx, hb, rfl⟩
      by_cases hc : c = id
      · -- the path went through the removed node: it now goes through `r`
        have hrin : r ∈ (rewired id (some r) x).n.inputs := (prune_inputs id r x r).mpr (Or.inr ⟨rfl, hc ▸ hcx⟩)
        rcases ih2 hc with e | hr'
        · rw [e]; exact Reach.direct (x := rewired id (some r) x) hm hrin
        · exact Reach.trans (x := rewired id (some r) x) hm hrin hr'
      · exact Reach.trans (x := rewired id (some r) x) hm ((prune_inputs id r x c).mpr (Or.inl ⟨hcx, hc⟩)) (ih1 hc)
    · intro hb
      have hcr : c = r := hin x hx hb c hcx
      subst hcr
      exact Or.inr (ih1 hr)

/-- … and a bypass creates **no new** reachability: the replacement was already an input of the
    removed node, so every new edge `r → consumer` was a path `r → id → consumer` before. -/
theorem bypass_no_new_reach (g : IGraph) (id r : Nat) (n : INode) (hn : n ∈ g) (hnid : n.id = id)
    (hrn : r ∈ n.n.inputs) {a b : Nat} (h : Reach (pruneNode g id (some r)) a b) : Reach g a b := by
  induction h with
  | @direct y a hy hay =>
    obtain ⟨x, hx, _, rfl⟩ := (mem_prune ..).mp hy
    rcases (prune_inputs id r x a).mp hay with ⟨hax, _⟩ | ⟨har, hidx⟩
    · exact Reach.direct (x := x) hx hax
    · subst har
      have h1 : Reach g a n.id := Reach.direct hn hrn
      exact Reach.trans (x := x) hx (c := id) hidx (hnid ▸ h1)
  | @trans y a c hy hcy _ ih =>
    obtain ⟨x, hx, _, rfl⟩ := (mem_prune ..).mp hy
    rcases (prune_inputs id r x c).mp hcy with ⟨hcx, _⟩ | ⟨hcr, hidx⟩
    · exact Reach.trans (x := x) hx hcx ih
    · subst hcr
      have h1 : Reach g a n.id := Reach.trans hn hrn ih
      exact Reach.trans (x := x) hx (c := id) hidx (hnid ▸ h1)

/-- **Bypass theorem**: for a removed node whose only input is `r`, reachability among the surviving
    nodes is exactly what it was. -/
theorem bypass_reach_iff (g : IGraph) (id r : Nat) (hr : r ≠ id) (n : INode) (hn : n ∈ g) (hnid : n.id = id)
    (hrn : r ∈ n.n.inputs) (hin : ∀ x ∈ g, x.id = id → ∀ c ∈ x.n.inputs, c = r)
    (a b : Nat) (ha : a ≠ id) (hb : b ≠ id) :
    Reach (pruneNode g id (some r)) a b ↔ Reach g a b :=
  ⟨bypass_no_new_reach g id r n hn hnid hrn, fun h => (bypass_preserves_reach g id r hr hin ha h).1 hb⟩

/-- selective pruning cuts instead: a surviving node keeps exactly its other inputs -/
theorem cut_inputs (id : Nat) (x : INode) (c : Nat) :
    c ∈ (rewired id none x).n.inputs ↔ (c ∈ x.n.inputs ∧ c ≠ id) := by
  rw [rewired_inputs]
  constructor
  · rintro ⟨i, hi, hc⟩
    unfold subst at hc
    by_cases h : i = id
    · subst h; simp [Arg.refs] at hc
    · have : (i == id) = false := by simpa using h
      simp only [this, Bool.false_eq_true, if_false, Arg.refs, List.mem_singleton] at hc
      subst hc; exact ⟨hi, h⟩
  · rintro ⟨hc, hne⟩
    refine ⟨c, hc, ?_⟩
    unfold subst
    have : (c == id) = false := by simpa using hne
    simp [this, Arg.refs]

/-- after a cut nothing is reachable *through* the removed node any more, and nothing new is reachable -/
theorem cut_no_new_reach (g : IGraph) (id : Nat) {a b : Nat} (h : Reach (pruneNode g id none) a b) : Reach g a b := by
  induction h with
  | @direct y a hy hay =>
    obtain ⟨x, hx, _, rfl⟩ := (mem_prune ..).mp hy
    exact Reach.direct (x := x) hx ((cut_inputs id x a).mp hay).1
  | @trans y a c hy hcy _ ih =>
    obtain ⟨x, hx, _, rfl⟩ := (mem_prune ..).mp hy
    exact Reach.trans (x := x) hx ((cut_inputs id x c).mp hcy).1 ih

/-! ### non-vacuity: `x -> view -> (cat [view, mul])`, the view (single input) is bypassed -/
def g3 : IGraph :=
  [⟨0, { op := "placeholder", target := "x", args := [], kwargs := [] }⟩,
   ⟨1, { op := "call_method", target := "view", args := [.ref 0, .lit "-1"], kwargs := [] }⟩,
   ⟨2, { op := "call_function", target := "torch.cat", args := [.seq false [.ref 1, .ref 0]], kwargs := [("dim", .lit "0")] }⟩]

example : Reach g3 0 2 :=
  Reach.trans (x := g3[2]) (List.getElem_mem _) (c := 1) (by decide) (Reach.direct (x := g3[1]) (List.getElem_mem _) (by decide))
example : ∀ x ∈ g3, x.id = 1 → ∀ c ∈ x.n.inputs, c = 0 := by decide
example : ((pruneNode g3 1 (some 0)).map fun x => (x.id, x.n.inputs)) = [(0, []), (2, [0])] := by decide

end USProofs.C19
