/-
  C13 at the level of *values*: the float32 bit pattern is affine in the value inside a binade, so the
  bit-level statements about `roundCore` (C13.lean) are statements about exact rational values:
  the result is within half the format's spacing of the input, and its value is a value of the
  format's own encoding (`fmtVal`, defined independently from sign / exponent field / mantissa field).
  Scope: patterns that are normal float32 numbers after the down-scaling (every format-normal value).
-/
import USProofs.Properties.C14
import Mathlib.Data.Rat.Defs
import Mathlib.Algebra.Order.Field.Power
import Mathlib.Algebra.Order.Field.Rat
import Mathlib.Tactic.Ring
import Mathlib.Tactic.Linarith
import Mathlib.Tactic.Positivity
import Mathlib.Tactic.FieldSimp
import Mathlib.Tactic.NormNum
import Mathlib.Tactic.Push

open USModel USModel.F32

namespace USProofs.C13

/-- value of a normal pattern with exponent field `e ≥ 1` and mantissa field `m` -/
theorem val_normal (e m : ℕ) (he : 1 ≤ e) (hm : m < 2 ^ 23) :
    val (e * 2 ^ 23 + m) = ((2 ^ 23 + m : ℕ) : ℚ) * (2 : ℚ) ^ ((e : ℤ) - 150) := by
  have h1 : ¬ (e * 2 ^ 23 + m < 2 ^ 23) := by
    have : 2 ^ 23 ≤ e * 2 ^ 23 := Nat.le_mul_of_pos_left _ he
    omega
  have h2 : (e * 2 ^ 23 + m) % 2 ^ 23 = m := by
    rw [Nat.add_comm, Nat.add_mul_mod_self_right, Nat.mod_eq_of_lt hm]
  have h3 : (e * 2 ^ 23 + m) / 2 ^ 23 = e := by
    rw [Nat.add_comm, Nat.add_mul_div_right _ _ (by norm_num), Nat.div_eq_of_lt hm, Nat.zero_add]
  simp only [val, h1, if_false, h2, h3]

/-- **Affine inside a binade, end-point included**: for `m ≤ 2^23` (the upper end-point is the first
    pattern of the next binade) `val (e·2^23 + m) = (2^23 + m)·2^(e−150)`. -/
theorem val_affine (e m : ℕ) (he : 1 ≤ e) (hm : m ≤ 2 ^ 23) :
    val (e * 2 ^ 23 + m) = ((2 ^ 23 + m : ℕ) : ℚ) * (2 : ℚ) ^ ((e : ℤ) - 150) := by
  rcases Nat.lt_or_eq_of_le hm with h | h
  · exact val_normal e m he h
  · subst h
    have : e * 2 ^ 23 + 2 ^ 23 = (e + 1) * 2 ^ 23 + 0 := by ring
    rw [this, val_normal (e + 1) 0 (by omega) (by norm_num)]
    have h2 : (2 : ℚ) ^ (((e + 1 : ℕ) : ℤ) - 150) = 2 * (2 : ℚ) ^ ((e : ℤ) - 150) := by
      have : (((e + 1 : ℕ) : ℤ) - 150) = ((e : ℤ) - 150) + 1 := by push_cast; ring
      rw [this, zpow_add₀ (by norm_num : (2 : ℚ) ≠ 0), zpow_one]
      ring
    rw [h2]
    push_cast
    ring

/-- differences of values inside a binade are differences of patterns times the unit in the last
    place `2^(e−150)` -/
theorem val_sub_in_binade (e a b : ℕ) (he : 1 ≤ e) (ha : a ≤ 2 ^ 23) (hb : b ≤ 2 ^ 23) :
    val (e * 2 ^ 23 + b) - val (e * 2 ^ 23 + a) = ((b : ℚ) - (a : ℚ)) * (2 : ℚ) ^ ((e : ℤ) - 150) := by
  rw [val_affine e a he ha, val_affine e b he hb]
  push_cast
  ring

/-- the two multiples of `2^k` enclosing a pattern of binade `e` stay inside that binade (end-point
    included) -/
theorem enclosing_in_binade (k e q : ℕ) (hk : k ≤ 23) (hlo : e * 2 ^ 23 ≤ q) (hhi : q < (e + 1) * 2 ^ 23) :
    e * 2 ^ 23 ≤ q / 2 ^ k * 2 ^ k ∧ (q / 2 ^ k + 1) * 2 ^ k ≤ (e + 1) * 2 ^ 23 := by
  have hP := pow_pos' k
  obtain ⟨c, hc⟩ : 2 ^ k ∣ 2 ^ 23 := Nat.pow_dvd_pow 2 hk
  constructor
  · -- e·2^23 = (e·c)·2^k is a multiple of 2^k below q
    have h1 : e * 2 ^ 23 = (e * c) * 2 ^ k := by rw [hc]; ring
    rw [h1]
    apply Nat.mul_le_mul_right
    rw [Nat.le_div_iff_mul_le hP, ← h1]
    exact hlo
  · have h1 : (e + 1) * 2 ^ 23 = ((e + 1) * c) * 2 ^ k := by rw [hc]; ring
    rw [h1]
    apply Nat.mul_le_mul_right
    have : q / 2 ^ k < (e + 1) * c := by
      rw [Nat.div_lt_iff_lt_mul hP, ← h1]
      exact hhi
    omega

/-- **Nearest, as a statement about values.** For a pattern `q` that is a normal float32 number of
    binade `e` (`1 ≤ e ≤ 253`) the nearest-rounded result differs from it by at most half the
    spacing `2^k · 2^(e−150)` of the `k`-bit-coarser grid. -/
theorem round_nearest_value (k e q : ℕ) (hk : k ≤ 23) (he : 1 ≤ e)
    (hlo : e * 2 ^ 23 ≤ q) (hhi : q < (e + 1) * 2 ^ 23) :
    |val (roundCore k (offNearest (23 - k)) q) - val q|
      ≤ ((2 ^ k / 2 : ℕ) : ℚ) * (2 : ℚ) ^ ((e : ℤ) - 150) := by
  have hM : 23 - (23 - k) = k := by omega
  have hoff : offNearest (23 - k) < 2 ^ k := by
    simp only [offNearest, hM]
    have := pow_pos' k
    omega
  obtain ⟨hlo', hhi'⟩ := enclosing_in_binade k e q hk hlo hhi
  obtain ⟨hn1, hn2⟩ := round_core_nearest k q hk
  set r := roundCore k (offNearest (23 - k)) q with hr
  have hr_lo : e * 2 ^ 23 ≤ r := by
    rcases round_core_neighbour k _ q hoff with h | h
    · rw [hr, h]; exact hlo'
    · rw [hr, h]
      have : q / 2 ^ k * 2 ^ k ≤ (q / 2 ^ k + 1) * 2 ^ k := Nat.mul_le_mul_right _ (by omega)
      omega
  have hr_hi : r ≤ (e + 1) * 2 ^ 23 := by
    rcases round_core_neighbour k _ q hoff with h | h
    · rw [hr, h]
      have : q / 2 ^ k * 2 ^ k ≤ q := Nat.div_mul_le_self _ _
      omega
    · rw [hr, h]; exact hhi'
  -- write q = e·2^23 + a, r = e·2^23 + b
  obtain ⟨a, rfl⟩ : ∃ a, q = e * 2 ^ 23 + a := ⟨q - e * 2 ^ 23, by omega⟩
  obtain ⟨b, hb⟩ : ∃ b, r = e * 2 ^ 23 + b := ⟨r - e * 2 ^ 23, by omega⟩
  have ha : a ≤ 2 ^ 23 := by
    have : (e + 1) * 2 ^ 23 = e * 2 ^ 23 + 2 ^ 23 := by ring
    omega
  have hb' : b ≤ 2 ^ 23 := by
    have : (e + 1) * 2 ^ 23 = e * 2 ^ 23 + 2 ^ 23 := by ring
    omega
  rw [hb, val_sub_in_binade e a b he ha hb', abs_mul, abs_of_pos (by positivity : (0 : ℚ) < (2 : ℚ) ^ ((e : ℤ) - 150))]
  apply mul_le_mul_of_nonneg_right _ (by positivity)
  rw [abs_le]
  have h1 : b ≤ a + 2 ^ k / 2 := by omega
  have h2 : a ≤ b + 2 ^ k / 2 := by omega
  constructor
  · have : (a : ℚ) ≤ (b : ℚ) + ((2 ^ k / 2 : ℕ) : ℚ) := by exact_mod_cast h2
    linarith
  · have : (b : ℚ) ≤ (a : ℚ) + ((2 ^ k / 2 : ℕ) : ℚ) := by exact_mod_cast h1
    linarith

/-- **Representable, as a statement about values.** A normal pattern whose low `23 − M` mantissa bits
    are zero (what `roundCore` produces) has the value `(2^M + m)·2^(e − 127 − M)` with `m < 2^M`: a
    value with at most `M` mantissa bits. -/
theorem val_coarse_pattern (M e m : ℕ) (hM : M ≤ 23) (he : 1 ≤ e) (hm : m < 2 ^ M) :
    val (e * 2 ^ 23 + m * 2 ^ (23 - M)) = ((2 ^ M + m : ℕ) : ℚ) * (2 : ℚ) ^ ((e : ℤ) - 127 - M) := by
  have hk : 2 ^ M * 2 ^ (23 - M) = 2 ^ 23 := by rw [← pow_add]; congr 1; omega
  have hmk : m * 2 ^ (23 - M) < 2 ^ 23 := by
    rw [← hk]; exact Nat.mul_lt_mul_of_pos_right hm (pow_pos' _)
  rw [val_normal e _ he hmk]
  have h2 : (2 : ℚ) ^ ((e : ℤ) - 150) = (2 : ℚ) ^ ((e : ℤ) - 127 - M) * ((2 : ℚ) ^ (23 - M : ℕ))⁻¹ := by
    rw [← zpow_natCast, ← zpow_neg, ← zpow_add₀ (by norm_num : (2 : ℚ) ≠ 0)]
    congr 1
    have : ((23 - M : ℕ) : ℤ) = 23 - (M : ℤ) := by omega
    rw [this]; ring
  rw [h2]
  have h3 : ((2 ^ 23 + m * 2 ^ (23 - M) : ℕ) : ℚ) = ((2 ^ M + m : ℕ) : ℚ) * (2 : ℚ) ^ (23 - M : ℕ) := by
    rw [← hk]; push_cast; ring
  rw [h3]
  have : (2 : ℚ) ^ (23 - M : ℕ) ≠ 0 := by positivity
  field_simp

/-- up-scaling by `2^d` multiplies the value by `2^d` (normal patterns, no overflow) -/
theorem val_mulPow2_normal (d e m : ℕ) (he : 1 ≤ e) (hm : m < 2 ^ 23) (hov : e + d < 255) :
    val (mulPow2 (e * 2 ^ 23 + m) d) = val (e * 2 ^ 23 + m) * (2 : ℚ) ^ (d : ℤ) := by
  have hexp : expo (e * 2 ^ 23 + m) = e := by
    simp only [expo]
    rw [Nat.add_comm, Nat.add_mul_div_right _ _ (by norm_num), Nat.div_eq_of_lt hm, Nat.zero_add]
  rw [mulPow2_normal d _ (by rw [hexp]; exact he) (by rw [hexp]; exact hov)]
  have : e * 2 ^ 23 + m + d * 2 ^ 23 = (e + d) * 2 ^ 23 + m := by ring
  rw [this, val_normal (e + d) m (by omega) hm, val_normal e m he hm, mul_assoc,
    ← zpow_add₀ (by norm_num : (2 : ℚ) ≠ 0)]
  congr 2
  push_cast; ring

/-- **The result's value is a value of the format.** If the rounded pattern (before up-scaling) is
    the normal pattern `e·2^23 + m·2^(23−M)`, the value of the final result is
    `fmtVal E M e m = (2^M + m)·2^(e − 2^(E−1) − M)`: the format's own encoding with exponent field
    `e` and mantissa field `m` (bias `2^(E−1)`). -/
theorem quant_value_is_format_value (E M e m : ℕ) (hE : 1 ≤ E) (hB : 2 ^ (E - 1) ≤ 127) (hM : M ≤ 23)
    (he : 1 ≤ e) (hm : m < 2 ^ M) (hov : e + (127 - 2 ^ (E - 1)) < 255) :
    val (mulPow2 (e * 2 ^ 23 + m * 2 ^ (23 - M)) (127 - 2 ^ (E - 1))) = fmtVal E M e m := by
  have hk : 2 ^ M * 2 ^ (23 - M) = 2 ^ 23 := by rw [← pow_add]; congr 1; omega
  have hmk : m * 2 ^ (23 - M) < 2 ^ 23 := by
    rw [← hk]; exact Nat.mul_lt_mul_of_pos_right hm (pow_pos' _)
  rw [val_mulPow2_normal _ e _ he hmk hov, val_coarse_pattern M e m hM he hm]
  have he0 : ¬ e = 0 := by omega
  simp only [fmtVal, he0, if_false]
  rw [mul_assoc, ← zpow_add₀ (by norm_num : (2 : ℚ) ≠ 0)]
  congr 2
  have : ((127 - 2 ^ (E - 1) : ℕ) : ℤ) = 127 - ((2 : ℤ) ^ (E - 1)) := by
    rw [Nat.cast_sub hB]; push_cast; ring
  rw [this]
  push_cast
  ring

end USProofs.C13

namespace USProofs.C14

open USModel USModel.F32 USProofs.C13

/-- **Fractional position of the value.** For a normal pattern `q` of binade `e`, the fraction of
    the way from the lower enclosing multiple of `2^k` to the upper one, measured on exact *values*,
    is `(q mod 2^k) / 2^k` — the discarded bits read as a fraction. -/
theorem frac_position_value (k e q : ℕ) (hk : k ≤ 23) (he : 1 ≤ e)
    (hlo : e * 2 ^ 23 ≤ q) (hhi : q < (e + 1) * 2 ^ 23) :
    (val q - val (q / 2 ^ k * 2 ^ k)) / (val ((q / 2 ^ k + 1) * 2 ^ k) - val (q / 2 ^ k * 2 ^ k))
      = ((q % 2 ^ k : ℕ) : ℚ) / ((2 ^ k : ℕ) : ℚ) := by
  have hP := pow_pos' k
  obtain ⟨h1, h2⟩ := enclosing_in_binade k e q hk hlo hhi
  have hdm := Nat.div_add_mod q (2 ^ k)
  have hfl : q / 2 ^ k * 2 ^ k ≤ q := Nat.div_mul_le_self _ _
  have hE : (e + 1) * 2 ^ 23 = e * 2 ^ 23 + 2 ^ 23 := by ring
  -- offsets inside the binade
  obtain ⟨a, rfl⟩ : ∃ a, q = e * 2 ^ 23 + a := ⟨q - e * 2 ^ 23, by omega⟩
  obtain ⟨l, hl⟩ : ∃ l, (e * 2 ^ 23 + a) / 2 ^ k * 2 ^ k = e * 2 ^ 23 + l :=
    ⟨(e * 2 ^ 23 + a) / 2 ^ k * 2 ^ k - e * 2 ^ 23, by omega⟩
  have hup : ((e * 2 ^ 23 + a) / 2 ^ k + 1) * 2 ^ k = e * 2 ^ 23 + (l + 2 ^ k) := by
    rw [Nat.add_mul, Nat.one_mul, hl]; ring
  have ha : a ≤ 2 ^ 23 := by omega
  have hl' : l ≤ 2 ^ 23 := by omega
  have hu' : l + 2 ^ k ≤ 2 ^ 23 := by
    have := h2; rw [hup] at this; omega
  have hrem : (e * 2 ^ 23 + a) % 2 ^ k = a - l := by
    have e1 : 2 ^ k * ((e * 2 ^ 23 + a) / 2 ^ k) = e * 2 ^ 23 + l := by rw [Nat.mul_comm]; exact hl
    omega
  have hla : l ≤ a := by
    have := hfl; rw [hl] at this; omega
  rw [hl, hup, val_sub_in_binade e l a he hl' ha, val_sub_in_binade e l (l + 2 ^ k) he hl' hu', hrem]
  have hz : (2 : ℚ) ^ ((e : ℤ) - 150) ≠ 0 := by positivity
  rw [mul_div_mul_right _ _ hz, Nat.cast_sub hla]
  congr 1
  push_cast
  ring

/-- **Exactly proportional probability, on values**: with all discarded bits used, the fraction of
    the `2^k` equally likely draws that round a normal pattern up equals the fractional position of
    its *value* between its two representable neighbours. -/
theorem sr_prob_exact_value (k e q : ℕ) (hk : k ≤ 23) (he : 1 ≤ e)
    (hlo : e * 2 ^ 23 ≤ q) (hhi : q < (e + 1) * 2 ^ 23) :
    ((countUpCore k 0 q : ℕ) : ℚ) / ((2 ^ k : ℕ) : ℚ)
      = (val q - val (q / 2 ^ k * 2 ^ k)) / (val ((q / 2 ^ k + 1) * 2 ^ k) - val (q / 2 ^ k * 2 ^ k)) := by
  rw [frac_position_value k e q hk he hlo hhi, sr_prob_exact]

end USProofs.C14
