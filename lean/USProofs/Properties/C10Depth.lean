/-
  C10 (continued) — the learning-rate scale genuinely depends on the depth tag and, for rank-2/3
  bias / norm parameters under SGD with an output-scaled readout, on the *length* (first dim), not on
  the fan-in.  These are the statements that make an under-keyed cache of the scale (keyed by type
  and shape only) or a fan-in based rewrite of the vector rule unsound: they differ from the model
  on an explicit, non-empty set of inputs.
-/
import USProofs.Properties.C10
import Mathlib.Tactic.Positivity

open USModel

namespace USProofs.C10Depth
open USProofs.C10

/-- the depth factor is injective on positive depths -/
theorem depthFactor_injective {d₁ d₂ : ℕ} (_h₁ : 0 < d₁) (_h₂ : 0 < d₂)
    (h : depthFactor (some d₁) = depthFactor (some d₂)) : d₁ = d₂ := by
  simp only [depthFactor, one_div] at h
  have h' := inv_injective h
  have := Real.sqrt_inj (Nat.cast_nonneg d₁) (Nat.cast_nonneg d₂) |>.mp h'
  exact_mod_cast this

/-- a positive depth other than 1 changes the factor with respect to "no depth recorded" -/
theorem depthFactor_some_ne_none {d : ℕ} (hd : 1 < d) : depthFactor (some d) ≠ depthFactor none := by
  simp only [depthFactor, one_div, ne_eq]
  intro h
  have h1 : Real.sqrt (d : ℝ) = 1 := by
    have := congrArg (·⁻¹) h
    simpa using this
  have : (d : ℝ) = 1 := by
    have := (Real.sqrt_eq_one).mp h1
    exact this
  have : d = 1 := by exact_mod_cast this
  omega

/-- **Adam / AdamW: equal type and shape, different positive depth ⇒ different lr scale.**
    (So no cache of the scale keyed without the depth agrees with the rule.) -/
theorem lr_adam_depth_separates (t : MupType) (shape : List ℕ) {d₁ d₂ : ℕ} (h₁ : 0 < d₁)
    (h₂ : 0 < d₂) (hne : d₁ ≠ d₂) (f : ℕ) (hf : fanIn shape = .ok f) (hfp : 0 < f) :
    lrScaleAdam (α := ℝ) t shape (some d₁) ≠ lrScaleAdam t shape (some d₂) := by
  intro h
  by_cases ht : t = .weight
  · subst ht
    rw [lr_adam_weight shape f hf, lr_adam_weight shape f hf] at h
    have h' : depthFactor (some d₁) * (1 / Real.sqrt f) = depthFactor (some d₂) * (1 / Real.sqrt f) := by
      simpa using h
    have hs : (1 / Real.sqrt (f : ℝ)) ≠ 0 := by
      have : 0 < Real.sqrt (f : ℝ) := Real.sqrt_pos.mpr (by exact_mod_cast hfp)
      positivity
    exact hne (depthFactor_injective h₁ h₂ (mul_right_cancel₀ hs h'))
  · rw [lr_adam_other t ht, lr_adam_other t ht] at h
    have h' : depthFactor (some d₁) = depthFactor (some d₂) := by simpa using h
    exact hne (depthFactor_injective h₁ h₂ h')

/-- the same for the tags that do not read the shape at all -/
theorem lr_adam_depth_separates_other (t : MupType) (ht : t ≠ .weight) (shape : List ℕ)
    {d₁ d₂ : ℕ} (h₁ : 0 < d₁) (h₂ : 0 < d₂) (hne : d₁ ≠ d₂) :
    lrScaleAdam (α := ℝ) t shape (some d₁) ≠ lrScaleAdam t shape (some d₂) := by
  intro h
  rw [lr_adam_other t ht, lr_adam_other t ht] at h
  have h' : depthFactor (some d₁) = depthFactor (some d₂) := by simpa using h
  exact hne (depthFactor_injective h₁ h₂ h')

/-- **SGD, output-scaled readout, bias / norm of rank ≥ 2: the factor is the length `n`, and it
    differs from the fan-in based value `depthFactor · m` whenever `n ≠ m`.** -/
theorem lr_sgd_out_vector_not_fan_in (t : MupType) (ht : t = .bias ∨ t = .norm) (n m : ℕ)
    (rest : List ℕ) (d : Option ℕ) (hd : ∀ k, d = some k → 0 < k) (hnm : n ≠ m) :
    lrScaleSgdOut (α := ℝ) t (n :: rest) d ≠ .ok (depthFactor d * m) := by
  rw [lr_sgd_out_vector t ht]
  intro h
  have h' : depthFactor d * (n : ℝ) = depthFactor d * (m : ℝ) := by simpa using h
  have hpos : depthFactor d ≠ 0 := by
    cases d with
    | none => simp [depthFactor]
    | some k =>
      have : 0 < Real.sqrt (k : ℝ) := Real.sqrt_pos.mpr (by exact_mod_cast hd k rfl)
      simp only [depthFactor]
      positivity
  have := mul_left_cancel₀ hpos h'
  exact hnm (by exact_mod_cast this)

/-! ### Non-vacuity -/
example : lrScaleAdam (α := ℝ) .weight [4, 9] (some 1) ≠ lrScaleAdam .weight [4, 9] (some 4) :=
  lr_adam_depth_separates .weight [4, 9] (by norm_num) (by norm_num) (by norm_num) 9 rfl (by norm_num)

example : lrScaleSgdOut (α := ℝ) .bias [3, 8] none ≠ .ok (depthFactor none * (8 : ℕ)) :=
  lr_sgd_out_vector_not_fan_in .bias (Or.inl rfl) 3 8 [8] none (by simp) (by norm_num)

end USProofs.C10Depth
