/-
  C11 — parameter groups are preserved; weight decay is learning-rate independent.

  Model: `USModel/ScaledParams.lean`.  A tensor learning rate is an address into the heap
  `List ℝ`; the caller's tensors are the cells below `heap.length` at call time.
-/
import USProofs.RealInst
import Mathlib.Tactic.Ring
import Mathlib.Tactic.FieldSimp
import Mathlib.Tactic.Linarith

open USModel

namespace USProofs.C11

variable {k : OptKind} {indep allow : Bool}

/-! ### one parameter -/

theorem stepParam_spec {glr : LrVal ℝ} {gwd : ℝ} {extra : List (String × String)}
    {heap h' : List ℝ} {p : Param} {g : OutGroup ℝ}
    (h : stepParam k indep allow glr gwd extra heap p = .ok (h', g)) :
    g.param = p ∧ g.extra = extra ∧
    (h' = heap ∨ ∃ v, h' = heap ++ [v] ∧ g.lr = .cell heap.length ∧ p.tag.isSome) ∧
    (h' = heap → ∀ a, g.lr = .cell a → p.tag.isSome → False) := by
  unfold stepParam at h
  split at h
  · rename_i t ht
    cases hs : lrScale (α := ℝ) k t p.shape p.depth with
    | error e => simp [hs] at h
    | ok s =>
      simp only [hs, except_bind_ok] at h
      split at h
      · simp only [except_pure, Except.ok.injEq, Prod.mk.injEq] at h
        obtain ⟨rfl, rfl⟩ := h
        simp
      · split at h
        · simp at h
        · simp only [except_pure, Except.ok.injEq, Prod.mk.injEq] at h
          obtain ⟨rfl, rfl⟩ := h
          refine ⟨rfl, rfl, Or.inr ⟨_, rfl, rfl, by simp [ht]⟩, ?_⟩
          intro hh
          have := congrArg List.length hh
          simp at this
  · rename_i ht
    split at h
    · split at h
      · simp at h
      · simp only [except_pure, Except.ok.injEq, Prod.mk.injEq] at h
        obtain ⟨rfl, rfl⟩ := h
        simp [ht]
    · simp at h

/-- the heap only grows: the caller's cells are never written -/
theorem stepParam_prefix {glr : LrVal ℝ} {gwd : ℝ} {extra : List (String × String)}
    {heap h' : List ℝ} {p : Param} {g : OutGroup ℝ}
    (h : stepParam k indep allow glr gwd extra heap p = .ok (h', g)) :
    ∃ ext, h' = heap ++ ext := by
  obtain ⟨_, _, hh, _⟩ := stepParam_spec h
  rcases hh with rfl | ⟨v, rfl, _⟩
  · exact ⟨[], by simp⟩
  · exact ⟨[v], rfl⟩

/-! ### a group's parameter list -/

theorem stepParams_spec {glr : LrVal ℝ} {gwd : ℝ} {extra : List (String × String)}
    (ps : List Param) {heap h' : List ℝ} {gs : List (OutGroup ℝ)}
    (h : stepParams k indep allow glr gwd extra heap ps = .ok (h', gs)) :
    gs.map (·.param) = ps ∧ (∀ g ∈ gs, g.extra = extra) ∧ (∃ ext, h' = heap ++ ext) := by
  induction ps generalizing heap gs with
  | nil =>
    simp only [stepParams, except_pure, Except.ok.injEq, Prod.mk.injEq] at h
    obtain ⟨rfl, rfl⟩ := h
    exact ⟨rfl, by simp, ⟨[], by simp⟩⟩
  | cons p ps ih =>
    unfold stepParams at h
    cases h1 : stepParam k indep allow glr gwd extra heap p with
    | error e => simp [h1] at h
    | ok r1 =>
      obtain ⟨h1', g⟩ := r1
      simp only [h1, except_bind_ok] at h
      cases h2 : stepParams k indep allow glr gwd extra h1' ps with
      | error e => simp [h2] at h
      | ok r2 =>
        obtain ⟨h2', gs'⟩ := r2
        simp only [h2, except_bind_ok, except_pure, Except.ok.injEq, Prod.mk.injEq] at h
        obtain ⟨rfl, rfl⟩ := h
        obtain ⟨hp, he, ext2, rfl⟩ := ih h2
        obtain ⟨sp, se, _, _⟩ := stepParam_spec h1
        obtain ⟨ext1, rfl⟩ := stepParam_prefix h1
        refine ⟨by simp [sp, hp], ?_, ⟨ext1 ++ ext2, by simp⟩⟩
        intro g' hg'
        rcases List.mem_cons.mp hg' with rfl | hg'
        · exact se
        · exact he g' hg'

/-! ### one entry -/

theorem stepEntry_spec {lr : Option (LrVal ℝ)} {wd : ℝ} {heap h' : List ℝ} {e : Entry ℝ}
    {gs : List (OutGroup ℝ)} (h : stepEntry k indep allow lr wd heap e = .ok (h', gs)) :
    ∃ glr gwd extra, stepParams k indep allow glr gwd extra heap (entryParams e) = .ok (h', gs)
      ∧ ∀ g, e = .group g → extra = g.extra := by
  cases e with
  | bare p =>
    cases lr with
    | none => simp [stepEntry, Option.orElse] at h
    | some x =>
      simp only [stepEntry, Option.orElse] at h
      exact ⟨x, _, _, h, by intro g hg; cases hg⟩
  | group g =>
    simp only [stepEntry] at h
    split at h
    · simp at h
    · rename_i x _
      exact ⟨x, _, _, h, by intro g' hg; cases hg; rfl⟩

/-! ### the whole call -/

/-- **Every input parameter exactly once, in input order, one per group**, and the caller's
    heap cells are unchanged (the result heap extends the input heap). -/
theorem params_preserved {lr : Option (LrVal ℝ)} {wd : ℝ} (es : List (Entry ℝ))
    {heap h' : List ℝ} {gs : List (OutGroup ℝ)}
    (h : scaledParameters k indep allow lr wd heap es = .ok (h', gs)) :
    gs.map (·.param) = es.flatMap entryParams ∧ ∃ ext, h' = heap ++ ext := by
  induction es generalizing heap gs with
  | nil =>
    simp only [scaledParameters, except_pure, Except.ok.injEq, Prod.mk.injEq] at h
    obtain ⟨rfl, rfl⟩ := h
    exact ⟨rfl, ⟨[], by simp⟩⟩
  | cons e es ih =>
    unfold scaledParameters at h
    cases h1 : stepEntry k indep allow lr wd heap e with
    | error e => simp [h1] at h
    | ok r1 =>
      obtain ⟨h1', g1⟩ := r1
      simp only [h1, except_bind_ok] at h
      cases h2 : scaledParameters k indep allow lr wd h1' es with
      | error e => simp [h2] at h
      | ok r2 =>
        obtain ⟨h2', g2⟩ := r2
        simp only [h2, except_bind_ok, except_pure, Except.ok.injEq, Prod.mk.injEq] at h
        obtain ⟨rfl, rfl⟩ := h
        obtain ⟨hp2, ext2, rfl⟩ := ih h2
        obtain ⟨glr, gwd, extra, h1s, _⟩ := stepEntry_spec h1
        obtain ⟨hp1, _, ext1, rfl⟩ := stepParams_spec _ h1s
        refine ⟨?_, ⟨ext1 ++ ext2, by simp⟩⟩
        simp only [List.map_append, hp1, hp2, List.flatMap_cons]

/-- The caller's learning-rate tensors keep their values. -/
theorem input_heap_unchanged {lr : Option (LrVal ℝ)} {wd : ℝ} (es : List (Entry ℝ))
    {heap h' : List ℝ} {gs : List (OutGroup ℝ)}
    (h : scaledParameters k indep allow lr wd heap es = .ok (h', gs))
    (a : ℕ) (ha : a < heap.length) : h'[a]? = heap[a]? := by
  obtain ⟨_, ext, rfl⟩ := params_preserved es h
  simp [List.getElem?_append_left ha]

/-- Every other option of the source group is carried over to each of its groups. -/
theorem keys_carried {lr : Option (LrVal ℝ)} {wd : ℝ} {heap h' : List ℝ} (g : PGroup ℝ)
    {gs : List (OutGroup ℝ)}
    (h : stepEntry k indep allow lr wd heap (.group g) = .ok (h', gs)) :
    ∀ o ∈ gs, o.extra = g.extra := by
  obtain ⟨glr, gwd, extra, hs, he⟩ := stepEntry_spec h
  rw [← he g rfl]
  exact (stepParams_spec _ hs).2.1

/-! ### fresh learning-rate cells for scaled (tagged) parameters -/

/-- addresses of the lr cells of groups produced for tagged parameters -/
def scaledCells (gs : List (OutGroup ℝ)) : List ℕ :=
  gs.filterMap fun g =>
    match g.param.tag, g.lr with
    | some _, .cell a => some a
    | _, _ => none

theorem stepParams_fresh {glr : LrVal ℝ} {gwd : ℝ} {extra : List (String × String)}
    (ps : List Param) {heap h' : List ℝ} {gs : List (OutGroup ℝ)}
    (h : stepParams k indep allow glr gwd extra heap ps = .ok (h', gs)) :
    (∀ a ∈ scaledCells gs, heap.length ≤ a ∧ a < h'.length) ∧
    (scaledCells gs).Pairwise (· < ·) := by
  induction ps generalizing heap gs with
  | nil =>
    simp only [stepParams, except_pure, Except.ok.injEq, Prod.mk.injEq] at h
    obtain ⟨rfl, rfl⟩ := h
    simp [scaledCells]
  | cons p ps ih =>
    unfold stepParams at h
    cases h1 : stepParam k indep allow glr gwd extra heap p with
    | error e => simp [h1] at h
    | ok r1 =>
      obtain ⟨h1', g⟩ := r1
      simp only [h1, except_bind_ok] at h
      cases h2 : stepParams k indep allow glr gwd extra h1' ps with
      | error e => simp [h2] at h
      | ok r2 =>
        obtain ⟨h2', gs'⟩ := r2
        simp only [h2, except_bind_ok, except_pure, Except.ok.injEq, Prod.mk.injEq] at h
        obtain ⟨rfl, rfl⟩ := h
        obtain ⟨hb, hpw⟩ := ih h2
        obtain ⟨ext2, hext2⟩ := (stepParams_spec _ h2).2.2
        obtain ⟨sp, _, hh, hsame⟩ := stepParam_spec h1
        have hlen2 : h1'.length ≤ h2'.length := by rw [hext2]; simp
        rcases hh with rfl | ⟨v, rfl, hlr, htag⟩
        · -- heap unchanged: this group contributes no scaled cell
          have hnone : scaledCells (g :: gs') = scaledCells gs' := by
            unfold scaledCells
            rw [List.filterMap_cons]
            split
            · rfl
            · rename_i b hb'
              exfalso
              split at hb'
              · rename_i t a ht hl
                exact hsame rfl a hl (by rw [← sp]; simp [ht])
              · simp at hb'
          rw [hnone]
          exact ⟨hb, hpw⟩
        · have hcons : scaledCells (g :: gs') = heap.length :: scaledCells gs' := by
            unfold scaledCells
            rw [List.filterMap_cons]
            have : g.param.tag.isSome := by rw [sp]; exact htag
            obtain ⟨t, ht⟩ := Option.isSome_iff_exists.mp this
            simp [ht, hlr]
          rw [hcons]
          constructor
          · intro a ha
            rcases List.mem_cons.mp ha with rfl | ha
            · constructor
              · exact le_refl _
              · have : (heap ++ [v]).length = heap.length + 1 := by simp
                omega
            · have := hb a ha
              simp at this
              omega
          · refine List.Pairwise.cons ?_ hpw
            intro a ha
            have := hb a ha
            simp at this
            omega

/-- **No aliasing between scaled groups, nor with the caller**: within a source group the
    lr cells of the groups produced for tagged parameters are pairwise distinct, and none of
    them is a cell that existed before the call. -/
theorem scaled_lr_fresh {glr : LrVal ℝ} {gwd : ℝ} {extra : List (String × String)}
    (ps : List Param) {heap h' : List ℝ} {gs : List (OutGroup ℝ)}
    (h : stepParams k indep allow glr gwd extra heap ps = .ok (h', gs)) :
    (scaledCells gs).Nodup ∧ ∀ a ∈ scaledCells gs, heap.length ≤ a := by
  obtain ⟨hb, hpw⟩ := stepParams_fresh ps h
  exact ⟨hpw.imp (fun hlt => Nat.ne_of_lt hlt), fun a ha => (hb a ha).1⟩

/-! ### weight decay -/

/-- With independent weight decay the produced group satisfies `lr' × weight_decay' = wd`
    for every non-zero scaled learning rate. -/
theorem wd_independent {glr : LrVal ℝ} {gwd : ℝ} {extra : List (String × String)}
    {heap h' : List ℝ} {p : Param} {g : OutGroup ℝ}
    (h : stepParam k true allow glr gwd extra heap p = .ok (h', g))
    (v : ℝ) (hv : lrValue h' g.lr = some v) (hv0 : v ≠ 0) : v * g.wd = gwd := by
  unfold stepParam at h
  split at h
  · rename_i t ht
    cases hs : lrScale (α := ℝ) k t p.shape p.depth with
    | error e => simp [hs] at h
    | ok s =>
      simp only [hs, except_bind_ok] at h
      split at h
      · simp only [except_pure, Except.ok.injEq, Prod.mk.injEq] at h
        obtain ⟨rfl, rfl⟩ := h
        simp only [lrValue, Option.some.injEq] at hv
        subst hv
        simp only [if_true]
        exact mul_div_cancel₀ gwd hv0
      · split at h
        · simp at h
        · simp only [except_pure, Except.ok.injEq, Prod.mk.injEq] at h
          obtain ⟨rfl, rfl⟩ := h
          simp only [lrValue, List.getElem?_append_right (le_refl _), Nat.sub_self,
            List.getElem?_cons_zero, Option.some.injEq] at hv
          subst hv
          simp only [if_true]
          exact mul_div_cancel₀ gwd hv0
  · split at h
    · split at h
      · simp at h
      · rename_i v' hv'
        simp only [except_pure, Except.ok.injEq, Prod.mk.injEq] at h
        obtain ⟨rfl, rfl⟩ := h
        simp only [hv', Option.some.injEq] at hv
        subst hv
        simp only [if_true]
        exact mul_div_cancel₀ gwd hv0
    · simp at h

/-- With it disabled the weight decay is passed through unchanged. -/
theorem wd_passthrough {glr : LrVal ℝ} {gwd : ℝ} {extra : List (String × String)}
    {heap h' : List ℝ} {p : Param} {g : OutGroup ℝ}
    (h : stepParam k false allow glr gwd extra heap p = .ok (h', g)) : g.wd = gwd := by
  unfold stepParam at h
  split at h
  · rename_i t ht
    cases hs : lrScale (α := ℝ) k t p.shape p.depth with
    | error e => simp [hs] at h
    | ok s =>
      simp only [hs, except_bind_ok] at h
      split at h
      · simp only [except_pure, Except.ok.injEq, Prod.mk.injEq] at h
        obtain ⟨_, rfl⟩ := h
        simp
      · split at h
        · simp at h
        · simp only [except_pure, Except.ok.injEq, Prod.mk.injEq] at h
          obtain ⟨_, rfl⟩ := h
          simp
  · split at h
    · split at h
      · simp at h
      · simp only [except_pure, Except.ok.injEq, Prod.mk.injEq] at h
        obtain ⟨_, rfl⟩ := h
        simp
    · simp at h

/-- One SGD step with zero gradient multiplies the parameter by `1 − wd`, whatever the lr. -/
theorem sgd_zero_step (lr wd' w p : ℝ) (h : lr * wd' = w) :
    sgdZeroStep lr wd' p = (1 - w) * p := by
  unfold sgdZeroStep
  simp only [nat_real, Nat.cast_zero, zero_add]
  rw [← h]
  ring

/-- One AdamW step with zero gradient multiplies the parameter by `1 − wd`, whatever the lr
    (and whatever `eps`). -/
theorem adamw_zero_step (lr wd' eps w p : ℝ) (h : lr * wd' = w) :
    adamwZeroStep lr wd' eps p = (1 - w) * p := by
  unfold adamwZeroStep
  simp only [nat_real, Nat.cast_zero, Nat.cast_one, zero_div, mul_zero, sub_zero]
  rw [← h]
  ring

/-- `k` zero-gradient steps: `(1 − wd)^k`. -/
theorem sgd_zero_steps (lr wd' w p : ℝ) (h : lr * wd' = w) (n : ℕ) :
    (sgdZeroStep lr wd')^[n] p = (1 - w) ^ n * p := by
  induction n generalizing p with
  | zero => simp
  | succ n ih =>
    rw [Function.iterate_succ_apply, ih, sgd_zero_step lr wd' w p h]
    ring

/-! ### Non-vacuity: a concrete call meeting the hypotheses -/
example :
    ∃ h' gs, scaledParameters (α := ℝ) .adam true false (some (.cell 0)) 0.1 [0.5]
      [.bare ⟨0, some .bias, [3], none⟩, .bare ⟨1, some .output, [3, 4], none⟩] = .ok (h', gs) := by
  simp [scaledParameters, stepEntry, stepParams, stepParam, lrScale, lrScaleAdam, Option.orElse]

end USProofs.C11
