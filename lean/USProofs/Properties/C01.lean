/-
  C01 — scaled functions equal their PyTorch counterparts up to one data-independent scalar.

  PyTorch's op is an arbitrary `F : DOp X Y`; tensors are elements of arbitrary types with a
  scalar action.  The scale is a function of the configuration alone (it has no tensor
  argument), which is what "never on tensor values" means in the model.
-/
import USProofs.RealInst
import USProofs.Properties.C05
import Mathlib.Tactic.Positivity

open USModel

namespace USProofs.C01

section forward
variable {A B C Y : Type} [SMul ℝ A] [SMul ℝ B] [SMul ℝ C] [SMul ℝ Y]

/-- The forward value is the reference value times the forward scale — for every reference op,
    every input, one / two / three tensor operands. -/
theorem scaled1_fwd (f b : ℝ) (F : DOp A Y) (x : A) : (scaled1 f b F).fwd x = f • F.fwd x := rfl
theorem scaled2_fwd (f a b : ℝ) (F : DOp (A × B) Y) (x : A × B) :
    (scaled2 f a b F).fwd x = f • F.fwd x := rfl
theorem scaled3_fwd (f a b c : ℝ) (F : DOp (A × B × C) Y) (x : A × B × C) :
    (scaled3 f a b c F).fwd x = f • F.fwd x := rfl

/-- Losses: the value is `f •` PyTorch's sum-reduced loss of the temperature-scaled logits. -/
theorem cross_entropy_fwd (f mult b : ℝ) (Fsum : DOp A Y) (x : A) :
    (crossEntropyOp f mult b Fsum).fwd x = f • Fsum.fwd (mult • x) := rfl
theorem mse_fwd (f b : ℝ) (Fsum : DOp (A × A) Y) (x : A × A) :
    (mseOp f b Fsum).fwd x = f • Fsum.fwd x := rfl
end forward

/-! ### the forward scalar is positive -/

theorem logInterp_pos (a lo hi : ℝ) : 0 < logInterp a lo hi := by
  simp only [logInterp, transc_exp]
  exact Real.exp_pos _

theorem powNegHalf_pos {x : ℝ} (hx : 0 < x) : 0 < powNegHalf x := by
  simp only [powNegHalf, transc_pow]
  exact Real.rpow_pos_of_pos hx _

theorem powHalf_pos {x : ℝ} (hx : 0 < x) : 0 < powHalf x := by
  simp only [powHalf, transc_pow]
  exact Real.rpow_pos_of_pos hx _

theorem constraintFn_pos (n : String) (l : List ℝ) (hl : ∀ s ∈ l, 0 < s) (s : ℝ)
    (h : constraintFn n l = .ok s) : 0 < s := by
  unfold constraintFn at h
  split at h
  · split at h
    · cases h
    · rename_i hne
      simp only [Except.ok.injEq] at h; subst h
      have hne' : l ≠ [] := by simpa using hne
      have := C05.means_ordered_and_bounded l (l.foldr min (l.head hne')) (l.foldr max (l.head hne'))
      -- positivity of the geometric mean directly
      rw [C05.gmean_eq]
      exact Real.rpow_pos_of_pos (List.prod_pos hl) _
  · split at h
    · cases h
    · rename_i hne
      simp only [Except.ok.injEq] at h; subst h
      have hne' : l ≠ [] := by simpa using hne
      have hn : (0 : ℝ) < l.length := by exact_mod_cast List.length_pos_iff.mpr hne'
      rw [C05.hmean_eq]
      have : 0 < (l.map fun s => 1 / s).sum := by
        apply List.sum_pos
        · intro x hx
          obtain ⟨s, hs, rfl⟩ := List.mem_map.mp hx
          exact one_div_pos.mpr (hl s hs)
        · simpa using hne'
      positivity
  · split at h
    · cases h
    · rename_i hne
      simp only [Except.ok.injEq] at h; subst h
      have hne' : l ≠ [] := by simpa using hne
      have hn : (0 : ℝ) < l.length := by exact_mod_cast List.length_pos_iff.mpr hne'
      rw [C05.amean_eq]
      have : 0 < l.sum := List.sum_pos l hl hne'
      positivity
  · split at h
    · simp only [Except.ok.injEq] at h; subst h; exact hl _ (by simp)
    · cases h
  · split at h
    · simp only [Except.ok.injEq] at h; subst h; exact hl _ (by simp)
    · cases h
  · split at h
    · simp only [Except.ok.injEq] at h; subst h; exact hl _ (by simp)
    · cases h
  · split at h
    · simp only [Except.ok.injEq] at h; subst h; exact hl _ (by simp)
    · cases h
  · cases h

/-- Whatever the constraint, positive unconstrained scales give positive scales. -/
theorem applyConstraint_pos (n : Option String) (l l' : List ℝ) (hl : ∀ s ∈ l, 0 < s)
    (h : applyConstraint n l = .ok l') : ∀ s ∈ l', 0 < s := by
  cases n with
  | none => rw [C05.apply_none] at h; cases h; exact hl
  | some name =>
    by_cases hn : name = ""
    · subst hn; rw [C05.apply_empty] at h; cases h; exact hl
    · cases hc : constraintFn name l with
      | error e => rw [C05.apply_error name hn l e hc] at h; cases h
      | ok s =>
        rw [C05.apply_rule name hn l s hc] at h
        cases h
        intro x hx
        rw [List.eq_of_mem_replicate hx]
        exact constraintFn_pos name l hl s hc

theorem elementwise_pos (c : Option String) (out gin : ℝ) (ho : 0 < out) (hg : 0 < gin)
    (s : OpScales ℝ) (h : elementwise c out gin = .ok s) : 0 < s.fwd ∧ ∀ b ∈ s.bwd, 0 < b := by
  unfold elementwise at h
  generalize hc : applyConstraint (α := ℝ) c _ = r at h
  cases r with
  | error e => simp at h
  | ok l' =>
    have hp := applyConstraint_pos c [out, gin] l' (by intro s hs; simp at hs; rcases hs with rfl | rfl <;> assumption) hc
    simp only [except_bind_ok] at h
    split at h
    · simp only [except_pure, Except.ok.injEq] at h; subst h
      exact ⟨hp _ (by simp), by intro b hb; simp at hb; subst hb; exact hp _ (by simp)⟩
    · cases h

/-- gelu, silu, softmax: forward and backward scalars are positive for every `mult` and every
    constraint. -/
theorem gelu_pos (mult : ℝ) (c : Option String) (s : OpScales ℝ) (h : geluScales mult c = .ok s) :
    0 < s.fwd ∧ ∀ b ∈ s.bwd, 0 < b :=
  elementwise_pos c _ _ (logInterp_pos _ _ _) (logInterp_pos _ _ _) s h
theorem silu_pos (mult : ℝ) (c : Option String) (s : OpScales ℝ) (h : siluScales mult c = .ok s) :
    0 < s.fwd ∧ ∀ b ∈ s.bwd, 0 < b :=
  elementwise_pos c _ _ (logInterp_pos _ _ _) (logInterp_pos _ _ _) s h
theorem softmax_pos (n : ℕ) (mult : ℝ) (c : Option String) (s : OpScales ℝ)
    (h : softmaxScales n mult c = .ok s) : 0 < s.fwd ∧ ∀ b ∈ s.bwd, 0 < b :=
  elementwise_pos c _ _ (logInterp_pos _ _ _) (logInterp_pos _ _ _) s h
theorem silu_glu_pos (mult : ℝ) : 0 < (siluGluScales mult).fwd := logInterp_pos _ _ _

theorem dropout_pos (p : ℝ) (hp : p < 1) : 0 < (dropoutScales p).fwd := by
  simp only [dropoutScales]
  apply powHalf_pos
  simp only [nat_real, Nat.cast_one]
  linarith

theorem matmul_pos (ls inner rs : ℕ) (h1 : 0 < ls) (h2 : 0 < inner) (h3 : 0 < rs)
    (c : Option String) (s : OpScales ℝ) (h : matmulScales ls inner rs c = .ok s) :
    0 < s.fwd ∧ ∀ b ∈ s.bwd, 0 < b := by
  unfold matmulScales at h
  generalize hc : applyConstraint (α := ℝ) c _ = r at h
  cases r with
  | error e => simp at h
  | ok l' =>
    have hp := applyConstraint_pos c _ l' (by
      intro s hs
      simp only [nat_real, List.mem_cons, List.not_mem_nil, or_false] at hs
      rcases hs with rfl | rfl | rfl <;> exact powNegHalf_pos (by exact_mod_cast ‹0 < _›)) hc
    simp only [except_bind_ok] at h
    split at h
    · simp only [except_pure, Except.ok.injEq] at h; subst h
      refine ⟨hp _ (by simp), ?_⟩
      intro b hb; simp at hb; rcases hb with rfl | rfl <;> exact hp _ (by simp)
    · cases h

theorem linear_pos (fo fi numel : ℕ) (h1 : 0 < fo) (h2 : 0 < fi) (h3 : 0 < numel / fi)
    (sp0 sp1 sp2 : ℝ) (c : Option String) (s : OpScales ℝ)
    (h : linearScales fo fi numel sp0 sp1 sp2 c = .ok s) : 0 < s.fwd ∧ ∀ b ∈ s.bwd, 0 < b := by
  unfold linearScales at h
  have rp : ∀ (n : ℕ) (e : ℝ), 0 < n → (0 : ℝ) < (nat 1 : ℝ) / Transc.pow (nat n : ℝ) e := by
    intro n e hn
    simp only [nat_real, Nat.cast_one, transc_pow]
    exact one_div_pos.mpr (Real.rpow_pos_of_pos (by exact_mod_cast hn) _)
  generalize hc : applyConstraint (α := ℝ) c _ = r at h
  cases r with
  | error e => simp at h
  | ok l' =>
    have hp := applyConstraint_pos c _ l' (by
      intro s hs
      simp only [List.mem_cons, List.not_mem_nil, or_false] at hs
      rcases hs with rfl | rfl
      · exact rp fi sp0 h2
      · exact rp fo sp1 h1) hc
    simp only [except_bind_ok] at h
    split at h
    · simp only [except_pure, Except.ok.injEq] at h; subst h
      refine ⟨hp _ (by simp), ?_⟩
      intro b hb
      simp only [List.mem_cons, List.not_mem_nil, or_false] at hb
      rcases hb with rfl | rfl | rfl
      · exact hp _ (by simp)
      · exact rp _ sp2 h3
      · exact rp _ sp2 h3
    · cases h

theorem sdpa_pos (n d : ℕ) (p mult : ℝ) (hp : p < 1) (c : Bool) : 0 < sdpaScale n d p mult c := by
  unfold sdpaScale
  apply div_pos
  · apply powHalf_pos; simp only [nat_real, Nat.cast_one]; linarith
  · exact logInterp_pos _ _ _

/-! ### the scalar is exactly 1 for losses (sum), normalisations and the embedding lookup -/
theorem norm_fwd_one (n m : ℕ) : (normScales (α := ℝ) n m).fwd = 1 := by simp [normScales]
theorem norm_input_grad_one (n m : ℕ) : (normScales (α := ℝ) n m).bwd.head? = some 1 := by
  simp [normScales]
theorem embedding_fwd_one (v b : ℕ) : (embeddingScales (α := ℝ) v b).fwd = 1 := by
  simp [embeddingScales]
theorem cross_entropy_sum_fwd_one (b v : ℕ) : (crossEntropyScales (α := ℝ) b v false).fwd = 1 := by
  simp [crossEntropyScales]
theorem mse_sum_fwd_one (n : ℕ) : (mseScales (α := ℝ) n false).fwd = 1 := by simp [mseScales]
/-- mean reduction divides the sum by the batch size / element count, PyTorch's mean divisor
    when no target is ignored. -/
theorem cross_entropy_mean_fwd (b v : ℕ) : (crossEntropyScales (α := ℝ) b v true).fwd = 1 / b := by
  simp [crossEntropyScales]
theorem mse_mean_fwd (n : ℕ) : (mseScales (α := ℝ) n true).fwd = 1 / n := by simp [mseScales]

/-- **Partial (finding F-C01):** with `k < b` non-ignored targets PyTorch's mean divides by `k`,
    the library by `b`; the two agree iff no target is ignored. -/
theorem ce_mean_eq_ref_partial (b k : ℕ) (hb : 0 < b) (hk : 0 < k) (S : ℝ) (hS : S ≠ 0) :
    (1 / (b : ℝ)) * S = S / k ↔ k = b := by
  have hb' : (b : ℝ) ≠ 0 := by exact_mod_cast hb.ne'
  have hk' : (k : ℝ) ≠ 0 := by exact_mod_cast hk.ne'
  constructor
  · intro h
    field_simp at h
    exact_mod_cast h
  · rintro rfl
    field_simp

/-! ### unsupported arguments are rejected, supported calls pass through -/

theorem validate_rejects (sig : Sig) (pos : List String) (kw : List (String × String))
    (n v d : String) (hb : (n, v) ∈ boundArgs sig pos kw) (hu : sig.unsupported.lookup n = some d)
    (hv : v ≠ d) : validate sig pos kw = .error .valueError := by
  unfold validate
  rw [if_pos]
  rw [List.any_eq_true]
  exact ⟨(n, v), hb, by simp [hu, hv]⟩

theorem validate_accepts (sig : Sig) (pos : List String) (kw : List (String × String))
    (h : ∀ n v, (n, v) ∈ boundArgs sig pos kw → ∀ d, sig.unsupported.lookup n = some d → v = d) :
    validate sig pos kw = .ok () := by
  unfold validate
  rw [if_neg]
  rw [List.any_eq_true]
  rintro ⟨⟨n, v⟩, hb, hx⟩
  cases hl : sig.unsupported.lookup n with
  | none => simp [hl] at hx
  | some d =>
    have := h n v hb d hl
    simp [hl, this] at hx

/-! ### Non-vacuity -/
example : validate ⟨["input", "p", "training", "inplace"], [("inplace", "False")]⟩
    ["x", "0.5", "True", "True"] [] = .error .valueError := by decide
example : validate ⟨["input", "p", "training", "inplace"], [("inplace", "False")]⟩
    ["x", "0.5"] [("inplace", "False")] = .ok () := by decide

end USProofs.C01
