/-
  C19 — the pruning helpers return a **well-formed** graph, for every well-formed input graph of any
  size: no surviving node refers to a removed node or to a later node, ids stay distinct.
  `topoL_pruneNode` (one `_prune` step), `topoL_pruneSweep` (a whole sweep with a decision rule whose
  replacement is always an input of the node it removes), and the three instances.
-/
import USModel
import USProofs.Properties.C19Reach
import USProofs.Properties.C16Topo

open USModel
open USProofs.C16 (TopoL BeforeL ids Reach)

namespace USProofs.C19

theorem beforeL_trans {l : List Nat} (hn : l.Nodup) {a b c : Nat} (h1 : BeforeL l a b) (h2 : BeforeL l b c) :
    BeforeL l a c := by
  obtain ⟨p, s, e, ha⟩ := h1
  obtain ⟨p', s', e', hb⟩ := h2
  -- b ∈ p', so p' = q1 ++ b :: q2 and by uniqueness p = q1
  obtain ⟨q1, q2, rfl⟩ := List.append_of_mem hb
  have e'' : l = q1 ++ b :: (q2 ++ c :: s') := by rw [e']; simp
  have : p = q1 := USProofs.C16.nodup_split_unique hn e e''
  subst this
  exact ⟨p ++ b :: q2, s', e', by simp [ha]⟩

theorem beforeL_filter {l : List Nat} {a b x : Nat} (h : BeforeL l a b) (ha : a ≠ x) (hb : b ≠ x) :
    BeforeL (l.filter (· != x)) a b := by
  obtain ⟨p, s, rfl, hap⟩ := h
  refine ⟨p.filter (· != x), s.filter (· != x), ?_, ?_⟩
  · have : (b != x) = true := by rw [bne_iff_ne]; exact hb
    simp [List.filter_append, this]
  · exact List.mem_filter.mpr ⟨hap, by rw [bne_iff_ne]; exact ha⟩

theorem ids_prune (g : IGraph) (id : Nat) (replacement : Option Nat) :
    ids (pruneNode g id replacement) = (ids g).filter (· != id) := prune_ids g id replacement

theorem subst_refs_mem (id : Nat) (replacement : Option Nat) (i c : Nat) (h : c ∈ (subst id replacement i).refs) :
    (i ≠ id ∧ c = i) ∨ (i = id ∧ replacement = some c) := by
  unfold subst at h
  by_cases hi : i = id
  · subst hi
    simp only [beq_self_eq_true, if_true] at h
    cases replacement with
    | none => simp [Arg.refs] at h
    | some r => simp only [Arg.refs, List.mem_singleton] at h; exact Or.inr ⟨rfl, by rw [h]⟩
  · have : (i == id) = false := by rw [beq_eq_false_iff_ne]; exact hi
    simp only [this, Bool.false_eq_true, if_false, Arg.refs, List.mem_singleton] at h
    exact Or.inl ⟨hi, h⟩

/-- **One `_prune` step keeps the graph well-formed** when the replacement (if any) is an input of the
    removed node: every reference of a surviving node still points to an earlier surviving node. -/
theorem topoL_pruneNode (g : IGraph) (id : Nat) (replacement : Option Nat) (h : TopoL g)
    (hr : ∀ r, replacement = some r → ∃ n ∈ g, n.id = id ∧ r ∈ n.n.inputs) :
    TopoL (pruneNode g id replacement) := by
  obtain ⟨hn, hin⟩ := h
  refine ⟨by rw [ids_prune]; exact hn.filter _, ?_⟩
  intro y hy c hc
  obtain ⟨x, hx, hxid, rfl⟩ := (mem_prune g id replacement y).mp hy
  obtain ⟨i, hi, hci⟩ := (rewired_inputs id replacement x c).mp hc
  rw [ids_prune]
  show BeforeL ((ids g).filter (· != id)) c x.id
  rcases subst_refs_mem id replacement i c hci with ⟨hne, rfl⟩ | ⟨rfl, hrep⟩
  · exact beforeL_filter (hin x hx c hi) hne hxid
  · obtain ⟨n, hnm, hnid, hcn⟩ := hr c hrep
    have h1 : BeforeL (ids g) c i := hnid ▸ hin n hnm c hcn
    have h2 : BeforeL (ids g) i x.id := hin x hx i hi
    have hci' : c ≠ i := by
      intro e; subst e
      -- c before itself contradicts nodup
      obtain ⟨p, s, e', hp⟩ := h1
      rw [e'] at hn
      exact (List.nodup_append.mp hn).2.2 c hp c (by simp) rfl
    exact beforeL_filter (beforeL_trans hn h1 h2) hci' hxid

theorem get?_mem {g : IGraph} {id : Nat} {x : INode} (h : g.get? id = some x) : x ∈ g ∧ x.id = id := by
  unfold IGraph.get? at h
  exact ⟨List.mem_of_find?_eq_some h, by have := List.find?_some h; simpa using this⟩

/-- **A whole sweep keeps the graph well-formed**, for any decision rule that only ever proposes an
    input of the node it removes as the replacement. -/
theorem topoL_pruneSweep (decide : IGraph → INode → Option (Option Nat))
    (hdec : ∀ g x r, decide g x = some (some r) → r ∈ x.n.inputs) (g0 : IGraph) (h : TopoL g0) :
    TopoL (pruneSweep decide g0) := by
  unfold pruneSweep
  generalize (g0.map (·.id)) = todo
  induction todo generalizing g0 with
  | nil => exact h
  | cons id rest ih =>
    simp only [List.foldl_cons]
    apply ih
    cases hget : g0.get? id with
    | none => exact h
    | some x =>
      simp only
      cases hd : decide g0 x with
      | none => exact h
      | some r =>
        simp only
        apply topoL_pruneNode g0 id r h
        intro r' hr'
        obtain ⟨hx, hxid⟩ := get?_mem hget
        exact ⟨x, hx, hxid, hdec g0 x r' (by rw [hd, hr'])⟩

theorem floatInputs_sub (g : IGraph) (x : INode) : ∀ a ∈ floatInputs g x, a ∈ x.n.inputs := by
  intro a ha
  exact (List.mem_filter.mp ha).1

theorem topoL_ofGraph (g : Graph) (hw : g.wellFormed = true) : TopoL (IGraph.ofGraph g) :=
  USProofs.C16.topoL_of_topo (USProofs.C16.topo_ofGraph g hw)

/-- `prune_non_float_tensors` returns a well-formed graph -/
theorem pruneNonFloat_wellformed (g : Graph) (hw : g.wellFormed = true) : TopoL (pruneNonFloatI g) := by
  unfold pruneNonFloatI
  apply topoL_pruneSweep _ _ _ (topoL_ofGraph g hw)
  intro g' x r hd
  split at hd
  · cases hd
  · split at hd
    · split at hd
      · rename_i a hfi
        have : r = a := by simpa using hd.symm
        subst this
        exact floatInputs_sub g' x r (by rw [hfi]; simp)
      · cases hd
    · cases hd

/-- `prune_same_scale_tensors` returns a well-formed graph -/
theorem pruneSameScale_wellformed (rtol : Float) (g : Graph) (hw : g.wellFormed = true) : TopoL (pruneSameScaleI rtol g) := by
  unfold pruneSameScaleI
  apply topoL_pruneSweep _ _ _ (topoL_ofGraph g hw)
  intro g' x r hd
  split at hd
  · cases hd
  · split at hd
    · rename_i a hfi
      split at hd
      · split at hd
        · have : r = a := by simpa using hd.symm
          subst this
          exact floatInputs_sub g' x r (by rw [hfi]; simp)
        · cases hd
      · cases hd
    · cases hd

/-- `prune_selected_nodes` returns a well-formed graph (edges are cut, never re-pointed) -/
theorem pruneSelected_wellformed (targets : List String) (g : Graph) (hw : g.wellFormed = true) :
    TopoL (pruneSelectedI targets g) := by
  unfold pruneSelectedI
  apply topoL_pruneSweep _ _ _ (topoL_ofGraph g hw)
  intro g' x r hd
  split at hd <;> cases hd

/-- non-vacuity: the demo graph is well-formed -/
example : Graph.wellFormed demo = true := by decide

end USProofs.C19

namespace USProofs.C19

/-! ### back to positional graphs: renumbering a topologically ordered id-graph gives a well-formed graph -/

theorem findIdx_of_split {g : IGraph} {p s : IGraph} {y : INode} (e : g = p ++ y :: s) (hp : ∀ w ∈ p, w.id ≠ y.id) :
    g.findIdx? (·.id == y.id) = some p.length := by
  rw [e, List.findIdx?_append]
  have : p.findIdx? (·.id == y.id) = none := by
    rw [List.findIdx?_eq_none_iff]; intro w hw; simpa using hp w hw
  simp [this, List.findIdx?_cons]

theorem findIdx_lt_of_mem {g : IGraph} {p : IGraph} {i : Nat} (hi : i ∈ ids p) (s : IGraph) (e : g = p ++ s) :
    ∃ j, g.findIdx? (·.id == i) = some j ∧ j < p.length := by
  obtain ⟨q, y, t, ep, hy, hq⟩ := USProofs.C16.exists_first hi
  refine ⟨q.length, ?_, ?_⟩
  · have e2 : g = q ++ y :: (t ++ s) := by rw [e, ep]; simp
    have := findIdx_of_split e2 (by intro w hw; rw [hy]; exact hq w hw)
    rw [hy] at this; exact this
  · rw [ep]; simp

theorem refsList_kwargs_pos (f : Nat → Arg) (kw : List (String × Arg)) :
    Arg.refsList ((kw.map fun (k, a) => (k, a.mapRefs f)).map (·.2)) =
      (Arg.refsList (kw.map (·.2))).flatMap (fun i => (f i).refs) := refsList_kwargs_map f kw

/-- **Renumbering a topologically ordered graph by position gives a well-formed graph**: every reference
    points to a strictly earlier position. -/
theorem toGraph_wellFormed (g : IGraph) (h : TopoL g) : Graph.wellFormed (IGraph.toGraph g) = true := by
  obtain ⟨hn, hin⟩ := h
  unfold Graph.wellFormed
  rw [List.all_eq_true]
  rintro ⟨n', k⟩ hmem
  obtain ⟨hk, hnk⟩ := List.mem_zipIdx_iff_getElem?.mp hmem |> fun h => (⟨h, h⟩ : _ ∧ _)
  clear hnk
  simp only [IGraph.toGraph, List.getElem?_map, Option.map_eq_some_iff] at hk
  obtain ⟨x, hxk, rfl⟩ := hk
  -- split g at position k
  have hklt : k < g.length := by
    by_contra hc; rw [List.getElem?_eq_none (by omega)] at hxk; cases hxk
  have hxg : g[k] = x := by
    have := List.getElem?_eq_getElem hklt; rw [this] at hxk; exact Option.some.inj hxk
  have esplit : g = g.take k ++ x :: g.drop (k + 1) := by
    rw [← hxg, List.getElem_cons_drop, List.take_append_drop]
  rw [List.all_eq_true]
  intro c hc
  simp only [decide_eq_true_eq]
  -- c is the position of some input i of x
  have hc' : ∃ i ∈ x.n.inputs, c = (g.findIdx? (·.id == i)).getD 0 := by
    simp only [GNode.inputs, List.mem_eraseDups, List.mem_append, refsList_mapRefsList, refsList_kwargs_pos,
      List.mem_flatMap, Arg.refs, List.mem_singleton] at hc
    rcases hc with ⟨i, hi, rfl⟩ | ⟨i, hi, rfl⟩
    · exact ⟨i, by simp only [GNode.inputs, List.mem_eraseDups, List.mem_append]; exact Or.inl hi, rfl⟩
    · exact ⟨i, by simp only [GNode.inputs, List.mem_eraseDups, List.mem_append]; exact Or.inr hi, rfl⟩
  obtain ⟨i, hi, rfl⟩ := hc'
  have hx : x ∈ g := List.mem_of_getElem? hxk
  obtain ⟨p', s', e', hip⟩ := hin x hx i hi
  -- by nodup the split point of x.id is unique: p' = ids (take k)
  have hids : ids g = ids (g.take k) ++ x.id :: ids (g.drop (k + 1)) := by
    conv_lhs => rw [esplit]
    simp [ids]
  have : ids (g.take k) = p' := USProofs.C16.nodup_split_unique hn hids e'
  rw [← this] at hip
  obtain ⟨j, hj, hjlt⟩ := findIdx_lt_of_mem hip (x :: g.drop (k + 1)) esplit
  rw [hj]
  have hlen : (g.take k).length = k := by rw [List.length_take]; omega
  rw [hlen] at hjlt
  simpa using hjlt

/-- `prune_non_float_tensors`, `prune_same_scale_tensors`, `prune_selected_nodes` **return a well-formed
    graph** — for every well-formed input graph, tolerance and target set. -/
theorem pruning_returns_wellformed (g : Graph) (hw : g.wellFormed = true) (rtol : Float) (targets : List String) :
    Graph.wellFormed (pruneNonFloat g) = true ∧ Graph.wellFormed (pruneSameScale rtol g) = true ∧
    Graph.wellFormed (pruneSelected targets g) = true :=
  ⟨toGraph_wellFormed _ (pruneNonFloat_wellformed g hw), toGraph_wellFormed _ (pruneSameScale_wellformed rtol g hw),
   toGraph_wellFormed _ (pruneSelected_wellformed targets g hw)⟩

end USProofs.C19
