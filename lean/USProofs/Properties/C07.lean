/-
  C07 — the transformer residual scaling rule balances layer contributions at every depth.

  Model: `USModel.tauRule` / `tauSq` / `contribEmb` / `contribs` / `stackTauSqs` / `stackTaus`
  (`USModel/Core.lean`), mirroring `transformer_residual_scaling_rule._tau` and the wiring of
  `TransformerStack`.

  All statements are for every depth `L ≥ 1` (2L residual branches) and all real `r, ρ > 0`.
-/
import USProofs.RealInst
import Mathlib.Tactic.FieldSimp
import Mathlib.Tactic.Ring
import Mathlib.Tactic.Positivity
import Mathlib.Tactic.Linarith
import USProofs.Properties.C06

open USModel

namespace USProofs.C07

/-! ### General residual bookkeeping (any list of squared branch weights) -/

theorem foldl_mul_acc (g : ℝ → ℝ) (ts : List ℝ) (a : ℝ) :
    ts.foldl (fun acc t => acc * g t) a = a * ts.foldl (fun acc t => acc * g t) 1 := by
  induction ts generalizing a with
  | nil => simp
  | cons t ts ih =>
    simp only [List.foldl_cons]
    rw [ih (a * g t), ih (1 * g t)]
    ring

theorem contribEmb_nil : contribEmb ([] : List ℝ) = 1 := by
  simp [contribEmb]

theorem contribEmb_cons (t : ℝ) (ts : List ℝ) :
    contribEmb (t :: ts) = 1 / (1 + t) * contribEmb ts := by
  unfold contribEmb
  simp only [List.foldl_cons, Nat.cast_one]
  rw [foldl_mul_acc]
  ring

/-- **Partition of unity.** Whatever the taus are (squares `t ≥ 0`), the squared contributions
    of the embedding and of all branches sum to 1. -/
theorem contrib_sum_one (ts : List ℝ) (h : ∀ t ∈ ts, 0 ≤ t) :
    contribEmb ts + (contribs ts).sum = 1 := by
  induction ts with
  | nil => simp [contribs, contribEmb_nil]
  | cons t ts ih =>
    have ht : 0 ≤ t := h t (by simp)
    have ih' := ih (fun u hu => h u (by simp [hu]))
    have h1 : (1 + t) ≠ 0 := by positivity
    simp only [contribs, List.sum_cons, contribEmb_cons, Nat.cast_one]
    have : 1 / (1 + t) * contribEmb ts + (t / (1 + t) * contribEmb ts + (contribs ts).sum)
        = contribEmb ts + (contribs ts).sum := by
      field_simp
      ring
    rw [this, ih']

/-! ### The rule -/

/-- squared weight of branch `i`: attention (even) or MLP (odd) -/
noncomputable def a (r rho : ℝ) (i : ℕ) : ℝ :=
  if i % 2 = 0 then alphaAttnSq r rho else alphaMlpSq r rho

/-- running normaliser `S i = L + n_attn(i)·α_attn² + n_mlp(i)·α_mlp²` -/
noncomputable def S (r rho : ℝ) (L i : ℕ) : ℝ :=
  (L : ℝ) + (((i + 1) / 2 : ℕ) : ℝ) * alphaAttnSq r rho + ((i / 2 : ℕ) : ℝ) * alphaMlpSq r rho

theorem alphaMlpSq_pos {r rho : ℝ} (hr : 0 < r) : 0 < alphaMlpSq r rho := by
  unfold alphaMlpSq
  simp only [Nat.cast_ofNat, Nat.cast_one]
  have : 0 < 1 + rho * rho := by nlinarith [mul_self_nonneg rho]
  positivity

theorem alphaAttnSq_pos {r rho : ℝ} (hr : 0 < r) (hrho : 0 < rho) : 0 < alphaAttnSq r rho := by
  unfold alphaAttnSq
  have := alphaMlpSq_pos (rho := rho) hr
  positivity

theorem a_pos {r rho : ℝ} (hr : 0 < r) (hrho : 0 < rho) (i : ℕ) : 0 < a r rho i := by
  unfold a
  split
  · exact alphaAttnSq_pos hr hrho
  · exact alphaMlpSq_pos hr

theorem S_pos {r rho : ℝ} (hr : 0 < r) (hrho : 0 < rho) {L : ℕ} (hL : 1 ≤ L) (i : ℕ) :
    0 < S r rho L i := by
  unfold S
  have h1 := alphaAttnSq_pos hr hrho
  have h2 := alphaMlpSq_pos (rho := rho) hr
  have : (1 : ℝ) ≤ (L : ℝ) := by exact_mod_cast hL
  positivity

/-- `tau²` of branch `i` of a stack with `2L` branches is `aᵢ / S i`. -/
theorem tauSq_eq (r rho : ℝ) (L i : ℕ) : tauSq r rho i (2 * L) = a r rho i / S r rho L i := by
  unfold tauSq a S
  have : ((2 * L : ℕ) : ℝ) / ((2 : ℕ) : ℝ) = (L : ℝ) := by
    push_cast
    field_simp
  rw [this]

/-- **Key step.** `S (i+1) = S i + aᵢ`, hence `1 + tauᵢ² = S (i+1) / S i`. -/
theorem S_succ (r rho : ℝ) (L i : ℕ) : S r rho L (i + 1) = S r rho L i + a r rho i := by
  unfold S a
  rcases Nat.mod_two_eq_zero_or_one i with h | h
  · have e1 : (i + 1 + 1) / 2 = (i + 1) / 2 + 1 := by omega
    have e2 : (i + 1) / 2 = i / 2 := by omega
    simp only [h, if_true]
    rw [e1, e2]
    push_cast
    ring
  · have e1 : (i + 1 + 1) / 2 = (i + 1) / 2 := by omega
    have e2 : (i + 1) / 2 = i / 2 + 1 := by omega
    have h' : ¬ (i % 2 = 0) := by omega
    simp only [h', if_false]
    rw [e1, e2]
    push_cast
    ring

theorem one_add_tauSq {r rho : ℝ} (hr : 0 < r) (hrho : 0 < rho) {L : ℕ} (hL : 1 ≤ L) (i : ℕ) :
    1 + tauSq r rho i (2 * L) = S r rho L (i + 1) / S r rho L i := by
  have hS := S_pos hr hrho hL i
  rw [tauSq_eq, S_succ]
  field_simp

/-- the taus² of branches `i, i+1, …, i+n-1` -/
noncomputable def seg (r rho : ℝ) (L i n : ℕ) : List ℝ :=
  (List.range' i n).map fun j => tauSq r rho j (2 * L)

theorem emb_seg {r rho : ℝ} (hr : 0 < r) (hrho : 0 < rho) {L : ℕ} (hL : 1 ≤ L) (i n : ℕ) :
    contribEmb (seg r rho L i n) = S r rho L i / S r rho L (i + n) := by
  induction n generalizing i with
  | zero =>
    have := S_pos hr hrho hL i
    simp [seg, contribEmb_nil]
    field_simp
  | succ n ih =>
    have h0 := S_pos hr hrho hL i
    have h1 := S_pos hr hrho hL (i + 1)
    have h2 := S_pos hr hrho hL (i + 1 + n)
    have : seg r rho L i (n + 1) = tauSq r rho i (2 * L) :: seg r rho L (i + 1) n := by
      simp [seg, List.range'_succ]
    rw [this, contribEmb_cons, ih (i + 1), one_add_tauSq hr hrho hL]
    have e : i + (n + 1) = i + 1 + n := by omega
    rw [e]
    field_simp

theorem contribs_seg {r rho : ℝ} (hr : 0 < r) (hrho : 0 < rho) {L : ℕ} (hL : 1 ≤ L) (i n : ℕ) :
    contribs (seg r rho L i n)
      = (List.range' i n).map fun j => a r rho j / S r rho L (i + n) := by
  induction n generalizing i with
  | zero => simp [seg, contribs]
  | succ n ih =>
    have h0 := S_pos hr hrho hL i
    have h1 := S_pos hr hrho hL (i + 1)
    have h2 := S_pos hr hrho hL (i + 1 + n)
    have hs : seg r rho L i (n + 1) = tauSq r rho i (2 * L) :: seg r rho L (i + 1) n := by
      simp [seg, List.range'_succ]
    have e : i + (n + 1) = i + 1 + n := by omega
    rw [hs, contribs, ih (i + 1), emb_seg hr hrho hL, List.range'_succ, List.map_cons, e]
    congr 1
    have := one_add_tauSq hr hrho hL i
    simp only [Nat.cast_one]
    rw [this, tauSq_eq]
    field_simp

theorem stack_eq_seg (r rho : ℝ) (L : ℕ) : stackTauSqs r rho L = seg r rho L 0 (2 * L) := by
  simp [stackTauSqs, seg, List.range_eq_range']

theorem S_zero (r rho : ℝ) (L : ℕ) : S r rho L 0 = L := by
  simp [S]

theorem S_top (r rho : ℝ) (L : ℕ) :
    S r rho L (2 * L) = L * (1 + alphaAttnSq r rho + alphaMlpSq r rho) := by
  unfold S
  have e1 : (2 * L + 1) / 2 = L := by omega
  have e2 : 2 * L / 2 = L := by omega
  rw [e1, e2]
  ring

/-- `α_attn² + α_mlp² = 2 r²` -/
theorem alpha_sum {r rho : ℝ} : alphaAttnSq r rho + alphaMlpSq r rho = 2 * r ^ 2 := by
  unfold alphaAttnSq alphaMlpSq
  simp only [Nat.cast_ofNat, Nat.cast_one]
  have : 1 + rho * rho ≠ 0 := by nlinarith [mul_self_nonneg rho]
  field_simp
  ring

/-! ### Property theorems -/

/-- Embedding contribution of a full stack: `1 / (1 + α_attn² + α_mlp²) = 1/(1+2r²)`. -/
theorem emb_contribution {r rho : ℝ} (hr : 0 < r) (hrho : 0 < rho) {L : ℕ} (hL : 1 ≤ L) :
    contribEmb (stackTauSqs r rho L) = 1 / (1 + 2 * r ^ 2) := by
  have hLr : (0 : ℝ) < L := by exact_mod_cast hL
  rw [stack_eq_seg, emb_seg hr hrho hL, S_zero, Nat.zero_add, S_top, add_assoc, alpha_sum]
  field_simp

/-- Every branch `j` contributes `aⱼ / (L (1 + 2r²))`: all attention branches the same amount,
    all MLP branches the same amount. -/
theorem layer_contributions {r rho : ℝ} (hr : 0 < r) (hrho : 0 < rho) {L : ℕ} (hL : 1 ≤ L) :
    contribs (stackTauSqs r rho L)
      = (List.range (2 * L)).map fun j => a r rho j / (L * (1 + 2 * r ^ 2)) := by
  rw [stack_eq_seg, contribs_seg hr hrho hL, Nat.zero_add, S_top, add_assoc, alpha_sum,
    List.range_eq_range']

/-- All attention layers contribute equally, and all MLP layers contribute equally. -/
theorem equal_within_kind {r rho : ℝ} (hr : 0 < r) (hrho : 0 < rho) {L : ℕ} (hL : 1 ≤ L)
    (i j : ℕ) (hi : i < 2 * L) (hj : j < 2 * L) (hpar : i % 2 = j % 2) :
    (contribs (stackTauSqs r rho L))[i]? = (contribs (stackTauSqs r rho L))[j]? := by
  rw [layer_contributions hr hrho hL]
  simp [hi, hj, a, hpar]

/-- The attention : MLP contribution ratio is the requested ratio (`ρ²` on squares). -/
theorem attn_mlp_ratio {r rho : ℝ} (hr : 0 < r) (hrho : 0 < rho) {L : ℕ} (hL : 1 ≤ L)
    (i j : ℕ) (hi : i < 2 * L) (hj : j < 2 * L) (hie : i % 2 = 0) (hjo : j % 2 = 1)
    (ci cj : ℝ) (hci : (contribs (stackTauSqs r rho L))[i]? = some ci)
    (hcj : (contribs (stackTauSqs r rho L))[j]? = some cj) :
    ci = rho ^ 2 * cj := by
  rw [layer_contributions hr hrho hL] at hci hcj
  have hjo' : ¬ (j % 2 = 0) := by omega
  simp [hi, hj, a, hie, hjo'] at hci hcj
  rw [← hci, ← hcj]
  unfold alphaAttnSq
  ring

/-- Squared contributions of embedding and all layers sum to one. -/
theorem contributions_sum_one {r rho : ℝ} (hr : 0 < r) (hrho : 0 < rho) {L : ℕ} (hL : 1 ≤ L) :
    contribEmb (stackTauSqs r rho L) + (contribs (stackTauSqs r rho L)).sum = 1 := by
  apply contrib_sum_one
  intro t ht
  simp only [stackTauSqs, List.mem_map, List.mem_range] at ht
  obtain ⟨i, _, rfl⟩ := ht
  rw [tauSq_eq]
  exact le_of_lt (div_pos (a_pos hr hrho i) (S_pos hr hrho hL i))

/-- The mean layer contribution relative to the embedding is the requested multiplier:
    `((Σ attention c) + (Σ MLP c)) / 2 ÷ c_emb = r²` (the quantity the test suite calls
    `(s_attn_mlp_average / s_embedding)²`). -/
theorem mean_contribution_rel_embedding {r rho : ℝ} (hr : 0 < r) (hrho : 0 < rho) {L : ℕ}
    (hL : 1 ≤ L) :
    (contribs (stackTauSqs r rho L)).sum / 2 / contribEmb (stackTauSqs r rho L) = r ^ 2 := by
  have hs := contributions_sum_one hr hrho hL
  have he := emb_contribution hr hrho hL
  have : (contribs (stackTauSqs r rho L)).sum = 1 - 1 / (1 + 2 * r ^ 2) := by
    rw [← he]; linarith
  rw [this, he]
  have : (1 + 2 * r ^ 2) ≠ 0 := by positivity
  field_simp
  ring

/-- The model's `tau` (with square roots, the one that is run at `Float`) squares to `tauSq`
    (the one that is run at `Rat`). -/
theorem tau_sq_eq {r rho : ℝ} (hr : 0 < r) (hrho : 0 < rho) (index layers : ℕ) :
    (tauRule r rho index layers) ^ 2 = tauSq r rho index layers := by
  have hden : 0 < 1 + rho * rho := by nlinarith [mul_self_nonneg rho]
  have hM : (r * Real.sqrt (2 / (1 + rho * rho))) ^ 2 = alphaMlpSq r rho := by
    rw [mul_pow, Real.sq_sqrt (by positivity)]
    unfold alphaMlpSq
    simp only [Nat.cast_ofNat, Nat.cast_one]
    ring
  have hA : (rho * (r * Real.sqrt (2 / (1 + rho * rho)))) ^ 2 = alphaAttnSq r rho := by
    rw [mul_pow, hM]
    unfold alphaAttnSq
    ring
  have hMp := alphaMlpSq_pos (rho := rho) hr
  have hAp := alphaAttnSq_pos hr hrho
  unfold tauRule tauSq
  simp only [powHalf_real, nat_real, Nat.cast_ofNat, Nat.cast_one]
  rw [div_pow, Real.sq_sqrt]
  · congr 1
    · split <;> simp [← hM, ← hA, pow_two]
    · rw [← hM, ← hA]
      ring
  · positivity

/-- `TransformerStack(layers = L)` gives layer `k` the taus of branches `2k` and `2k+1` of `2L`. -/
theorem stack_wiring (r rho : ℝ) (L k : ℕ) (hk : k < L) :
    (stackTaus r rho L)[k]? =
      some (tauRule r rho (2 * k) (2 * L), tauRule r rho (2 * k + 1) (2 * L)) := by
  simp [stackTaus, hk]

/-! ### Non-vacuity: the hypotheses are met by a concrete stack. -/
example : (0 : ℝ) < 1 / 2 ∧ (0 : ℝ) < 3 ∧ 1 ≤ 4 := by norm_num

end USProofs.C07

/-! ### link to the residual scheme of C06: the bookkeeping *is* the stack's coefficients -/
namespace USProofs.C07

open USModel

/-- a branch whose output does not depend on its input (a fresh, independent contribution `b`) -/
def constBranch (b : ℝ) : DOp ℝ ℝ := ⟨fun _ => b, fun _ _ => 0⟩

/-- coefficient of the stack's input, and of each branch output, in the output of a sequential
    residual stack with weights `(wrᵢ, wsᵢ)` -/
def embCoeff : List (ℝ × ℝ) → ℝ
  | [] => 1
  | (_, ws) :: rest => ws * embCoeff rest
def branchCoeffs : List (ℝ × ℝ) → List ℝ
  | [] => []
  | (wr, _) :: rest => (wr * embCoeff rest) :: branchCoeffs rest

/-- **Unrolling.** The output of a sequential residual stack whose branches contribute `bᵢ` is
    `embCoeff · x + Σ branchCoeffᵢ · bᵢ`. -/
theorem stack_unroll (layers : List (ℝ × ℝ × ℝ)) (x : ℝ) :
    (residualStack (layers.map fun l => (l.1, l.2.1, constBranch l.2.2))).fwd x
      = embCoeff (layers.map fun l => (l.1, l.2.1)) * x
        + ((branchCoeffs (layers.map fun l => (l.1, l.2.1))).zip (layers.map fun l => l.2.2)).foldr
            (fun p acc => p.1 * p.2 + acc) 0 := by
  induction layers generalizing x with
  | nil => simp [residualStack, DOp.idOp, embCoeff, branchCoeffs]
  | cons l rest ih =>
    obtain ⟨wr, ws, b⟩ := l
    simp only [List.map_cons, residualStack, DOp.comp, embCoeff, branchCoeffs, List.zip_cons_cons,
      List.foldr_cons]
    have : (residualApply wr ws (constBranch b)).fwd x = wr * b + ws * x := by
      simp [residualApply, DOp.comp, residualAdd, onFirst, residualSplit, constBranch]
    rw [ih, this]
    ring

/-- with the weights of `tau` (`wr = τ/d`, `ws = 1/d`, `d = √(1+τ²)`) the squared coefficients are
    exactly the bookkeeping of `contribEmb` / `contribs` on `τ²` -/
theorem embCoeff_sq (taus : List ℝ) :
    (embCoeff (taus.map fun t => (t / Real.sqrt (1 + t ^ 2), 1 / Real.sqrt (1 + t ^ 2)))) ^ 2
      = contribEmb (taus.map fun t => t ^ 2) := by
  induction taus with
  | nil => simp [embCoeff, contribEmb_nil]
  | cons t rest ih =>
    have hd : (0 : ℝ) < 1 + t ^ 2 := by positivity
    simp only [List.map_cons, embCoeff, contribEmb_cons, mul_pow, ih, div_pow, one_pow,
      Real.sq_sqrt hd.le]

theorem branchCoeffs_sq (taus : List ℝ) :
    (branchCoeffs (taus.map fun t => (t / Real.sqrt (1 + t ^ 2), 1 / Real.sqrt (1 + t ^ 2)))).map (· ^ 2)
      = contribs (taus.map fun t => t ^ 2) := by
  induction taus with
  | nil => simp [branchCoeffs, contribs]
  | cons t rest ih =>
    have hd : (0 : ℝ) < 1 + t ^ 2 := by positivity
    simp only [List.map_cons, branchCoeffs, contribs, ih, mul_pow, embCoeff_sq, div_pow,
      Real.sq_sqrt hd.le, Nat.cast_one]

end USProofs.C07
