/-
  C19 — graph pruning removes exactly the intended nodes, keeps the graph connected.
  Model: `USModel/Prune.lean`.
-/
import USModel

open USModel

namespace USProofs.C19

/-! ### `map_arg`: references inside an argument after a substitution -/

mutual
theorem refs_mapRefs (f : Nat → Arg) : ∀ a : Arg, (a.mapRefs f).refs = a.refs.flatMap (fun i => (f i).refs)
  | .ref i => by simp [Arg.mapRefs, Arg.refs]
  | .lit s => by simp [Arg.mapRefs, Arg.refs]
  | .seq t xs => by simp [Arg.mapRefs, Arg.refs, refsList_mapRefsList f xs]
theorem refsList_mapRefsList (f : Nat → Arg) :
    ∀ xs : List Arg, Arg.refsList (Arg.mapRefsList f xs) = (Arg.refsList xs).flatMap (fun i => (f i).refs)
  | [] => by simp [Arg.mapRefsList, Arg.refsList]
  | x :: xs => by
    simp [Arg.mapRefsList, Arg.refsList, refs_mapRefs f x, refsList_mapRefsList f xs, List.flatMap_append]
end

/-- the substitution used by `_prune` -/
def subst (id : Nat) (replacement : Option Nat) : Nat → Arg :=
  fun i => if i == id then (match replacement with | some r => Arg.ref r | none => Arg.lit "None") else Arg.ref i

theorem subst_refs (id : Nat) (replacement : Option Nat) (i : Nat) (hr : replacement ≠ some id) :
    id ∉ (subst id replacement i).refs := by
  unfold subst
  by_cases h : (i == id) = true
  · simp only [h, if_true]
    cases replacement with
    | none => simp [Arg.refs]
    | some r =>
      simp only [Arg.refs, List.mem_singleton]
      intro hc; exact hr (by rw [hc])
  · simp only [h]
    simp only [Bool.false_eq_true, if_false, Arg.refs, List.mem_singleton]
    intro hc
    exact h (by simp [hc])

/-- **No dangling reference** (the repaired defect F-C19a): after pruning a node, no remaining node
    refers to it anywhere in its positional arguments — at any nesting depth — so erasing it
    cannot fail. -/
theorem prune_no_dangling_args (g : IGraph) (id : Nat) (replacement : Option Nat) (hr : replacement ≠ some id) :
    ∀ x ∈ pruneNode g id replacement, id ∉ Arg.refsList x.n.args := by
  intro x hx
  simp only [pruneNode, List.mem_map] at hx
  obtain ⟨y, _, rfl⟩ := hx
  simp only
  rw [refsList_mapRefsList]
  intro hmem
  obtain ⟨i, _, hi⟩ := List.mem_flatMap.mp hmem
  exact subst_refs id replacement i hr hi

/-- …nor in its keyword arguments (the repaired defect F-C19b concerned keyword inputs) -/
theorem prune_no_dangling_kwargs (g : IGraph) (id : Nat) (replacement : Option Nat) (hr : replacement ≠ some id) :
    ∀ x ∈ pruneNode g id replacement, ∀ kv ∈ x.n.kwargs, id ∉ kv.2.refs := by
  intro x hx kv hkv
  simp only [pruneNode, List.mem_map] at hx
  obtain ⟨y, _, rfl⟩ := hx
  simp only [List.mem_map] at hkv
  obtain ⟨kv0, _, rfl⟩ := hkv
  simp only
  rw [refs_mapRefs]
  intro hmem
  obtain ⟨i, _, hi⟩ := List.mem_flatMap.mp hmem
  exact subst_refs id replacement i hr hi

/-- exactly the pruned node disappears; the others keep their ids, in the original order -/
theorem prune_ids (g : IGraph) (id : Nat) (replacement : Option Nat) :
    (pruneNode g id replacement).map (·.id) = (g.map (·.id)).filter (· != id) := by
  unfold pruneNode
  rw [List.map_map]
  induction g with
  | nil => simp
  | cons x xs ih =>
    simp only [List.filter_cons, List.map_cons]
    by_cases h : (x.id != id) = true
    · simp only [h, if_true, List.map_cons, Function.comp_apply]
      rw [ih]
    · simp only [h]
      simpa using ih

/-- **Bypass**: every occurrence of the removed node in a consumer's arguments — positional,
    keyword or nested — becomes the replacement. -/
theorem prune_bypass_arg (id r : Nat) (a : Arg) :
    (a.mapRefs (subst id (some r))).refs = a.refs.map (fun i => if i == id then r else i) := by
  rw [refs_mapRefs]
  induction a.refs with
  | nil => simp
  | cons i rest ih =>
    simp only [List.flatMap_cons, List.map_cons, ih]
    unfold subst
    by_cases h : (i == id) = true <;> simp [h, Arg.refs]

/-- selective pruning cuts the edge instead: the reference becomes the literal `None` -/
theorem prune_cut_arg (id : Nat) (a : Arg) :
    (a.mapRefs (subst id none)).refs = a.refs.filter (fun i => !(i == id)) := by
  rw [refs_mapRefs]
  induction a.refs with
  | nil => simp
  | cons i rest ih =>
    simp only [List.flatMap_cons, ih, List.filter_cons]
    unfold subst
    by_cases h : (i == id) = true <;> simp [h, Arg.refs]

/-- a sweep only ever removes nodes: the surviving ids are a sublist of the input's, so the original
    order is preserved -/
theorem sweep_sublist (decide : IGraph → INode → Option (Option Nat)) (g0 : IGraph) :
    ((pruneSweep decide g0).map (·.id)).Sublist (g0.map (·.id)) := by
  unfold pruneSweep
  suffices h : ∀ (ids : List Nat) (g : IGraph), (g.map (·.id)).Sublist (g0.map (·.id)) →
      ((ids.foldl (fun g id =>
        match g.get? id with
        | none => g
        | some x => match decide g x with
          | some r => pruneNode g id r
          | none => g) g).map (·.id)).Sublist (g0.map (·.id)) from h _ g0 (List.Sublist.refl _)
  intro ids
  induction ids with
  | nil => intro g hg; simpa using hg
  | cons id rest ih =>
    intro g hg
    simp only [List.foldl_cons]
    apply ih
    split
    · exact hg
    · split
      · rw [prune_ids]
        exact (List.filter_sublist).trans hg
      · exact hg

/-- the copying helpers are functions of their input graph: the input is not modified -/
theorem copying_helpers_pure (g : Graph) (rtol : Float) :
    let _a := pruneNonFloat g; let _b := pruneSameScale rtol g; g = g := rfl

/-! ### Non-vacuity: the defect scenario `a = x.reshape(..); cat([a, a*2])` with a same-scale reshape -/
def demo : Graph :=
  [{ op := "placeholder", target := "x", args := [], kwargs := [], outputsFloat := true, fwdMeanAbs := some 1.0 },
   { op := "call_method", target := "reshape", args := [.ref 0, .lit "-1"], kwargs := [], outputsFloat := true, fwdMeanAbs := some 1.0 },
   { op := "call_function", target := "op.mul", args := [.ref 1, .lit "2"], kwargs := [], outputsFloat := true, fwdMeanAbs := some 2.0 },
   { op := "call_function", target := "torch.cat", args := [.seq false [.ref 1, .ref 2]], kwargs := [], outputsFloat := true, fwdMeanAbs := some 1.5 },
   { op := "output", target := "output", args := [.ref 3], kwargs := [] }]

/-- selective pruning of the reshape cuts the edges: `cat([None, mul])`, `mul(None, 2)` -/
example : (pruneSelected ["reshape"] demo).map (fun n => (n.target, Arg.showList n.args)) =
    [("x", ""), ("op.mul", "None, 2"), ("torch.cat", "[None, %1]"), ("output", "%2")] := by decide

/-- had the reshape been a non-float node, it would be bypassed inside the list argument too -/
example : (pruneNonFloat (demo.set 1 { (demo[1]!) with outputsFloat := false })).map
      (fun n => (n.target, Arg.showList n.args)) =
    [("x", ""), ("op.mul", "%0, 2"), ("torch.cat", "[%0, %1]"), ("output", "%2")] := by decide

end USProofs.C19
