/-
  C17 — the nesting rules for chains of ANY length and composition (the finite family of the property is a special
  case): every applied transform's backend is present exactly once (the final list is a permutation of what was
  applied), the backends other than unit scaling keep the order in which they were applied, and whenever both a
  unit-scaling and a quantisation backend are present the last unit-scaling backend comes before the last
  quantisation backend.
-/
import USModel
import Mathlib.Data.List.Induction

open USModel

namespace USProofs.C17

def kindOf : Transform → BKind
  | .unitScale => .unit | .simulate => .quant | .trackScales => .track | .compile => .compile

theorem lastIdx_snoc (p : BKind → Bool) (l : List BKind) (x : BKind) :
    lastIdx p (l ++ [x]) = if p x then some l.length else lastIdx p l := by
  unfold lastIdx
  rw [List.zipIdx_append, List.filter_append]
  by_cases h : p x
  · simp [h, List.zipIdx_cons]
  · simp [h, List.zipIdx_cons]

/-- `i` is the last position of `l` whose element satisfies `p` -/
def IsLast (p : BKind → Bool) (l : List BKind) (i : Nat) : Prop :=
  (∃ x, l[i]? = some x ∧ p x = true) ∧ ∀ (j : Nat) (x : BKind), i < j → l[j]? = some x → p x = false

def NoneSat (p : BKind → Bool) (l : List BKind) : Prop := ∀ (j : Nat) (x : BKind), l[j]? = some x → p x = false

theorem lastIdx_spec (p : BKind → Bool) (l : List BKind) :
    match lastIdx p l with
    | some i => IsLast p l i
    | none => NoneSat p l := by
  induction l using List.reverseRecOn with
  | nil => simp [lastIdx, NoneSat]
  | append_singleton l x ih =>
    rw [lastIdx_snoc]
    by_cases h : p x
    · simp only [h, if_true]
      refine ⟨⟨x, by simp, h⟩, ?_⟩
      intro j y hj hy
      have : (l ++ [x])[j]? = none := by
        apply List.getElem?_eq_none; simp; omega
      rw [this] at hy; cases hy
    · simp only [h]
      have hx : p x = false := by simpa using h
      cases hl : lastIdx p l with
      | none =>
        rw [hl] at ih
        simp only [Bool.false_eq_true, if_false]
        intro j y hy
        by_cases hj : j < l.length
        · rw [List.getElem?_append_left hj] at hy; exact ih j y hy
        · rw [List.getElem?_append_right (by omega)] at hy
          by_cases hj0 : j - l.length = 0
          · rw [hj0] at hy; simp at hy; rw [← hy]; exact hx
          · have : ([x] : List BKind)[j - l.length]? = none := by
              apply List.getElem?_eq_none; simp; omega
            rw [this] at hy; cases hy
      | some i =>
        rw [hl] at ih
        simp only [Bool.false_eq_true, if_false]
        obtain ⟨⟨y, hy, hpy⟩, hlater⟩ := ih
        have hi : i < l.length := (List.getElem?_eq_some_iff.mp hy).1
        refine ⟨⟨y, by rw [List.getElem?_append_left hi]; exact hy, hpy⟩, ?_⟩
        intro j z hj hz
        by_cases hjl : j < l.length
        · rw [List.getElem?_append_left hjl] at hz; exact hlater j z hj hz
        · rw [List.getElem?_append_right (by omega)] at hz
          by_cases hj0 : j - l.length = 0
          · rw [hj0] at hz; simp at hz; rw [← hz]; exact hx
          · have : ([x] : List BKind)[j - l.length]? = none := by
              apply List.getElem?_eq_none; simp; omega
            rw [this] at hz; cases hz

theorem isLast_unique {p : BKind → Bool} {l : List BKind} {i i' : Nat} (h : IsLast p l i) (h' : IsLast p l i') : i = i' := by
  obtain ⟨⟨x, hx, hpx⟩, hl⟩ := h
  obtain ⟨⟨x', hx', hpx'⟩, hl'⟩ := h'
  rcases Nat.lt_trichotomy i i' with hlt | heq | hgt
  · have := hl i' x' hlt hx'; rw [hpx'] at this; cases this
  · exact heq
  · have := hl' i x hgt hx; rw [hpx] at this; cases this

theorem lastIdx_eq_some_iff (p : BKind → Bool) (l : List BKind) (i : Nat) : lastIdx p l = some i ↔ IsLast p l i := by
  have hs := lastIdx_spec p l
  constructor
  · intro h; rw [h] at hs; exact hs
  · intro h
    cases hl : lastIdx p l with
    | none =>
      rw [hl] at hs
      obtain ⟨⟨x, hx, hpx⟩, _⟩ := h
      have := hs i x hx; rw [hpx] at this; cases this
    | some i' =>
      rw [hl] at hs
      rw [isLast_unique hs h]

theorem lastIdx_eq_none_iff (p : BKind → Bool) (l : List BKind) : lastIdx p l = none ↔ NoneSat p l := by
  have hs := lastIdx_spec p l
  constructor
  · intro h; rw [h] at hs; exact hs
  · intro h
    cases hl : lastIdx p l with
    | none => rfl
    | some i =>
      rw [hl] at hs
      obtain ⟨⟨x, hx, hpx⟩, _⟩ := hs
      have := h i x hx; rw [hpx] at this; cases this

/-- what `unit_scale` does to the backend list: the new backend goes right before the last quantisation backend, or to
    the end when there is none -/
theorem unitScale_backends (s : MState) :
    (unitScale s).backends =
      match lastIdx (· == .quant) s.backends with
      | some q => s.backends.insertIdx q .unit
      | none => s.backends ++ [.unit] := by
  simp only [unitScale, applyTransform, orderBackends]
  rw [lastIdx_snoc, lastIdx_snoc]
  simp only [beq_self_eq_true, if_true, show (BKind.unit == BKind.quant) = false from rfl, Bool.false_eq_true, if_false]
  cases hq : lastIdx (· == .quant) s.backends with
  | none => rfl
  | some q =>
    have hspec := (lastIdx_eq_some_iff _ _ _).mp hq
    obtain ⟨⟨x, hx, _⟩, _⟩ := hspec
    have hql : q < s.backends.length := (List.getElem?_eq_some_iff.mp hx).1
    show (if s.backends.length > q then ((s.backends ++ [BKind.unit]).eraseIdx s.backends.length).insertIdx q BKind.unit
        else s.backends ++ [BKind.unit]) = s.backends.insertIdx q BKind.unit
    rw [if_pos hql, List.eraseIdx_append_of_length_le (Nat.le_refl _)]
    simp

/-- the order invariant: the last unit-scaling backend (if any) precedes the last quantisation backend (if any) -/
def UnitBeforeQuant (l : List BKind) : Prop :=
  ∀ u q, lastIdx (· == .unit) l = some u → lastIdx (· == .quant) l = some q → u < q

theorem applyT_backends_append (s : MState) (x : Transform) (hx : x ≠ .unitScale) :
    (applyT s x).backends = s.backends ++ [kindOf x] := by
  cases x <;> simp_all [applyT, applyTransform, kindOf]

/-- **Every backend exactly once**: the final list is a permutation of the backends of the applied transforms. -/
theorem step_perm (s : MState) (x : Transform) : (applyT s x).backends.Perm (kindOf x :: s.backends) := by
  by_cases hx : x = .unitScale
  · subst hx
    show (unitScale s).backends.Perm (BKind.unit :: s.backends)
    rw [unitScale_backends]
    cases hq : lastIdx (· == .quant) s.backends with
    | none =>
      show (s.backends ++ [BKind.unit]).Perm (BKind.unit :: s.backends)
      exact List.perm_append_singleton _ _
    | some q =>
      have hspec := (lastIdx_eq_some_iff _ _ _).mp hq
      obtain ⟨⟨y, hy, _⟩, _⟩ := hspec
      have hql : q < s.backends.length := (List.getElem?_eq_some_iff.mp hy).1
      show (s.backends.insertIdx q BKind.unit).Perm (BKind.unit :: s.backends)
      exact List.perm_insertIdx _ _ (by omega)
  · rw [applyT_backends_append s x hx]
    exact List.perm_append_singleton _ _

theorem chain_perm (s : MState) (c : List Transform) :
    (c.foldl applyT s).backends.Perm ((c.map kindOf).reverse ++ s.backends) := by
  induction c generalizing s with
  | nil => simp
  | cons x c ih =>
    simp only [List.foldl_cons, List.map_cons, List.reverse_cons, List.append_assoc, List.singleton_append]
    refine (ih (applyT s x)).trans ?_
    exact List.Perm.append_left _ (step_perm s x)

theorem filter_insertIdx (p : BKind → Bool) (x : BKind) (hx : p x = false) :
    ∀ (q : Nat) (l : List BKind), (l.insertIdx q x).filter p = l.filter p := by
  intro q
  induction q with
  | zero => intro l; simp [List.insertIdx_zero, hx]
  | succ q ih =>
    intro l
    cases l with
    | nil => simp
    | cons a l => simp [List.insertIdx_succ_cons, List.filter_cons, ih l]

/-- the backends other than unit scaling keep the order in which they were applied -/
theorem step_others (s : MState) (x : Transform) :
    (applyT s x).backends.filter (· != .unit) = s.backends.filter (· != .unit) ++ [kindOf x].filter (· != .unit) := by
  by_cases hx : x = .unitScale
  · subst hx
    show (unitScale s).backends.filter (· != .unit) = _
    rw [unitScale_backends]
    cases hq : lastIdx (· == .quant) s.backends with
    | none =>
      show (s.backends ++ [BKind.unit]).filter (· != .unit) = _
      simp [kindOf]
    | some q =>
      show (s.backends.insertIdx q BKind.unit).filter (· != .unit) = _
      rw [filter_insertIdx _ _ (by decide)]
      simp [kindOf]
  · rw [applyT_backends_append s x hx, List.filter_append]

theorem chain_others (s : MState) (c : List Transform) :
    (c.foldl applyT s).backends.filter (· != .unit) =
      s.backends.filter (· != .unit) ++ (c.map kindOf).filter (· != .unit) := by
  induction c generalizing s with
  | nil => simp
  | cons x c ih =>
    simp only [List.foldl_cons, List.map_cons]
    rw [ih (applyT s x), step_others, List.append_assoc, ← List.filter_append]
    rfl


theorem lt_length_of_isLast {p : BKind → Bool} {l : List BKind} {i : Nat} (h : IsLast p l i) : i < l.length := by
  obtain ⟨⟨x, hx, _⟩, _⟩ := h
  exact (List.getElem?_eq_some_iff.mp hx).1

/-- appending a backend that is neither preserves the invariant; appending a quantisation backend establishes it -/
theorem ubq_append (l : List BKind) (k : BKind) (hk : k ≠ .unit) (h : UnitBeforeQuant l) : UnitBeforeQuant (l ++ [k]) := by
  intro u q hu hq
  rw [lastIdx_snoc] at hu hq
  have hku : (k == BKind.unit) = false := by cases k <;> simp_all
  simp only [hku, Bool.false_eq_true, if_false] at hu
  by_cases hkq : (k == BKind.quant) = true
  · simp only [hkq, if_true] at hq
    have := lt_length_of_isLast ((lastIdx_eq_some_iff _ _ _).mp hu)
    cases hq; exact this
  · simp only [hkq] at hq
    exact h u q hu hq

/-- `unit_scale` establishes / preserves the invariant -/
theorem ubq_unitScale (s : MState) (h : UnitBeforeQuant s.backends) : UnitBeforeQuant (unitScale s).backends := by
  rw [unitScale_backends]
  cases hq : lastIdx (· == .quant) s.backends with
  | none =>
    show UnitBeforeQuant (s.backends ++ [BKind.unit])
    intro u q _ hq'
    rw [lastIdx_snoc] at hq'
    simp only [show (BKind.unit == BKind.quant) = false from rfl, Bool.false_eq_true, if_false] at hq'
    rw [hq] at hq'; cases hq'
  | some q =>
    show UnitBeforeQuant (s.backends.insertIdx q BKind.unit)
    have hQ := (lastIdx_eq_some_iff _ _ _).mp hq
    have hql := lt_length_of_isLast hQ
    obtain ⟨⟨y, hy, hyq⟩, hlater⟩ := hQ
    -- the last quantisation backend of the new list sits at q + 1
    have hQ' : IsLast (· == .quant) (s.backends.insertIdx q BKind.unit) (q + 1) := by
      refine ⟨⟨y, ?_, hyq⟩, ?_⟩
      · rw [List.getElem?_insertIdx_of_gt (by omega)]; simpa using hy
      · intro j x hj hx
        rw [List.getElem?_insertIdx_of_gt (by omega)] at hx
        exact hlater (j - 1) x (by omega) hx
    intro u' q' hu' hq'
    have hq'eq : q' = q + 1 := isLast_unique ((lastIdx_eq_some_iff _ _ _).mp hq') hQ'
    subst hq'eq
    have hU' := (lastIdx_eq_some_iff _ _ _).mp hu'
    obtain ⟨⟨z, hz, hzu0⟩, _⟩ := hU'
    have hzu : (z == BKind.unit) = true := hzu0
    -- a unit backend beyond position q in the new list would be one beyond q in the old list
    rcases Nat.lt_or_ge u' (q + 1) with hlt | hge
    · exact hlt
    · exfalso
      rw [List.getElem?_insertIdx_of_gt (by omega)] at hz
      -- old list has a unit at u' - 1 ≥ q
      cases hu0 : lastIdx (· == .unit) s.backends with
      | none =>
        have hf : (z == BKind.unit) = false := (lastIdx_eq_none_iff _ _).mp hu0 (u' - 1) z hz
        rw [hzu] at hf; cases hf
      | some u0 =>
        have hlt0 := h u0 q hu0 hq
        obtain ⟨_, hl0⟩ := (lastIdx_eq_some_iff _ _ _).mp hu0
        rcases Nat.lt_or_ge u0 (u' - 1) with h1 | h1
        · have hf : (z == BKind.unit) = false := hl0 (u' - 1) z h1 hz
          rw [hzu] at hf; cases hf
        · -- then u' - 1 ≤ u0 < q, but u' - 1 ≥ q
          omega

theorem ubq_step (s : MState) (x : Transform) (h : UnitBeforeQuant s.backends) : UnitBeforeQuant (applyT s x).backends := by
  by_cases hx : x = .unitScale
  · subst hx; exact ubq_unitScale s h
  · rw [applyT_backends_append s x hx]
    exact ubq_append _ _ (by cases x <;> simp_all [kindOf]) h

/-- **Unit scaling before quantisation, for every chain** of transforms of any length applied to any state that
    satisfies the invariant (in particular a fresh module). -/
theorem chain_unit_before_quant (s : MState) (c : List Transform) (h : UnitBeforeQuant s.backends) :
    UnitBeforeQuant (c.foldl applyT s).backends := by
  induction c generalizing s with
  | nil => exact h
  | cons x c ih => exact ih _ (ubq_step s x h)

theorem fresh_ubq : UnitBeforeQuant MState.fresh.backends := by
  intro u q hu _
  simp [MState.fresh, lastIdx] at hu

/-- every chain of the property's family is accepted by the real code -/
theorem family_accepted : ∀ c ∈ family, chainAccepted MState.fresh c = true := by decide

/-- **All chains the real code accepts** (any length, any repetition; `_hacc` is the exact guard — a `unit_scale` after
    `track_scales` / `compile` raises `AttributeError` in `_order_backends`, which the correspondence check observes as
    the error branch): every applied transform's backend exactly once, the others in application order, unit scaling
    before quantisation. -/
theorem chain_spec (c : List Transform) (_hacc : chainAccepted MState.fresh c = true) :
    ((c.foldl applyT MState.fresh).backends.Perm (c.map kindOf)) ∧
    ((c.foldl applyT MState.fresh).backends.filter (· != .unit) = (c.map kindOf).filter (· != .unit)) ∧
    UnitBeforeQuant (c.foldl applyT MState.fresh).backends := by
  refine ⟨?_, ?_, chain_unit_before_quant _ c fresh_ubq⟩
  · have := chain_perm MState.fresh c
    simp only [MState.fresh, List.append_nil] at this
    exact this.trans (List.reverse_perm _)
  · have := chain_others MState.fresh c
    simpa [MState.fresh] using this

example : chainAccepted MState.fresh [.simulate, .simulate, .unitScale, .trackScales] = true := by decide
example : chainAccepted MState.fresh [.trackScales, .unitScale] = false := by decide

/-- non-vacuity: a chain outside the finite family (two simulations around a unit scaling, then tracking) -/
example : (([.simulate, .simulate, .unitScale, .trackScales] : List Transform).foldl applyT MState.fresh).backends
    = [.quant, .unit, .quant, .track] := by decide

end USProofs.C17
