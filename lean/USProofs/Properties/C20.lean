/-
  C20 — eager and `torch.compile` execution of scaled ops agree (fx: forward values)  (PARTIAL).

  Modelled: the library-side logic of `_ScaledGrad` under the different tracers.  TorchDynamo, AOT
  autograd and Inductor are PyTorch's runtime and are not modelled: agreement with them is checked
  differentially by the harness.
-/
import USModel

open USModel

namespace USProofs.C20

variable {V : Type} [SMul Float V]

/-- plain fx tracing reproduces the forward values -/
theorem fx_forward_agrees (round : Float → Float) (fwd bwd : Float) (x : V) :
    (fxTracedScale fwd : DOp V V).fwd x = (eagerScale round fwd bwd : DOp V V).fwd x := rfl

/-- …but its backward multiplies by the forward scale: backward-only factors are not representable
    in a plain fx graph (why the library's analyser keeps scaled ops as leaf calls) -/
theorem fx_backward_is_fwd_scale (fwd : Float) (x g : V) :
    (fxTracedScale fwd : DOp V V).vjp x g = fwd • g := rfl

/-- it agrees with eager exactly when the (rounded) backward scale equals the forward scale -/
theorem fx_backward_agrees_iff (round : Float → Float) (fwd bwd : Float) (x g : V)
    (h : round bwd = fwd) :
    (fxTracedScale fwd : DOp V V).vjp x g = (eagerScale round fwd bwd : DOp V V).vjp x g := by
  simp [fxTracedScale, eagerScale, h]

/-- in eager mode the saved scale is rounded to the input dtype: the effective backward factor is
    `round bwd` (identity for float64, bfloat16 rounding for bfloat16 inputs) -/
theorem saved_scale_dtype (round : Float → Float) (fwd bwd : Float) (x g : V) :
    (eagerScale round fwd bwd : DOp V V).vjp x g = round bwd • g := rfl

/-- `scale_fwd` / `scale_bwd` are the `(c, 1)` / `(1, c)` instances -/
theorem scale_fwd_instance (c : Float) (x g : V) (h1 : ∀ v : V, (1.0 : Float) • v = v) :
    (eagerScale id c 1.0 : DOp V V).fwd x = c • x ∧ (eagerScale id c 1.0 : DOp V V).vjp x g = g := by
  exact ⟨rfl, h1 g⟩

end USProofs.C20
