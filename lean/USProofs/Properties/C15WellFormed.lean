/-
  C15 — the quantisation backend returns a well-formed graph: splicing the two format tuples into a call
  (and moving a keyword `bias` into the third positional slot) never introduces a reference that the
  original node did not have, so every reference still points to a strictly earlier node.
-/
import USModel
import USProofs.Properties.C16Topo

open USModel
open USProofs.C16 (mem_inputs_iff refsList_map_snd_mem)

namespace USProofs.C15

theorem refsList_append (xs ys : List Arg) : Arg.refsList (xs ++ ys) = Arg.refsList xs ++ Arg.refsList ys := by
  induction xs with
  | nil => simp [Arg.refsList]
  | cons x rest ih => simp [Arg.refsList, ih, List.append_assoc]

theorem refsList_sub_of_sublist {xs ys : List Arg} (h : xs.Sublist ys) : ∀ c ∈ Arg.refsList xs, c ∈ Arg.refsList ys := by
  induction h with
  | slnil => simp
  | cons a _ ih =>
    intro c hc; simp only [Arg.refsList, List.mem_append]; exact Or.inr (ih c hc)
  | cons_cons a _ ih =>
    intro c hc
    simp only [Arg.refsList, List.mem_append] at hc ⊢
    rcases hc with hc | hc
    · exact Or.inl hc
    · exact Or.inr (ih c hc)

theorem fmt_toArg_refs (f : Fmt) : f.toArg.refs = [] := by
  simp [Fmt.toArg, Arg.refs, Arg.refsList]

theorem lookupKw_refs {kw : List (String × Arg)} {k : String} {a : Arg} (h : lookupKw kw k = some a) :
    ∀ c ∈ a.refs, c ∈ Arg.refsList (kw.map (·.2)) := by
  intro c hc
  unfold lookupKw at h
  obtain ⟨kv, hf, rfl⟩ := Option.map_eq_some_iff.mp h
  exact refsList_map_snd_mem.mpr ⟨kv, List.mem_of_find?_eq_some hf, hc⟩

/-- the rewritten node refers to nothing the original node did not refer to -/
theorem replace_inputs_sub (fwd bwd : Fmt) (n : GNode) : ∀ c ∈ (replaceWithQuantised fwd bwd n).inputs, c ∈ n.inputs := by
  intro c hc
  have hfmt : ∀ c, c ∉ Arg.refsList [fwd.toArg, bwd.toArg] := by
    intro c; simp [Arg.refsList, fmt_toArg_refs]
  by_cases hop : (n.op == "call_function") = true
  · cases hq : quantMap.lookup n.target with
    | none => simp only [replaceWithQuantised, hop, if_true, hq] at hc; exact hc
    | some q =>
      by_cases hlen : (n.args.length == 2) = true
      · -- two positionals: bias appended from the keyword (or None), the keyword erased
        simp only [replaceWithQuantised, hop, if_true, hq, hlen] at hc
        have hsub : ∀ c ∈ Arg.refsList (n.args ++ [(lookupKw n.kwargs "bias").getD (.lit "None")]), c ∈ n.inputs := by
          intro c hc
          rw [refsList_append, List.mem_append] at hc
          rcases hc with hc | hc
          · exact (mem_inputs_iff _ _).mpr (Or.inl hc)
          · cases hl : lookupKw n.kwargs "bias" with
            | none => simp [hl, Arg.refsList, Arg.refs] at hc
            | some a =>
              simp only [hl, Option.getD_some, Arg.refsList, List.append_nil] at hc
              exact (mem_inputs_iff _ _).mpr (Or.inr (lookupKw_refs hl c hc))
        rcases (mem_inputs_iff _ _).mp hc with hc | hc
        · simp only [refsList_append, List.mem_append] at hc
          rcases hc with (hc | hc) | hc
          · exact hsub c (refsList_sub_of_sublist (List.take_sublist _ _) c (by simpa [refsList_append] using hc))
          · exact absurd hc (hfmt c)
          · exact hsub c (refsList_sub_of_sublist (List.drop_sublist _ _) c (by simpa [refsList_append] using hc))
        · refine (mem_inputs_iff _ _).mpr (Or.inr ?_)
          obtain ⟨kv, hkv, hcr⟩ := refsList_map_snd_mem.mp hc
          exact refsList_map_snd_mem.mpr ⟨kv, (List.mem_filter.mp hkv).1, hcr⟩
      · have hlen' : (n.args.length == 2) = false := by simpa using hlen
        simp only [replaceWithQuantised, hop, if_true, hq, hlen', Bool.false_eq_true, if_false] at hc
        rcases (mem_inputs_iff _ _).mp hc with hc | hc
        · simp only [refsList_append, List.mem_append] at hc
          rcases hc with (hc | hc) | hc
          · exact (mem_inputs_iff _ _).mpr (Or.inl (refsList_sub_of_sublist (List.take_sublist _ _) c hc))
          · exact absurd hc (hfmt c)
          · exact (mem_inputs_iff _ _).mpr (Or.inl (refsList_sub_of_sublist (List.drop_sublist _ _) c hc))
        · exact (mem_inputs_iff _ _).mpr (Or.inr hc)
  · simp only [replaceWithQuantised, hop, Bool.false_eq_true, if_false] at hc; exact hc

/-- **The quantisation backend returns a well-formed graph.** -/
theorem simulate_wellformed (fwd bwd : Fmt) (g : Graph) (hw : g.wellFormed = true) :
    Graph.wellFormed (simulateBackend fwd bwd g) = true := by
  unfold Graph.wellFormed simulateBackend at *
  rw [List.all_eq_true] at hw ⊢
  rintro ⟨n', k⟩ hmem
  obtain hk := List.mem_zipIdx_iff_getElem?.mp hmem
  simp only [List.getElem?_map, Option.map_eq_some_iff] at hk
  obtain ⟨n, hnk, rfl⟩ := hk
  have h0 := hw (n, k) (List.mem_zipIdx_iff_getElem?.mpr hnk)
  simp only [List.all_eq_true, decide_eq_true_eq] at h0 ⊢
  intro c hc
  exact h0 c (replace_inputs_sub fwd bwd n c hc)

end USProofs.C15
