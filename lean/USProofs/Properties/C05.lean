/-
  C05 — a constraint collapses forward and backward scales to one value: true gradients.

  Model: `USModel/Constraints.lean` (`applyConstraint`, `gmean`, `hmean`, `amean`, selectors),
  `USModel/Scales.lean` (per-op use of the constraint), `USModel/Autograd.lean` (`scaled1` …).
-/
import USProofs.RealInst
import USProofs.TrueGrad
import Mathlib.Analysis.MeanInequalities
import Mathlib.Algebra.BigOperators.Fin
import Mathlib.Tactic.Ring
import Mathlib.Tactic.FieldSimp
import Mathlib.Tactic.Positivity
import Mathlib.Tactic.Linarith

open USModel

namespace USProofs.C05

/-! ### `apply_constraint` -/

/-- `None` leaves every scale at its own ideal value. -/
theorem apply_none (l : List ℝ) : applyConstraint none l = .ok l := rfl
/-- so does the empty string -/
theorem apply_empty (l : List ℝ) : applyConstraint (some "") l = .ok l := rfl

/-- A named rule returns `len(scales)` copies of the single value it assigns. -/
theorem apply_rule (n : String) (hn : n ≠ "") (l : List ℝ) (s : ℝ)
    (h : constraintFn n l = .ok s) :
    applyConstraint (some n) l = .ok (List.replicate l.length s) := by
  unfold applyConstraint
  split
  · rename_i h'; cases h'
  · rename_i h'; cases h'; exact absurd rfl hn
  · rename_i n' _ h'
    cases h'
    simp [h, List.map_const']

theorem apply_error (n : String) (hn : n ≠ "") (l : List ℝ) (e : Err)
    (h : constraintFn n l = .error e) : applyConstraint (some n) l = .error e := by
  unfold applyConstraint
  split
  · rename_i h'; cases h'
  · rename_i h'; cases h'; exact absurd rfl hn
  · rename_i n' _ h'
    cases h'
    simp [h]

/-- An unknown constraint name raises `ValueError`. -/
theorem apply_unknown (n : String) (hn : n ∉ constraintNames) (hne : n ≠ "") (l : List ℝ) :
    applyConstraint (some n) l = .error .valueError := by
  have hfn : constraintFn n l = .error .valueError := by
    unfold constraintFn
    simp only [constraintNames, List.mem_cons, List.not_mem_nil, or_false, not_or] at hn
    obtain ⟨h1, h2, h3, h4, h5, h6, h7⟩ := hn
    split <;> first | rfl | (exfalso; simp_all)
  unfold applyConstraint
  split
  · rename_i h'; cases h'
  · rename_i h'; cases h'; exact absurd rfl hne
  · rename_i n' _ h'
    cases h'
    simp [hfn]

/-- the selectors select -/
theorem to_output_scale_spec (o : ℝ) (gs : List ℝ) : constraintFn "to_output_scale" (o :: gs) = .ok o := rfl
theorem to_grad_input_scale_spec (o g : ℝ) : constraintFn "to_grad_input_scale" [o, g] = .ok g := rfl
theorem to_left_grad_scale_spec (o l r : ℝ) : constraintFn "to_left_grad_scale" [o, l, r] = .ok l := rfl
theorem to_right_grad_scale_spec (o l r : ℝ) : constraintFn "to_right_grad_scale" [o, l, r] = .ok r := rfl

/-! ### the mean rules -/

theorem foldl_add_acc (l : List ℝ) (a : ℝ) : l.foldl (· + ·) a = a + l.sum := by
  induction l generalizing a with
  | nil => simp
  | cons t ts ih => simp only [List.foldl_cons, List.sum_cons, ih]; ring

theorem foldl_mul_acc (l : List ℝ) (a : ℝ) : l.foldl (· * ·) a = a * l.prod := by
  induction l generalizing a with
  | nil => simp
  | cons t ts ih => simp only [List.foldl_cons, List.prod_cons, ih]; ring

theorem sumL_eq (l : List ℝ) : sumL l = l.sum := by simp [sumL, foldl_add_acc]
theorem prodL_eq (l : List ℝ) : prodL l = l.prod := by simp [prodL, foldl_mul_acc]

theorem amean_eq (l : List ℝ) : amean l = l.sum / l.length := by simp [amean, sumL_eq]
theorem gmean_eq (l : List ℝ) : gmean l = l.prod ^ ((1 : ℝ) / l.length) := by
  simp [gmean, prodL_eq]
theorem hmean_eq (l : List ℝ) : hmean l = 1 / ((l.map fun s => 1 / s).sum / l.length) := by
  simp [hmean, sumL_eq]

/-- The mean rules are symmetric: any permutation of the scales gives the same value. -/
theorem amean_perm {l l' : List ℝ} (h : l.Perm l') : amean l = amean l' := by
  rw [amean_eq, amean_eq, h.sum_eq, h.length_eq]
theorem gmean_perm {l l' : List ℝ} (h : l.Perm l') : gmean l = gmean l' := by
  rw [gmean_eq, gmean_eq, h.prod_eq, h.length_eq]
theorem hmean_perm {l l' : List ℝ} (h : l.Perm l') : hmean l = hmean l' := by
  rw [hmean_eq, hmean_eq, (h.map _).sum_eq, h.length_eq]

private theorem sum_fin (l : List ℝ) : ∑ i : Fin l.length, l[i.1] = l.sum := Fin.sum_univ_getElem l
private theorem prod_fin (l : List ℝ) : ∏ i : Fin l.length, l[i.1] = l.prod := Fin.prod_univ_getElem l

/-- geometric ≤ arithmetic, for any number of positive scales -/
theorem gmean_le_amean (l : List ℝ) (hpos : ∀ s ∈ l, 0 < s) (hne : l ≠ []) :
    gmean l ≤ amean l := by
  have hn : 0 < l.length := List.length_pos_iff.mpr hne
  have h := Real.geom_mean_le_arith_mean (Finset.univ : Finset (Fin l.length)) (fun _ => (1 : ℝ))
    (fun i => l[i.1]) (fun _ _ => zero_le_one)
    (by simp; exact_mod_cast hn)
    (fun i _ => le_of_lt (hpos _ (List.getElem_mem i.2)))
  simp only [Real.rpow_one, one_mul, Finset.sum_const, Finset.card_univ, Fintype.card_fin,
    nsmul_eq_mul, mul_one, sum_fin, prod_fin] at h
  rw [gmean_eq, amean_eq, one_div]
  exact h

/-- harmonic ≤ geometric -/
theorem hmean_le_gmean (l : List ℝ) (hpos : ∀ s ∈ l, 0 < s) (hne : l ≠ []) :
    hmean l ≤ gmean l := by
  have hn : 0 < l.length := List.length_pos_iff.mpr hne
  have : Nonempty (Fin l.length) := ⟨⟨0, hn⟩⟩
  have h := Real.harm_mean_le_geom_mean (Finset.univ : Finset (Fin l.length)) Finset.univ_nonempty
    (fun _ => (1 : ℝ)) (fun i => l[i.1]) (fun _ _ => zero_lt_one)
    (by simp; exact_mod_cast hn)
    (fun i _ => hpos _ (List.getElem_mem i.2))
  have hs : ∑ i : Fin l.length, (1 : ℝ) / l[i.1] = (l.map fun s => 1 / s).sum := by
    have := Fin.sum_univ_getElem (l.map fun s => (1 : ℝ) / s)
    rw [← this]
    refine Fintype.sum_equiv (finCongr (by simp)) _ _ (fun i => ?_)
    simp
  simp only [Real.rpow_one, Finset.sum_const, Finset.card_univ, Fintype.card_fin,
    nsmul_eq_mul, mul_one, prod_fin, hs] at h
  rw [gmean_eq, hmean_eq, one_div, one_div, inv_div]
  exact h

/-- arithmetic mean ≤ any upper bound of the scales -/
theorem amean_le_max (l : List ℝ) (hi : ℝ) (h : ∀ s ∈ l, s ≤ hi) (hne : l ≠ []) :
    amean l ≤ hi := by
  have hn : (0 : ℝ) < l.length := by exact_mod_cast List.length_pos_iff.mpr hne
  rw [amean_eq, div_le_iff₀ hn]
  have := List.sum_le_card_nsmul l hi h
  simpa [nsmul_eq_mul, mul_comm] using this

/-- any positive lower bound of the scales ≤ harmonic mean -/
theorem min_le_hmean (l : List ℝ) (lo : ℝ) (hlo : 0 < lo) (h : ∀ s ∈ l, lo ≤ s) (hne : l ≠ []) :
    lo ≤ hmean l := by
  have hn : (0 : ℝ) < l.length := by exact_mod_cast List.length_pos_iff.mpr hne
  have hsum : (l.map fun s => 1 / s).sum ≤ l.length * (1 / lo) := by
    have := List.sum_le_card_nsmul (l.map fun s => 1 / s) (1 / lo) (by
      intro x hx
      obtain ⟨s, hs, rfl⟩ := List.mem_map.mp hx
      exact one_div_le_one_div_of_le hlo (h s hs))
    simpa [nsmul_eq_mul] using this
  have hpos : 0 < (l.map fun s => 1 / s).sum := by
    apply List.sum_pos
    · intro x hx
      obtain ⟨s, hs, rfl⟩ := List.mem_map.mp hx
      exact one_div_pos.mpr (lt_of_lt_of_le hlo (h s hs))
    · simpa using hne
  rw [hmean_eq, one_div, inv_div, le_div_iff₀ hpos]
  calc lo * (l.map fun s => 1 / s).sum ≤ lo * (l.length * (1 / lo)) :=
        mul_le_mul_of_nonneg_left hsum (le_of_lt hlo)
    _ = l.length := by field_simp

/-- **The mean rules lie between the smallest and largest scale and are ordered
    harmonic ≤ geometric ≤ arithmetic** (any number n ≥ 1 of positive scales). -/
theorem means_ordered_and_bounded (l : List ℝ) (lo hi : ℝ) (hlo : 0 < lo)
    (h : ∀ s ∈ l, lo ≤ s ∧ s ≤ hi) (hne : l ≠ []) :
    lo ≤ hmean l ∧ hmean l ≤ gmean l ∧ gmean l ≤ amean l ∧ amean l ≤ hi := by
  have hpos : ∀ s ∈ l, 0 < s := fun s hs => lt_of_lt_of_le hlo (h s hs).1
  exact ⟨min_le_hmean l lo hlo (fun s hs => (h s hs).1) hne, hmean_le_gmean l hpos hne,
    gmean_le_amean l hpos hne, amean_le_max l hi (fun s hs => (h s hs).2) hne⟩

/-! ### operation level: forward scale = every constrained backward scale = rule(unconstrained) -/

/-- elementwise ops (gelu, silu, softmax): with a named rule both scales equal its value -/
theorem elementwise_constrained (n : String) (hn : n ≠ "") (out gin s : ℝ)
    (h : constraintFn n [out, gin] = .ok s) :
    elementwise (some n) out gin = .ok ⟨s, [s]⟩ := by
  simp [elementwise, apply_rule n hn _ s h]

theorem elementwise_unconstrained (out gin : ℝ) : elementwise none out gin = .ok ⟨out, [gin]⟩ := rfl

/-- `linear` / `linear_readout` / `conv1d`: output and input-gradient scale collapse to the rule's
    value; weight and bias gradient scales are unaffected. -/
theorem linear_constrained (n : String) (hn : n ≠ "") (fo fi numel : ℕ) (sp0 sp1 sp2 s : ℝ)
    (h : constraintFn n [1 / (fi : ℝ) ^ sp0, 1 / (fo : ℝ) ^ sp1] = .ok s) :
    linearScales fo fi numel sp0 sp1 sp2 (some n)
      = .ok ⟨s, [s, 1 / ((numel / fi : ℕ) : ℝ) ^ sp2, 1 / ((numel / fi : ℕ) : ℝ) ^ sp2]⟩ := by
  simp only [linearScales, nat_real, transc_pow, Nat.cast_one]
  rw [apply_rule n hn _ s h]
  simp

theorem linear_unconstrained (fo fi numel : ℕ) (sp0 sp1 sp2 : ℝ) :
    linearScales fo fi numel sp0 sp1 sp2 none
      = .ok ⟨1 / (fi : ℝ) ^ sp0,
             [1 / (fo : ℝ) ^ sp1, 1 / ((numel / fi : ℕ) : ℝ) ^ sp2, 1 / ((numel / fi : ℕ) : ℝ) ^ sp2]⟩ := by
  simp [linearScales, apply_none]

theorem matmul_constrained (n : String) (hn : n ≠ "") (ls inner rs : ℕ) (s : ℝ)
    (h : constraintFn n [powNegHalf (inner : ℝ), powNegHalf (rs : ℝ), powNegHalf (ls : ℝ)] = .ok s) :
    matmulScales ls inner rs (some n) = .ok ⟨s, [s, s]⟩ := by
  simp only [matmulScales, nat_real]
  rw [apply_rule n hn _ s h]
  simp

theorem add_constrained (n : String) (hn : n ≠ "") (a b out : List ℕ)
    (hb : broadcastShapes a b = some out) (s : ℝ)
    (h : constraintFn n
      [if (prodNat a == 1 || prodNat b == 1) = true then (1 : ℝ) else powNegHalf ((2 : ℕ) : ℝ),
       powNegHalf ((prodNat out / prodNat a : ℕ) : ℝ), powNegHalf ((prodNat out / prodNat b : ℕ) : ℝ)] = .ok s) :
    addScales a b (some n) = .ok ⟨s, [s, s]⟩ := by
  simp only [addScales, hb, nat_real, Nat.cast_one]
  rw [apply_rule n hn _ s h]
  simp

/-- The fixed-constraint ops use one scale for output and all gradients. -/
theorem silu_glu_single_scale (mult : ℝ) :
    (siluGluScales mult).bwd = [(siluGluScales mult).fwd, (siluGluScales mult).fwd] := rfl
theorem sdpa_single_scale (n d : ℕ) (p mult : ℝ) (c : Bool) :
    (sdpaScales n d p mult c).bwd
      = [(sdpaScales n d p mult c).fwd, (sdpaScales n d p mult c).fwd, (sdpaScales n d p mult c).fwd] := rfl

/-! ### true gradients -/
section
variable {X Y : Type} [NormedAddCommGroup X] [InnerProductSpace ℝ X]
  [NormedAddCommGroup Y] [InnerProductSpace ℝ Y]

/-- **Constrained ⇒ true gradient.** If PyTorch's op `F` is a true-gradient pair at `x`, the
    unit-scaled op with equal forward and backward scale `a` is a true-gradient pair at `x`: the
    gradient it delivers is the derivative of the function it actually computes. -/
theorem constrained_true_grad (F : DOp X Y) (x : X) (a : ℝ) (hF : DOp.TrueAt F x) :
    DOp.TrueAt (scaled1 a a F) x := by
  unfold DOp.TrueAt at *
  exact hF.const_smul a

/-- Unconstrained: the delivered gradient is `b/a` times the true one (for `a ≠ 0`). -/
theorem unconstrained_grad_ratio (F : DOp X Y) (x : X) (a b : ℝ) (g : Y) :
    (scaled1 a b F).vjp x g = b • F.vjp x g := rfl

end

/-! ### Non-vacuity -/
example : constraintFn (α := ℝ) "gmean" [2, 8] = .ok (gmean [2, 8]) := rfl
example : applyConstraint (α := ℝ) (some "pow") [2, 3] = .error .valueError :=
  apply_unknown "pow" (by decide) (by decide) _

end USProofs.C05
