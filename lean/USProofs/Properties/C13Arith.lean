/-
  The float32 arithmetic of the model, validated against exact rational arithmetic: multiplication by a power of two is
  exact (`val_mulPow2_any`, C13Sub), division by a power of two is exact while the quotient is a normal float32 and
  otherwise within half a unit of float32's subnormal grid (2^-150) of the exact quotient — i.e. correctly rounded.
-/
import USModel
import USProofs.Properties.C13Mono

open USModel USModel.F32

namespace USProofs.C13

theorem val_divPow2_exact (n d : ℕ) (h : d < expo n) :
    val (divPow2 n d) = val n * (2 : ℚ) ^ (-(d : ℤ)) := by
  have : divPow2 n d = n - d * 2 ^ 23 := by simp [divPow2, show expo n > d from h]
  rw [this]; exact val_sub_exponent n d h

theorem val_divPow2_near (n d : ℕ) (hd : 1 ≤ d) (h : expo n ≤ d) :
    |val (divPow2 n d) - val n * (2 : ℚ) ^ (-(d : ℤ))| ≤ (2 : ℚ) ^ (-150 : ℤ) := by
  have hq := divPow2_low_le n d h hd
  rw [val_small _ hq, divPow2_low n d h hd, val_eq_fix n]
  obtain ⟨h1, h2⟩ := rneShift_near (fixOf n) d hd
  set q := rneShift (fixOf n) d with hqd
  set X := fixOf n with hX
  have hS : (0 : ℚ) < (2 : ℚ) ^ (d : ℤ) := by positivity
  have h2S : (2 : ℚ) ^ (d : ℤ) = 2 * (2 : ℚ) ^ ((d - 1 : ℕ) : ℤ) := by
    have : (d : ℤ) = ((d - 1 : ℕ) : ℤ) + 1 := by omega
    rw [this, zpow_add₀ (by norm_num : (2 : ℚ) ≠ 0), zpow_one]; ring
  have e1 : ((q * 2 ^ d : ℕ) : ℚ) ≤ ((X + 2 ^ (d - 1) : ℕ) : ℚ) := by exact_mod_cast h1
  have e2 : ((X : ℕ) : ℚ) ≤ ((q * 2 ^ d + 2 ^ (d - 1) : ℕ) : ℚ) := by exact_mod_cast h2
  push_cast at e1 e2
  rw [← zpow_natCast (2 : ℚ) d, ← zpow_natCast (2 : ℚ) (d - 1)] at e1 e2
  -- |q − X/2^d| ≤ 1/2
  have hinv : (2 : ℚ) ^ (d : ℤ) * (2 : ℚ) ^ (-(d : ℤ)) = 1 := by
    rw [← zpow_add₀ (by norm_num : (2 : ℚ) ≠ 0)]; simp
  have key : |(q : ℚ) - (X : ℚ) * (2 : ℚ) ^ (-(d : ℤ))| ≤ 1 / 2 := by
    have hI : (0 : ℚ) < (2 : ℚ) ^ (-(d : ℤ)) := by positivity
    rw [abs_le]
    generalize (2 : ℚ) ^ (d : ℤ) = S at *
    generalize (2 : ℚ) ^ ((d - 1 : ℕ) : ℤ) = H at *
    generalize (2 : ℚ) ^ (-(d : ℤ)) = I at *
    constructor
    · -- X·I − 1/2 ≤ q  ⇐  X ≤ q·S + H, multiply by I
      have := mul_le_mul_of_nonneg_right e2 (le_of_lt hI)
      have hSI : S * I = 1 := hinv
      nlinarith
    · have := mul_le_mul_of_nonneg_right e1 (le_of_lt hI)
      have hSI : S * I = 1 := hinv
      nlinarith
  have hU : (0 : ℚ) < (2 : ℚ) ^ (-149 : ℤ) := by positivity
  have : (q : ℚ) * (2 : ℚ) ^ (-149 : ℤ) - (X : ℚ) * (2 : ℚ) ^ (-149 : ℤ) * (2 : ℚ) ^ (-(d : ℤ)) =
      ((q : ℚ) - (X : ℚ) * (2 : ℚ) ^ (-(d : ℤ))) * (2 : ℚ) ^ (-149 : ℤ) := by ring
  rw [this, abs_mul, abs_of_pos hU]
  have h150 : (2 : ℚ) ^ (-150 : ℤ) = (1 / 2) * (2 : ℚ) ^ (-149 : ℤ) := by
    have : (-150 : ℤ) = -1 + -149 := by norm_num
    rw [this, zpow_add₀ (by norm_num : (2 : ℚ) ≠ 0)]; norm_num
  rw [h150]
  exact mul_le_mul_of_nonneg_right key (le_of_lt hU)

end USProofs.C13
